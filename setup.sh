#!/bin/sh
# Builds the checker offline and warms the Go build cache with one load of /repo.
cd "$(dirname "$0")" || exit 1
export GOFLAGS=-mod=mod GOPROXY=off GOSUMDB=off GOTOOLCHAIN=local GOWORK=off
mkdir -p bin evidence
go build -o bin/evycheck ./cmd/evycheck || exit 1
bin/evycheck -list >/dev/null || exit 1
# warm caches (export data of dependencies); verdict ignored here
bin/evycheck -all -no-evidence -repo "${EVY_REPO:-/repo}" >/dev/null 2>&1
exit 0
