package check

import (
	"fmt"
	"go/constant"
	"go/token"
	"go/types"
	"os"
	"sort"
	"strings"

	"golang.org/x/tools/go/ssa"
)

// R-PROGRESS: lexing and parsing terminate for every input.
//
// The token position of the parser (and the rune position of the lexer) only
// moves forward, the input is finite, and
//   (1) position writers: the position field is written only by the advance
//       primitive (as pos+1), by the constructor and by advanceTo, which is
//       never reachable from a token-driven loop or a recursive cycle;
//   (2) loops: every token-driven loop makes progress on every path around it
//       (no cycle through the loop header without a call that must advance);
//   (3) recursion: no cycle of calls is reachable without progress in between;
//   (4) end of input: every token-driven loop of the parser leaves when the
//       current token is EOF (the position then stops changing what is seen).
// "Must advance" is a per-function summary computed as a least fixpoint
// (a function is trusted to advance only when every feasible path to a return
// passes a call already known to advance, or establishes that the current
// token is EOF). Paths are explored with the branch facts (v == C, v != C) on
// SSA values, so `for tt != NL && tt != EOF {...}; if tt == NL { advance }` is
// understood without a shape match.

type progFact struct {
	v  ssa.Value
	eq bool
	c  string
}

type progAnalysis struct {
	p       *Program
	fns     []*ssa.Function
	inScope map[*ssa.Function]bool
	prim    map[*ssa.Function]bool
	mayAdv  map[*ssa.Function]bool
	noprog  map[*ssa.Function]bool
	// noprogNonNil: may return a non-nil result without progress (for functions whose nil result marks a previous error)
	noprogNonNil map[*ssa.Function]bool
	reads        map[*ssa.Function]bool // reads token state (transitively)
	budget       int
	blown        map[*ssa.Function]bool
	eofName      string
	// results of the final pass
	cycles map[*ssa.Function]map[*ssa.BasicBlock][]string // header -> sample path descriptions
	nEdges map[*ssa.Function]map[*ssa.Function]token.Pos  // calls reachable without progress
}

var progTokenFields = map[string]map[string]bool{
	"parser": {"cur": true, "peek": true, "pos": true, "tokens": true},
	"Lexer":  {"cur": true, "pos": true, "input": true},
}

func constKey(c *ssa.Const) string {
	if c.Value == nil {
		return "nil"
	}
	return c.Value.ExactString()
}

// progCondFact extracts (value, isEq, const) from a branch condition; ok=false when the condition is not a comparison with a constant.
func progCondFact(cond ssa.Value) (progFact, bool) {
	neg := false
	for {
		if u, ok := cond.(*ssa.UnOp); ok && u.Op == token.NOT {
			neg = !neg
			cond = u.X
			continue
		}
		break
	}
	b, ok := cond.(*ssa.BinOp)
	if !ok || (b.Op != token.EQL && b.Op != token.NEQ) {
		return progFact{}, false
	}
	var v ssa.Value
	var c *ssa.Const
	if k, ok := b.Y.(*ssa.Const); ok {
		v, c = b.X, k
	} else if k, ok := b.X.(*ssa.Const); ok {
		v, c = b.Y, k
	} else {
		return progFact{}, false
	}
	eq := b.Op == token.EQL
	if neg {
		eq = !eq
	}
	return progFact{v: v, eq: eq, c: constKey(c)}, true
}

// addFact returns the extended fact list, or ok=false when the new fact contradicts the list.
func progAddFact(facts []progFact, f progFact) ([]progFact, bool) {
	for _, g := range facts {
		if g.v != f.v {
			continue
		}
		switch {
		case g.eq && f.eq && g.c != f.c:
			return nil, false
		case g.eq && !f.eq && g.c == f.c:
			return nil, false
		case !g.eq && f.eq && g.c == f.c:
			return nil, false
		}
	}
	out := make([]progFact, len(facts), len(facts)+1)
	copy(out, facts)
	return append(out, f), true
}

// isCurLoad reports whether v is a load of the `cur` field of a parser.
func isCurLoad(v ssa.Value) bool {
	u, ok := v.(*ssa.UnOp)
	if !ok || u.Op != token.MUL {
		return false
	}
	fa, ok := u.X.(*ssa.FieldAddr)
	if !ok {
		return false
	}
	named, field := fieldAddrInfo(fa)
	return named != nil && named.Obj().Name() == "parser" && field == "cur"
}

// curSentinel stands for "the type of the current token" in facts: every value that reads it between two advances is
// the same value, so what a path has learnt from one test (tt == '[') decides the next (p.cur.TokenType() == '[').
var curSentinel ssa.Value = ssa.NewConst(constant.MakeString("<type of the current token>"), types.Typ[types.String])

// isCurType reports whether v is the type of the parser's current token.
func isCurType(v ssa.Value, seen map[ssa.Value]bool) bool {
	if v == curSentinel {
		return true
	}
	if seen[v] {
		return true
	}
	seen[v] = true
	switch x := v.(type) {
	case *ssa.Call:
		if sc := x.Call.StaticCallee(); sc != nil && sc.Name() == "TokenType" && len(x.Call.Args) == 1 {
			return isCurLoad(x.Call.Args[0])
		}
	case *ssa.UnOp:
		if x.Op == token.MUL {
			if fa, ok := x.X.(*ssa.FieldAddr); ok {
				named, field := fieldAddrInfo(fa)
				if named != nil && named.Obj().Name() == "Token" && field == "Type" {
					return isCurLoad(fa.X)
				}
			}
		}
	case *ssa.Phi:
		for _, e := range x.Edges {
			if !isCurType(e, seen) {
				return false
			}
		}
		return len(x.Edges) > 0
	}
	return false
}

func (a *progAnalysis) impliesEOF(facts []progFact) bool {
	for _, f := range facts {
		if f.eq && f.c == a.eofName && isCurType(f.v, map[ssa.Value]bool{}) {
			return true
		}
	}
	return false
}

func dropCurFacts(facts []progFact) []progFact {
	var out []progFact
	for _, f := range facts {
		if !isCurType(f.v, map[ssa.Value]bool{}) {
			out = append(out, f)
		}
	}
	return out
}

// explore walks every feasible no-progress path of fn from its entry. It reports whether a return is reachable
// without progress (and without the current token being EOF), and whether such a return can carry a non-nil
// result. When record is set, cycles and call edges are kept.
func (a *progAnalysis) explore(fn *ssa.Function, record bool) (nReturn, nReturnNonNil bool) {
	if len(fn.Blocks) == 0 {
		return true, true
	}
	return a.exploreFrom(fn, fn.Blocks[0], record)
}

// exploreFrom is explore started at an arbitrary block with nothing known: at the header of a loop it finds the
// no-progress paths around that loop however the loop is reached (also behind a call that always advances).
func (a *progAnalysis) exploreFrom(fn *ssa.Function, start *ssa.BasicBlock, record bool) (nReturn, nReturnNonNil bool) {
	ptrResult := false
	if res := fn.Signature.Results(); res.Len() == 1 {
		switch res.At(0).Type().Underlying().(type) {
		case *types.Pointer, *types.Interface, *types.Slice, *types.Map:
			ptrResult = true
		}
	}
	onPath := map[*ssa.BasicBlock]int{}
	var stack []*ssa.BasicBlock
	steps := 0
	isNilOnPath := func(v ssa.Value, facts []progFact) bool {
		if k, ok := v.(*ssa.Const); ok && k.Value == nil {
			return true
		}
		for _, f := range facts {
			if f.v == v && f.eq && f.c == "nil" {
				return true
			}
		}
		return false
	}
	var visit func(b, pred *ssa.BasicBlock, facts []progFact, pending map[ssa.Value]bool)
	visit = func(b, pred *ssa.BasicBlock, facts []progFact, pending map[ssa.Value]bool) {
		steps++
		if steps > a.budget {
			a.blown[fn] = true
			nReturn, nReturnNonNil = true, true
			return
		}
		// A block is entered a second time on a path only when the edge brings a value into one of its phis that is
		// non-nil only with progress (the result of a callee whose nil result marks an error): `for n != nil { n = parse… }`
		// tests it at the top of the next round.
		unroll := false
		if onPath[b] == 1 && pred != nil {
			for _, ins := range b.Instrs {
				phi, ok := ins.(*ssa.Phi)
				if !ok {
					break
				}
				for i, pb := range b.Preds {
					if pb == pred && i < len(phi.Edges) && pending[phi.Edges[i]] {
						unroll = true
					}
				}
			}
		}
		if onPath[b] > 0 && !unroll {
			if record {
				if a.cycles[fn] == nil {
					a.cycles[fn] = map[*ssa.BasicBlock][]string{}
				}
				if len(a.cycles[fn][b]) < 2 {
					var parts []string
					on := false
					for _, s := range stack {
						if s == b {
							on = true
						}
						if on {
							parts = append(parts, fmt.Sprintf("b%d", s.Index))
						}
					}
					a.cycles[fn][b] = append(a.cycles[fn][b], strings.Join(parts, "→")+fmt.Sprintf("→b%d", b.Index))
				}
			}
			return
		}
		onPath[b]++
		stack = append(stack, b)
		defer func() {
			onPath[b]--
			stack = stack[:len(stack)-1]
		}()
		// phis: the value that comes in over the edge pred→b carries its facts and its pending status over
		if pred != nil {
			for _, ins := range b.Instrs {
				phi, ok := ins.(*ssa.Phi)
				if !ok {
					break
				}
				for i, pb := range b.Preds {
					if pb != pred || i >= len(phi.Edges) {
						continue
					}
					in := phi.Edges[i]
					if k, ok := in.(*ssa.Const); ok {
						facts = append(append([]progFact{}, facts...), progFact{v: phi, eq: true, c: constKey(k)})
					}
					for _, f := range facts {
						if f.v == in {
							facts = append(append([]progFact{}, facts...), progFact{v: phi, eq: f.eq, c: f.c})
						}
					}
					if pending[in] {
						np := map[ssa.Value]bool{phi: true}
						for k := range pending {
							np[k] = true
						}
						pending = np
					}
					break
				}
			}
		}
		for _, ins := range b.Instrs {
			switch x := ins.(type) {
			case *ssa.Call:
				callee := x.Call.StaticCallee()
				if callee != nil && a.inScope[callee] {
					if record && start == fn.Blocks[0] {
						if a.nEdges[fn] == nil {
							a.nEdges[fn] = map[*ssa.Function]token.Pos{}
						}
						if _, ok := a.nEdges[fn][callee]; !ok {
							a.nEdges[fn][callee] = x.Pos()
						}
					}
					if a.prim[callee] || !a.noprog[callee] {
						return // progress made (or EOF established by the callee): the path ends here
					}
					if a.mayAdv[callee] {
						facts = dropCurFacts(facts)
					}
					if !a.noprogNonNil[callee] {
						np := map[ssa.Value]bool{x: true}
						for k := range pending {
							np[k] = true
						}
						pending = np
					}
				}
			case *ssa.Return:
				if a.impliesEOF(facts) {
					return
				}
				nReturn = true
				if !ptrResult {
					nReturnNonNil = true
					return
				}
				for _, v := range resultValues(x, 0) {
					if !isNilOnPath(v, facts) && !pending[v] {
						nReturnNonNil = true
					}
					// a pending value that is returned: non-nil only with progress, so the contract carries over
				}
				return
			case *ssa.Panic:
				return
			case *ssa.If:
				f, ok := progCondFact(x.Cond)
				if ok && isCurType(f.v, map[ssa.Value]bool{}) {
					f.v = curSentinel
				}
				for i, succ := range b.Succs {
					nf := facts
					if ok {
						g := f
						if i == 1 {
							g.eq = !g.eq
						}
						var consistent bool
						nf, consistent = progAddFact(facts, g)
						if !consistent {
							continue
						}
						if pending[g.v] && !g.eq && g.c == "nil" {
							continue // the callee's result is non-nil here: it has made progress
						}
					}
					visit(succ, b, nf, pending)
				}
				return
			case *ssa.Jump:
				visit(b.Succs[0], b, facts, pending)
				return
			}
		}
	}
	visit(start, nil, nil, nil)
	return nReturn, nReturnNonNil
}

func newProgAnalysis(c *Ctx, r *Reporter) *progAnalysis {
	if v, ok := c.cache["progress"]; ok {
		return v.(*progAnalysis)
	}
	p, err := c.Default()
	if err != nil {
		r.Undecided("%v", err)
		return nil
	}
	a := &progAnalysis{p: p, inScope: map[*ssa.Function]bool{}, prim: map[*ssa.Function]bool{}, mayAdv: map[*ssa.Function]bool{},
		noprog: map[*ssa.Function]bool{}, noprogNonNil: map[*ssa.Function]bool{}, reads: map[*ssa.Function]bool{}, blown: map[*ssa.Function]bool{}, budget: 400000,
		cycles: map[*ssa.Function]map[*ssa.BasicBlock][]string{}, nEdges: map[*ssa.Function]map[*ssa.Function]token.Pos{}}
	for _, rel := range []string{"pkg/lexer", "pkg/parser"} {
		pkg := p.Pkg(rel)
		if pkg == nil {
			r.Undecided("%s not loaded", rel)
			return nil
		}
		for _, fn := range ssaFuncsOf(p, pkg) {
			a.fns = append(a.fns, fn)
			a.inScope[fn] = true
		}
	}
	// EOF constant of the lexer
	if obj, ok := p.Pkg("pkg/lexer").Types.Scope().Lookup("EOF").(*types.Const); ok && obj.Val().Kind() == constant.Int {
		a.eofName = obj.Val().ExactString()
	} else {
		r.Undecided("lexer.EOF not found")
		return nil
	}
	// primitives: the functions that store pos+1 into the position field of their receiver
	for _, fn := range a.fns {
		for _, b := range fn.Blocks {
			for _, ins := range b.Instrs {
				st, ok := ins.(*ssa.Store)
				if !ok {
					continue
				}
				fa, ok := st.Addr.(*ssa.FieldAddr)
				if !ok {
					continue
				}
				named, field := fieldAddrInfo(fa)
				if named == nil || field != "pos" || progTokenFields[named.Obj().Name()] == nil {
					continue
				}
				if isPosPlusOne(st.Val, fa) && len(fn.Params) > 0 && fa.X == ssa.Value(fn.Params[0]) && storeOnEveryPath(fn, st) {
					a.prim[fn] = true
				}
			}
		}
	}
	if len(a.prim) < 2 {
		r.Undecided("advance primitives not found (need one in the lexer and one in the parser, found %d)", len(a.prim))
		return nil
	}
	// mayAdv and token-state readers: transitive closures over static calls
	for _, fn := range a.fns {
		if a.prim[fn] {
			a.mayAdv[fn] = true
		}
		for _, b := range fn.Blocks {
			for _, ins := range b.Instrs {
				if fa, ok := ins.(*ssa.FieldAddr); ok {
					named, field := fieldAddrInfo(fa)
					if named != nil && progTokenFields[named.Obj().Name()][field] {
						a.reads[fn] = true
					}
				}
			}
		}
	}
	for changed := true; changed; {
		changed = false
		for _, fn := range a.fns {
			for _, b := range fn.Blocks {
				for _, ins := range b.Instrs {
					ci, ok := ins.(ssa.CallInstruction)
					if !ok {
						continue
					}
					sc := ci.Common().StaticCallee()
					if sc == nil {
						continue
					}
					if a.mayAdv[sc] && !a.mayAdv[fn] {
						a.mayAdv[fn] = true
						changed = true
					}
					if a.reads[sc] && !a.reads[fn] {
						a.reads[fn] = true
						changed = true
					}
				}
			}
		}
	}
	// least fixpoint of "must make progress (or be at EOF) before returning"
	for _, fn := range a.fns {
		a.noprog[fn] = !a.prim[fn]
		a.noprogNonNil[fn] = !a.prim[fn]
	}
	for changed := true; changed; {
		changed = false
		for _, fn := range a.fns {
			if !a.noprogNonNil[fn] && !a.noprog[fn] {
				continue
			}
			any, nonNil := a.explore(fn, false)
			if !any && a.noprog[fn] {
				a.noprog[fn] = false
				changed = true
			}
			if !nonNil && a.noprogNonNil[fn] {
				a.noprogNonNil[fn] = false
				changed = true
			}
		}
	}
	for _, fn := range a.fns {
		a.explore(fn, true)
	}
	if os.Getenv("EVYCHECK_PROGRESS_DEBUG") != "" {
		for _, fn := range a.fns {
			if a.mayAdv[fn] {
				fmt.Fprintf(os.Stderr, "progress: %-60s noprog=%v noprogNonNil=%v\n", ssaQName(fn), a.noprog[fn], a.noprogNonNil[fn])
			}
		}
	}
	c.cache["progress"] = a
	return a
}

// isPosPlusOne: v is load(addr of the same field) + 1.
func isPosPlusOne(v ssa.Value, fa *ssa.FieldAddr) bool {
	b, ok := v.(*ssa.BinOp)
	if !ok || b.Op != token.ADD {
		return false
	}
	k, ok := b.Y.(*ssa.Const)
	if !ok || k.Value == nil || k.Value.ExactString() != "1" {
		return false
	}
	u, ok := b.X.(*ssa.UnOp)
	if !ok || u.Op != token.MUL {
		return false
	}
	fb, ok := u.X.(*ssa.FieldAddr)
	return ok && fb.X == fa.X && fb.Field == fa.Field
}

// storeOnEveryPath: the store's block dominates every return of fn.
func storeOnEveryPath(fn *ssa.Function, st *ssa.Store) bool {
	for _, ret := range returnsOf(fn) {
		if !st.Block().Dominates(ret.Block()) {
			return false
		}
	}
	return true
}

// naturalLoop returns the blocks of the natural loop with header h (nil if h is not a loop header).
func naturalLoop(h *ssa.BasicBlock) map[*ssa.BasicBlock]bool {
	var body map[*ssa.BasicBlock]bool
	for _, p := range h.Preds {
		if !h.Dominates(p) {
			continue
		}
		if body == nil {
			body = map[*ssa.BasicBlock]bool{h: true}
		}
		work := []*ssa.BasicBlock{p}
		for len(work) > 0 {
			b := work[len(work)-1]
			work = work[:len(work)-1]
			if body[b] {
				continue
			}
			body[b] = true
			work = append(work, b.Preds...)
		}
	}
	return body
}

// tokenDriven reports whether an exit condition of the loop depends on the token state.
func (a *progAnalysis) tokenDriven(loop map[*ssa.BasicBlock]bool) (bool, []*ssa.If) {
	var exits []*ssa.If
	driven := false
	for b := range loop {
		if len(b.Instrs) == 0 {
			continue
		}
		iff, ok := b.Instrs[len(b.Instrs)-1].(*ssa.If)
		if !ok {
			continue
		}
		leaves := false
		for _, s := range b.Succs {
			if !loop[s] {
				leaves = true
			}
		}
		if !leaves {
			continue
		}
		exits = append(exits, iff)
		if a.dependsOnTokens(iff.Cond, map[ssa.Value]bool{}, 0) {
			driven = true
		}
	}
	sort.Slice(exits, func(i, j int) bool { return exits[i].Block().Index < exits[j].Block().Index })
	return driven, exits
}

func (a *progAnalysis) dependsOnTokens(v ssa.Value, seen map[ssa.Value]bool, depth int) bool {
	if v == nil || seen[v] || depth > 12 {
		return false
	}
	seen[v] = true
	switch x := v.(type) {
	case *ssa.FieldAddr:
		named, field := fieldAddrInfo(x)
		if named != nil && progTokenFields[named.Obj().Name()][field] {
			return true
		}
		return a.dependsOnTokens(x.X, seen, depth+1)
	case *ssa.Call:
		if sc := x.Call.StaticCallee(); sc != nil && a.inScope[sc] && (a.reads[sc] || a.mayAdv[sc]) {
			return true
		}
		for _, arg := range x.Call.Args {
			if a.dependsOnTokens(arg, seen, depth+1) {
				return true
			}
		}
		if x.Call.StaticCallee() == nil {
			return a.dependsOnTokens(x.Call.Value, seen, depth+1)
		}
		return false
	}
	if ins, ok := v.(ssa.Instruction); ok {
		for _, op := range ins.Operands(nil) {
			if op != nil && *op != nil && a.dependsOnTokens(*op, seen, depth+1) {
				return true
			}
		}
	}
	return false
}

var ruleProgress = &Rule{
	ID: "R-PROGRESS",
	Doc: "lexing and parsing terminate: the position only moves forward (writers of the position field), every token-driven loop makes progress on every " +
		"path around it (explored from the function entry and from the loop's own header, so that loops behind a call that always advances are examined too), no recursion is reachable without progress, and parser loops leave at EOF",
	Floor: 12,
	Run:   runProgress,
}

func runProgress(c *Ctx, r *Reporter) {
	a := newProgAnalysis(c, r)
	if a == nil {
		return
	}
	p := a.p
	for fn := range a.blown {
		r.Undecided("path budget exceeded in %s", ssaQName(fn))
	}
	// (1) position writers
	var advanceTo []*ssa.Function
	for _, fn := range a.fns {
		n := 0
		for _, b := range fn.Blocks {
			for _, ins := range b.Instrs {
				st, ok := ins.(*ssa.Store)
				if !ok {
					continue
				}
				fa, ok := st.Addr.(*ssa.FieldAddr)
				if !ok {
					continue
				}
				named, field := fieldAddrInfo(fa)
				if named == nil || field != "pos" || progTokenFields[named.Obj().Name()] == nil {
					continue
				}
				n++
				construct := fmt.Sprintf("%s#pos-writer[%d]", ssaQName(fn), n)
				_, fresh := fa.X.(*ssa.Alloc)
				switch {
				case a.prim[fn] && isPosPlusOne(st.Val, fa):
					r.Ok(construct, p.Rel(st.Pos()), "the advance primitive stores pos+1 on every path")
				case fresh:
					r.Ok(construct, p.Rel(st.Pos()), "initialises the position of a new "+named.Obj().Name())
				case len(fn.Params) >= 2 && st.Val == ssa.Value(fn.Params[1]) && len(returnsOf(fn)) > 0:
					advanceTo = append(advanceTo, fn)
					r.Ok(construct, p.Rel(st.Pos()), "repositioning primitive (callers checked under #reposition)")
				default:
					r.Viol(construct, p.Rel(st.Pos()), "the position field is written outside the advance primitive: the position can move backwards or stand still, so loops over the tokens need not end")
				}
			}
		}
	}
	// functions reachable from inside a token-driven loop or from a recursive cycle
	inLoop := map[*ssa.Function]token.Pos{}
	type loopInfo struct {
		fn     *ssa.Function
		h      *ssa.BasicBlock
		blocks map[*ssa.BasicBlock]bool
		exits  []*ssa.If
		ord    int
	}
	var loops []loopInfo
	nonToken := 0
	for _, fn := range a.fns {
		ord := 0
		for _, b := range fn.Blocks {
			body := naturalLoop(b)
			if body == nil {
				continue
			}
			driven, exits := a.tokenDriven(body)
			if len(exits) == 0 {
				driven = true // for { } without exit
			}
			if !driven {
				nonToken++
				continue
			}
			ord++
			loops = append(loops, loopInfo{fn: fn, h: b, blocks: body, exits: exits, ord: ord})
			for lb := range body {
				for _, ins := range lb.Instrs {
					if ci, ok := ins.(ssa.CallInstruction); ok {
						if sc := ci.Common().StaticCallee(); sc != nil && a.inScope[sc] {
							if _, ok := inLoop[sc]; !ok {
								inLoop[sc] = ci.Pos()
							}
						}
					}
				}
			}
		}
	}
	r.Note("%d token-driven loops, %d loops over other data (ranges, scope chains) not in scope", len(loops), nonToken)
	// static call graph among in-scope functions, SCCs
	callees := map[*ssa.Function][]*ssa.Function{}
	for _, fn := range a.fns {
		seen := map[*ssa.Function]bool{}
		for _, b := range fn.Blocks {
			for _, ins := range b.Instrs {
				if ci, ok := ins.(ssa.CallInstruction); ok {
					if sc := ci.Common().StaticCallee(); sc != nil && a.inScope[sc] && !seen[sc] {
						seen[sc] = true
						callees[fn] = append(callees[fn], sc)
					}
				}
				if mc, ok := ins.(*ssa.MakeClosure); ok {
					if cf, ok := mc.Fn.(*ssa.Function); ok && !seen[cf] {
						seen[cf] = true
						callees[fn] = append(callees[fn], cf)
					}
				}
			}
		}
	}
	reach := func(from *ssa.Function) map[*ssa.Function]bool {
		out := map[*ssa.Function]bool{}
		work := append([]*ssa.Function{}, callees[from]...)
		for len(work) > 0 {
			f := work[len(work)-1]
			work = work[:len(work)-1]
			if out[f] {
				continue
			}
			out[f] = true
			work = append(work, callees[f]...)
		}
		return out
	}
	recursive := map[*ssa.Function]bool{}
	for _, fn := range a.fns {
		if reach(fn)[fn] {
			recursive[fn] = true
		}
	}
	// closure of inLoop ∪ recursive under callees
	hot := map[*ssa.Function]bool{}
	var work []*ssa.Function
	for f := range inLoop {
		work = append(work, f)
	}
	for f := range recursive {
		work = append(work, f)
	}
	for len(work) > 0 {
		f := work[len(work)-1]
		work = work[:len(work)-1]
		if hot[f] {
			continue
		}
		hot[f] = true
		work = append(work, callees[f]...)
	}
	for _, at := range advanceTo {
		ok := !hot[at]
		for _, fn := range a.fns {
			for _, ci := range callsTo(fn, at) {
				inTokenLoop := false
				for _, l := range loops {
					if l.fn == fn && l.blocks[ci.Block()] {
						inTokenLoop = true
					}
				}
				r.Check(!hot[fn] && !inTokenLoop, ssaQName(fn)+"#reposition:"+at.Name(), p.Rel(ci.Pos()),
					"the repositioning call is made once per run of its caller, which is neither inside a token-driven loop nor recursive",
					"the position is reset from inside a token-driven loop or a recursive function: the parser can revisit tokens for ever")
			}
		}
		_ = ok
	}
	// the paths around each loop, from its header with nothing known (the exploration from the function entry stops
	// at the first call that always advances and never sees a loop behind it)
	for _, l := range loops {
		a.exploreFrom(l.fn, l.h, true)
	}
	// (2) loops make progress
	sort.Slice(loops, func(i, j int) bool {
		if loops[i].fn != loops[j].fn {
			return ssaQName(loops[i].fn) < ssaQName(loops[j].fn)
		}
		return loops[i].ord < loops[j].ord
	})
	for _, l := range loops {
		construct := fmt.Sprintf("%s#loop[%d]:progress", ssaQName(l.fn), l.ord)
		pos := p.Rel(progLoopPos(l.h))
		// a cycle recorded at any block of this loop that stays inside it
		var sample string
		for hb, paths := range a.cycles[l.fn] {
			if l.blocks[hb] && innermostLoopOf(l.fn, hb, loops2blocks(loops, l.fn)) == l.h {
				sample = paths[0]
			}
		}
		r.Check(sample == "", construct, pos,
			"every path around the loop passes a call that must advance (or leaves the loop)",
			"a path around this loop makes no progress ("+sample+"): for some input the same token is examined for ever")
	}
	// (3) recursion needs progress
	nReach := func(from *ssa.Function) map[*ssa.Function]bool {
		out := map[*ssa.Function]bool{}
		var work []*ssa.Function
		for f := range a.nEdges[from] {
			work = append(work, f)
		}
		for len(work) > 0 {
			f := work[len(work)-1]
			work = work[:len(work)-1]
			if out[f] {
				continue
			}
			out[f] = true
			for g := range a.nEdges[f] {
				work = append(work, g)
			}
		}
		return out
	}
	var recs []*ssa.Function
	for f := range recursive {
		if a.mayAdv[f] { // recursion over the AST or over types (formatter, Type.String) is bounded by that finite structure: not in scope
			recs = append(recs, f)
		}
	}
	sort.Slice(recs, func(i, j int) bool { return ssaQName(recs[i]) < ssaQName(recs[j]) })
	for _, fn := range recs {
		bad := nReach(fn)[fn]
		r.Check(!bad, ssaQName(fn)+"#recursion:progress", p.Rel(fn.Pos()),
			"every cycle of calls through this function passes a call that must advance",
			"this function can call itself again (directly or through others) without any token having been consumed: unbounded recursion on some input")
	}
	// (4) parser loops leave at EOF
	for _, l := range loops {
		top := l.fn
		for top.Parent() != nil {
			top = top.Parent()
		}
		if top.Pkg == nil {
			continue
		}
		construct := fmt.Sprintf("%s#loop[%d]:eof-exit", ssaQName(l.fn), l.ord)
		if strings.HasSuffix(top.Pkg.Pkg.Path(), "/lexer") {
			ok, why := a.leavesAtEOF(l.fn, l.h, l.blocks, true)
			r.Check(ok, construct, p.Rel(progLoopPos(l.h)), "with the look-ahead rune 0 (end of input) the loop is left: "+why,
				"the loop can continue although the look-ahead is the end of the input ("+why+"): a construct that is not closed before the end of the text makes the lexer run past it for ever")
			continue
		}
		if !usesParserTokens(l.fn, l.blocks, a) {
			continue
		}
		ok, why := a.leavesAtEOF(l.fn, l.h, l.blocks, false)
		r.Check(ok, construct, p.Rel(progLoopPos(l.h)), "with EOF as the current token the loop is left before its body runs again: "+why,
			"the loop can continue although the current token is EOF ("+why+"): an unterminated construct makes the parser spin at the end of the input")
	}
}

func loops2blocks(loops interface{}, fn *ssa.Function) []*ssa.BasicBlock {
	// headers of all loops (token-driven or not) of fn
	var out []*ssa.BasicBlock
	for _, b := range fn.Blocks {
		if naturalLoop(b) != nil {
			out = append(out, b)
		}
	}
	return out
}

// innermostLoopOf returns the header of the innermost natural loop containing b.
func innermostLoopOf(fn *ssa.Function, b *ssa.BasicBlock, headers []*ssa.BasicBlock) *ssa.BasicBlock {
	var best *ssa.BasicBlock
	bestSize := 0
	for _, h := range headers {
		body := naturalLoop(h)
		if body[b] && (best == nil || len(body) < bestSize) {
			best = h
			bestSize = len(body)
		}
	}
	return best
}

func progLoopPos(h *ssa.BasicBlock) token.Pos {
	for _, ins := range h.Instrs {
		if p := ins.Pos(); p.IsValid() {
			return p
		}
	}
	for _, s := range h.Succs {
		for _, ins := range s.Instrs {
			if p := ins.Pos(); p.IsValid() {
				return p
			}
		}
	}
	return h.Parent().Pos()
}

// usesParserTokens: the loop's exit conditions depend on the parser's token state (not on a lexer call).
func usesParserTokens(fn *ssa.Function, loop map[*ssa.BasicBlock]bool, a *progAnalysis) bool {
	for b := range loop {
		for _, ins := range b.Instrs {
			if c, ok := ins.(*ssa.Call); ok {
				if sc := c.Call.StaticCallee(); sc != nil && sc.Pkg != nil && strings.HasSuffix(sc.Pkg.Pkg.Path(), "/lexer") && a.mayAdv[sc] {
					return false // driven by the lexer (consumeTokens): ends with the input, see the lexer clauses
				}
			}
		}
	}
	return true
}

// ---- abstract evaluation under the assumption "the current token is EOF (and stays EOF)" ----

type absVal struct {
	known bool
	c     string // constant.ExactString, or "true"/"false"
}

type eofEval struct {
	a     *progAnalysis
	depth int
	lexer bool // lexer mode: the look-ahead rune is 0 (end of input) instead of "the current token is EOF"
}

// pure library predicates at rune 0
var progExternAtZero = map[string]string{
	"unicode.IsLetter": "false", "unicode.IsDigit": "false", "unicode.IsSpace": "false", "unicode.IsUpper": "false", "unicode.IsLower": "false",
	"unicode.IsNumber": "false", "unicode.IsPunct": "false",
}

func (e *eofEval) isAssumed(v ssa.Value) bool {
	if e.lexer {
		c, ok := v.(*ssa.Call)
		if !ok {
			return false
		}
		sc := c.Call.StaticCallee()
		if sc == nil || sc.Signature.Recv() == nil {
			return false
		}
		if n := namedOf(sc.Signature.Recv().Type()); n == nil || n.Obj().Name() != "Lexer" {
			return false
		}
		// the look-ahead functions: they read input[pos+k] through lookAt and do not advance
		return !e.a.mayAdv[sc] && e.a.reads[sc] && isRuneType(sc.Signature.Results())
	}
	return isCurType(v, map[ssa.Value]bool{})
}

func isRuneType(res *types.Tuple) bool {
	if res.Len() != 1 {
		return false
	}
	b, ok := res.At(0).Type().Underlying().(*types.Basic)
	return ok && b.Kind() == types.Int32
}

func (e *eofEval) assumed() absVal {
	if e.lexer {
		return absVal{true, "0"}
	}
	return absVal{true, e.a.eofName}
}

func foldOrder(op token.Token, l, r string) (absVal, bool) {
	lv, lok := constant.Int64Val(constant.MakeFromLiteral(l, token.INT, 0))
	rv, rok := constant.Int64Val(constant.MakeFromLiteral(r, token.INT, 0))
	if !lok || !rok {
		return absVal{}, false
	}
	switch op {
	case token.LSS:
		return absBool(lv < rv), true
	case token.LEQ:
		return absBool(lv <= rv), true
	case token.GTR:
		return absBool(lv > rv), true
	case token.GEQ:
		return absBool(lv >= rv), true
	}
	return absVal{}, false
}

func absBool(b bool) absVal {
	if b {
		return absVal{true, "true"}
	}
	return absVal{true, "false"}
}

func (e *eofEval) eval(v ssa.Value, env map[ssa.Value]absVal, pred *ssa.BasicBlock) absVal {
	if av, ok := env[v]; ok {
		return av
	}
	switch x := v.(type) {
	case *ssa.Const:
		return absVal{true, constKey(x)}
	case *ssa.Phi:
		if !e.lexer && isCurType(x, map[ssa.Value]bool{}) {
			return e.assumed()
		}
		if pred != nil && x.Block() != nil {
			for i, p := range x.Block().Preds {
				if p == pred && i < len(x.Edges) {
					return e.eval(x.Edges[i], env, nil)
				}
			}
		}
		// all edges agree?
		var first absVal
		for i, ed := range x.Edges {
			av := e.eval(ed, env, nil)
			if !av.known || (i > 0 && av != first) {
				return absVal{}
			}
			first = av
		}
		return first
	case *ssa.UnOp:
		if x.Op == token.NOT {
			av := e.eval(x.X, env, pred)
			if av.known {
				return absBool(av.c != "true")
			}
			return absVal{}
		}
		if e.isAssumed(x) {
			return e.assumed()
		}
	case *ssa.BinOp:
		switch x.Op {
		case token.EQL, token.NEQ:
			l, r := e.eval(x.X, env, pred), e.eval(x.Y, env, pred)
			if l.known && r.known {
				return absBool((l.c == r.c) == (x.Op == token.EQL))
			}
		case token.LSS, token.LEQ, token.GTR, token.GEQ:
			l, r := e.eval(x.X, env, pred), e.eval(x.Y, env, pred)
			if l.known && r.known {
				if av, ok := foldOrder(x.Op, l.c, r.c); ok {
					return av
				}
			}
		}
		return absVal{}
	case *ssa.ChangeType:
		return e.eval(x.X, env, pred)
	case *ssa.Convert:
		return e.eval(x.X, env, pred)
	case *ssa.Call:
		if e.isAssumed(x) {
			return e.assumed()
		}
		sc := x.Call.StaticCallee()
		if sc == nil {
			// a call of a function-typed parameter: every caller's argument must agree
			if prm, ok := x.Call.Value.(*ssa.Parameter); ok && e.depth < 5 {
				var args []absVal
				for _, arg := range x.Call.Args {
					args = append(args, e.eval(arg, env, pred))
				}
				return e.funcParamAt(prm, args)
			}
			return absVal{}
		}
		if sc.Pkg != nil && !e.a.inScope[sc] && len(x.Call.Args) == 1 {
			if av := e.eval(x.Call.Args[0], env, pred); av.known && av.c == "0" {
				if res, ok := progExternAtZero[sc.Pkg.Pkg.Name()+"."+sc.Name()]; ok {
					return absVal{true, res}
				}
			}
			return absVal{}
		}
		if !e.a.inScope[sc] || len(sc.Blocks) == 0 || e.depth >= 5 {
			return absVal{}
		}
		if sc.Signature.Results().Len() != 1 {
			return absVal{}
		}
		cenv := map[ssa.Value]absVal{}
		for i, prm := range sc.Params {
			if i < len(x.Call.Args) {
				if av := e.eval(x.Call.Args[i], env, pred); av.known {
					cenv[prm] = av
				}
			}
		}
		e.depth++
		rets := e.returns(sc, cenv)
		e.depth--
		if len(rets) == 1 {
			for av := range rets {
				return av
			}
		}
		return absVal{}
	case *ssa.Lookup:
		// map parameter indexed by the current token type: resolved at the call sites
		if prm, ok := x.X.(*ssa.Parameter); ok {
			key := e.eval(x.Index, env, pred)
			if key.known {
				return e.a.mapParamAt(prm, key.c)
			}
		}
	}
	return absVal{}
}

// funcParamAt evaluates the function values that callers pass for parameter prm, applied to args.
func (e *eofEval) funcParamAt(prm *ssa.Parameter, args []absVal) absVal {
	fn := prm.Parent()
	idx := -1
	for i, q := range fn.Params {
		if q == prm {
			idx = i
		}
	}
	var result absVal
	n := 0
	for _, caller := range e.a.fns {
		for _, ci := range callsTo(caller, fn) {
			cargs := ci.Common().Args
			if idx < 0 || idx >= len(cargs) {
				return absVal{}
			}
			var target *ssa.Function
			switch f := cargs[idx].(type) {
			case *ssa.MakeClosure:
				target, _ = f.Fn.(*ssa.Function)
			case *ssa.Function:
				target = f
			}
			if target == nil || len(target.Blocks) == 0 || target.Signature.Results().Len() != 1 {
				return absVal{}
			}
			cenv := map[ssa.Value]absVal{}
			for i, q := range target.Params {
				if i < len(args) && args[i].known {
					cenv[q] = args[i]
				}
			}
			e.depth++
			rets := e.returns(target, cenv)
			e.depth--
			if len(rets) != 1 {
				return absVal{}
			}
			for av := range rets {
				if !av.known || (n > 0 && av != result) {
					return absVal{}
				}
				result = av
			}
			n++
		}
	}
	if n == 0 {
		return absVal{}
	}
	return result
}

// returns explores fn under env and collects the abstract values it can return.
func (e *eofEval) returns(fn *ssa.Function, env map[ssa.Value]absVal) map[absVal]bool {
	out := map[absVal]bool{}
	seen := map[*ssa.BasicBlock]bool{}
	var walk func(b, pred *ssa.BasicBlock)
	walk = func(b, pred *ssa.BasicBlock) {
		if seen[b] {
			out[absVal{}] = true // a loop inside: give up on precision
			return
		}
		seen[b] = true
		defer delete(seen, b)
		last := b.Instrs[len(b.Instrs)-1]
		switch x := last.(type) {
		case *ssa.Return:
			if len(x.Results) == 1 {
				out[e.evalAt(x.Results[0], env, b, pred)] = true
			} else {
				out[absVal{}] = true
			}
		case *ssa.If:
			cv := e.evalAt(x.Cond, env, b, pred)
			if !cv.known || cv.c == "true" {
				walk(b.Succs[0], b)
			}
			if !cv.known || cv.c == "false" {
				walk(b.Succs[1], b)
			}
		case *ssa.Jump:
			walk(b.Succs[0], b)
		}
	}
	walk(fn.Blocks[0], nil)
	return out
}

// evalAt evaluates v, resolving phis of block b by the predecessor the walk came from.
func (e *eofEval) evalAt(v ssa.Value, env map[ssa.Value]absVal, b, pred *ssa.BasicBlock) absVal {
	if phi, ok := v.(*ssa.Phi); ok && phi.Block() == b {
		return e.eval(phi, env, pred)
	}
	return e.eval(v, env, nil)
}

// mapParamAt: the value of map parameter prm at key in every caller (map literals built in the caller), or unknown.
func (a *progAnalysis) mapParamAt(prm *ssa.Parameter, key string) absVal {
	fn := prm.Parent()
	idx := -1
	for i, q := range fn.Params {
		if q == prm {
			idx = i
		}
	}
	if idx < 0 {
		return absVal{}
	}
	var result absVal
	n := 0
	for _, caller := range a.fns {
		for _, ci := range callsTo(caller, fn) {
			args := ci.Common().Args
			if idx >= len(args) {
				return absVal{}
			}
			mm, ok := args[idx].(*ssa.MakeMap)
			fromGlobal := false
			if !ok {
				// a package-level table that is built once by the package initialiser and never written again
				if ld, isLoad := args[idx].(*ssa.UnOp); isLoad && ld.Op == token.MUL {
					if g, isGlobal := ld.X.(*ssa.Global); isGlobal {
						mm = readOnlyGlobalMap(g)
						fromGlobal = mm != nil
					}
				}
				if mm == nil {
					return absVal{}
				}
			}
			var found absVal
			for _, ref := range *mm.Referrers() {
				if st, isStore := ref.(*ssa.Store); isStore && fromGlobal && st.Val == ssa.Value(mm) {
					continue
				}
				switch u := ref.(type) {
				case *ssa.MapUpdate:
					k, ok := u.Key.(*ssa.Const)
					if !ok {
						return absVal{}
					}
					if constKey(k) == key {
						if vc, ok := u.Value.(*ssa.Const); ok {
							found = absVal{true, constKey(vc)}
						} else {
							return absVal{}
						}
					}
				case ssa.CallInstruction:
					if u != ci {
						return absVal{}
					}
				case *ssa.DebugRef:
				default:
					return absVal{}
				}
			}
			if !found.known {
				found = absVal{true, "false"} // zero value of a missing key (bool maps only)
				if mt, ok := mm.Type().Underlying().(*types.Map); !ok || !types.Identical(mt.Elem().Underlying(), types.Typ[types.Bool]) {
					return absVal{}
				}
			}
			if n > 0 && found != result {
				return absVal{}
			}
			result = found
			n++
		}
	}
	if n == 0 {
		return absVal{}
	}
	return result
}

// leavesAtEOF: with EOF as the current token, can an iteration of the loop complete?
func (a *progAnalysis) leavesAtEOF(fn *ssa.Function, h *ssa.BasicBlock, loop map[*ssa.BasicBlock]bool, lexerMode bool) (bool, string) {
	e := &eofEval{a: a, lexer: lexerMode}
	env := map[ssa.Value]absVal{}
	completed := ""
	decided := 0
	for _, back := range h.Preds {
		if !h.Dominates(back) {
			continue
		}
		seen := map[*ssa.BasicBlock]bool{}
		var walk func(b, pred *ssa.BasicBlock)
		walk = func(b, pred *ssa.BasicBlock) {
			if completed != "" {
				return
			}
			if !loop[b] {
				return
			}
			if b == h {
				completed = fmt.Sprintf("reaches the loop header again through b%d", pred.Index)
				return
			}
			if seen[b] {
				return
			}
			seen[b] = true
			last := b.Instrs[len(b.Instrs)-1]
			switch x := last.(type) {
			case *ssa.If:
				cv := e.evalAt(x.Cond, env, b, pred)
				if cv.known {
					decided++
				}
				if !cv.known || cv.c == "true" {
					walk(b.Succs[0], b)
				}
				if !cv.known || cv.c == "false" {
					walk(b.Succs[1], b)
				}
			case *ssa.Jump:
				walk(b.Succs[0], b)
			}
		}
		// start at the header as if coming from the back edge
		seenStart := h
		_ = seenStart
		last := h.Instrs[len(h.Instrs)-1]
		seen[h] = true
		switch x := last.(type) {
		case *ssa.If:
			cv := e.evalAt(x.Cond, env, h, back)
			if cv.known {
				decided++
			}
			if !cv.known || cv.c == "true" {
				walk(h.Succs[0], h)
			}
			if !cv.known || cv.c == "false" {
				walk(h.Succs[1], h)
			}
		case *ssa.Jump:
			walk(h.Succs[0], h)
		}
	}
	if completed != "" {
		return false, completed
	}
	return true, fmt.Sprintf("%d exit tests decided by the EOF assumption", decided)
}

// readOnlyGlobalMap: the map literal a package-level variable is initialised with, provided nothing else ever stores
// to the variable or updates a map loaded from it.
func readOnlyGlobalMap(g *ssa.Global) *ssa.MakeMap {
	if g.Pkg == nil {
		return nil
	}
	var lit *ssa.MakeMap
	for _, m := range g.Pkg.Members {
		fn, ok := m.(*ssa.Function)
		if !ok {
			continue
		}
		fns := append([]*ssa.Function{fn}, fn.AnonFuncs...)
		for _, f := range fns {
			for _, b := range f.Blocks {
				for _, ins := range b.Instrs {
					switch x := ins.(type) {
					case *ssa.Store:
						if x.Addr == ssa.Value(g) {
							mm, isLit := x.Val.(*ssa.MakeMap)
							if !isLit || f.Name() != "init" || lit != nil {
								return nil
							}
							lit = mm
						}
					case *ssa.MapUpdate:
						if ld, ok := x.Map.(*ssa.UnOp); ok && ld.X == ssa.Value(g) {
							return nil
						}
					}
				}
			}
		}
	}
	// methods are not package members: look at them as well
	for _, m := range g.Pkg.Members {
		tn, ok := m.(*ssa.Type)
		if !ok {
			continue
		}
		for _, t := range []types.Type{tn.Type(), types.NewPointer(tn.Type())} {
			ms := g.Pkg.Prog.MethodSets.MethodSet(t)
			for i := 0; i < ms.Len(); i++ {
				f := g.Pkg.Prog.MethodValue(ms.At(i))
				if f == nil {
					continue
				}
				for _, b := range f.Blocks {
					for _, ins := range b.Instrs {
						switch x := ins.(type) {
						case *ssa.Store:
							if x.Addr == ssa.Value(g) {
								return nil
							}
						case *ssa.MapUpdate:
							if ld, ok := x.Map.(*ssa.UnOp); ok && ld.X == ssa.Value(g) {
								return nil
							}
						}
					}
				}
			}
		}
	}
	return lit
}
