package check

import (
	"fmt"
	"go/token"
	"go/types"
	"strings"

	"golang.org/x/tools/go/ssa"
)

// R-CONTAINERIDX: every computed index into the backing storage of an Evy value is bounded by the length of that
// same storage.
//
// Backing storage: arrayVal.Elements, the key order of a mapVal, the bytes of a VM stringVal, the rune slice of an
// evaluator string. An index or slice bound that is not a constant must
//   (a) come out of normalizeIndex / normalizeSliceIndices called with len(that storage), or
//   (b) be dominated by `i < len(that storage)` (loop test or if), or by such a test against a storage whose
//       length was found equal on a dominating edge, or
//   (c) be 0/len-derived arithmetic on such a value (i+1 as a slice end after (a)/(b)).
// Otherwise some program indexes one collection with a bound taken from another: a host panic (index out of range).

func containerIdxRule(rel string, floor int) *Rule {
	return &Rule{
		ID: "R-CONTAINERIDX/" + rel,
		Doc: "every computed index or slice bound into the storage of an Evy value in " + rel + " (array elements, map key order, string bytes/runes) is bounded by the length " +
			"of that same storage: through normalizeIndex/normalizeSliceIndices with len(storage), or a dominating i < len(storage) test",
		Floor: floor,
		Run:   func(c *Ctx, r *Reporter) { runContainerIdx(c, r, rel) },
	}
}

type cidx struct {
	pkg *types.Package
}

// key canonicalises storage expressions: fields of the same struct value / same pointer coincide.
func (ci *cidx) key(v ssa.Value, depth int) string {
	if depth > 8 {
		return fmt.Sprintf("%p", v)
	}
	switch x := v.(type) {
	case *ssa.Field:
		return fmt.Sprintf("%s.f%d", ci.key(x.X, depth+1), x.Field)
	case *ssa.FieldAddr:
		return fmt.Sprintf("&%s.f%d", ci.key(x.X, depth+1), x.Field)
	case *ssa.UnOp:
		if x.Op == token.MUL {
			return "*" + ci.key(x.X, depth+1)
		}
	case *ssa.ChangeType:
		return ci.key(x.X, depth+1)
	case *ssa.Convert:
		return ci.key(x.X, depth+1)
	case *ssa.MakeInterface:
		return ci.key(x.X, depth+1)
	}
	return fmt.Sprintf("%p", v)
}

// isStorage reports whether v is backing storage of an Evy value and describes it.
func (ci *cidx) isStorage(v ssa.Value, depth int) (bool, string) {
	if depth > 6 {
		return false, ""
	}
	isValueStruct := func(t types.Type) string {
		if n := namedOf(t); n != nil && n.Obj().Pkg() == ci.pkg {
			switch n.Obj().Name() {
			case "arrayVal", "mapVal":
				return n.Obj().Name()
			}
		}
		return ""
	}
	switch x := v.(type) {
	case *ssa.Field:
		if s := isValueStruct(x.X.Type()); s != "" {
			return true, s + " storage"
		}
	case *ssa.UnOp:
		if x.Op == token.MUL {
			if fa, ok := x.X.(*ssa.FieldAddr); ok {
				if named, field := fieldAddrInfo(fa); named != nil && named.Obj().Pkg() == ci.pkg && (named.Obj().Name() == "arrayVal" || named.Obj().Name() == "mapVal") {
					return true, named.Obj().Name() + "." + field
				}
			}
			// *m.Order, *a.Elements: a pointer loaded from a value field
			return ci.isStorage(x.X, depth+1)
		}
	case *ssa.Call:
		if sc := x.Call.StaticCallee(); sc != nil && sc.Name() == "runes" {
			return true, "rune view of a string"
		}
	case *ssa.ChangeType:
		return ci.isStorage(x.X, depth+1)
	case *ssa.Convert:
		return ci.isStorage(x.X, depth+1)
	}
	if n := namedOf(v.Type()); n != nil && n.Obj().Pkg() == ci.pkg && n.Obj().Name() == "stringVal" {
		if b, ok := n.Underlying().(*types.Basic); ok && b.Info()&types.IsString != 0 {
			return true, "string bytes"
		}
	}
	return false, ""
}

func isLenOf(v ssa.Value) (ssa.Value, bool) {
	call, ok := v.(*ssa.Call)
	if !ok {
		return nil, false
	}
	if b, ok := call.Call.Value.(*ssa.Builtin); ok && b.Name() == "len" && len(call.Call.Args) == 1 {
		return call.Call.Args[0], true
	}
	return nil, false
}

func runContainerIdx(c *Ctx, r *Reporter, rel string) {
	p, err := c.Default()
	if err != nil {
		r.Undecided("%v", err)
		return
	}
	pkg := p.Pkg(rel)
	if pkg == nil {
		r.Undecided("%s not loaded", rel)
		return
	}
	ci := &cidx{pkg: pkg.Types}
	n := 0
	for _, fd := range Funcs(pkg) {
		sf := p.SSAFunc(fd.Obj)
		if sf == nil {
			continue
		}
		for _, fn := range withAnon(sf) {
			bounded := ci.mkBounded(fn, "", 0)
			for _, b := range fn.Blocks {
				for _, ins := range b.Instrs {
					var storage ssa.Value
					var idxs []ssa.Value
					inclusive := false
					switch x := ins.(type) {
					case *ssa.IndexAddr:
						storage, idxs = x.X, []ssa.Value{x.Index}
					case *ssa.Index:
						storage, idxs = x.X, []ssa.Value{x.Index}
					case *ssa.Slice:
						storage = x.X
						inclusive = true
						for _, bv := range []ssa.Value{x.Low, x.High} {
							if bv != nil {
								idxs = append(idxs, bv)
							}
						}
					default:
						continue
					}
					isSt, what := ci.isStorage(storage, 0)
					if !isSt {
						continue
					}
					for _, idx := range idxs {
						if _, isConst := idx.(*ssa.Const); isConst {
							continue
						}
						n++
						okb, why := bounded(idx, storage, b, inclusive)
						r.Check(okb, fmt.Sprintf("%s#index[%d]:%s", fd.QName(), n, strings.ReplaceAll(what, " ", "-")), p.Rel(instrPos(ins)),
							"the index is bounded by the length of the storage it indexes",
							"the "+what+" is indexed with "+why+", which is not bounded by the length of that same storage (no normalizeIndex with its len, no dominating i < len of it): "+
								"a program can make the host panic with index out of range")
					}
				}
			}
		}
	}
}

// mkBounded returns the bound check for the indices of one function. With a key override the check is made against the
// storage with that canonical key (used for the results of helpers, where the caller's storage is named through the
// helper's parameters).
func (ci *cidx) mkBounded(fn *ssa.Function, keyOverride string, level int) func(idx ssa.Value, storage ssa.Value, at *ssa.BasicBlock, upperInclusive bool) (bool, string) {
	// dominating facts: len(K1) == len(K2) on an edge
	type lenEq struct {
		b    *ssa.BasicBlock
		idx  int
		a, c string
	}
	var eqs []lenEq
	for _, b := range fn.Blocks {
		if len(b.Instrs) == 0 {
			continue
		}
		ifi, ok := b.Instrs[len(b.Instrs)-1].(*ssa.If)
		if !ok {
			continue
		}
		bo, ok := ifi.Cond.(*ssa.BinOp)
		if !ok || (bo.Op != token.EQL && bo.Op != token.NEQ) {
			continue
		}
		la, oka := isLenOf(bo.X)
		lb, okb := isLenOf(bo.Y)
		if oka && okb {
			e := 0
			if bo.Op == token.NEQ {
				e = 1
			}
			eqs = append(eqs, lenEq{b, e, ci.key(la, 0), ci.key(lb, 0)})
		}
	}
	bounded := func(idx ssa.Value, storage ssa.Value, at *ssa.BasicBlock, upperInclusive bool) (bool, string) {
		skey := ci.key(storage, 0)
		if keyOverride != "" {
			skey = keyOverride
		}
		sameStore := func(k ssa.Value) bool {
			kk := ci.key(k, 0)
			if kk == skey {
				return true
			}
			for _, e := range eqs {
				if edgeDominates(e.b, e.idx, at) && ((e.a == kk && e.c == skey) || (e.c == kk && e.a == skey)) {
					return true
				}
			}
			return false
		}
		// the length the storage was made with (arr := arrayVal{Elements: make([]value, n)})
		var madeLen ssa.Value
		if ms, isMake := storage.(*ssa.MakeSlice); isMake {
			madeLen = ms.Len
		}
		for _, b2 := range fn.Blocks {
			for _, ins2 := range b2.Instrs {
				if st, isSt := ins2.(*ssa.Store); isSt {
					if ms, isMake := st.Val.(*ssa.MakeSlice); isMake && ("*"+ci.key(st.Addr, 0)) == skey {
						madeLen = ms.Len
					}
				}
			}
		}
		isLenLike := func(v ssa.Value) bool {
			if l, isLen := isLenOf(v); isLen && sameStore(l) {
				return true
			}
			return madeLen != nil && v == madeLen
		}
		var ok func(v ssa.Value, depth int) bool
		var okIncl func(v ssa.Value, depth int, incl bool) bool
		okStrict := func(v ssa.Value, depth int) bool { return okIncl(v, depth, false) }
		ok = func(v ssa.Value, depth int) bool { return okIncl(v, depth, upperInclusive) }
		okIncl = func(v ssa.Value, depth int, upperInclusive bool) bool {
			if depth > 5 {
				return false
			}
			if _, isConst := v.(*ssa.Const); isConst {
				k, _ := intConst(v)
				return k == 0 || upperInclusive
			}
			if upperInclusive && isLenLike(v) {
				return true
			}
			// a counter that starts at len-1 and only decreases: phi [len-1, phi-1]
			if phi, isPhi := v.(*ssa.Phi); isPhi {
				desc := len(phi.Edges) > 0
				for _, e := range phi.Edges {
					bo, isBo := e.(*ssa.BinOp)
					if !isBo || bo.Op != token.SUB {
						desc = false
						break
					}
					if k, isK := intConst(bo.Y); !isK || k != 1 {
						desc = false
						break
					}
					if bo.X != ssa.Value(phi) && !isLenLike(bo.X) {
						desc = false
						break
					}
				}
				if desc {
					return true
				}
				// … or starts at the length itself and only decreases (for i := n; i > 0; i-- { … [i-1] }): ≤ length
				if upperInclusive && len(phi.Edges) > 0 {
					descFromLen := true
					for _, e := range phi.Edges {
						if isLenLike(e) {
							continue
						}
						bo, isBo := e.(*ssa.BinOp)
						if k, isK := intConst2(bo, isBo); !isBo || bo.Op != token.SUB || bo.X != ssa.Value(phi) || !isK || k != 1 {
							descFromLen = false
							break
						}
					}
					if descFromLen {
						return true
					}
				}
			}
			// the result of a helper of the package that returns a position in the storage it is handed
			{
				var hcall *ssa.Call
				switch x := v.(type) {
				case *ssa.Call:
					hcall = x
				case *ssa.Extract:
					if c2, isCall := x.Tuple.(*ssa.Call); isCall && x.Index == 0 {
						hcall = c2
					}
				}
				if hcall != nil && level < 2 {
					if h := hcall.Call.StaticCallee(); h != nil && h.Pkg == fn.Pkg && len(h.Blocks) > 0 && h.Name() != "normalizeIndex" && h.Name() != "normalizeSliceIndices" {
						if ci.helperBounded(h, hcall, skey, at, v, upperInclusive, level) {
							return true
						}
					}
				}
			}
			switch x := v.(type) {
			case *ssa.Extract:
				if call, isCall := x.Tuple.(*ssa.Call); isCall {
					if sc := call.Call.StaticCallee(); sc != nil && (sc.Name() == "normalizeIndex" || sc.Name() == "normalizeSliceIndices") {
						if sc.Name() == "normalizeSliceIndices" && !upperInclusive {
							return false // a slice bound may equal the length
						}
						for _, a := range call.Call.Args {
							if isLenLike(a) {
								return true
							}
						}
					}
				}
			case *ssa.BinOp:
				// i+1 / i-1 as a slice end or neighbour of a bounded index
				if (x.Op == token.ADD || x.Op == token.SUB) && upperInclusive {
					if k, isK := intConst(x.Y); isK && k == 1 && okStrict(x.X, depth+1) {
						return true
					}
				}
				// v-1 as an index where v is at most the length
				if x.Op == token.SUB && !upperInclusive {
					if k, isK := intConst(x.Y); isK && k == 1 && okIncl(x.X, depth+1, true) {
						return true
					}
				}
				// len-1 as a slice end (dropping the last element), where the storage is known not to be empty: some
				// index was found below its length on the way
				if x.Op == token.SUB && upperInclusive && isLenLike(x.X) {
					if k, isK := intConst(x.Y); isK && k == 1 {
						for _, f := range impliedConds(at) {
							if bo, ok := f.Cond.(*ssa.BinOp); ok && ((bo.Op == token.LSS && f.Truth && isLenLike(bo.Y)) || (bo.Op == token.GEQ && !f.Truth && isLenLike(bo.Y)) || (bo.Op == token.GTR && f.Truth && isLenLike(bo.X))) {
								return true
							}
							// a counter was found at or below this very value (i <= last): it is not negative
							if bo, ok := f.Cond.(*ssa.BinOp); ok && ((bo.Op == token.LEQ && f.Truth && bo.Y == v) || (bo.Op == token.GTR && !f.Truth && bo.Y == v) || (bo.Op == token.GEQ && f.Truth && bo.X == v)) {
								return true
							}
						}
					}
				}
			case *ssa.Phi:
				// fall through to the dominating test
			}
			// a dominating test v < len(K)
			for d := at; d != nil; d = d.Idom() {
				idom := d.Idom()
				if idom == nil || len(idom.Instrs) == 0 {
					continue
				}
				ifi, isIf := idom.Instrs[len(idom.Instrs)-1].(*ssa.If)
				if !isIf {
					continue
				}
				bo, isBo := ifi.Cond.(*ssa.BinOp)
				if !isBo {
					continue
				}
				edge := -1
				var bound ssa.Value
				same := func(a ssa.Value) bool { return a == v || ci.key(a, 0) == ci.key(v, 0) }
				strict := true
				switch {
				case bo.Op == token.LSS && same(bo.X):
					edge, bound = 0, bo.Y
				case bo.Op == token.GEQ && same(bo.X):
					edge, bound = 1, bo.Y
				case bo.Op == token.GTR && same(bo.Y):
					edge, bound = 0, bo.X
				case bo.Op == token.LEQ && same(bo.Y):
					edge, bound = 1, bo.X
				case bo.Op == token.LEQ && same(bo.X):
					edge, bound, strict = 0, bo.Y, false
				case bo.Op == token.GTR && same(bo.X):
					edge, bound, strict = 1, bo.Y, false
				}
				if edge < 0 || !edgeDominates(idom, edge, at) {
					continue
				}
				if !strict && !upperInclusive {
					// v <= bound: fine only when bound itself is a strict index
					if okIncl(bound, depth+1, false) {
						return true
					}
					continue
				}
				// v < bound (or v <= bound for an inclusive position): bound may be the length, or anything that is ≤ the length
				if okIncl(bound, depth+1, true) {
					return true
				}
				// … such as the length minus a constant (as a bound for v, whether it is negative does not matter)
				if bb, isBo := bound.(*ssa.BinOp); isBo && bb.Op == token.SUB && isLenLike(bb.X) {
					if k, isK := intConst(bb.Y); isK && k >= 0 {
						return true
					}
				}
			}
			return false
		}
		if ok(idx, 0) {
			return true, ""
		}
		return false, idx.String()
	}
	return bounded
}

// helperBounded: the call hands the helper h the storage with key skey (or an object it belongs to), and every value h
// can return without an error is a position within that storage — or a negative constant (not found), provided the
// caller has excluded a negative result on the way to the use.
func (ci *cidx) helperBounded(h *ssa.Function, call *ssa.Call, skey string, at *ssa.BasicBlock, result ssa.Value, upperInclusive bool, level int) bool {
	res := h.Signature.Results()
	if res.Len() == 0 || res.Len() > 2 || !isIntType(res.At(0).Type()) {
		return false
	}
	// the caller's storage in terms of the helper's parameters
	hkey := ""
	for i, prm := range h.Params {
		if i >= len(call.Call.Args) {
			break
		}
		ak := ci.key(call.Call.Args[i], 0)
		if strings.Contains(skey, ak) {
			hkey = strings.Replace(skey, ak, ci.key(prm, 0), 1)
			break
		}
	}
	if hkey == "" {
		return false
	}
	hb := ci.mkBounded(h, hkey, level+1)
	sentinel := false
	n := 0
	for _, ret := range returnsOf(h) {
		if res.Len() == 2 && !mayBeNilError(ret.Results[1], ret.Block(), 0) {
			continue
		}
		rv := ret.Results[0]
		if k, isK := intConst(rv); isK && k < 0 {
			sentinel = true
			continue
		}
		n++
		if okb, _ := hb(rv, rv, ret.Block(), upperInclusive); !okb {
			return false
		}
	}
	if n == 0 {
		return false
	}
	if !sentinel {
		return true
	}
	// the negative result is excluded at the use
	for _, f := range impliedConds(at) {
		bo, ok := f.Cond.(*ssa.BinOp)
		if !ok || bo.X != result {
			continue
		}
		k, isK := intConst(bo.Y)
		if !isK {
			continue
		}
		switch {
		case bo.Op == token.LSS && k == 0 && !f.Truth, bo.Op == token.GEQ && k == 0 && f.Truth, bo.Op == token.GTR && k == -1 && f.Truth, bo.Op == token.LEQ && k == -1 && !f.Truth:
			return true
		}
	}
	return false
}

func intConst2(bo *ssa.BinOp, ok bool) (int, bool) {
	if !ok || bo == nil {
		return 0, false
	}
	return intConst(bo.Y)
}
