package check

func init() {
	Register(&Property{
		ID: "C08",
		Explanation: "Decides the structural clause of determinism: no observable (parse errors, static types, evaluation order, " +
			"printed text, drawing commands) depends on Go map iteration order (R-MAPRANGE over every range-over-map loop of all " +
			"packages in scope, default and tinygo configurations, with callees classified against order sinks over the CHA call graph), " +
			"and the only time/random sources are the seedable RandSource (R-TIMESOURCE).",
		NotDecided:  "Nothing about the values computed; only that map order, time and addresses cannot reach an observable.",
		Assumptions: []string{"single goroutine (checked: no go statement in scope)", "stores into Go maps inside a map-range loop use distinct keys per iteration", "sort keys used after append-in-map-order are injective"},
		Rules:       []*Rule{ruleMapRange, ruleTimeSource},
	})
}

// ThoroughExtras runs the thorough-only machinery (mutant self-test, cross references).
func ThoroughExtras(c *Ctx, prop *Property) map[string]any {
	return map[string]any{}
}

func init() {
	Register(&Property{
		ID: "C17",
		Explanation: "Decides structural necessary conditions of well-formed bytecode: the three views of the instruction set coincide and the VM " +
			"decodes exactly the operand widths that Make encodes, every emit site passes the defined number of operands (R-OPTABLE); operands are " +
			"range-checked before they are narrowed to 16 bits (R-NARROW); every placeholder jump is patched on every success path (R-JUMPPATCH); " +
			"the compiler rejects node kinds it cannot translate instead of leaving the operand stack inconsistent (R-EXHAUST/Compile).",
		NotDecided:  "Stack balance in general, symbol-table histories (slot arithmetic), host crashes from value-level arithmetic.",
		Assumptions: []string{"the VM dispatch is the switch over Opcode with the most cases in (*VM).Run", "ip is the instruction pointer variable of Run"},
		Rules:       []*Rule{ruleOpTable, ruleNarrow, ruleJumpPatch, exhaustRule("Compile", 20)},
	})
}
