package check

import (
	"context"
	"os"
	"os/exec"
	"strings"
	"time"
)

func init() {
	Register(&Property{
		ID: "C08",
		Explanation: "Decides the structural clause of determinism: no observable (parse errors, static types, evaluation order, " +
			"printed text, drawing commands) depends on Go map iteration order (R-MAPRANGE over every range-over-map loop of all " +
			"packages in scope, default and tinygo configurations, with callees classified against order sinks over the CHA call graph), " +
			"the only time/random sources are the seedable RandSource (R-TIMESOURCE), and no fmt formatting call prints a machine address (R-ADDRPRINT).",
		NotDecided:  "Nothing about the values computed; only that map order, time, random sources and addresses cannot reach an observable.",
		Assumptions: []string{"single goroutine (checked: no go statement in scope)", "stores into Go maps inside a map-range loop use distinct keys per iteration", "sort keys used after append-in-map-order are injective"},
		Rules:       []*Rule{ruleMapRange, ruleTimeSource, ruleAddrPrint},
	})
}

// ThoroughExtras runs the thorough-only machinery: the mutant self-test of the
// property's rules on scratch copies of the current tree, and a cross-reference
// pass with generic linters whose output is recorded, never a verdict.
func ThoroughExtras(c *Ctx, prop *Property) map[string]any {
	out := map[string]any{}
	if os.Getenv("EVYCHECK_NO_MUTANTS") != "" {
		return out
	}
	res := RunMutants(c, prop.ID)
	fired, skipped := 0, 0
	var failures []string
	for _, m := range res {
		switch m.Status {
		case "fired":
			fired++
		case "skipped":
			skipped++
		default:
			failures = append(failures, m.ID+" ("+m.Rule+"): "+m.Status+": "+m.Detail)
		}
	}
	out["mutants_total"] = len(res)
	out["mutants_fired"] = fired
	out["mutants_skipped"] = skipped
	out["mutants"] = res
	out["mutant_failures"] = failures
	out["cross_reference"] = crossReference(c, prop)
	return out
}

// crossReference runs generic tools over the repository and records how many
// reports they produce; it is informational only.
func crossReference(c *Ctx, prop *Property) map[string]any {
	out := map[string]any{"note": "generic linters give no verdict on the property; counts are recorded for comparison only"}
	run := func(name string, args ...string) {
		path, err := exec.LookPath(name)
		if err != nil {
			out[name] = "not installed"
			return
		}
		ctx, cancel := context.WithTimeout(context.Background(), 4*time.Minute)
		defer cancel()
		cmd := exec.CommandContext(ctx, path, args...)
		cmd.Dir = c.Repo
		cmd.Env = loadEnv()
		b, _ := cmd.CombinedOutput()
		lines := []string{}
		for _, l := range strings.Split(string(b), "\n") {
			if strings.TrimSpace(l) != "" && !strings.HasPrefix(l, "#") {
				lines = append(lines, l)
			}
		}
		first := lines
		if len(first) > 3 {
			first = first[:3]
		}
		out[name] = map[string]any{"reports": len(lines), "first": first}
	}
	run("staticcheck", "./pkg/...", ".")
	run("errcheck", "./pkg/...", ".")
	if prop.ID == "C03" {
		run("nilaway", "./pkg/parser/...", "./pkg/lexer/...")
	}
	return out
}

func init() {
	Register(&Property{
		ID: "C17",
		Explanation: "Decides structural necessary conditions of well-formed bytecode: the three views of the instruction set coincide and the VM " +
			"decodes exactly the operand widths that Make encodes, every emit site passes the defined number of operands (R-OPTABLE); operands are " +
			"range-checked before they are narrowed to 16 bits (R-NARROW); every placeholder jump is patched on every success path (R-JUMPPATCH); " +
			"the compiler rejects node kinds it cannot translate instead of leaving the operand stack inconsistent (R-EXHAUST/Compile); every computed index into " +
			"the storage of a VM value is bounded by the length of that same storage (R-CONTAINERIDX), and the VM's index normalisers are proved to return positions within bounds (R-IDXPOST); the slot discipline of the symbol table, whose name→slot map only Define writes (R-SLOTMAX); " +
			"stack balance: the net effect of every opcode is derived from (*VM).Run and every compiler function is interpreted over symbolic stack heights with it — each case of Compile leaves +1 for an expression and 0 for a statement on every accepting path, " +
			"a jump and its target agree on the height, breaks leave a loop at the height its body was entered with, nothing pops below the height a node's translation started at (R-STACKEFFECT); push tests its position against the size the stack is allocated with (R-VMSTACK).",
		NotDecided:  "Symbol-table histories beyond the clauses above (slot arithmetic under arbitrary push/pop/define sequences), the absolute stack depth a program needs (overflow is a run-time error, not a crash), host crashes from value-level arithmetic.",
		Assumptions: []string{"the VM dispatch is the switch over Opcode with the most cases in (*VM).Run", "ip is the instruction pointer variable of Run"},
		Rules:       []*Rule{ruleOpTable, ruleNarrow, ruleJumpPatch, exhaustRule("Compile", 20), ruleLoopVarScope, ruleVMValues, f2iRule("pkg/bytecode", 2), ruleSlotMax, containerIdxRule("pkg/bytecode", 3), idxPostRule("pkg/bytecode"), ruleVMStack, ruleStackEffect, ruleConstPool},
	})
}

func init() {
	Register(&Property{
		ID: "C09",
		Explanation: "Decides the copy clause structurally: value objects of basic type are never modified after construction (R-IMMUT: no field " +
			"store outside construction, no call of value.Set), so sharing an object between bindings is unobservable and 'a later change to one " +
			"variable never shows through another' holds wherever the evaluator does or does not copy; arrays and maps are returned by identity by " +
			"copyOrRef; slicing, copying, concatenation, repetition, literals and the map ranger allocate their own backing storage and repetition " +
			"copies through deepCopy (R-FRESH, SSA origin of the stored slice).",
		NotDecided:  "That Slice copies the right elements (value-level).",
		Assumptions: []string{"no reflection/unsafe reaches evaluator values (checked by R-TIMESOURCE for unsafe)"},
		Rules:       []*Rule{ruleImmut, ruleFresh, ruleEvalMisc, ruleVMFresh, ruleScopeChain},
	})
	Register(&Property{
		ID: "C12",
		Explanation: "Decides the representation discipline of insertion-ordered maps: the Go map and the key-order slice are written only inside " +
			"SetKey/Delete/Set and constructors; SetKey stores on every path and appends only new keys; Delete removes from both; printing and " +
			"iteration read Order, equality does not, lookups/has/len read Pairs, del goes through Delete (R-MAPENC); iteration uses a private " +
			"snapshot (R-FRESH); no observable depends on Go map order (R-MAPRANGE).",
		NotDecided:  "The mutators' arithmetic under arbitrary operation sequences (which index is spliced), panics' text.",
		Assumptions: []string{},
		Rules:       []*Rule{ruleMapEnc, ruleFresh, ruleMapRange, ruleMapEq, ruleEvalMisc},
	})
	Register(&Property{
		ID: "C11",
		Explanation: "Decides that strings are measured, indexed, sliced and iterated by code point in the evaluator (R-RUNES) and that a user " +
			"number becomes an index only through normalizeIndex whose float→int conversion is NaN/Inf/fraction safe (R-F2I); every computed index or slice " +
			"bound into the storage of a value is bounded by the length of that same storage (R-CONTAINERIDX); index returns a character index, never a byte offset (R-RUNES); " +
			"the normalisers' postcondition is proved from their bodies by a polyhedral forward analysis: every accepted index lies in [0, n-1], every accepted slice bound in [0, n], " +
			"start ≤ end, and a negative index i is mapped to n+i, a non-negative one to itself (R-IDXPOST).",
		NotDecided:  "That every index in [-n, n-1] is accepted (completeness of the bounds test), that Slice copies the elements between the proved bounds in order, error texts.",
		Assumptions: []string{},
		Rules:       []*Rule{runesRule("pkg/evaluator", "stringVal", 4), f2iRule("pkg/evaluator", 4), ruleEvalMisc, containerIdxRule("pkg/evaluator", 3), idxPostRule("pkg/evaluator"), ruleAssignTarget},
	})
}

func init() {
	Register(&Property{
		ID: "C14",
		Explanation: "Decides the interruptibility mechanism structurally: the dispatcher eval tests the stop flag (returning ErrStopped) and yields " +
			"before it dispatches on the node kind; every evaluator loop that runs user code passes on each iteration through a call that must " +
			"reach eval; every call that can reach eval has its error returned wherever it may be non-nil, with no further evaluation in between " +
			"(so 'stopped' ends the run without evaluating anything further); the browser platform's endless loops start each iteration with the " +
			"stop test and the exported stop function raises the flag (R-YIELD).",
		NotDecided:  "The one-step latency between raising the flag during a yield and the next eval, and the prefix-of-effects clause (schedule-level).",
		Assumptions: []string{"built-ins cannot re-enter the evaluator (they receive no evaluator reference)"},
		Rules:       []*Rule{ruleYield, ruleEvalMisc},
	})
	Register(&Property{
		ID: "C10",
		Explanation: "Decides the scoping and control-flow mechanism structurally: every scope push is released on every exit (deferred pop), function " +
			"and handler bodies run in a fresh scope whose parent is the global scope, a block evaluated in a loop gets a scope per iteration " +
			"(R-SCOPEPAIR/evaluator); break/return signals of a block are inspected or passed on, loops convert a break into a plain result and " +
			"pass a return on, calls unwrap the return signal, a zero step is rejected before the first iteration, the range operand is evaluated " +
			"once (R-SIGNAL); every loop iteration re-evaluates its condition block through eval (R-YIELD loop clause); the map ranger iterates a " +
			"private snapshot and every loop activation has iteration state of its own (R-FRESH); a number of the program becomes a loop count or index only through a NaN/fraction-safe conversion (R-F2I); " +
			"the loop variable enters the static scope after the range operands are parsed (R-DECLCHECK); a declaration binds in the current run-time scope, look-ups and assignments take the innermost scope that has the name (R-SCOPECHAIN).",
		NotDecided:  "The arithmetic of numeric ranges and which elements are visited; the parser's static scope tracking (see C05).",
		Assumptions: []string{},
		Rules:       []*Rule{ruleScopePairEval, ruleSignal, ruleFresh, ruleScopePairParser, ruleNaNGuard, f2iRule("pkg/evaluator", 4), ruleDeclCheck, ruleScopeChain, ruleLoopVarInit},
	})
}

func init() {
	Register(&Property{
		ID: "C05",
		Explanation: "Decides the rejection mechanism structurally: text after a complete statement or after `end` is never skipped without an " +
			"end-of-line assertion or a recorded error (R-EOLSTATE, path-sensitive typestate over every parser function with verified callee " +
			"contracts); evaluation is gated on an error-free parse in the library entry point and in `evy run`, which reports on stderr with " +
			"status 1 and writes no SVG for a rejected program (R-PARSEGATE); a list of parsed expressions is handed on whole or an error is recorded, so extra " +
			"operands are never accepted and dropped (R-LISTUSE); an empty literal never makes operands of different kinds match (R-TYPEREL); a declaration enters the scope only on the edge where the validator accepted it, and the validator tests built-in globals, the current scope and function names unconditionally (R-DECLCHECK); the termination analysis behind `missing return` and `unreachable code` (R-TERMCONJ); every block's variables are checked for use however the block ends, and a parsed statement is kept or diagnosed (R-BLOCKKEEP).",
		NotDecided:  "That each static check's predicate is right for every program (scope, type and termination predicates are value-level).",
		Assumptions: []string{"advancePastNL is the only routine that discards more than one token"},
		Rules:       []*Rule{ruleEOLState, ruleParseGate, ruleTermConj, ruleScopePairParser, ruleListUse, ruleTypeRel, ruleBlindAdv, ruleDeclCheck, ruleBlockKeep},
	})
}

func init() {
	Register(&Property{
		ID: "C03",
		Explanation: "Decides structural necessary conditions of total parsing: the result of a parser function that can return nil (the 'previous " +
			"error' marker) is never dereferenced without a dominating non-nil test (R-NILRET, interprocedural source set, one-level callee " +
			"summaries); no variable with an unresolved type enters a scope (R-SCOPETYPE); no non-literal expression carries a convertible " +
			"composite type into wrapAny, and no type that is fixed still contains the open type of an empty literal — the classes behind the confirmed " +
			"internal-error panics (R-FIXED, R-CONCRETE); lexing and parsing terminate: the token/rune position only moves forward, every token-driven loop " +
			"makes progress on every path around it, no recursion is reachable without progress, and loops leave at the end of the input (R-PROGRESS); the main " +
			"pass runs only after an error-free signature pre-pass, whose nil types it would dereference (R-PARSEGATE); a diagnostic computed from a token that was already stepped past is located at that token, not at the current one (R-ERRLOC).",
		NotDecided:  "Index ranges in general, nil values that travel through fields of nodes built elsewhere, stack depth for deeply nested input, and that line/column arithmetic in the lexer is correct (value-level).",
		Assumptions: []string{"field-borne nils are not tracked"},
		Rules:       []*Rule{ruleNilRet, ruleScopeType, ruleFixed, ruleConcrete, ruleLexBound, ruleIndexGuard, ruleProgress, ruleParseGate, ruleErrLoc},
	})
	Register(&Property{
		ID: "C04",
		Explanation: "Decides the structural part of the typing rules: the literal/non-literal distinction on which assignability rests is applied at " +
			"every expression-node, variable and return-type constructor (R-FIXED); every acceptance is followed by wrapAny with the same target " +
			"(R-ACCEPTWRAP); inference of a map literal's type does not depend on Go map order (R-MAPRANGE); fixed types are concrete (R-CONCRETE); in accepts and " +
			"matches the wildcard cases (empty literal, generic parameter) apply only between types of the same kind (R-TYPEREL); range operands are consumed whole " +
			"or diagnosed (R-LISTUSE); declarations pass the validator on the accepting edge (R-DECLCHECK).",
		NotDecided:  "The content of accepts/matches/combineTypes (which cells of the matrix are true) and the operand checks' predicates — value-level.",
		Assumptions: []string{},
		Rules:       []*Rule{ruleFixed, ruleConcrete, ruleTypeRel, ruleAcceptWrap, ruleMapRange, ruleListUse, ruleAssignTarget, ruleDeclCheck},
	})
	Register(&Property{
		ID: "C06",
		Explanation: "Decides structural necessary conditions of 'formatting loses nothing': every token the parser accepts is represented or " +
			"diagnosed and every end-of-line comment is recorded before its line is skipped (R-EOLSTATE, comment clause included); the formatter " +
			"has a case for every node kind, so it never prints its placeholder (R-EXHAUST/format), and reads every source-bearing field of every " +
			"node type (R-FIELDCOV/format); every array/map literal node is registered in the layout table on every path that returns it (R-LAYOUTKEY); " +
			"the text of a string literal reaches the output only through strconv.Quote (R-INDENTPAIR); parsed operand lists are never partly dropped (R-LISTUSE); " +
			"the parser never steps over a token it has not examined (R-BLINDADV); a binary expression parsed where white space separates elements is recorded and printed without spaces (R-WSSKEEP); a statement that was parsed is kept in the tree or diagnosed (R-BLOCKKEEP).",
		NotDecided:  "Token-sequence equality, re-parse equality, comment placement inside multi-line literals, expression re-binding — these need the output text.",
		Assumptions: []string{},
		Rules:       []*Rule{ruleEOLState, exhaustRule("format", 25), fieldCovRule("format"), ruleLayoutKey, ruleNoInPlace, ruleIndentPair, ruleListUse, ruleBlindAdv, ruleWSSKeep, ruleBlockKeep},
	})
}

func init() {
	Register(&Property{
		ID: "C01",
		Explanation: "Decides the structural part of expression semantics: the Pratt binding powers agree with the specification's precedence list, " +
			"every binary operator token has one, unary and index bind tighter, equal powers associate to the left (R-PREC); operands, index and " +
			"slice bounds, range triples, list elements and map-literal values are evaluated left to right, and/or skip their right operand exactly " +
			"under the documented conditions (R-EVALORDER, R-MAPRANGE); the operator×operand matrix implemented by the evaluator and admitted by " +
			"the parser equals the specification's table (R-DISPATCH); every operator case computes the Go operation its symbol stands for on (left, right) in this order, " +
			"in the evaluator and — through the compiler's operator→opcode table — on the VM (R-OPSEM); concatenation and repetition build their own storage and repetition " +
			"deep-copies also through an any (R-FRESH, R-EVALMISC); == on arrays compares lengths and then element i with element i, false on the first difference, true only behind the loop; on basic values it is == of the payloads, on an any type and value (R-EQDEEP, R-MAPEQ).",
		NotDecided:  "IEEE arithmetic of the Go operators themselves, the whitespace-sensitive tokenisation, what print renders for each value.",
		Assumptions: []string{"docs/spec.md keeps its `## Precedence` numbered list and its operator table (otherwise the check is undecided, never silent)"},
		Rules:       []*Rule{rulePrec, ruleEvalOrder, ruleDispatch, ruleOpSem, ruleMapRange, ruleWSSClose, ruleMapEq, ruleEqDeep, ruleEvalMisc, ruleFresh},
	})
}

func init() {
	Register(&Property{
		ID: "C02",
		Explanation: "Decides structural necessary conditions of type soundness: every unchecked Go type assertion in a built-in is justified by the " +
			"declared signature that the parser enforces, every args[i] of a variadic built-in is behind a length guard, assertions on the content " +
			"of an any are comma-ok (R-BUILTINSIG); user numbers reach integer conversions and allocation sizes only through NaN/Inf/fraction-safe " +
			"guards (R-F2I with its allocation clause, evaluator); eval has a case for every node kind the parser defines and fails with an error " +
			"otherwise (R-EXHAUST/eval) and consumes every child field of every node type (R-FIELDCOV/eval); accepted values enter any-typed slots only through wrapAny (R-ACCEPTWRAP); non-literal expressions never " +
			"carry a convertible type into wrapAny (R-FIXED); scopes are paired so a variable's run-time value has its static type (R-SCOPEPAIR/evaluator); every variable enters a static scope through the declaration validator, which never lets a name shadow a built-in global, a function or a variable of the same scope (R-DECLCHECK); containers built by the evaluator own their storage, so no operation on one value corrupts the representation of another (R-FRESH); the loop variable is created after the range operands were evaluated (R-LOOPVARINIT); the index normalisers return positions within bounds, so no accepted index reaches a Go slice out of range (R-IDXPOST).",
		NotDecided:  "That the parser's typing of operands matches the evaluator's assertions in evalBinaryExpr/normalizeIndex beyond the operator matrix, panics inside the Go standard library for exotic values, memory exhaustion.",
		Assumptions: []string{"element assertions inside array arguments (poly) are not checked"},
		Rules:       []*Rule{ruleBuiltinSig, f2iRule("pkg/evaluator", 4), exhaustRule("eval", 25), fieldCovRule("eval"), ruleAcceptWrap, ruleFixed, ruleScopePairEval, ruleMapEq, ruleTermConj, ruleEvalMisc, ruleAssignTarget, ruleDeclCheck, ruleFresh, ruleLoopVarInit, idxPostRule("pkg/evaluator")},
	})
	Register(&Property{
		ID: "C13",
		Explanation: "Decides the structural part of 'built-ins do what the documentation says': names, arities, parameter and result types of all " +
			"built-ins agree between docs/builtins.md, the declaration table and the implementation (R-BUILTINSIG); number arguments that are " +
			"range-checked are checked NaN-safely and reach integer conversions only guarded (R-NANGUARD, R-F2I); the err/errmsg protocol: " +
			"str2num/str2bool reset the globals before anything else and set them only on the failure edge, and no other function touches them " +
			"(R-ERRPROTO); len/has/del/index use the rune view and the map representation (R-RUNES, R-MAPENC); the error that ends a run (exit, panic) is the " +
			"one returned by Eval (R-YIELD error clause); the message of test is a format only when operands follow it, str2bool decides on exactly the documented spellings (R-BUILTINSIG); " +
			"repr prints a key bare exactly when IsIdent says so, and IsIdent is safe for keywords (R-IDENTKEY).",
		NotDecided:  "Returned values and formatted text of the built-ins (value-level).",
		Assumptions: []string{},
		Rules:       []*Rule{ruleBuiltinSig, ruleNaNGuard, f2iRule("pkg/evaluator", 4), ruleErrProto, runesRule("pkg/evaluator", "stringVal", 4), ruleEvalMisc, ruleYield, ruleIdentKey},
	})
}

func init() {
	Register(&Property{
		ID: "C18",
		Explanation: "Decides the whole mechanism of `evy fmt -w`/`-c` structurally (R-ATOMICWRITE W1–W7): over the call graph rooted at the fmt command " +
			"only the temp-file primitives touch files; the temp file is created in the target's directory, written, given the target's permission " +
			"bits, closed and renamed in this order with every error tested and no failing edge reaching the rename; the writer runs only after a " +
			"successful format under -w with the formatter's output; --check compares the input with the formatter's own output and fails exactly on " +
			"the unequal edge; an error for one file ends the command with that error. Given these, at every system-call boundary the target is " +
			"either untouched or atomically replaced by a complete temp file.",
		NotDecided:  "File-system semantics of rename(2), leftover temp files after a crash, umask effects inside os.CreateTemp.",
		Assumptions: []string{"os.Rename within one directory is atomic"},
		Rules:       []*Rule{ruleAtomicWrite},
	})
}

func init() {
	Register(&Property{
		ID: "C19",
		Explanation: "Decides the drawing discipline of the SVG platform structurally (R-SVG): coordinate roles taken from the GraphicsPlatform " +
			"interface go through the matching transform and x/y siblings are computed symmetrically; style methods flush pending shapes before " +
			"the pen changes and set their attributes unconditionally; each drawing method queues exactly one element on every path; Push consults " +
			"an element's own attributes; grid steps are validated; no style value is dead-stored; bytes reach the writer only through the XML " +
			"encoder and no string field is raw inner XML; the graphics built-ins agree with their declarations (R-BUILTINSIG); `evy run` has no deferred work pending when it exits, so the SVG file is complete also for a program that ends with an error or with exit (R-EXITDEFER), and the file is created empty, never written over its old content (R-OUTFILE).",
		NotDecided:  "The grouping outcome for arbitrary style histories beyond these clauses, numeric formatting, the sign flip of the y extent in Rect.",
		Assumptions: []string{},
		Rules:       []*Rule{ruleSVG, ruleBuiltinSig, ruleExitDefer, ruleOutFile},
	})
}

func init() {
	Register(&Property{
		ID: "C16",
		Explanation: "Decides structural necessary conditions of 'the VM behaves like the evaluator': the compiler rejects what it cannot translate " +
			"(R-EXHAUST/Compile) and consumes every child field of the node kinds it accepts (R-FIELDCOV/Compile); compiler and evaluator implement the same operator matrix or the compiler rejects the rest (R-DISPATCH); the same " +
			"scope structure for loop variables (R-LOOPVARSCOPE) and the same declaration order (initialiser before definition); the same value " +
			"discipline: fresh containers, no lost updates on by-value copies (R-VMVALUES); strings handled by code point (R-RUNES/pkg/bytecode); " +
			"user numbers become indexes only through NaN/fraction-safe guards, loop counts taken from user numbers are bounded (R-F2I/pkg/bytecode); repetition " +
			"deep-copies per repetition and a zero step is rejected, as in the evaluator (R-VMVALUES); slot requirements are propagated on every path as a maximum " +
			"of absolute indexes and nested tables continue the outer numbering (R-SLOTMAX); every operator reaches, through the compiler's table, an opcode that computes what the operator stands for (R-OPSEM); " +
			"every placeholder jump is patched (R-JUMPPATCH) and the translation of every node kind is stack-neutral or leaves exactly its value, so no statement runs on another statement's operands (R-STACKEFFECT).",
		NotDecided:  "Equality of final globals in general; slot arithmetic of the symbol table beyond the clauses above.",
		Assumptions: []string{},
		Rules:       []*Rule{exhaustRule("Compile", 20), fieldCovRule("Compile"), ruleDispatch, ruleOpSem, ruleLoopVarScope, ruleVMValues, runesRule("pkg/bytecode", "stringVal", 4), f2iRule("pkg/bytecode", 2), ruleSlotMax, ruleJumpPatch, ruleStackEffect, ruleEqDeep, ruleConstPool},
	})
}

func init() {
	Register(&Property{
		ID: "C20",
		Explanation: "Decides structural necessary conditions of 'sealed answers round-trip and verification is exact' (R-CRYPTO, learn module): the " +
			"symmetric layer is an AEAD so tampering is rejected; every error of the decode/decrypt chain is returned before the value is used; the " +
			"envelope is sliced behind length checks; both directions agree on hash, label, nonce, additional data and header layout; the crypto " +
			"functions keep no package state (any key pair round-trips in any order); verifyChoiceMatch rejects on both conditions using the exact " +
			"outputs and accepts only after the loop over all outputs; match verification is gated by isMatchQuestion; the length field of the envelope is len() of " +
			"the RSA ciphertext that follows it; no function on the construction/verification path writes package-level state, and only Seal/Unseal write a front matter's Answer/SealedAnswer; the marked set is examined as a whole, so a mark without a choice is rejected.",
		NotDecided:  "Round-trip equality and tamper rejection as such (they follow from the primitives given these clauses); the iff of verifyChoiceMatch over all output assignments (decided only clause by clause: both rejecting conditions, acceptance after the whole loop, marks without a choice).",
		Assumptions: []string{"crypto/aes, crypto/cipher, crypto/rsa behave as documented"},
		Rules:       []*Rule{ruleCrypto},
	})
}

func init() {
	Register(&Property{
		ID: "C07",
		Explanation: "Decides the structural clauses of canonical formatting: indentation changes are balanced on all paths and written as four spaces " +
			"per level, other formatter state written by a re-entrant function is restored on every return path, comments are written through TrimSpace, number literals are printed in the only notation the lexer accepts (R-INDENTPAIR); " +
			"`--check` compares the input with the formatter's own output and fails exactly on the unequal edge, and an unformatted file ends a " +
			"multi-file run with a non-zero status (R-ATOMICWRITE W5–W7); the blank line before a func and its leading comments is placed behind the statement that directly precedes them, " +
			"which is what makes a second pass find it in place (R-BLANKBEFORE).",
		NotDecided:  "Idempotence in general, the squeezing of runs of blank lines, trailing whitespace in general, the final newline — properties of the produced text.",
		Assumptions: []string{},
		Rules:       []*Rule{ruleIndentPair, ruleAtomicWrite, ruleNoInPlace, ruleBlankBefore},
	})
	Register(&Property{
		ID: "C15",
		Explanation: "Decides the event mechanism structurally: a handler body runs in a fresh function scope over the global scope, pushed before the " +
			"first parameter is bound and restored on every exit (R-SCOPEPAIR/evaluator); payload slot i is bound to declared parameter i behind " +
			"the length guard; handler parameters are compared with the built-in signature by exact type equality, in number and type, and a " +
			"handler is registered only for a known event without a handler; the browser queue is first-in first-out (R-EVENTS); errors of a " +
			"handler run are returned (R-YIELD error clause); payload values are never updated in place (R-IMMUT).",
		NotDecided:  "Cumulative effects of event sequences (history-level).",
		Assumptions: []string{},
		Rules:       []*Rule{ruleEvents, ruleScopePairEval, ruleYield, ruleImmut},
	})
}
