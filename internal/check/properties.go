package check

func init() {
	Register(&Property{
		ID: "C08",
		Explanation: "Decides the structural clause of determinism: no observable (parse errors, static types, evaluation order, " +
			"printed text, drawing commands) depends on Go map iteration order (R-MAPRANGE over every range-over-map loop of all " +
			"packages in scope, default and tinygo configurations, with callees classified against order sinks over the CHA call graph), " +
			"and the only time/random sources are the seedable RandSource (R-TIMESOURCE).",
		NotDecided:  "Nothing about the values computed; only that map order, time and addresses cannot reach an observable.",
		Assumptions: []string{"single goroutine (checked: no go statement in scope)", "stores into Go maps inside a map-range loop use distinct keys per iteration", "sort keys used after append-in-map-order are injective"},
		Rules:       []*Rule{ruleMapRange, ruleTimeSource},
	})
}

// ThoroughExtras runs the thorough-only machinery (mutant self-test, cross references).
func ThoroughExtras(c *Ctx, prop *Property) map[string]any {
	return map[string]any{}
}
