package check

import (
	"fmt"
	"go/ast"
	"go/constant"
	"go/token"
	"go/types"
	"os"
	"path/filepath"
	"regexp"
	"sort"
	"strings"

	"golang.org/x/tools/go/packages"
	"golang.org/x/tools/go/ssa"
)

// builtinEntry is one row of the table in newBuiltins.
type builtinEntry struct {
	name     string
	pos      token.Pos
	decl     *declInfo
	body     *ast.BlockStmt // body of the implementing function / closure
	argsName string         // name of the []value parameter
	argsObj  types.Object
	fnDesc   string
}

type declInfo struct {
	params   []string // type strings
	variadic string   // "" if none
	ret      string
}

var valTypeOf = map[string]string{"num": "numVal", "string": "stringVal", "bool": "boolVal", "any": "anyVal"}

func expectedValType(t string) string {
	if v, ok := valTypeOf[t]; ok {
		return v
	}
	if strings.HasPrefix(t, "[]") {
		return "arrayVal"
	}
	if strings.HasPrefix(t, "{}") {
		return "mapVal"
	}
	return "?"
}

// parserTypeString renders a parser.Type expression (interned var, package var, composite literal).
func parserTypeString(pkg *packages.Package, e ast.Expr, depth int) string {
	if depth > 4 || e == nil {
		return "?"
	}
	switch x := ast.Unparen(e).(type) {
	case *ast.SelectorExpr:
		switch x.Sel.Name {
		case "NUM_TYPE":
			return "num"
		case "STRING_TYPE":
			return "string"
		case "BOOL_TYPE":
			return "bool"
		case "ANY_TYPE":
			return "any"
		case "NONE_TYPE":
			return "none"
		case "GENERIC_ARRAY":
			return "[]"
		case "GENERIC_MAP":
			return "{}"
		}
	case *ast.Ident:
		if init := pkgVarInit(pkg, x.Name); init != nil {
			return parserTypeString(pkg, init, depth+1)
		}
	case *ast.UnaryExpr:
		return parserTypeString(pkg, x.X, depth+1)
	case *ast.CompositeLit:
		name, sub := "", "?"
		for _, el := range x.Elts {
			kvp, ok := el.(*ast.KeyValueExpr)
			if !ok {
				continue
			}
			k, _ := kvp.Key.(*ast.Ident)
			if k == nil {
				continue
			}
			switch k.Name {
			case "Name":
				name = types.ExprString(kvp.Value)
			case "Sub":
				sub = parserTypeString(pkg, kvp.Value, depth+1)
			}
		}
		switch {
		case strings.HasSuffix(name, "ARRAY"):
			return "[]" + sub
		case strings.HasSuffix(name, "MAP"):
			return "{}" + sub
		}
	}
	return "?"
}

// funcDeclOf finds the FuncDecl of a package-level function by name.
func funcDeclOf(pkg *packages.Package, name string) *FuncDecl {
	return FindFunc(pkg, name)
}

// declFromExpr resolves a *parser.FuncDefStmt expression: package var, helper call, or literal.
func declFromExpr(pkg *packages.Package, e ast.Expr, depth int) *declInfo {
	if depth > 4 || e == nil {
		return nil
	}
	switch x := ast.Unparen(e).(type) {
	case *ast.Ident:
		if init := pkgVarInit(pkg, x.Name); init != nil {
			return declFromExpr(pkg, init, depth+1)
		}
	case *ast.UnaryExpr:
		return declFromExpr(pkg, x.X, depth+1)
	case *ast.CallExpr:
		if id, ok := x.Fun.(*ast.Ident); ok {
			if fd := funcDeclOf(pkg, id.Name); fd != nil {
				// helper returning a literal
				var res *declInfo
				ast.Inspect(fd.Decl.Body, func(n ast.Node) bool {
					if ret, ok := n.(*ast.ReturnStmt); ok && len(ret.Results) == 1 && res == nil {
						res = declFromExpr(pkg, ret.Results[0], depth+1)
					}
					return true
				})
				return res
			}
		}
	case *ast.CompositeLit:
		d := &declInfo{ret: "none"}
		for _, el := range x.Elts {
			kvp, ok := el.(*ast.KeyValueExpr)
			if !ok {
				continue
			}
			k, _ := kvp.Key.(*ast.Ident)
			if k == nil {
				continue
			}
			switch k.Name {
			case "ReturnType":
				d.ret = parserTypeString(pkg, kvp.Value, 0)
			case "VariadicParam":
				d.variadic = varTypeString(pkg, kvp.Value)
			case "Params":
				if cl, ok := kvp.Value.(*ast.CompositeLit); ok {
					for _, pe := range cl.Elts {
						d.params = append(d.params, varTypeString(pkg, pe))
					}
				}
			}
		}
		return d
	}
	return nil
}

func varTypeString(pkg *packages.Package, e ast.Expr) string {
	switch x := ast.Unparen(e).(type) {
	case *ast.UnaryExpr:
		return varTypeString(pkg, x.X)
	case *ast.CompositeLit:
		for _, el := range x.Elts {
			if kvp, ok := el.(*ast.KeyValueExpr); ok {
				if k, ok := kvp.Key.(*ast.Ident); ok && k.Name == "T" {
					return parserTypeString(pkg, kvp.Value, 0)
				}
			}
		}
	}
	return "?"
}

// implFromExpr resolves the implementing body: function, conversion of one, or factory returning a closure.
func implFromExpr(pkg *packages.Package, e ast.Expr, depth int) (*ast.BlockStmt, *ast.FuncType, string) {
	if depth > 4 || e == nil {
		return nil, nil, ""
	}
	info := pkg.TypesInfo
	switch x := ast.Unparen(e).(type) {
	case *ast.Ident:
		if fd := funcDeclOf(pkg, x.Name); fd != nil {
			return fd.Decl.Body, fd.Decl.Type, x.Name
		}
	case *ast.FuncLit:
		return x.Body, x.Type, "closure"
	case *ast.CallExpr:
		if _, conv := isConversion(info, x); conv && len(x.Args) == 1 {
			return implFromExpr(pkg, x.Args[0], depth+1)
		}
		if id, ok := x.Fun.(*ast.Ident); ok {
			if fd := funcDeclOf(pkg, id.Name); fd != nil {
				// factory: returns a func literal
				var body *ast.BlockStmt
				var ft *ast.FuncType
				ast.Inspect(fd.Decl.Body, func(n ast.Node) bool {
					if ret, ok := n.(*ast.ReturnStmt); ok && len(ret.Results) == 1 && body == nil {
						if fl, ok := ret.Results[0].(*ast.FuncLit); ok {
							body, ft = fl.Body, fl.Type
						}
					}
					return true
				})
				return body, ft, id.Name + "(…)"
			}
		}
	}
	return nil, nil, ""
}

// loadBuiltinTable parses the `funcs` table of newBuiltins.
func loadBuiltinTable(pkg *packages.Package) ([]*builtinEntry, string) {
	nb := FindFunc(pkg, "newBuiltins")
	if nb == nil {
		return nil, "newBuiltins not found"
	}
	var table *ast.CompositeLit
	ast.Inspect(nb.Decl.Body, func(n ast.Node) bool {
		if cl, ok := n.(*ast.CompositeLit); ok && table == nil {
			if mt, ok := pkg.TypesInfo.TypeOf(cl).Underlying().(*types.Map); ok {
				if isNamed(mt.Elem(), pkg.PkgPath, "builtin") {
					table = cl
				}
			}
		}
		return true
	})
	if table == nil {
		return nil, "map[string]builtin literal not found in newBuiltins"
	}
	var out []*builtinEntry
	for _, el := range table.Elts {
		kvp, ok := el.(*ast.KeyValueExpr)
		if !ok {
			continue
		}
		name, ok := constString(pkg.TypesInfo, kvp.Key)
		if !ok {
			return nil, "non-constant key in builtin table"
		}
		ent := &builtinEntry{name: name, pos: kvp.Pos()}
		var funcExpr, declExpr ast.Expr
		switch v := kvp.Value.(type) {
		case *ast.CompositeLit:
			for _, fe := range v.Elts {
				if f, ok := fe.(*ast.KeyValueExpr); ok {
					if k, ok := f.Key.(*ast.Ident); ok {
						switch k.Name {
						case "Func":
							funcExpr = f.Value
						case "Decl":
							declExpr = f.Value
						}
					}
				}
			}
		case *ast.CallExpr:
			// helper such as xybuiltin("move", rt.Move): Decl and Func are set inside the helper
			if id, ok := v.Fun.(*ast.Ident); ok {
				if fd := funcDeclOf(pkg, id.Name); fd != nil {
					ast.Inspect(fd.Decl.Body, func(n ast.Node) bool {
						switch x := n.(type) {
						case *ast.KeyValueExpr:
							if k, ok := x.Key.(*ast.Ident); ok && k.Name == "Decl" && declExpr == nil {
								declExpr = x.Value
							}
							if k, ok := x.Key.(*ast.Ident); ok && k.Name == "Func" && funcExpr == nil {
								funcExpr = x.Value
							}
						case *ast.AssignStmt:
							if len(x.Lhs) == 1 {
								if sel, ok := x.Lhs[0].(*ast.SelectorExpr); ok && sel.Sel.Name == "Func" && funcExpr == nil {
									funcExpr = x.Rhs[0]
								}
								if sel, ok := x.Lhs[0].(*ast.SelectorExpr); ok && sel.Sel.Name == "Decl" && declExpr == nil {
									declExpr = x.Rhs[0]
								}
							}
						}
						return true
					})
				}
			}
		}
		ent.decl = declFromExpr(pkg, declExpr, 0)
		body, ft, desc := implFromExpr(pkg, funcExpr, 0)
		ent.body, ent.fnDesc = body, desc
		if ft != nil && ft.Params != nil && len(ft.Params.List) >= 2 {
			last := ft.Params.List[len(ft.Params.List)-1]
			if len(last.Names) == 1 {
				ent.argsName = last.Names[0].Name
				ent.argsObj = pkg.TypesInfo.Defs[last.Names[0]]
			}
		}
		out = append(out, ent)
	}
	return out, ""
}

// ---------------------------------------------------------------------------
// R-BUILTINSIG

var ruleBuiltinSig = &Rule{
	ID:    "R-BUILTINSIG",
	Doc:   "for every built-in of the table in newBuiltins: each unchecked Go type assertion args[i].(*T) agrees with the declared parameter type that the parser enforces; for variadic built-ins every args[i] is behind a length guard implying len(args) > i; assertions on the content of an `any` are comma-ok (or reviewed); the documentation (docs/builtins.md) names every built-in and states the same result type and parameter types",
	Floor: 100,
	Run:   runBuiltinSig,
}

// anyContentExempt: unchecked assertions on the content of an any, reviewed.
var anyContentExempt = map[string]string{
	"test":        "args[0].(*anyVal).V.(*boolVal) with one argument: validateTestArgs (called first, error returned) has checked this very assertion comma-ok for len(args) == 1",
	"testMessage": "args[2].(*anyVal).V.(*stringVal): validateTestArgs has checked this assertion comma-ok for len(args) > 2 before testFunc calls testMessage",
}

func runBuiltinSig(c *Ctx, r *Reporter) {
	p, pkg := evaluatorPkg(c, r)
	if pkg == nil {
		return
	}
	table, why := loadBuiltinTable(pkg)
	if table == nil {
		r.Undecided("%s", why)
		return
	}
	info := pkg.TypesInfo
	// summaries of helper functions taking the args slice: guaranteed minimum length after a nil-error return
	for _, ent := range table {
		construct := "builtin:" + ent.name
		pos := p.Rel(ent.pos)
		if ent.decl == nil {
			r.Viol(construct+"#decl", pos, "cannot resolve the declaration (signature) of built-in "+ent.name)
			continue
		}
		if ent.body == nil || ent.argsName == "" {
			r.Viol(construct+"#impl", pos, "cannot resolve the implementation of built-in "+ent.name)
			continue
		}
		for _, t := range append(append([]string{}, ent.decl.params...), ent.decl.variadic, ent.decl.ret) {
			if strings.Contains(t, "?") {
				r.Viol(construct+"#decl", pos, "unrecognised parameter/return type expression in the declaration of "+ent.name)
			}
		}
		checkBuiltinBody(p, pkg, info, ent, ent.body, ent.argsObj, ent.name, 0, r)
	}
	// documentation
	checkBuiltinDocs(c, p, pkg, table, r)
	checkDocumentedSpellings(c, p, pkg, r)
}

// checkDocumentedSpellings: where the documentation of a built-in enumerates the exact strings it accepts
// (str2bool: "true", "True", "TRUE", "1", "false", "False", "FALSE", "0"), the implementation decides on exactly
// these string constants — in its own body or in a helper of the package it calls — and does not hand the decision
// to a library parser that accepts more (strconv.ParseBool also takes "t", "T", "f", "F").
func checkDocumentedSpellings(c *Ctx, p *Program, pkg *packages.Package, r *Reporter) {
	b, err := os.ReadFile(filepath.Join(c.Repo, "docs", "builtins.md"))
	if err != nil {
		r.Undecided("docs/builtins.md: %v", err)
		return
	}
	for _, spec := range []struct{ name, impl string }{{"str2bool", "str2boolFunc"}} {
		// section of the built-in, code fences removed
		var sec []string
		in, fence := false, false
		for _, line := range strings.Split(string(b), "\n") {
			if strings.HasPrefix(line, "### ") || strings.HasPrefix(line, "## ") {
				in = strings.TrimSpace(strings.Trim(strings.TrimLeft(line, "# "), "`")) == spec.name
				continue
			}
			if !in {
				continue
			}
			if strings.HasPrefix(strings.TrimSpace(line), "```") {
				fence = !fence
				continue
			}
			if !fence {
				sec = append(sec, line)
			}
		}
		doc := map[string]bool{}
		for _, m := range regexp.MustCompile("`\"([^\"`]*)\"`").FindAllStringSubmatch(strings.Join(sec, "\n"), -1) {
			doc[m[1]] = true
		}
		construct := "builtin:" + spec.name + "#documented-spellings"
		if len(doc) < 2 {
			r.Undecided("docs/builtins.md: the section of %s does not enumerate accepted strings any more", spec.name)
			continue
		}
		fd := FindFunc(pkg, spec.impl)
		if fd == nil {
			r.Undecided("%s not found", spec.impl)
			continue
		}
		impl := map[string]bool{}
		library := ""
		var visit func(fn *ssa.Function, depth int)
		seen := map[*ssa.Function]bool{}
		visit = func(fn *ssa.Function, depth int) {
			if fn == nil || seen[fn] || depth > 2 {
				return
			}
			seen[fn] = true
			for _, blk := range fn.Blocks {
				for _, ins := range blk.Instrs {
					switch x := ins.(type) {
					case *ssa.BinOp:
						if x.Op == token.EQL || x.Op == token.NEQ {
							for _, o := range []ssa.Value{x.X, x.Y} {
								if k, ok := o.(*ssa.Const); ok && k.Value != nil && k.Value.Kind() == constant.String {
									impl[constant.StringVal(k.Value)] = true
								}
							}
						}
					case *ssa.Call:
						sc := x.Call.StaticCallee()
						if sc == nil || sc.Pkg == nil {
							continue
						}
						if sc.Pkg.Pkg == pkg.Types {
							if n := sc.Name(); n != "resetGlobalErr" && n != "setGlobalErr" {
								visit(sc, depth+1)
							}
						} else if sc.Pkg.Pkg.Path() == "strconv" && strings.HasPrefix(sc.Name(), "Parse") {
							library = "strconv." + sc.Name()
						}
					}
				}
			}
		}
		visit(p.SSAFunc(fd.Obj), 0)
		switch {
		case library != "":
			r.Viol(construct, p.Rel(fd.Decl.Pos()), fmt.Sprintf("the documentation of %s lists the accepted strings (%s), but the implementation hands the decision to %s, which accepts further spellings (t, T, f, F): they convert without setting err", spec.name, setString(doc), library))
		case !sameSet(doc, impl):
			r.Viol(construct, p.Rel(fd.Decl.Pos()), fmt.Sprintf("the documentation of %s lists the accepted strings {%s}, the implementation decides on {%s}", spec.name, setString(doc), setString(impl)))
		default:
			r.Ok(construct, p.Rel(fd.Decl.Pos()), "the implementation decides on exactly the documented strings: "+setString(doc))
		}
	}
}

type lenFacts struct{ lo int }

// checkBuiltinBody walks the statements of an implementation tracking a lower bound on len(args).
func checkBuiltinBody(p *Program, pkg *packages.Package, info *types.Info, ent *builtinEntry, body *ast.BlockStmt, args types.Object, label string, lo int, r *Reporter) {
	w := &argWalker{p: p, pkg: pkg, info: info, ent: ent, args: args, label: label, r: r, aliases: map[types.Object]bool{}, rangeVars: map[types.Object]bool{}, seen: map[string]int{}}
	w.block(body.List, lo)
}

type argWalker struct {
	p         *Program
	pkg       *packages.Package
	info      *types.Info
	ent       *builtinEntry
	args      types.Object
	label     string
	r         *Reporter
	aliases   map[types.Object]bool // argLen := len(args)
	rangeVars map[types.Object]bool // for _, arg := range args
	seen      map[string]int
	msgVars   map[types.Object]bool // locals computed from args (msg := args[2]…)
	subs      map[types.Object]int  // operands := args[3:]  →  3 (len(operands) is len(args)-3)
}

func (w *argWalker) isArgs(e ast.Expr) bool {
	id, ok := ast.Unparen(e).(*ast.Ident)
	return ok && w.info.ObjectOf(id) == w.args
}

// lenOffset: e is len(args)-k for a known k ≥ 0: len(args), an alias of it, or len(s) for s := args[k:].
func (w *argWalker) lenOffset(e ast.Expr) (int, bool) {
	if w.lenOfArgs(e) {
		return 0, true
	}
	if call, ok := ast.Unparen(e).(*ast.CallExpr); ok && isBuiltinCall(w.info, call, "len") && len(call.Args) == 1 {
		if id, ok := ast.Unparen(call.Args[0]).(*ast.Ident); ok {
			if k, ok := w.subs[w.info.ObjectOf(id)]; ok {
				return k, true
			}
		}
	}
	return 0, false
}

// lenOfArgs: e is len(args) or an alias variable.
func (w *argWalker) lenOfArgs(e ast.Expr) bool {
	e = ast.Unparen(e)
	if call, ok := e.(*ast.CallExpr); ok && isBuiltinCall(w.info, call, "len") && len(call.Args) == 1 && w.isArgs(call.Args[0]) {
		return true
	}
	if id, ok := e.(*ast.Ident); ok && w.aliases[w.info.ObjectOf(id)] {
		return true
	}
	return false
}

// condBounds: given cond, return (lo if cond true, lo if cond false) improvements (−1 = none).
func (w *argWalker) condBounds(cond ast.Expr, lo int) (int, int) {
	if ue, ok := ast.Unparen(cond).(*ast.UnaryExpr); ok && ue.Op == token.NOT {
		t, f := w.condBounds(ue.X, lo)
		return f, t
	}
	be, ok := ast.Unparen(cond).(*ast.BinaryExpr)
	if !ok {
		return lo, lo
	}
	switch be.Op {
	case token.LOR:
		// false branch: both disjuncts false
		_, f1 := w.condBounds(be.X, lo)
		_, f2 := w.condBounds(be.Y, max(lo, f1))
		return lo, max(f1, f2)
	case token.LAND:
		t1, _ := w.condBounds(be.X, lo)
		t2, _ := w.condBounds(be.Y, max(lo, t1))
		return max(t1, t2), lo
	}
	off, isLen := w.lenOffset(be.X)
	if !isLen {
		return lo, lo
	}
	k, ok := constInt(w.info, be.Y)
	if !ok {
		return lo, lo
	}
	n := int(k) + off // len(args[off:]) ⋈ k  ⟺  len(args) ⋈ k+off, given len(args) ≥ off, which the slicing itself needs
	switch be.Op {
	case token.LSS: // len < n : false ⇒ len >= n
		return lo, max(lo, n)
	case token.LEQ: // len <= n : false ⇒ len >= n+1
		return lo, max(lo, n+1)
	case token.GTR: // len > n : true ⇒ len >= n+1
		return max(lo, n+1), lo
	case token.GEQ:
		return max(lo, n), lo
	case token.EQL: // len == n : true ⇒ len >= n ; false with lo == n ⇒ lo = n+1
		f := lo
		if lo == n {
			f = n + 1
		}
		return max(lo, n), f
	case token.NEQ:
		t := lo
		if lo == n {
			t = n + 1
		}
		return t, max(lo, n)
	}
	return lo, lo
}

func terminates(list []ast.Stmt) bool {
	if len(list) == 0 {
		return false
	}
	switch x := list[len(list)-1].(type) {
	case *ast.ReturnStmt:
		return true
	case *ast.ExprStmt:
		if call, ok := x.X.(*ast.CallExpr); ok {
			if id, ok := call.Fun.(*ast.Ident); ok && id.Name == "panic" {
				return true
			}
		}
	}
	return false
}

// block walks statements; returns the lower bound holding after the list.
func (w *argWalker) block(list []ast.Stmt, lo int) int {
	for _, st := range list {
		lo = w.stmt(st, lo)
	}
	return lo
}

func (w *argWalker) stmt(st ast.Stmt, lo int) int {
	switch x := st.(type) {
	case *ast.IfStmt:
		if x.Init != nil {
			lo = w.stmt(x.Init, lo)
			// if err := validate(args); err != nil { return } : callee guarantee
			if as, ok := x.Init.(*ast.AssignStmt); ok && len(as.Rhs) == 1 {
				if call, ok := as.Rhs[0].(*ast.CallExpr); ok {
					if g := w.calleeGuarantee(call); g > lo && terminates(x.Body.List) {
						w.exprs(x.Cond, lo)
						w.block(x.Body.List, lo)
						return g
					}
				}
			}
		}
		w.exprs(x.Cond, lo)
		t, f := w.condBounds(x.Cond, lo)
		w.block(x.Body.List, t)
		after := lo
		if x.Else != nil {
			switch e := x.Else.(type) {
			case *ast.BlockStmt:
				w.block(e.List, f)
			default:
				w.stmt(e, f)
			}
		}
		if terminates(x.Body.List) {
			after = f
		}
		return after
	case *ast.AssignStmt:
		for _, rhs := range x.Rhs {
			w.exprs(rhs, lo)
		}
		for _, lhs := range x.Lhs {
			w.exprs(lhs, lo)
		}
		if len(x.Lhs) == 1 && len(x.Rhs) == 1 {
			fromArgs := false
			ast.Inspect(x.Rhs[0], func(n2 ast.Node) bool {
				if id, ok := n2.(*ast.Ident); ok && w.info.ObjectOf(id) == w.args {
					fromArgs = true
				}
				return true
			})
			if id, ok := x.Lhs[0].(*ast.Ident); ok && fromArgs {
				if w.msgVars == nil {
					w.msgVars = map[types.Object]bool{}
				}
				w.msgVars[w.info.ObjectOf(id)] = true
			}
		}
		if len(x.Lhs) == 1 && len(x.Rhs) == 1 {
			if se, ok := ast.Unparen(x.Rhs[0]).(*ast.SliceExpr); ok && w.isArgs(se.X) && se.Low != nil && se.High == nil {
				if k, ok := constInt(w.info, se.Low); ok {
					if id, ok := x.Lhs[0].(*ast.Ident); ok && x.Tok == token.DEFINE {
						if w.subs == nil {
							w.subs = map[types.Object]int{}
						}
						w.subs[w.info.ObjectOf(id)] = int(k)
					}
				}
			}
		}
		if len(x.Lhs) == 1 && len(x.Rhs) == 1 && w.lenOfArgs(x.Rhs[0]) {
			if id, ok := x.Lhs[0].(*ast.Ident); ok {
				w.aliases[w.info.ObjectOf(id)] = true
			}
		}
		return lo
	case *ast.RangeStmt:
		w.exprs(x.X, lo)
		if w.isArgs(x.X) {
			if id, ok := x.Value.(*ast.Ident); ok {
				w.rangeVars[w.info.ObjectOf(id)] = true
			}
		}
		w.block(x.Body.List, lo)
		return lo
	case *ast.ForStmt:
		w.block(x.Body.List, lo)
		return lo
	case *ast.BlockStmt:
		return w.block(x.List, lo)
	case *ast.SwitchStmt:
		if x.Init != nil {
			lo = w.stmt(x.Init, lo)
		}
		if x.Tag == nil {
			// switch { case c1: … case c2: … }: an if-else chain
			f := lo
			after := -1
			join := func(b int) {
				if after < 0 || b < after {
					after = b
				}
			}
			var deflt *ast.CaseClause
			for _, cs := range x.Body.List {
				cc := cs.(*ast.CaseClause)
				if cc.List == nil {
					deflt = cc
					continue
				}
				t := f
				if len(cc.List) == 1 {
					w.exprs(cc.List[0], f)
					var nf int
					t, nf = w.condBounds(cc.List[0], f)
					end := w.block(cc.Body, t)
					if !terminates(cc.Body) {
						join(end)
					}
					f = nf
					continue
				}
				for _, e := range cc.List {
					w.exprs(e, f)
				}
				end := w.block(cc.Body, t)
				if !terminates(cc.Body) {
					join(end)
				}
			}
			if deflt != nil {
				end := w.block(deflt.Body, f)
				if !terminates(deflt.Body) {
					join(end)
				}
			} else {
				join(f)
			}
			if after < 0 {
				after = f // every clause leaves the function
			}
			return max(lo, after)
		}
		w.exprs(x.Tag, lo)
		if off, isLen := w.lenOffset(x.Tag); isLen {
			// switch len(args) { case 3, 4: … default: … }: in a clause the length is one of its constants
			after := -1
			join := func(b int) {
				if after < 0 || b < after {
					after = b
				}
			}
			hasDefault := false
			for _, cs := range x.Body.List {
				cc := cs.(*ast.CaseClause)
				t := lo
				if cc.List == nil {
					hasDefault = true
				} else {
					least, known := -1, true
					for _, e := range cc.List {
						k, ok := constInt(w.info, e)
						if !ok {
							known = false
							break
						}
						if v := int(k) + off; least < 0 || v < least {
							least = v
						}
					}
					if known && least > t {
						t = least
					}
				}
				end := w.block(cc.Body, t)
				if !terminates(cc.Body) {
					join(end)
				}
			}
			if !hasDefault {
				join(lo)
			}
			if after < 0 {
				after = lo
			}
			return max(lo, after)
		}
		for _, cc := range x.Body.List {
			w.block(cc.(*ast.CaseClause).Body, lo)
		}
		return lo
	case *ast.TypeSwitchStmt:
		if x.Init != nil {
			lo = w.stmt(x.Init, lo)
		}
		w.stmt(x.Assign, lo)
		for _, cc := range x.Body.List {
			w.block(cc.(*ast.CaseClause).Body, lo)
		}
		return lo
	case *ast.ReturnStmt:
		for _, e := range x.Results {
			w.exprs(e, lo)
		}
		return lo
	case *ast.ExprStmt:
		w.exprs(x.X, lo)
		return lo
	case *ast.DeclStmt, *ast.IncDecStmt, *ast.BranchStmt, *ast.EmptyStmt:
		return lo
	}
	return lo
}

// calleeGuarantee: call f(args) of a package function returning error: minimal len(args) on its nil returns.
func (w *argWalker) calleeGuarantee(call *ast.CallExpr) int {
	fn := calleeFunc(w.info, call)
	if fn == nil || fn.Pkg() != w.pkg.Types || len(call.Args) != 1 || !w.isArgs(call.Args[0]) {
		return -1
	}
	fd := FindFunc(w.pkg, fn.Name())
	if fd == nil || fd.Decl.Type.Params == nil || len(fd.Decl.Type.Params.List) != 1 || len(fd.Decl.Type.Params.List[0].Names) != 1 {
		return -1
	}
	inner := &argWalker{p: w.p, pkg: w.pkg, info: w.info, ent: w.ent, args: w.info.Defs[fd.Decl.Type.Params.List[0].Names[0]], label: fn.Name(), r: w.r, aliases: map[types.Object]bool{}, rangeVars: map[types.Object]bool{}, seen: w.seen}
	// walk top-level statements; the guarantee is the bound at the final `return nil`
	lo := 0
	for _, st := range fd.Decl.Body.List {
		lo = inner.stmt(st, lo)
	}
	return lo
}

// exprs inspects an expression for uses of args[i], args[i:], assertions and helper calls.
func (w *argWalker) exprs(e ast.Expr, lo int) {
	if e == nil {
		return
	}
	ast.Inspect(e, func(n ast.Node) bool {
		switch x := n.(type) {
		case *ast.FuncLit:
			return false
		case *ast.IndexExpr:
			if w.isArgs(x.X) {
				if k, ok := constInt(w.info, x.Index); ok {
					w.indexUse(x, int(k), lo)
				}
			}
		case *ast.SliceExpr:
			if w.isArgs(x.X) && x.Low != nil {
				if k, ok := constInt(w.info, x.Low); ok {
					w.sliceUse(x, int(k), lo)
				}
			}
		case *ast.TypeAssertExpr:
			w.assertion(x)
		case *ast.CallExpr:
			// `test want got "message"`: a message that comes without operands is printed as it is; only a message
			// followed by operands is a format. A call that formats with a format taken from the arguments is
			// therefore made only where at least one operand behind the message (len(args) ≥ 4) is established.
			if w.ent.name == "test" {
				wholeArgs := len(x.Args) == 1 && w.isArgs(x.Args[0]) // a helper that gets the whole list is walked with the current bound below
				if fn := calleeFunc(w.info, x); fn != nil && fn.Pkg() == w.pkg.Types && formatsWithUserString(w.p, w.pkg)[fn] && !wholeArgs {
					mentions := false
					for _, a := range x.Args {
						ast.Inspect(a, func(n2 ast.Node) bool {
							if id, ok := n2.(*ast.Ident); ok && (w.info.ObjectOf(id) == w.args || w.msgVars[w.info.ObjectOf(id)]) {
								mentions = true
							}
							return true
						})
					}
					if mentions {
						c := w.construct("message-is-a-format-only-with-operands")
						w.r.Check(lo >= 4, c, w.p.Rel(x.Pos()), fmt.Sprintf("the message is used as a format where len(args) ≥ %d is established", lo),
							fmt.Sprintf("the message of test is handed to %s as a format where only len(args) ≥ %d is established: `test 1 2 \"100%% full\"` (a message without operands, which the documentation says is printed as it is) is reported as `100%%!f(MISSING)ull`", fn.Name(), lo))
					}
				}
			}
			// helper taking the args slice (testMessage(args)): analyse with the current bound
			if fn := calleeFunc(w.info, x); fn != nil && fn.Pkg() == w.pkg.Types && len(x.Args) == 1 && w.isArgs(x.Args[0]) {
				if fd := FindFunc(w.pkg, fn.Name()); fd != nil && fd.Decl.Type.Params != nil && len(fd.Decl.Type.Params.List) == 1 && len(fd.Decl.Type.Params.List[0].Names) == 1 {
					key := "helper:" + fn.Name()
					if w.seen[key] == 0 {
						w.seen[key] = 1
						inner := &argWalker{p: w.p, pkg: w.pkg, info: w.info, ent: w.ent, args: w.info.Defs[fd.Decl.Type.Params.List[0].Names[0]], label: fn.Name(), r: w.r, aliases: map[types.Object]bool{}, rangeVars: map[types.Object]bool{}, seen: w.seen}
						inner.block(fd.Decl.Body.List, lo)
					}
				}
			}
		}
		return true
	})
}

func (w *argWalker) construct(kind string) string {
	key := w.ent.name + "/" + w.label + "#" + kind
	w.seen[key]++
	return fmt.Sprintf("builtin:%s/%s#%s[%d]", w.ent.name, w.label, kind, w.seen[key])
}

func (w *argWalker) indexUse(x *ast.IndexExpr, i, lo int) {
	d := w.ent.decl
	pos := w.p.Rel(x.Pos())
	if d.variadic == "" {
		c := w.construct(fmt.Sprintf("args[%d]", i))
		w.r.Check(i < len(d.params), c, pos, "within the declared parameter count", fmt.Sprintf("%s reads args[%d] but its declaration has %d parameter(s): the parser guarantees exactly that many arguments, so this index panics", w.label, i, len(d.params)))
		return
	}
	c := w.construct(fmt.Sprintf("args[%d]-guard", i))
	w.r.Check(lo > i, c, pos, fmt.Sprintf("guarded: len(args) ≥ %d here", lo), fmt.Sprintf("variadic built-in %s reads args[%d] where only len(args) ≥ %d is established: a call with fewer arguments crashes the host with an index-out-of-range panic", w.ent.name, i, lo))
}

func (w *argWalker) sliceUse(x *ast.SliceExpr, i, lo int) {
	if w.ent.decl.variadic == "" {
		return
	}
	c := w.construct(fmt.Sprintf("args[%d:]-guard", i))
	w.r.Check(lo >= i, c, w.p.Rel(x.Pos()), fmt.Sprintf("guarded: len(args) ≥ %d here", lo), fmt.Sprintf("variadic built-in %s slices args[%d:] where only len(args) ≥ %d is established", w.ent.name, i, lo))
}

// assertion checks x.(T) when x is args[i], a range variable over args, or the content (.V) of such an any.
func (w *argWalker) assertion(ta *ast.TypeAssertExpr) {
	if ta.Type == nil {
		return // type switch
	}
	named := namedOf(w.info.TypeOf(ta.Type))
	if named == nil {
		return
	}
	got := named.Obj().Name()
	d := w.ent.decl
	pos := w.p.Rel(ta.Pos())
	commaOK := w.isCommaOK(ta)
	inner := ast.Unparen(ta.X)
	// content of an any: <…>.(*anyVal).V.(*T)
	if sel, ok := inner.(*ast.SelectorExpr); ok && sel.Sel.Name == "V" {
		if ta2, ok := ast.Unparen(sel.X).(*ast.TypeAssertExpr); ok {
			if n2 := namedOf(w.info.TypeOf(ta2.Type)); n2 != nil && n2.Obj().Name() == "anyVal" {
				c := w.construct("any-content:" + got)
				switch {
				case commaOK:
					w.r.Ok(c, pos, "content of an any is asserted comma-ok")
				case anyContentExempt[w.label] != "":
					w.r.Exempt(c, pos, anyContentExempt[w.label])
				default:
					w.r.Viol(c, pos, fmt.Sprintf("%s asserts the content of an `any` argument to be *%s without comma-ok: the parser cannot guarantee the dynamic type, a different value crashes the host", w.label, got))
				}
				return
			}
		}
	}
	want := ""
	what := ""
	switch x := inner.(type) {
	case *ast.IndexExpr:
		if !w.isArgs(x.X) {
			return
		}
		k, ok := constInt(w.info, x.Index)
		if !ok {
			return
		}
		what = fmt.Sprintf("args[%d]", k)
		if d.variadic != "" {
			want = expectedValType(d.variadic)
		} else if int(k) < len(d.params) {
			want = expectedValType(d.params[k])
		} else {
			return // reported by indexUse
		}
	case *ast.Ident:
		if !w.rangeVars[w.info.ObjectOf(x)] {
			return
		}
		what = "element of args"
		if d.variadic != "" {
			want = expectedValType(d.variadic)
		} else {
			return
		}
	default:
		return
	}
	if commaOK {
		return
	}
	c := w.construct("assert:" + what)
	w.r.Check(got == want, c, pos, fmt.Sprintf("%s.(*%s) matches the declared parameter type", what, got),
		fmt.Sprintf("%s asserts %s to be *%s but the declared parameter type (%s) guarantees *%s: the unchecked Go type assertion panics for every well-typed call", w.label, what, got, declParamDesc(d), want))
}

func declParamDesc(d *declInfo) string {
	if d.variadic != "" {
		return d.variadic + "..."
	}
	return strings.Join(d.params, " ")
}

func (w *argWalker) isCommaOK(ta *ast.TypeAssertExpr) bool {
	tv, ok := w.info.Types[ta]
	if !ok {
		return false
	}
	_, isTuple := tv.Type.(*types.Tuple)
	return isTuple
}

// ---------------------------------------------------------------------------
// documentation agreement

var docHeading = regexp.MustCompile("^### `([a-z0-9]+)`")

func normDocType(t string) string {
	t = strings.TrimSpace(t)
	switch t {
	case "[]any", "[]":
		return "[]"
	case "{}any", "{}":
		return "{}"
	}
	return t
}

func checkBuiltinDocs(c *Ctx, p *Program, pkg *packages.Package, table []*builtinEntry, r *Reporter) {
	b, err := os.ReadFile(filepath.Join(c.Repo, "docs", "builtins.md"))
	if err != nil {
		r.Undecided("docs/builtins.md: %v", err)
		return
	}
	byName := map[string]*builtinEntry{}
	for _, e := range table {
		byName[e.name] = e
	}
	// event handlers table
	events := map[string]int{}
	if nb := FindFunc(pkg, "newBuiltins"); nb != nil {
		ast.Inspect(nb.Decl.Body, func(n ast.Node) bool {
			cl, ok := n.(*ast.CompositeLit)
			if !ok {
				return true
			}
			mt, ok := pkg.TypesInfo.TypeOf(cl).Underlying().(*types.Map)
			if !ok {
				return true
			}
			if n2 := namedOf(mt.Elem()); n2 == nil || n2.Obj().Name() != "EventHandlerStmt" {
				return true
			}
			for _, el := range cl.Elts {
				if kvp, ok := el.(*ast.KeyValueExpr); ok {
					if name, ok := constString(pkg.TypesInfo, kvp.Key); ok {
						events[name] = -1
					}
				}
			}
			return true
		})
	}
	lines := strings.Split(string(b), "\n")
	headings := map[string]int{}
	type refLine struct {
		text string
		line int
	}
	var refs []refLine
	inRef := false
	for i, l := range lines {
		if m := docHeading.FindStringSubmatch(l); m != nil {
			headings[m[1]] = i + 1
		}
		if strings.HasPrefix(l, "#### Reference") {
			inRef = true
			continue
		}
		if inRef {
			if strings.HasPrefix(l, "    ") && strings.TrimSpace(l) != "" {
				refs = append(refs, refLine{strings.TrimSpace(l), i + 1})
				continue
			}
			if strings.TrimSpace(l) == "" && (len(refs) == 0 || refs[len(refs)-1].line != i) {
				continue
			}
			inRef = false
		}
	}
	names := make([]string, 0, len(byName))
	for n := range byName {
		names = append(names, n)
	}
	sort.Strings(names)
	for _, n := range names {
		_, ok := headings[n]
		r.Check(ok, "doc:heading:"+n, "docs/builtins.md", "documented under its own heading", "built-in "+n+" has no `### `"+n+"`` section in docs/builtins.md")
	}
	if len(refs) < 30 {
		r.Undecided("docs/builtins.md: only %d Reference signature lines recognised", len(refs))
		return
	}
	seenRef := map[string]int{}
	for _, rl := range refs {
		fields := strings.Fields(rl.text)
		head := fields[0]
		if head == "on" {
			if len(fields) >= 2 {
				_, ok := events[fields[1]]
				r.Check(ok, "doc:event:"+fields[1], fmt.Sprintf("docs/builtins.md:%d", rl.line), "documented event exists in the eventHandlers table", "documentation describes event `"+fields[1]+"` which is not in the eventHandlers table")
			}
			continue
		}
		name, ret := head, "none"
		if i := strings.Index(head, ":"); i >= 0 {
			name, ret = head[:i], head[i+1:]
		}
		seenRef[name]++
		construct := fmt.Sprintf("doc:ref:%s[%d]", name, seenRef[name])
		pos := fmt.Sprintf("docs/builtins.md:%d", rl.line)
		ent := byName[name]
		if nParams, isEvent := events[name]; isEvent && ent == nil || isEvent && !strings.Contains(head, ":") && eventSection(lines, rl.line) {
			// event handler signature (`down x:num y:num`): compare the parameter count with the eventHandlers table
			want := eventParamCount(pkg, name)
			_ = nParams
			r.Check(want == len(fields)-1, "doc:event:"+name, pos, "documented event agrees with the eventHandlers table in name and parameter count", fmt.Sprintf("event `%s` is documented with %d parameter(s), the eventHandlers table declares %d", name, len(fields)-1, want))
			continue
		}
		if ent == nil || ent.decl == nil {
			r.Viol(construct, pos, "Reference line `"+rl.text+"` names no built-in of the table")
			continue
		}
		d := ent.decl
		var problems []string
		if normDocType(ret) != normDocType(d.ret) {
			problems = append(problems, fmt.Sprintf("result type %s documented, %s declared", ret, d.ret))
		}
		optional := false
		for _, f := range fields[1:] {
			if (strings.HasPrefix(f, "[") && !strings.HasPrefix(f, "[]")) || strings.HasSuffix(f, "...") || strings.HasSuffix(f, "]") && !strings.HasSuffix(f, "[]") && strings.Count(f, "[") < strings.Count(f, "]") {
				optional = true
			}
		}
		if optional && d.variadic == "" {
			problems = append(problems, "documented with optional/variadic arguments but declared with a fixed parameter list")
		}
		if !optional && d.variadic == "" {
			var docTypes []string
			for _, f := range fields[1:] {
				if i := strings.Index(f, ":"); i >= 0 {
					docTypes = append(docTypes, normDocType(f[i+1:]))
				} else {
					docTypes = append(docTypes, "?")
				}
			}
			if len(docTypes) != len(d.params) {
				problems = append(problems, fmt.Sprintf("%d parameter(s) documented, %d declared", len(docTypes), len(d.params)))
			} else {
				for i := range docTypes {
					if docTypes[i] != normDocType(d.params[i]) {
						problems = append(problems, fmt.Sprintf("parameter %d documented as %s, declared %s", i+1, docTypes[i], d.params[i]))
					}
				}
			}
		}
		if !optional && d.variadic != "" {
			// fixed-looking doc line for a variadic declaration: every documented type must be acceptable to the variadic element type
			for _, f := range fields[1:] {
				if i := strings.Index(f, ":"); i >= 0 {
					dt := normDocType(f[i+1:])
					if d.variadic != "any" && dt != normDocType(d.variadic) {
						problems = append(problems, fmt.Sprintf("parameter documented as %s, variadic element type is %s", dt, d.variadic))
					}
				}
			}
		}
		r.Check(len(problems) == 0, construct, pos, "documentation and declaration agree: "+rl.text, "documentation `"+rl.text+"` disagrees with the declaration of "+name+": "+strings.Join(problems, "; "))
	}
}

// eventSection: the Reference line lies after the "## Event Handlers" heading.
func eventSection(lines []string, line int) bool {
	for i := line - 1; i >= 0 && i < len(lines); i-- {
		if strings.HasPrefix(lines[i], "## ") {
			return strings.Contains(strings.ToLower(lines[i]), "event")
		}
	}
	return false
}

// eventParamCount: number of parameters of the named event in the eventHandlers table of newBuiltins.
func eventParamCount(pkg *packages.Package, name string) int {
	nb := FindFunc(pkg, "newBuiltins")
	if nb == nil {
		return -1
	}
	count := -1
	// local slices of parameters: ident -> number of elements
	sizes := map[string]int{}
	ast.Inspect(nb.Decl.Body, func(n ast.Node) bool {
		if as, ok := n.(*ast.AssignStmt); ok && len(as.Lhs) == 1 && len(as.Rhs) == 1 {
			if id, ok := as.Lhs[0].(*ast.Ident); ok {
				if cl, ok := as.Rhs[0].(*ast.CompositeLit); ok {
					sizes[id.Name] = len(cl.Elts)
				}
			}
		}
		return true
	})
	ast.Inspect(nb.Decl.Body, func(n ast.Node) bool {
		kvp, ok := n.(*ast.KeyValueExpr)
		if !ok {
			return true
		}
		if k, ok := constString(pkg.TypesInfo, kvp.Key); !ok || k != name {
			return true
		}
		cl, ok := kvp.Value.(*ast.CompositeLit)
		if !ok {
			return true
		}
		isEvent := false
		n2 := 0
		for _, el := range cl.Elts {
			if f, ok := el.(*ast.KeyValueExpr); ok {
				if k, ok := f.Key.(*ast.Ident); ok && k.Name == "Params" {
					isEvent = true
					switch v := f.Value.(type) {
					case *ast.Ident:
						n2 = sizes[v.Name]
					case *ast.CompositeLit:
						n2 = len(v.Elts)
					}
				}
			}
		}
		if isEvent {
			count = n2
		}
		return true
	})
	return count
}

var fmtUserCache = map[*packages.Package]map[*types.Func]bool{}

// formatsWithUserString: package functions that (through at most two further package functions) call a fmt
// formatting function with a format that is not a constant.
func formatsWithUserString(p *Program, pkg *packages.Package) map[*types.Func]bool {
	if m, ok := fmtUserCache[pkg]; ok {
		return m
	}
	m := map[*types.Func]bool{}
	fmtUserCache[pkg] = m
	for round := 0; round < 3; round++ {
		for _, fd := range Funcs(pkg) {
			if m[fd.Obj] {
				continue
			}
			ast.Inspect(fd.Decl.Body, func(n ast.Node) bool {
				call, ok := n.(*ast.CallExpr)
				if !ok {
					return true
				}
				cf := calleeFunc(pkg.TypesInfo, call)
				if cf == nil || cf.Pkg() == nil {
					return true
				}
				if cf.Pkg().Path() == "fmt" {
					idx := -1
					switch cf.Name() {
					case "Sprintf", "Printf", "Errorf":
						idx = 0
					case "Fprintf":
						idx = 1
					}
					if idx >= 0 && idx < len(call.Args) {
						if _, isConst := constString(pkg.TypesInfo, call.Args[idx]); !isConst {
							m[fd.Obj] = true
						}
					}
				} else if cf.Pkg() == pkg.Types && m[cf] {
					m[fd.Obj] = true
				}
				return true
			})
		}
	}
	return m
}
