package check

import (
	"fmt"
	"go/ast"
	"go/token"
	"go/types"
	"strings"

	"golang.org/x/tools/go/packages"
)

// R-MAPRANGE: no order-dependent effect inside a range over a Go map.

// mapRangeExempt: reviewed exemptions, one named construct each, with reason.
var mapRangeExempt = map[string]string{
	"pkg/parser.(*parser).calledBuiltinFuncs#maprange[1]": "result (Program.CalledBuiltinFuncs) is a UI hint list consumed as a set by the web front end; not among C08's observables",
	"pkg/evaluator.(*Evaluator).evalProgram#maprange[1]":  "EventHandlerNames is used only to register handlers with the platform (set semantics); not among C08's observables",
	"pkg/wasm.prepareUI#maprange[1]":                      "names are passed to jsPrepareUI which treats them as a set of UI features",
	"pkg/wasm.(*jsPlatform).Font#maprange[1]":             "the JSON text is consumed by JSON.parse and keyed property lookups in frontend/play/index.js (font); key order is unobservable at the host",
}

var mapRangePkgs = []string{"pkg/lexer", "pkg/parser", "pkg/evaluator", "pkg/bytecode", "pkg/cli", "pkg/cli/svg", "pkg/md", ""}

var ruleMapRange = &Rule{
	ID:    "R-MAPRANGE",
	Doc:   "every range over a Go map has a body whose effects are independent of iteration order (closed classifier; callees checked against order sinks over the CHA call graph)",
	Floor: 8,
	Run:   runMapRange,
}

func runMapRange(c *Ctx, r *Reporter) {
	p, err := c.Default()
	if err != nil {
		r.Undecided("%v", err)
		return
	}
	sinks := c.Sinks(p)
	if w := sinks.Why(nil); w != "" {
		r.Undecided("%s", w)
		return
	}
	for _, rel := range mapRangePkgs {
		pkg := p.Pkg(rel)
		if pkg == nil {
			r.Undecided("package %q not loaded", rel)
			continue
		}
		mapRangePackage(p, pkg, sinks, r)
	}
	if c.Tier == "thorough" || true {
		tp, err := c.Tinygo()
		if err != nil {
			r.Undecided("%v", err)
			return
		}
		for _, pkg := range tp.Pkgs {
			mapRangePackage(tp, pkg, nil, r)
		}
	}
}

type mrState struct {
	p      *Program
	pkg    *packages.Package
	sinks  *sinkInfo // nil: no SSA (tinygo); every in-module call is a sink
	fn     *FuncDecl
	locals map[types.Object]bool // objects declared inside the loop (incl. range vars)
	reason string
	// appended: outer slices appended to in the loop, to be checked for a later sort
	appended []types.Object
}

func mapRangePackage(p *Program, pkg *packages.Package, sinks *sinkInfo, r *Reporter) {
	for _, fn := range Funcs(pkg) {
		n := 0
		// walk with parent stack to find enclosing block for the "sorted later" idiom
		var stack []ast.Node
		ast.Inspect(fn.Decl.Body, func(node ast.Node) bool {
			if node == nil {
				stack = stack[:len(stack)-1]
				return true
			}
			stack = append(stack, node)
			rs, ok := node.(*ast.RangeStmt)
			if !ok {
				return true
			}
			t := pkg.TypesInfo.TypeOf(rs.X)
			if t == nil {
				return true
			}
			if _, isMap := t.Underlying().(*types.Map); !isMap {
				return true
			}
			n++
			construct := fmt.Sprintf("%s#maprange[%d]", fn.QName(), n)
			pos := p.Rel(rs.Pos())
			st := &mrState{p: p, pkg: pkg, sinks: sinks, fn: fn, locals: map[types.Object]bool{}}
			for _, e := range []ast.Expr{rs.Key, rs.Value} {
				if id, ok := e.(*ast.Ident); ok {
					if obj := pkg.TypesInfo.ObjectOf(id); obj != nil {
						st.locals[obj] = true
					}
				}
			}
			collectLocals(pkg.TypesInfo, rs.Body, st.locals)
			ok2 := st.block(rs.Body)
			if ok2 {
				for _, obj := range st.appended {
					if !sortedAfter(pkg.TypesInfo, stack, rs, obj) {
						ok2 = false
						st.reason = fmt.Sprintf("appends to %q in map order and the slice is not sorted before its next use", obj.Name())
						break
					}
				}
			}
			switch {
			case ok2:
				r.Ok(construct, pos, "body is order-insensitive: "+types.ExprString(rs.X))
			case mapRangeExempt[construct] != "":
				r.Exempt(construct, pos, mapRangeExempt[construct]+" [classifier: "+st.reason+"]")
			default:
				r.Viol(construct, pos, "range over map "+types.ExprString(rs.X)+": "+st.reason)
			}
			return true
		})
	}
}

func collectLocals(info *types.Info, body ast.Node, into map[types.Object]bool) {
	ast.Inspect(body, func(n ast.Node) bool {
		if id, ok := n.(*ast.Ident); ok {
			if obj := info.Defs[id]; obj != nil {
				into[obj] = true
			}
		}
		return true
	})
}

func (s *mrState) fail(format string, args ...any) bool {
	if s.reason == "" {
		s.reason = fmt.Sprintf(format, args...)
	}
	return false
}

func (s *mrState) block(b *ast.BlockStmt) bool {
	if b == nil {
		return true
	}
	for _, st := range b.List {
		if !s.stmt(st) {
			return false
		}
	}
	return true
}

// dependsOnLoop: expression mentions an object declared inside the loop.
func (s *mrState) dependsOnLoop(e ast.Expr) bool {
	dep := false
	if e == nil {
		return false
	}
	ast.Inspect(e, func(n ast.Node) bool {
		if id, ok := n.(*ast.Ident); ok {
			if obj := s.pkg.TypesInfo.Uses[id]; obj != nil && s.locals[obj] {
				dep = true
			}
		}
		return !dep
	})
	return dep
}

// exprOK: all calls inside e are order-insensitive.
func (s *mrState) exprOK(e ast.Expr) bool {
	if e == nil {
		return true
	}
	ok := true
	ast.Inspect(e, func(n ast.Node) bool {
		if !ok {
			return false
		}
		switch x := n.(type) {
		case *ast.CallExpr:
			if !s.callOK(x) {
				ok = false
			}
		case *ast.FuncLit:
			return false // a closure value by itself has no effect
		case *ast.UnaryExpr:
			if x.Op == token.ARROW {
				ok = s.fail("channel receive")
			}
		}
		return ok
	})
	return ok
}

func (s *mrState) callOK(call *ast.CallExpr) bool {
	info := s.pkg.TypesInfo
	if _, conv := isConversion(info, call); conv {
		return true
	}
	if id, ok := ast.Unparen(call.Fun).(*ast.Ident); ok {
		if _, isB := info.Uses[id].(*types.Builtin); isB {
			switch id.Name {
			case "print", "println":
				return s.fail("print builtin")
			case "panic":
				for _, a := range call.Args {
					if s.dependsOnLoop(a) {
						return s.fail("panic whose operand depends on the iteration")
					}
				}
			}
			return true
		}
	}
	fn := calleeFunc(info, call)
	if fn == nil {
		return s.fail("call of a function value %s cannot be resolved", types.ExprString(call.Fun))
	}
	var targets []*types.Func
	if isInterfaceMethod(fn) {
		recv := fn.Type().(*types.Signature).Recv().Type()
		for _, si := range sinkInterfaces {
			if isNamed(recv, si.pkg, si.name) {
				return s.fail("calls %s.%s", si.name, fn.Name())
			}
		}
		if fn.Pkg() == nil { // error.Error
			return true
		}
		if !strings.HasPrefix(fn.Pkg().Path(), ModulePath) {
			return s.fail("interface call %s.%s outside the module", fn.Pkg().Path(), fn.Name())
		}
		targets = implementers(s.p.Pkgs, fn)
	} else {
		targets = []*types.Func{fn}
	}
	for _, t := range targets {
		if t.Pkg() == nil {
			continue
		}
		if !strings.HasPrefix(t.Pkg().Path(), ModulePath) {
			if t.Pkg().Path() == "fmt" {
				if pureFmt[t.Name()] {
					continue
				}
				return s.fail("fmt.%s writes output", t.Name())
			}
			if pureExternalPkgs[t.Pkg().Path()] {
				continue
			}
			return s.fail("call into %s.%s", t.Pkg().Path(), t.Name())
		}
		if s.sinks == nil {
			return s.fail("calls %s (no SSA in this configuration: every in-module call counts as an effect)", t.Name())
		}
		sf := s.p.SSAFunc(t)
		if sf == nil {
			return s.fail("no SSA for callee %s", t.FullName())
		}
		if why := s.sinks.Why(sf); why != "" {
			if len(why) > 160 {
				why = why[:160] + "…"
			}
			return s.fail("calls %s which %s", funcDisplayName(t), why)
		}
	}
	return true
}

func (s *mrState) stmt(st ast.Stmt) bool {
	info := s.pkg.TypesInfo
	switch x := st.(type) {
	case nil:
		return true
	case *ast.BlockStmt:
		return s.block(x)
	case *ast.EmptyStmt, *ast.DeclStmt:
		if d, ok := st.(*ast.DeclStmt); ok {
			ok2 := true
			ast.Inspect(d, func(n ast.Node) bool {
				if e, ok := n.(ast.Expr); ok && ok2 {
					if !s.exprOK(e) {
						ok2 = false
					}
					return false
				}
				return ok2
			})
			return ok2
		}
		return true
	case *ast.ExprStmt:
		return s.exprOK(x.X)
	case *ast.IncDecStmt:
		return s.exprOK(x.X) // n++ / n-- commute
	case *ast.BranchStmt:
		if x.Tok == token.GOTO {
			return s.fail("goto")
		}
		return true
	case *ast.ReturnStmt:
		for _, res := range x.Results {
			if s.dependsOnLoop(res) {
				return s.fail("returns a value that depends on which entry is visited first: %s", types.ExprString(res))
			}
			if !s.exprOK(res) {
				return false
			}
		}
		return true
	case *ast.IfStmt:
		if !s.stmt(x.Init) || !s.exprOK(x.Cond) || !s.block(x.Body) {
			return false
		}
		return s.stmt(x.Else)
	case *ast.SwitchStmt:
		if !s.stmt(x.Init) || !s.exprOK(x.Tag) {
			return false
		}
		return s.caseBodies(x.Body)
	case *ast.TypeSwitchStmt:
		if !s.stmt(x.Init) || !s.stmt(x.Assign) {
			return false
		}
		return s.caseBodies(x.Body)
	case *ast.ForStmt:
		return s.stmt(x.Init) && s.exprOK(x.Cond) && s.stmt(x.Post) && s.block(x.Body)
	case *ast.RangeStmt:
		return s.exprOK(x.X) && s.block(x.Body)
	case *ast.AssignStmt:
		for _, rhs := range x.Rhs {
			if !s.exprOK(rhs) {
				return false
			}
		}
		for i, lhs := range x.Lhs {
			var rhs ast.Expr
			if len(x.Rhs) == len(x.Lhs) {
				rhs = x.Rhs[i]
			} else if len(x.Rhs) == 1 {
				rhs = x.Rhs[0]
			}
			if !s.assign(x, lhs, rhs) {
				return false
			}
		}
		return true
	case *ast.LabeledStmt:
		return s.stmt(x.Stmt)
	default:
		_ = info
		return s.fail("statement %T is not an order-insensitive form", st)
	}
}

func (s *mrState) caseBodies(body *ast.BlockStmt) bool {
	for _, cc := range body.List {
		clause, ok := cc.(*ast.CaseClause)
		if !ok {
			return s.fail("unexpected clause %T", cc)
		}
		for _, e := range clause.List {
			if !s.exprOK(e) {
				return false
			}
		}
		for _, st := range clause.Body {
			if !s.stmt(st) {
				return false
			}
		}
	}
	return true
}

func (s *mrState) assign(as *ast.AssignStmt, lhs, rhs ast.Expr) bool {
	info := s.pkg.TypesInfo
	lhs = ast.Unparen(lhs)
	if id, ok := lhs.(*ast.Ident); ok {
		if id.Name == "_" {
			return true
		}
		obj := info.ObjectOf(id)
		if obj == nil || s.locals[obj] {
			return true // loop-local variable
		}
		// variable that outlives the iteration
		switch as.Tok {
		case token.ADD_ASSIGN, token.SUB_ASSIGN, token.MUL_ASSIGN, token.OR_ASSIGN, token.AND_ASSIGN, token.XOR_ASSIGN:
			if b, ok := obj.Type().Underlying().(*types.Basic); ok && b.Info()&types.IsString != 0 {
				return s.fail("string concatenation into %q in map order", id.Name)
			}
			return true // commutative numeric accumulation
		case token.ASSIGN, token.DEFINE:
			if call, ok := ast.Unparen(rhs).(*ast.CallExpr); ok && isBuiltinCall(info, call, "append") && len(call.Args) > 0 {
				if first, ok := ast.Unparen(call.Args[0]).(*ast.Ident); ok && info.ObjectOf(first) == obj {
					s.appended = append(s.appended, obj)
					return true
				}
			}
			if rhs != nil && !s.dependsOnLoop(rhs) {
				if be, ok := ast.Unparen(rhs).(*ast.BinaryExpr); ok && be.Op == token.ADD {
					if b, ok := obj.Type().Underlying().(*types.Basic); ok && b.Info()&types.IsString != 0 {
						return s.fail("string concatenation into %q in map order", id.Name)
					}
				}
				return true // idempotent store of a loop-invariant value
			}
			// boolean accumulation x = x || f(k) / x = x && f(k)
			if be, ok := ast.Unparen(rhs).(*ast.BinaryExpr); ok && (be.Op == token.LOR || be.Op == token.LAND) {
				if l, ok := ast.Unparen(be.X).(*ast.Ident); ok && info.ObjectOf(l) == obj {
					return true
				}
			}
			return s.fail("assigns an iteration-dependent value to %q, which outlives the iteration (last writer wins)", id.Name)
		}
		return s.fail("assignment operator %s on outer variable %q", as.Tok, id.Name)
	}
	switch l := lhs.(type) {
	case *ast.IndexExpr:
		t := info.TypeOf(l.X)
		if t != nil {
			if _, isMap := t.Underlying().(*types.Map); isMap {
				if !s.exprOK(l.Index) || !s.exprOK(l.X) {
					return false
				}
				return true // (a) store into a map: distinct keys commute
			}
		}
		root := rootIdent(l.X)
		if root != nil {
			if obj := info.ObjectOf(root); obj != nil && s.locals[obj] {
				return true // element store into an object owned by this iteration
			}
		}
		return s.fail("store into slice/array element %s in map order", types.ExprString(lhs))
	case *ast.SelectorExpr, *ast.StarExpr:
		root := rootIdent(lhs)
		if root != nil {
			if obj := info.ObjectOf(root); obj != nil && s.locals[obj] {
				return true // (e) store into the entry being visited
			}
		}
		if rhs != nil && !s.dependsOnLoop(rhs) && as.Tok == token.ASSIGN {
			if call, ok := ast.Unparen(rhs).(*ast.CallExpr); ok && isBuiltinCall(info, call, "append") {
				return s.fail("appends to %s in map order", types.ExprString(lhs))
			}
			return true // idempotent store of a loop-invariant value
		}
		return s.fail("stores an iteration-dependent value to %s, which outlives the iteration", types.ExprString(lhs))
	}
	return s.fail("assignment target %s", types.ExprString(lhs))
}

// sortedAfter: in the block enclosing loop, the first later statement that
// mentions obj is a call of a sort function with obj as first argument.
func sortedAfter(info *types.Info, stack []ast.Node, loop *ast.RangeStmt, obj types.Object) bool {
	// find the innermost enclosing block that directly contains loop
	for i := len(stack) - 1; i >= 0; i-- {
		var list []ast.Stmt
		switch b := stack[i].(type) {
		case *ast.BlockStmt:
			list = b.List
		case *ast.CaseClause:
			list = b.Body
		default:
			continue
		}
		idx := -1
		for j, st := range list {
			if st == ast.Stmt(loop) {
				idx = j
			}
		}
		if idx < 0 {
			continue
		}
		closures := map[types.Object]*ast.FuncLit{}
		for _, st := range list[idx+1:] {
			if !mentions(info, st, obj) {
				continue
			}
			// less := func(i, j int) bool { … } — a comparison function that is named before it is handed to sort
			if as, ok := st.(*ast.AssignStmt); ok && len(as.Lhs) == 1 && len(as.Rhs) == 1 {
				if fl, ok := ast.Unparen(as.Rhs[0]).(*ast.FuncLit); ok {
					if id, ok := as.Lhs[0].(*ast.Ident); ok {
						closures[info.ObjectOf(id)] = fl
						continue
					}
				}
			}
			es, ok := st.(*ast.ExprStmt)
			if !ok {
				return false
			}
			call, ok := es.X.(*ast.CallExpr)
			if !ok || len(call.Args) == 0 {
				return false
			}
			fn := calleeFunc(info, call)
			if fn == nil || fn.Pkg() == nil {
				return false
			}
			pp := fn.Pkg().Path()
			if sortFuncs[pp+"."+fn.Name()] {
				if first, ok := ast.Unparen(call.Args[0]).(*ast.Ident); ok && info.ObjectOf(first) == obj {
					if len(call.Args) == 2 {
						if id, ok := ast.Unparen(call.Args[1]).(*ast.Ident); ok && closures[info.ObjectOf(id)] != nil {
							c2 := *call
							c2.Args = []ast.Expr{call.Args[0], closures[info.ObjectOf(id)]}
							return sortKeyInjective(info, &c2)
						}
					}
					return sortKeyInjective(info, call)
				}
			}
			return false
		}
		return false // never used again in this block: it escapes unsorted (e.g. returned later in an outer block) — be conservative
	}
	return false
}

var sortFuncs = map[string]bool{
	"sort.Sort": true, "sort.Stable": true, "sort.Slice": true, "sort.SliceStable": true, "sort.Strings": true,
	"sort.Ints": true, "sort.Float64s": true, "slices.Sort": true, "slices.SortFunc": true, "slices.SortStableFunc": true,
}

func mentions(info *types.Info, n ast.Node, obj types.Object) bool {
	found := false
	ast.Inspect(n, func(x ast.Node) bool {
		if id, ok := x.(*ast.Ident); ok && info.ObjectOf(id) == obj {
			found = true
		}
		return !found
	})
	return found
}

// sortKeyInjective: the sort orders by a key that cannot tie between two
// different map entries: the elements themselves (sort.Strings/Ints of keys)
// or, with a comparison function, a field named Offset (the unique source
// offset of a token). Sorting by line, column or name can tie, and the
// relative order of tied entries is again the map's.
func sortKeyInjective(info *types.Info, call *ast.CallExpr) bool {
	if len(call.Args) == 1 {
		return true // sort.Strings / sort.Ints / slices.Sort of the keys themselves
	}
	fl, ok := ast.Unparen(call.Args[1]).(*ast.FuncLit)
	if !ok {
		return false
	}
	ok2 := false
	ast.Inspect(fl.Body, func(n ast.Node) bool {
		be, ok := n.(*ast.BinaryExpr)
		if !ok || (be.Op != token.LSS && be.Op != token.GTR) {
			return true
		}
		lx, okx := ast.Unparen(be.X).(*ast.SelectorExpr)
		ly, oky := ast.Unparen(be.Y).(*ast.SelectorExpr)
		if okx && oky && lx.Sel.Name == ly.Sel.Name && lx.Sel.Name == "Offset" {
			ok2 = true
		}
		return true
	})
	return ok2
}
