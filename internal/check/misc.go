package check

import (
	"fmt"
	"go/ast"
	"go/constant"
	"go/token"
	"go/types"
	"sort"

	"golang.org/x/tools/go/ssa"
)

// ---------------------------------------------------------------------------
// R-INDENTPAIR (C07)

var ruleIndentPair = &Rule{
	ID:    "R-INDENTPAIR",
	Doc:   "formatter layout discipline: every indentLevel++ is matched by an indentLevel-- on every path to return; any other scalar field of the formatter state written by a function that can re-enter itself through the formatter is given back the value found on entry on every path to return (no state of a nested statement list leaks into the enclosing one); indentation is written as indentLevel copies of a four-space unit; recorded end-of-line comments are written through strings.TrimSpace (no trailing whitespace); number literals are printed in plain decimal notation, the only one the lexer accepts",
	Floor: 6,
	Run:   runIndentPair,
}

func runIndentPair(c *Ctx, r *Reporter) {
	p, pkg := parserPkg(c, r)
	if pkg == nil {
		return
	}
	total := 0
	// direct changes of indentLevel per function
	type change struct{ incs, decs []ssa.Instruction }
	direct := map[*ssa.Function]*change{}
	var order []*FuncDecl
	for _, fd := range Funcs(pkg) {
		sf := p.SSAFunc(fd.Obj)
		if sf == nil {
			continue
		}
		order = append(order, fd)
		ch := &change{}
		direct[sf] = ch
		for _, b := range sf.Blocks {
			for _, ins := range b.Instrs {
				st, ok := ins.(*ssa.Store)
				if !ok {
					continue
				}
				fa, ok := st.Addr.(*ssa.FieldAddr)
				if !ok {
					continue
				}
				if _, name := fieldAddrInfo(fa); name != "indentLevel" {
					continue
				}
				bo, ok := st.Val.(*ssa.BinOp)
				if !ok {
					r.Viol(fd.QName()+"#indent-assign", p.Rel(instrPos(st)), "indentLevel is assigned something other than ±1")
					continue
				}
				k, _ := bo.Y.(*ssa.Const)
				if k == nil || k.Value == nil || k.Value.ExactString() != "1" {
					r.Viol(fd.QName()+"#indent-assign", p.Rel(instrPos(st)), "indentLevel changes by something other than 1")
					continue
				}
				if bo.Op == token.ADD {
					ch.incs = append(ch.incs, st)
				} else if bo.Op == token.SUB {
					ch.decs = append(ch.decs, st)
				}
			}
		}
	}
	// a helper that opens (closes) a level — exactly one increment (decrement), on every path, outside any loop, and
	// no change the other way — stands for that increment (decrement) at each of its call sites
	openers, closers := map[*ssa.Function]bool{}, map[*ssa.Function]bool{}
	for sf, ch := range direct {
		once := func(list []ssa.Instruction) bool {
			return len(list) == 1 && !inCycle(list[0].Block()) && !anyReturnPathAvoiding(sf.Blocks[0], []*ssa.BasicBlock{list[0].Block()})
		}
		switch {
		case len(ch.decs) == 0 && once(ch.incs):
			openers[sf] = true
		case len(ch.incs) == 0 && once(ch.decs):
			closers[sf] = true
		}
	}
	// … when it is used as one half of a pair: some function calls an opener and a closer. A function that merely lost
	// its own decrement has no partner and is reported itself.
	pairedO, pairedC := map[*ssa.Function]bool{}, map[*ssa.Function]bool{}
	for sf := range direct {
		var os, cs []*ssa.Function
		for _, b := range sf.Blocks {
			for _, ins := range b.Instrs {
				if call, ok := ins.(*ssa.Call); ok && call.Call.StaticCallee() != nil {
					if openers[call.Call.StaticCallee()] {
						os = append(os, call.Call.StaticCallee())
					}
					if closers[call.Call.StaticCallee()] {
						cs = append(cs, call.Call.StaticCallee())
					}
				}
			}
		}
		if len(os) > 0 && len(cs) > 0 {
			for _, o := range os {
				pairedO[o] = true
			}
			for _, c := range cs {
				pairedC[c] = true
			}
		}
	}
	openers, closers = pairedO, pairedC
	for _, fd := range order {
		sf := p.SSAFunc(fd.Obj)
		ch := direct[sf]
		if openers[sf] || closers[sf] {
			total++
			what := "opens"
			if closers[sf] {
				what = "closes"
			}
			r.Ok(fd.QName()+"#indent-balance", p.Rel(fd.Decl.Pos()), what+" one indentation level on every path: its call sites are paired in its callers")
			continue
		}
		incs, decs := append([]ssa.Instruction{}, ch.incs...), append([]ssa.Instruction{}, ch.decs...)
		for _, b := range sf.Blocks {
			for _, ins := range b.Instrs {
				if call, ok := ins.(*ssa.Call); ok && call.Call.StaticCallee() != nil {
					if openers[call.Call.StaticCallee()] {
						incs = append(incs, call)
					}
					if closers[call.Call.StaticCallee()] {
						decs = append(decs, call)
					}
				}
			}
		}
		if len(incs) == 0 && len(decs) == 0 {
			continue
		}
		total++
		var decBlocks []*ssa.BasicBlock
		for _, d := range decs {
			decBlocks = append(decBlocks, d.Block())
		}
		okBal := len(incs) == len(decs)
		for _, inc := range incs {
			if anyReturnPathAvoiding(inc.Block(), decBlocks) {
				okBal = false
			}
		}
		// a decrement must not be reachable without the increment
		for _, d := range decs {
			dominated := false
			for _, inc := range incs {
				if instrDominates(inc, d) {
					dominated = true
				}
			}
			if !dominated {
				okBal = false
			}
		}
		r.Check(okBal, fd.QName()+"#indent-balance", p.Rel(fd.Decl.Pos()), "indentation is increased and decreased in pairs on every path", fmt.Sprintf("%s changes indentLevel unbalanced (%d increments, %d decrements, or a return path between them): everything formatted afterwards is shifted", fd.Name(), len(incs), len(decs)))
	}
	if total == 0 {
		r.Undecided("no function changes indentLevel")
	}
	// any other scalar state of the formatter: a function that can re-enter itself through the formatter (the nested
	// statement lists) and writes such a field must put back the value it found, on every path to return — otherwise the
	// state of the inner list is what the outer list continues with. The unchanged tree has no such field (a note says
	// so); the scripted mutant formatter-state-leak is the standing positive example.
	stateStores := 0
	for _, fd := range order {
		sf := p.SSAFunc(fd.Obj)
		byField := map[string][]*ssa.Store{}
		var names []string
		hasDefer := false
		for _, b := range sf.Blocks {
			for _, ins := range b.Instrs {
				if _, ok := ins.(*ssa.Defer); ok {
					hasDefer = true
				}
				st, ok := ins.(*ssa.Store)
				if !ok {
					continue
				}
				fa, ok := st.Addr.(*ssa.FieldAddr)
				if !ok {
					continue
				}
				named, name := fieldAddrInfo(fa)
				if named == nil || named.Obj().Name() != "formatting" || named.Obj().Pkg() != pkg.Types || name == "indentLevel" {
					continue
				}
				if _, basic := st.Val.Type().Underlying().(*types.Basic); !basic {
					continue
				}
				if byField[name] == nil {
					names = append(names, name)
				}
				byField[name] = append(byField[name], st)
			}
		}
		if len(names) == 0 {
			continue
		}
		sort.Strings(names)
		// can the function re-enter itself?
		seen := map[*ssa.Function]bool{}
		var reach func(f *ssa.Function) bool
		reach = func(f *ssa.Function) bool {
			if f == nil || seen[f] || f.Pkg != sf.Pkg {
				return false
			}
			seen[f] = true
			for _, b := range f.Blocks {
				for _, ins := range b.Instrs {
					var callee *ssa.Function
					switch ins := ins.(type) {
					case *ssa.Call:
						callee = ins.Call.StaticCallee()
					case *ssa.Defer:
						callee = ins.Call.StaticCallee()
					case *ssa.MakeClosure:
						callee, _ = ins.Fn.(*ssa.Function)
					}
					if callee == sf || reach(callee) {
						return true
					}
				}
			}
			return false
		}
		reentrant := reach(sf)
		// may fn (or anything it calls inside the package) write the field? calls of function values count as writers
		writesMemo := map[string]map[*ssa.Function]bool{}
		var writes func(f *ssa.Function, name string, visiting map[*ssa.Function]bool) bool
		writes = func(f *ssa.Function, name string, visiting map[*ssa.Function]bool) bool {
			if f == nil || f.Pkg != sf.Pkg || visiting[f] {
				return false
			}
			if v, ok := writesMemo[name][f]; ok {
				return v
			}
			visiting[f] = true
			res := false
			for _, b := range f.Blocks {
				for _, ins := range b.Instrs {
					switch ins := ins.(type) {
					case *ssa.Store:
						if fa, ok := ins.Addr.(*ssa.FieldAddr); ok {
							if named, n := fieldAddrInfo(fa); named != nil && named.Obj().Name() == "formatting" && n == name {
								res = true
							}
						}
					case *ssa.Call:
						if ins.Call.IsInvoke() {
							continue
						}
						if callee := ins.Call.StaticCallee(); callee != nil {
							if writes(callee, name, visiting) {
								res = true
							}
						} else if _, builtin := ins.Call.Value.(*ssa.Builtin); !builtin {
							res = true
						}
					}
				}
			}
			delete(visiting, f)
			if writesMemo[name] == nil {
				writesMemo[name] = map[*ssa.Function]bool{}
			}
			if res { // a false result may be an artefact of a cycle cut short: not remembered
				writesMemo[name][f] = res
			}
			return res
		}
		quietAfter := func(st *ssa.Store, name string) bool {
			callWrites := func(ins ssa.Instruction) bool {
				call, ok := ins.(*ssa.Call)
				if !ok || call.Call.IsInvoke() {
					return false
				}
				if callee := call.Call.StaticCallee(); callee != nil {
					return callee == sf || writes(callee, name, map[*ssa.Function]bool{})
				}
				_, builtin := call.Call.Value.(*ssa.Builtin)
				return !builtin
			}
			after := false
			for _, ins := range st.Block().Instrs {
				if ins == ssa.Instruction(st) {
					after = true
					continue
				}
				if after && callWrites(ins) {
					return false
				}
			}
			seenB := map[*ssa.BasicBlock]bool{}
			stack := append([]*ssa.BasicBlock{}, st.Block().Succs...)
			for len(stack) > 0 {
				b := stack[len(stack)-1]
				stack = stack[:len(stack)-1]
				if seenB[b] {
					continue
				}
				seenB[b] = true
				for _, ins := range b.Instrs {
					if callWrites(ins) {
						return false
					}
				}
				stack = append(stack, b.Succs...)
			}
			return true
		}
		// the function that formats the root node is re-entrant only on paper (the dispatcher has a case for *Program): a
		// Program never occurs inside a Program
		rootOnly := false
		for _, par := range sf.Params {
			if pt, ok := par.Type().(*types.Pointer); ok {
				if n := namedOf(pt.Elem()); n != nil && n.Obj().Name() == "Program" && n.Obj().Pkg() == pkg.Types {
					rootOnly = true
				}
			}
		}
		for _, name := range names {
			if reentrant && rootOnly {
				stateStores++
				r.Ok(fd.QName()+"#state-restored:"+name, p.Rel(instrPos(byField[name][0])), "writes formatter state "+name+" while formatting the root node: a Program is never nested in a Program, there is no outer activation")
				continue
			}
			stateStores++
			construct := fd.QName() + "#state-restored:" + name
			if !reentrant {
				r.Ok(construct, p.Rel(instrPos(byField[name][0])), "writes formatter state "+name+" but cannot re-enter itself: there is no outer activation to disturb")
				continue
			}
			// restoring stores: the value is the field's own content, loaded before any store to it
			var restores, others []*ssa.Store
			for _, st := range byField[name] {
				isRestore := false
				if ld, ok := st.Val.(*ssa.UnOp); ok && ld.Op == token.MUL {
					if lfa, ok := ld.X.(*ssa.FieldAddr); ok {
						if _, ln := fieldAddrInfo(lfa); ln == name {
							isRestore = true
							for _, o := range byField[name] {
								if o != st && !instrDominates(ld, o) {
									isRestore = false
								}
							}
						}
					}
				}
				// a constant written on the way out settles the state as well: what the enclosing list continues with does
				// not depend on the nested contents
				if _, isConst := st.Val.(*ssa.Const); isConst {
					isRestore = true
				}
				// … provided nothing that may write the field is called afterwards
				if isRestore && !quietAfter(st, name) {
					isRestore = false
				}
				if isRestore {
					restores = append(restores, st)
				} else {
					others = append(others, st)
				}
			}
			var restoreBlocks []*ssa.BasicBlock
			for _, st := range restores {
				restoreBlocks = append(restoreBlocks, st.Block())
			}
			okR := len(restores) > 0
			for _, st := range others {
				if anyReturnPathAvoiding(st.Block(), restoreBlocks) {
					okR = false
				}
				for _, rs := range restores {
					if rs.Block() == st.Block() && instrDominates(rs, st) && anyReturnPathAvoiding(st.Block(), nil) {
						// written again after the restore in the same block, and the block leads to a return
						okR = false
					}
				}
			}
			if !okR && hasDefer {
				r.Undecided("%s writes formatter state %s and defers calls: the restore may be deferred, which this clause does not follow", fd.QName(), name)
				continue
			}
			r.Check(okR, construct, p.Rel(instrPos(byField[name][0])), "the value of "+name+" found on entry (or a constant) is written on every path to return, with no writer of the field called afterwards",
				fmt.Sprintf("%s can re-enter itself through the formatter and writes the formatter state %s without putting back the value it found on every path to return: the state of the nested list is what the enclosing list continues with (blank-line and layout decisions after the nested block depend on the block's contents; formatting is no longer idempotent)", fd.Name(), name))
		}
	}
	if stateStores == 0 {
		r.Note("no formatter state besides indentLevel is written by any function (state-restored clause has no instance on this tree)")
	}
	// indent unit
	if obj, ok := pkg.Types.Scope().Lookup("indentStr").(*types.Const); ok {
		r.Check(constant.StringVal(obj.Val()) == "    ", "pkg/parser.indentStr", p.Rel(obj.Pos()), "the indentation unit is four spaces", "indentStr is not four spaces")
	} else {
		r.Undecided("const indentStr not found")
	}
	if fd := FindFunc(pkg, "(*formatting).indent"); fd != nil {
		// writes indentStr inside a loop that counts from 0 up to indentLevel (`for range f.indentLevel`, or a counting
		// for statement), or writes strings.Repeat(indentStr, indentLevel)
		okI := false
		unit := ""
		if obj, ok := pkg.Types.Scope().Lookup("indentStr").(*types.Const); ok {
			unit = constant.StringVal(obj.Val())
		}
		isUnit := func(v ssa.Value) bool {
			k, ok := v.(*ssa.Const)
			return ok && k.Value != nil && k.Value.Kind() == constant.String && constant.StringVal(k.Value) == unit && unit != ""
		}
		isCounter := func(v ssa.Value) bool { // phi [0, phi+1] or its successor phi+1
			if bo, ok := v.(*ssa.BinOp); ok && bo.Op == token.ADD {
				if k, ok := bo.Y.(*ssa.Const); ok && k.Value != nil && k.Value.ExactString() == "1" {
					v = bo.X
				}
			}
			phi, ok := v.(*ssa.Phi)
			if !ok {
				return false
			}
			zero, step := false, false
			for _, e := range phi.Edges {
				if k, ok := e.(*ssa.Const); ok && k.Value != nil && k.Value.ExactString() == "0" {
					zero = true
				} else if bo, ok := e.(*ssa.BinOp); ok && bo.Op == token.ADD && bo.X == ssa.Value(phi) {
					if k, ok := bo.Y.(*ssa.Const); ok && k.Value != nil && k.Value.ExactString() == "1" {
						step = true
					}
				} else {
					return false
				}
			}
			return zero && step
		}
		if sf := p.SSAFunc(fd.Obj); sf != nil {
			for _, b := range sf.Blocks {
				for _, ins := range b.Instrs {
					call, ok := ins.(*ssa.Call)
					if !ok || call.Call.StaticCallee() == nil || call.Call.StaticCallee().Name() != "write" || len(call.Call.Args) < 2 {
						continue
					}
					arg := call.Call.Args[len(call.Call.Args)-1]
					if rep, ok := arg.(*ssa.Call); ok && rep.Call.StaticCallee() != nil && pkgFuncName(rep.Call.StaticCallee()) == "strings.Repeat" && !inCycle(b) {
						if isUnit(rep.Call.Args[0]) && loadsField(rep.Call.Args[1], "indentLevel") {
							okI = true
						}
						continue
					}
					if !isUnit(arg) || !inCycle(b) {
						continue
					}
					// the test that keeps the loop going compares the counter with indentLevel
					for _, lb := range sf.Blocks {
						if len(lb.Instrs) == 0 || !(lb == b || (reachesBlock(lb, b) && reachesBlock(b, lb))) {
							continue
						}
						if ifi, ok := lb.Instrs[len(lb.Instrs)-1].(*ssa.If); ok {
							if bo, ok := ifi.Cond.(*ssa.BinOp); ok && bo.Op == token.LSS && isCounter(bo.X) && loadsField(bo.Y, "indentLevel") {
								okI = true
							}
						}
					}
				}
			}
		}
		r.Check(okI, fd.QName()+"#unit-per-level", p.Rel(fd.Decl.Pos()), "one indentation unit is written per level", "indent() must write indentStr once per indentLevel")
	} else {
		r.Undecided("(*formatting).indent not found")
	}
	// comments trimmed
	if fd := FindFunc(pkg, "(*formatting).writeComment"); fd != nil {
		sf := p.SSAFunc(fd.Obj)
		okT := false
		bad := ""
		for _, b := range sf.Blocks {
			for _, ins := range b.Instrs {
				call, ok := ins.(*ssa.Call)
				if !ok || call.Call.StaticCallee() == nil || call.Call.StaticCallee().Name() != "write" {
					continue
				}
				arg := call.Call.Args[len(call.Call.Args)-1]
				if _, isConst := arg.(*ssa.Const); isConst {
					continue
				}
				if c2, ok := arg.(*ssa.Call); ok && c2.Call.StaticCallee() != nil && pkgFuncName(c2.Call.StaticCallee()) == "strings.TrimSpace" {
					okT = true
				} else {
					bad = arg.String()
				}
			}
		}
		r.Check(okT && bad == "", fd.QName()+"#trimmed", p.Rel(fd.Decl.Pos()), "comments are written through strings.TrimSpace", "writeComment writes the recorded comment without strings.TrimSpace ("+bad+"): trailing tabs/CRs survive, so formatted output has trailing whitespace and whitespace variants format differently")
	} else {
		r.Undecided("(*formatting).writeComment not found")
	}
	// number literals
	if fd := FindFunc(pkg, "(*NumLiteral).String"); fd != nil {
		sf := p.SSAFunc(fd.Obj)
		okN := false
		for _, b := range sf.Blocks {
			for _, ins := range b.Instrs {
				if call, ok := ins.(*ssa.Call); ok && call.Call.StaticCallee() != nil && pkgFuncName(call.Call.StaticCallee()) == "strconv.FormatFloat" {
					f, _ := call.Call.Args[1].(*ssa.Const)
					prec, _ := call.Call.Args[2].(*ssa.Const)
					if f != nil && prec != nil && f.Int64() == 'f' && prec.Int64() == -1 {
						okN = true
					}
				}
			}
		}
		r.Check(okN, fd.QName()+"#plain-decimal", p.Rel(fd.Decl.Pos()), "number literals are printed with FormatFloat(v, 'f', -1, 64)", "number literals must be printed in plain decimal notation ('f', -1): the lexer does not accept exponents, so any other verb makes formatted programs unparsable")
	} else {
		r.Undecided("(*NumLiteral).String not found")
	}
	// string literals: the formatter writes StringLiteral.Value only through strconv.Quote
	var roots []*ssa.Function
	for _, fd := range Funcs(pkg) {
		if n := recvNamed(fd.Obj); n != nil && n.Obj().Name() == "formatting" {
			if sf := p.SSAFunc(fd.Obj); sf != nil {
				roots = append(roots, sf)
			}
		}
	}
	seenFn := map[*ssa.Function]bool{}
	for len(roots) > 0 {
		fn := roots[len(roots)-1]
		roots = roots[:len(roots)-1]
		if seenFn[fn] || fn.Pkg == nil || fn.Pkg.Pkg != pkg.Types {
			continue
		}
		seenFn[fn] = true
		for _, b := range fn.Blocks {
			for _, ins := range b.Instrs {
				if ci, ok := ins.(ssa.CallInstruction); ok {
					if sc := ci.Common().StaticCallee(); sc != nil {
						roots = append(roots, sc)
					}
				}
			}
		}
	}
	nq := 0
	var quotedOnly func(v ssa.Value, depth int) string
	quotedOnly = func(v ssa.Value, depth int) string {
		if depth > 4 {
			return "flows too far to follow"
		}
		refs := v.Referrers()
		if refs == nil {
			return ""
		}
		for _, ref := range *refs {
			switch x := ref.(type) {
			case *ssa.DebugRef:
			case *ssa.Call:
				sc := x.Call.StaticCallee()
				if sc == nil {
					return "is passed to a dynamic call"
				}
				name := pkgFuncName(sc)
				if name == "strconv.Quote" {
					continue
				}
				if sc.Pkg != nil && sc.Pkg.Pkg == pkg.Types && len(sc.Blocks) > 0 {
					for i, a := range x.Call.Args {
						if a == v && i < len(sc.Params) {
							if why := quotedOnly(sc.Params[i], depth+1); why != "" {
								return "is passed to " + sc.Name() + ", where it " + why
							}
						}
					}
					continue
				}
				// library predicates (strings.ContainsAny, utf8.ValidString, len …) do not write anything
				if res := sc.Signature.Results(); res.Len() == 1 {
					if bt, ok := res.At(0).Type().Underlying().(*types.Basic); ok && bt.Info()&(types.IsBoolean|types.IsInteger) != 0 {
						continue
					}
				}
				return "is passed to " + name
			case *ssa.BinOp:
				if x.Op == token.EQL || x.Op == token.NEQ {
					continue
				}
				return "is concatenated or compared by " + x.Op.String()
			case *ssa.Return:
				return "is returned unquoted"
			case *ssa.Phi:
				if why := quotedOnly(x, depth+1); why != "" {
					return why
				}
			case *ssa.Range, *ssa.Index, *ssa.Lookup:
				continue
			default:
				return "is used by " + ref.String()
			}
		}
		return ""
	}
	var fnList []*ssa.Function
	for fn := range seenFn {
		fnList = append(fnList, fn)
	}
	sort.Slice(fnList, func(i, j int) bool { return ssaQName(fnList[i]) < ssaQName(fnList[j]) })
	for _, fn := range fnList {
		for _, b := range fn.Blocks {
			for _, ins := range b.Instrs {
				u, ok := ins.(*ssa.UnOp)
				if !ok || u.Op != token.MUL {
					continue
				}
				fa, ok := u.X.(*ssa.FieldAddr)
				if !ok {
					continue
				}
				named, field := fieldAddrInfo(fa)
				if named == nil || named.Obj().Name() != "StringLiteral" || field != "Value" {
					continue
				}
				nq++
				why := quotedOnly(u, 0)
				r.Check(why == "", fmt.Sprintf("%s#string-literal-quoted[%d]", ssaQName(fn), nq), p.Rel(instrPos(u)), "the value of a string literal reaches the output only through strconv.Quote",
					"the formatter uses StringLiteral.Value in a way that "+why+": text written without strconv.Quote is re-lexed differently (invalid UTF-8 becomes U+FFFD, quotes and escapes change the token)")
			}
		}
	}
	if nq == 0 {
		r.Undecided("no read of StringLiteral.Value found in the formatter")
	}
}

// ---------------------------------------------------------------------------
// R-EVENTS (C15)

var ruleEvents = &Rule{
	ID:    "R-EVENTS",
	Doc:   "event dispatch: HandleEvent binds payload slot i to declared parameter i (one induction variable indexes both) behind the length guard, in a fresh function scope; a handler's parameters are compared with the built-in signature by exact type equality on every path that registers them; a handler is registered only for a known, not yet defined event; the browser event queue is consumed first-in first-out and stop/handlers share one evaluator",
	Floor: 6,
	Run:   runEvents,
}

func runEvents(c *Ctx, r *Reporter) {
	ei := c.evalInfo(r)
	if ei == nil {
		return
	}
	p, pkg := ei.p, ei.pkg
	if fd := FindFunc(pkg, "(*Evaluator).HandleEvent"); fd != nil {
		sf := p.SSAFunc(fd.Obj)
		var conv *ssa.Call
		// the binding of the payload may live in a helper of HandleEvent: the function that converts is analysed
		for _, h := range regionFns(sf, 2, dispatcherNames) {
			for _, b := range h.Blocks {
				for _, ins := range b.Instrs {
					if call, ok := ins.(*ssa.Call); ok && call.Call.StaticCallee() != nil && call.Call.StaticCallee().Name() == "valueFromAny" && conv == nil {
						conv = call
					}
				}
			}
		}
		if conv != nil {
			sf = conv.Parent()
		}
		if conv == nil {
			r.Viol(fd.QName()+"#payload", p.Rel(fd.Decl.Pos()), "HandleEvent must convert each payload value with valueFromAny")
		} else {
			// second argument: args[i]; first argument: param.Type() with param = Params[i]
			argIdx := indexOfElementLoad(conv.Call.Args[1])
			var prmIdx ssa.Value
			if tc, ok := conv.Call.Args[0].(*ssa.Call); ok && len(tc.Call.Args) == 1 {
				prmIdx = indexOfElementLoad(tc.Call.Args[0])
			}
			r.Check(argIdx != nil && prmIdx != nil && argIdx == prmIdx && ascendingInduction(argIdx), fd.QName()+"#slot-i-to-param-i", p.Rel(instrPos(conv)), "payload slot i is bound to declared parameter i", "HandleEvent must bind args[i] to eh.Params[i] with one shared index: with separate counters a `_` or skipped parameter shifts every later value to the wrong name")
			// the list whose element i is bound is the handler's declared parameter list: Params of the parser's
			// EventHandlerStmt, or a field of the evaluator's own that only ever receives that list as a whole
			declared, whyList := false, "the parameter whose type is used cannot be traced to a list"
			if tc, ok := conv.Call.Args[0].(*ssa.Call); ok && len(tc.Call.Args) == 1 {
				if u, ok := tc.Call.Args[0].(*ssa.UnOp); ok {
					if ia, ok := u.X.(*ssa.IndexAddr); ok {
						if ld, ok := ia.X.(*ssa.UnOp); ok {
							if fa, ok := ld.X.(*ssa.FieldAddr); ok {
								owner, fname := fieldAddrInfo(fa)
								switch {
								case owner != nil && owner.Obj().Name() == "EventHandlerStmt" && fname == "Params":
									declared = true
								case owner != nil && owner.Obj().Pkg() == pkg.Types:
									// every store to this field is a load of EventHandlerStmt.Params
									declared, whyList = true, ""
									stores := 0
									for _, fn := range ssaFuncsOf(p, pkg) {
										for _, b2 := range fn.Blocks {
											for _, i2 := range b2.Instrs {
												st, ok := i2.(*ssa.Store)
												if !ok {
													continue
												}
												fa2, ok := st.Addr.(*ssa.FieldAddr)
												if !ok {
													continue
												}
												if o2, f2 := fieldAddrInfo(fa2); o2 != owner || f2 != fname {
													continue
												}
												stores++
												whole := false
												if l2, ok := st.Val.(*ssa.UnOp); ok {
													if fa3, ok := l2.X.(*ssa.FieldAddr); ok {
														if o3, f3 := fieldAddrInfo(fa3); o3 != nil && o3.Obj().Name() == "EventHandlerStmt" && f3 == "Params" {
															whole = true
														}
													}
												}
												if !whole {
													declared = false
													whyList = "the list " + owner.Obj().Name() + "." + fname + " is built from the declared parameters by something other than taking them whole (a filtered or re-ordered copy)"
												}
											}
										}
									}
									if stores == 0 {
										declared, whyList = false, "the list "+owner.Obj().Name()+"."+fname+" is never assigned the declared parameters"
									}
								default:
									whyList = "the list is neither EventHandlerStmt.Params nor a field of the evaluator"
								}
							}
						}
					}
				}
			}
			r.Check(declared, fd.QName()+"#declared-parameter-list", p.Rel(instrPos(conv)), "the parameters bound to the payload are the handler's declared list, position by position",
				"HandleEvent binds payload slot i to element i of a list that is not the handler's declared parameter list as a whole ("+whyList+"): with `_` parameters dropped from it, `on down _:num y:num` binds y to the x coordinate")
			// set(param.Name, arg) with the converted value
			set := FindFunc(pkg, "(*scope).set")
			okSet := false
			if set != nil {
				for _, ci := range callsTo(sf, p.SSAFunc(set.Obj)) {
					if valueReaches(ci.Common().Args[2], conv, 3) {
						okSet = true
					}
				}
			}
			r.Check(okSet, fd.QName()+"#binds-converted", p.Rel(instrPos(conv)), "the converted payload value is bound in the handler's scope", "the value produced by valueFromAny is not what HandleEvent binds")
			// length guard dominates the index: at the conversion a comparison is known that says len(payload) is not
			// below the number of parameters, however it is written (`len(a) < n` false, `!(len(a) >= n)` false …)
			okLen := false
			isLen := func(v ssa.Value) bool {
				lc, ok := v.(*ssa.Call)
				if !ok {
					return false
				}
				bi, ok := lc.Call.Value.(*ssa.Builtin)
				return ok && bi.Name() == "len"
			}
			for _, f := range impliedConds(conv.Block()) {
				bo, ok := f.Cond.(*ssa.BinOp)
				if !ok {
					continue
				}
				switch {
				case bo.Op == token.LSS && isLen(bo.X) && !f.Truth, bo.Op == token.GEQ && isLen(bo.X) && f.Truth,
					bo.Op == token.GTR && isLen(bo.Y) && !f.Truth, bo.Op == token.LEQ && isLen(bo.Y) && f.Truth:
					okLen = true
				}
			}
			r.Check(okLen, fd.QName()+"#length-guard", p.Rel(instrPos(conv)), "payload access is behind the len(args) < len(params) guard", "HandleEvent indexes the payload without a dominating length guard")
		}
	} else {
		r.Undecided("HandleEvent not found")
	}
	// parser side
	pp, ppkg := parserPkg(c, r)
	if ppkg == nil {
		return
	}
	if fd := FindFunc(ppkg, "(*parser).addEventParamsToScope"); fd != nil {
		sf := pp.SSAFunc(fd.Obj)
		var eq *ssa.Call
		usesAccepts := false
		// the comparison of one parameter may live in a helper; validateVarDecl and the type relations are not followed
		evStop := map[string]bool{"validateVarDecl": true, "Equals": true, "accepts": true, "matches": true, "appendError": true, "appendErrorForToken": true, "set": true}
		for k := range dispatcherNames {
			evStop[k] = true
		}
		var evBlocks []*ssa.BasicBlock
		for _, h := range regionFns(sf, 2, evStop) {
			evBlocks = append(evBlocks, h.Blocks...)
		}
		for _, b := range evBlocks {
			for _, ins := range b.Instrs {
				if call, ok := ins.(*ssa.Call); ok && call.Call.StaticCallee() != nil {
					switch call.Call.StaticCallee().Name() {
					case "Equals":
						eq = call
					case "accepts", "matches":
						usesAccepts = true
					}
				}
			}
		}
		okEq := eq != nil && !usesAccepts
		if okEq {
			// the unequal edge records an error
			okEq = false
			for _, ref := range *eq.Referrers() {
				if ifi, ok := ref.(*ssa.If); ok {
					for _, s := range ifi.Block().Succs {
						for _, ins := range s.Instrs {
							if call, ok := ins.(*ssa.Call); ok && call.Call.StaticCallee() != nil && (call.Call.StaticCallee().Name() == "appendError" || call.Call.StaticCallee().Name() == "appendErrorForToken") {
								okEq = true
							}
						}
					}
				}
			}
		}
		r.Check(okEq, fd.QName()+"#exact-types", pp.Rel(fd.Decl.Pos()), "handler parameter types must equal the built-in event signature exactly", "handler parameters must be compared with the event signature by (*Type).Equals with an error on the unequal edge: assignability (accepts) lets `any`-typed parameters through, which the evaluator cannot bind")
		// count check
		cnt := false
		for _, b := range sf.Blocks {
			for _, ins := range b.Instrs {
				if bo, ok := ins.(*ssa.BinOp); ok && bo.Op == token.NEQ {
					_, l1 := bo.X.(*ssa.Call)
					_, l2 := bo.Y.(*ssa.Call)
					if l1 && l2 {
						cnt = true
					}
				}
			}
		}
		r.Check(cnt, fd.QName()+"#param-count", pp.Rel(fd.Decl.Pos()), "the number of handler parameters is compared with the signature", "addEventParamsToScope does not compare the number of parameters with the event signature")
	} else {
		r.Undecided("addEventParamsToScope not found")
	}
	if fd := FindFunc(ppkg, "(*parser).parseEventHandler"); fd != nil {
		sf := pp.SSAFunc(fd.Obj)
		// registration (map update on eventHandlers) only when not yet defined and known
		okReg := false
		var regBlocks []*ssa.BasicBlock
		for _, h := range regionFns(sf, 2, dispatcherNames) { // the registration may live in a helper
			regBlocks = append(regBlocks, h.Blocks...)
		}
		for _, b := range regBlocks {
			for _, ins := range b.Instrs {
				mu, ok := ins.(*ssa.MapUpdate)
				if !ok || !loadsField(mu.Map, "eventHandlers") {
					continue
				}
				guards := 0
				for d := mu.Block(); d != nil; d = d.Idom() {
					idom := d.Idom()
					if idom == nil || len(idom.Instrs) == 0 {
						continue
					}
					if ifi, ok := idom.Instrs[len(idom.Instrs)-1].(*ssa.If); ok {
						if bo, ok := ifi.Cond.(*ssa.BinOp); ok {
							if _, isLookup := bo.X.(*ssa.Lookup); isLookup {
								guards++
							}
						}
					}
				}
				okReg = guards >= 2
			}
		}
		r.Check(okReg, fd.QName()+"#register-once-known", pp.Rel(fd.Decl.Pos()), "a handler is registered only for a known event that has no handler yet", "parseEventHandler must register a handler only after checking both that the event is known and that it is not defined twice")
	}
	// tinygo: FIFO queue
	tp, err := c.Tinygo()
	if err != nil {
		r.Undecided("%v", err)
		return
	}
	for _, tpkg := range tp.Pkgs {
		if fd := FindFunc(tpkg, "handleEvents"); fd != nil {
			head, tail := false, false
			ast.Inspect(fd.Decl.Body, func(n ast.Node) bool {
				switch x := n.(type) {
				case *ast.IndexExpr:
					if id, ok := x.X.(*ast.Ident); ok && id.Name == "events" {
						if v, ok := constInt(tpkg.TypesInfo, x.Index); ok && v == 0 {
							head = true
						}
					}
				case *ast.AssignStmt:
					if len(x.Lhs) == 1 && len(x.Rhs) == 1 {
						if id, ok := x.Lhs[0].(*ast.Ident); ok && id.Name == "events" {
							if se, ok := x.Rhs[0].(*ast.SliceExpr); ok && se.High == nil {
								if v, ok := constInt(tpkg.TypesInfo, se.Low); ok && v == 1 {
									tail = true
								}
							}
						}
					}
				}
				return true
			})
			r.Check(head && tail, fd.QName()+"#fifo", tp.Rel(fd.Decl.Pos()), "events are taken from the front of the queue", "handleEvents must take events[0] and continue with events[1:] (first in, first out)")
		}
		n := 0
		for _, fd := range Funcs(tpkg) {
			ast.Inspect(fd.Decl.Body, func(node ast.Node) bool {
				as, ok := node.(*ast.AssignStmt)
				if !ok || len(as.Lhs) != 1 || len(as.Rhs) != 1 {
					return true
				}
				id, ok := as.Lhs[0].(*ast.Ident)
				if !ok || id.Name != "events" || fd.Name() == "handleEvents" {
					return true
				}
				call, ok := as.Rhs[0].(*ast.CallExpr)
				okA := ok && isBuiltinCall(tpkg.TypesInfo, call, "append") && len(call.Args) == 2
				if okA {
					first, _ := call.Args[0].(*ast.Ident)
					okA = first != nil && first.Name == "events"
				}
				n++
				r.Check(okA, fmt.Sprintf("%s#enqueue[%d]", fd.QName(), n), tp.Rel(as.Pos()), "a delivered event is appended at the back of the queue", "events must be enqueued with events = append(events, ev)")
				return true
			})
		}
	}
}
