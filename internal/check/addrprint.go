package check

import (
	"fmt"
	"go/ast"
	"go/types"
	"strings"

	"golang.org/x/tools/go/ssa"
)

// R-ADDRPRINT: no machine address reaches formatted text.
//
// A pointer formatted with %v/%s/%d/%x prints as an address (0xc000…) unless its type implements fmt.Formatter,
// fmt.Stringer or error (then the method decides), or it points to a struct, array, slice or map at the top level
// (then fmt prints &{…} — but pointers nested inside still print as addresses). Addresses differ from run to run, so
// any message, value rendering or SVG attribute built that way makes output nondeterministic. Every argument of a
// fmt formatting call in the packages in scope is therefore either not pointer-shaped, or implements one of the three
// interfaces, or is formatted with %T/%p excluded by construction (%p is itself a violation).
var ruleAddrPrint = &Rule{
	ID: "R-ADDRPRINT",
	Doc: "no argument of a fmt formatting call in scope prints as a machine address: pointer-shaped arguments implement Stringer/error/Formatter (their method decides), " +
		"%p is not used, and struct values with pointer fields are not formatted with %v",
	Floor: 60,
	Run:   runAddrPrint,
}

func runAddrPrint(c *Ctx, r *Reporter) {
	p, err := c.Default()
	if err != nil {
		r.Undecided("%v", err)
		return
	}
	stringer := types.NewInterfaceType([]*types.Func{types.NewFunc(0, nil, "String", types.NewSignatureType(nil, nil, nil, nil, types.NewTuple(types.NewVar(0, nil, "", types.Typ[types.String])), false))}, nil)
	stringer.Complete()
	errIface := types.Universe.Lookup("error").Type().Underlying().(*types.Interface)
	implements := func(t types.Type) bool {
		if types.Implements(t, stringer) || types.Implements(t, errIface) {
			return true
		}
		if ms := types.NewMethodSet(t); ms.Lookup(nil, "Format") != nil {
			return true
		}
		return false
	}
	// addressy reports whether formatting a value of type t with a generic verb can print an address.
	var addressy func(t types.Type, top bool, depth int) (bool, string)
	addressy = func(t types.Type, top bool, depth int) (bool, string) {
		if depth > 4 || t == nil {
			return false, ""
		}
		if implements(t) {
			return false, ""
		}
		switch u := t.Underlying().(type) {
		case *types.Pointer:
			if top {
				switch u.Elem().Underlying().(type) {
				case *types.Struct, *types.Array, *types.Slice, *types.Map:
					return addressy(u.Elem(), false, depth+1) // printed as &{…}
				}
			}
			return true, "pointer " + t.String()
		case *types.Chan, *types.Signature:
			return true, t.String()
		case *types.Basic:
			if u.Kind() == types.UnsafePointer || u.Kind() == types.Uintptr {
				return true, t.String()
			}
		case *types.Struct:
			for i := 0; i < u.NumFields(); i++ {
				if bad, why := addressy(u.Field(i).Type(), false, depth+1); bad {
					return true, "field " + u.Field(i).Name() + ": " + why
				}
			}
		case *types.Slice:
			return addressy(u.Elem(), false, depth+1)
		case *types.Array:
			return addressy(u.Elem(), false, depth+1)
		case *types.Map:
			if bad, why := addressy(u.Key(), false, depth+1); bad {
				return true, why
			}
			return addressy(u.Elem(), false, depth+1)
		case *types.Interface:
			return false, "" // dynamic: decided where the value is built
		}
		return false, ""
	}
	n := 0
	for _, rel := range timeSourcePkgs {
		pkg := p.Pkg(rel)
		if pkg == nil {
			continue
		}
		info := pkg.TypesInfo
		for _, fd := range Funcs(pkg) {
			k := 0
			ast.Inspect(fd.Decl.Body, func(nd ast.Node) bool {
				call, ok := nd.(*ast.CallExpr)
				if !ok {
					return true
				}
				cf := calleeFunc(info, call)
				if cf == nil || cf.Pkg() == nil || cf.Pkg().Path() != "fmt" {
					return true
				}
				name := cf.Name()
				fmtIdx := -1
				switch name {
				case "Sprintf", "Errorf", "Printf":
					fmtIdx = 0
				case "Fprintf":
					fmtIdx = 1
				case "Sprint", "Sprintln", "Print", "Println", "Fprint", "Fprintln":
					fmtIdx = -2
				default:
					return true
				}
				args := call.Args
				first := 0
				format := ""
				if fmtIdx >= 0 {
					if fmtIdx >= len(args) {
						return true
					}
					if s, ok := constString(info, args[fmtIdx]); ok {
						format = s
					}
					first = fmtIdx + 1
				} else if strings.HasPrefix(name, "F") {
					first = 1
				}
				k++
				n++
				construct := fmt.Sprintf("%s#fmt[%d]:%s", fd.QName(), k, name)
				bad := ""
				if strings.Contains(format, "%p") {
					bad = "the verb %p prints an address"
				}
				for _, a := range args[first:] {
					t := info.TypeOf(a)
					if t == nil {
						continue
					}
					if isAddr, why := addressy(t, true, 0); isAddr {
						bad = fmt.Sprintf("argument %s (%s) prints as an address", types.ExprString(a), why)
					}
				}
				r.Check(bad == "", construct, p.Rel(call.Pos()), "no argument prints as a machine address", bad+": the text differs from run to run (parse errors, panics' texts, printed values and SVG attributes must be reproducible)")
				return true
			})
		}
	}
	if n == 0 {
		r.Undecided("no fmt formatting call found in scope")
	}
	// dynamic clause: an argument list handed on as a slice (`fmt.Sprintf(format, args...)`) is filled element by
	// element; the static type of the elements is `any`, so what decides is the dynamic type of every value stored
	// into the slice. With a format the Evy program supplies any verb can meet any argument, so each stored value
	// must be of a basic Go type (or of a type whose own method renders it for every verb: fmt.Formatter).
	for _, rel := range timeSourcePkgs {
		pkg := p.Pkg(rel)
		if pkg == nil {
			continue
		}
		for _, fn := range ssaFuncsOf(p, pkg) {
			k := 0
			for _, b := range fn.Blocks {
				for _, ins := range b.Instrs {
					call, ok := ins.(*ssa.Call)
					if !ok {
						continue
					}
					sc := call.Call.StaticCallee()
					if sc == nil || sc.Pkg == nil || sc.Pkg.Pkg.Path() != "fmt" || !sc.Signature.Variadic() || len(call.Call.Args) == 0 {
						continue
					}
					va := call.Call.Args[len(call.Call.Args)-1]
					ms, ok := va.(*ssa.MakeSlice)
					if !ok {
						continue // the in-place form: a slice of a fresh array whose elements are typed at the call (static clause above)
					}
					k++
					construct := fmt.Sprintf("%s#fmt-dynamic-args[%d]:%s", ssaQName(fn), k, sc.Name())
					bad := ""
					stores := 0
					for _, ref := range *ms.Referrers() {
						ia, ok := ref.(*ssa.IndexAddr)
						if !ok {
							continue
						}
						for _, r2 := range *ia.Referrers() {
							st, ok := r2.(*ssa.Store)
							if !ok || st.Addr != ssa.Value(ia) {
								continue
							}
							stores++
							if why := dynNotBasic(st.Val, map[ssa.Value]bool{}, map[*ssa.Function]bool{}, 0); why != "" {
								bad = why
							}
						}
					}
					if stores == 0 {
						bad = "no element store found for the argument slice"
					}
					r.Check(bad == "", construct, p.Rel(instrPos(call)), "every value stored into the argument slice has a basic dynamic type",
						"a value handed to a formatting call through an argument slice is not of a basic type ("+bad+"): with a verb other than %v/%s (the format is the program's) fmt prints the pointer — `printf \"%d\" [1 2]` would show a machine address that differs from run to run")
				}
			}
		}
	}
}

// dynNotBasic returns "" when every dynamic type v can have is a basic Go type, otherwise a description.
func dynNotBasic(v ssa.Value, seen map[ssa.Value]bool, fseen map[*ssa.Function]bool, depth int) string {
	if seen[v] || depth > 6 {
		return ""
	}
	seen[v] = true
	switch x := v.(type) {
	case *ssa.MakeInterface:
		t := x.X.Type()
		if _, ok := t.Underlying().(*types.Basic); ok {
			return ""
		}
		if ms := types.NewMethodSet(t); ms.Lookup(nil, "Format") != nil {
			return ""
		}
		return "dynamic type " + t.String()
	case *ssa.Phi:
		for _, e := range x.Edges {
			if why := dynNotBasic(e, seen, fseen, depth); why != "" {
				return why
			}
		}
		return ""
	case *ssa.Const:
		if x.IsNil() {
			return ""
		}
	case *ssa.Call:
		sc := x.Call.StaticCallee()
		if sc == nil || sc.Blocks == nil {
			return "result of a call that cannot be resolved"
		}
		if fseen[sc] {
			return "" // coinductive: a recursive call returns what the other returns return
		}
		fseen[sc] = true
		for _, ret := range returnsOf(sc) {
			for _, rv := range resultValues(ret, 0) {
				if why := dynNotBasic(rv, seen, fseen, depth+1); why != "" {
					return why + " returned by " + sc.Name()
				}
			}
		}
		return ""
	case *ssa.ChangeInterface:
		return "an interface value passed on as it is (" + x.X.Type().String() + ")"
	}
	if _, ok := v.Type().Underlying().(*types.Interface); ok {
		return "an interface value passed on as it is (" + v.Type().String() + ")"
	}
	return "value " + v.Name()
}
