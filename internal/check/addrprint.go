package check

import (
	"fmt"
	"go/ast"
	"go/types"
	"strings"
)

// R-ADDRPRINT: no machine address reaches formatted text.
//
// A pointer formatted with %v/%s/%d/%x prints as an address (0xc000…) unless its type implements fmt.Formatter,
// fmt.Stringer or error (then the method decides), or it points to a struct, array, slice or map at the top level
// (then fmt prints &{…} — but pointers nested inside still print as addresses). Addresses differ from run to run, so
// any message, value rendering or SVG attribute built that way makes output nondeterministic. Every argument of a
// fmt formatting call in the packages in scope is therefore either not pointer-shaped, or implements one of the three
// interfaces, or is formatted with %T/%p excluded by construction (%p is itself a violation).
var ruleAddrPrint = &Rule{
	ID: "R-ADDRPRINT",
	Doc: "no argument of a fmt formatting call in scope prints as a machine address: pointer-shaped arguments implement Stringer/error/Formatter (their method decides), " +
		"%p is not used, and struct values with pointer fields are not formatted with %v",
	Floor: 60,
	Run:   runAddrPrint,
}

func runAddrPrint(c *Ctx, r *Reporter) {
	p, err := c.Default()
	if err != nil {
		r.Undecided("%v", err)
		return
	}
	stringer := types.NewInterfaceType([]*types.Func{types.NewFunc(0, nil, "String", types.NewSignatureType(nil, nil, nil, nil, types.NewTuple(types.NewVar(0, nil, "", types.Typ[types.String])), false))}, nil)
	stringer.Complete()
	errIface := types.Universe.Lookup("error").Type().Underlying().(*types.Interface)
	implements := func(t types.Type) bool {
		if types.Implements(t, stringer) || types.Implements(t, errIface) {
			return true
		}
		if ms := types.NewMethodSet(t); ms.Lookup(nil, "Format") != nil {
			return true
		}
		return false
	}
	// addressy reports whether formatting a value of type t with a generic verb can print an address.
	var addressy func(t types.Type, top bool, depth int) (bool, string)
	addressy = func(t types.Type, top bool, depth int) (bool, string) {
		if depth > 4 || t == nil {
			return false, ""
		}
		if implements(t) {
			return false, ""
		}
		switch u := t.Underlying().(type) {
		case *types.Pointer:
			if top {
				switch u.Elem().Underlying().(type) {
				case *types.Struct, *types.Array, *types.Slice, *types.Map:
					return addressy(u.Elem(), false, depth+1) // printed as &{…}
				}
			}
			return true, "pointer " + t.String()
		case *types.Chan, *types.Signature:
			return true, t.String()
		case *types.Basic:
			if u.Kind() == types.UnsafePointer || u.Kind() == types.Uintptr {
				return true, t.String()
			}
		case *types.Struct:
			for i := 0; i < u.NumFields(); i++ {
				if bad, why := addressy(u.Field(i).Type(), false, depth+1); bad {
					return true, "field " + u.Field(i).Name() + ": " + why
				}
			}
		case *types.Slice:
			return addressy(u.Elem(), false, depth+1)
		case *types.Array:
			return addressy(u.Elem(), false, depth+1)
		case *types.Map:
			if bad, why := addressy(u.Key(), false, depth+1); bad {
				return true, why
			}
			return addressy(u.Elem(), false, depth+1)
		case *types.Interface:
			return false, "" // dynamic: decided where the value is built
		}
		return false, ""
	}
	n := 0
	for _, rel := range timeSourcePkgs {
		pkg := p.Pkg(rel)
		if pkg == nil {
			continue
		}
		info := pkg.TypesInfo
		for _, fd := range Funcs(pkg) {
			k := 0
			ast.Inspect(fd.Decl.Body, func(nd ast.Node) bool {
				call, ok := nd.(*ast.CallExpr)
				if !ok {
					return true
				}
				cf := calleeFunc(info, call)
				if cf == nil || cf.Pkg() == nil || cf.Pkg().Path() != "fmt" {
					return true
				}
				name := cf.Name()
				fmtIdx := -1
				switch name {
				case "Sprintf", "Errorf", "Printf":
					fmtIdx = 0
				case "Fprintf":
					fmtIdx = 1
				case "Sprint", "Sprintln", "Print", "Println", "Fprint", "Fprintln":
					fmtIdx = -2
				default:
					return true
				}
				args := call.Args
				first := 0
				format := ""
				if fmtIdx >= 0 {
					if fmtIdx >= len(args) {
						return true
					}
					if s, ok := constString(info, args[fmtIdx]); ok {
						format = s
					}
					first = fmtIdx + 1
				} else if strings.HasPrefix(name, "F") {
					first = 1
				}
				k++
				n++
				construct := fmt.Sprintf("%s#fmt[%d]:%s", fd.QName(), k, name)
				bad := ""
				if strings.Contains(format, "%p") {
					bad = "the verb %p prints an address"
				}
				for _, a := range args[first:] {
					t := info.TypeOf(a)
					if t == nil {
						continue
					}
					if isAddr, why := addressy(t, true, 0); isAddr {
						bad = fmt.Sprintf("argument %s (%s) prints as an address", types.ExprString(a), why)
					}
				}
				r.Check(bad == "", construct, p.Rel(call.Pos()), "no argument prints as a machine address", bad+": the text differs from run to run (parse errors, panics' texts, printed values and SVG attributes must be reproducible)")
				return true
			})
		}
	}
	if n == 0 {
		r.Undecided("no fmt formatting call found in scope")
	}
}
