package check

import (
	"fmt"
	"go/ast"
	"go/token"
	"go/types"
	"sort"
	"strings"

	"golang.org/x/tools/go/packages"
	"golang.org/x/tools/go/ssa"
)

// onlyConstReturns: every path from b ends in a Return whose first result is the bool constant want.
func onlyConstReturns(b *ssa.BasicBlock, want string, seen map[*ssa.BasicBlock]bool) bool {
	if seen[b] {
		return true
	}
	seen[b] = true
	if len(b.Instrs) == 0 {
		return false
	}
	switch last := b.Instrs[len(b.Instrs)-1].(type) {
	case *ssa.Return:
		if len(last.Results) == 0 {
			return false
		}
		for _, v := range resultValues(last, 0) {
			k, ok := v.(*ssa.Const)
			if !ok || k.Value == nil || k.Value.ExactString() != want {
				return false
			}
		}
		return true
	case *ssa.Jump:
		return onlyConstReturns(b.Succs[0], want, seen)
	}
	return false
}

// ---------------------------------------------------------------------------
// R-MAPEQ: map equality compares key sets

var ruleMapEq = &Rule{
	ID:    "R-MAPEQ",
	Doc:   "map equality (evaluator (*mapVal).Equals, test built-in sameMap, VM mapVal.Equals) compares sizes, looks every key up in the other map, answers false when the key is missing, and compares the element only when it is present",
	Floor: 3,
	Run:   runMapEq,
}

func runMapEq(c *Ctx, r *Reporter) {
	p, err := c.Default()
	if err != nil {
		r.Undecided("%v", err)
		return
	}
	type site struct{ rel, fn string }
	for _, s := range []site{{"pkg/evaluator", "(*mapVal).Equals"}, {"pkg/bytecode", "(mapVal).Equals"}} {
		pkg := p.Pkg(s.rel)
		fd := FindFunc(pkg, s.fn)
		if fd == nil {
			r.Undecided("%s.%s not found", s.rel, s.fn)
			continue
		}
		sf := p.SSAFunc(fd.Obj)
		var lookup *ssa.Lookup
		var elemEq *ssa.Call
		lenCmp := false
		for _, b := range sf.Blocks {
			for _, ins := range b.Instrs {
				switch x := ins.(type) {
				case *ssa.Lookup:
					if _, isMap := x.X.Type().Underlying().(*types.Map); isMap && inCycle(b) {
						lookup = x
					}
				case *ssa.Call:
					if x.Call.IsInvoke() && x.Call.Method.Name() == "Equals" && inCycle(b) {
						elemEq = x
					}
				case *ssa.BinOp:
					if x.Op == token.NEQ {
						_, l1 := x.X.(*ssa.Call)
						_, l2 := x.Y.(*ssa.Call)
						if l1 && l2 {
							for _, ref := range *x.Referrers() {
								if ifi, ok := ref.(*ssa.If); ok && onlyConstReturns(ifi.Block().Succs[0], "false", map[*ssa.BasicBlock]bool{}) {
									lenCmp = true
								}
							}
						}
					}
				}
			}
		}
		q := fd.QName()
		r.Check(lenCmp, q+"#sizes", p.Rel(fd.Decl.Pos()), "maps of different size are unequal", "map equality does not start by comparing the sizes with `false` on the unequal edge")
		if lookup == nil || elemEq == nil {
			r.Viol(q+"#missing-key", p.Rel(fd.Decl.Pos()), "map equality must look each key up in the other map and compare the elements")
			continue
		}
		// presence edges: conditions derived from the lookup (val2 == nil, !ok)
		okAbsent, okPresent := false, false
		for _, b := range sf.Blocks {
			if len(b.Instrs) == 0 {
				continue
			}
			ifi, ok := b.Instrs[len(b.Instrs)-1].(*ssa.If)
			if !ok {
				continue
			}
			absentEdge := -1
			switch cnd := ifi.Cond.(type) {
			case *ssa.BinOp:
				if k, ok := cnd.Y.(*ssa.Const); ok && k.IsNil() && fromLookup(cnd.X, lookup) {
					if cnd.Op == token.EQL {
						absentEdge = 0
					} else if cnd.Op == token.NEQ {
						absentEdge = 1
					}
				}
			case *ssa.Extract:
				if cnd.Tuple == ssa.Value(lookup) && cnd.Index == 1 {
					absentEdge = 1
				}
			case *ssa.UnOp:
				if ex, ok := cnd.X.(*ssa.Extract); ok && cnd.Op == token.NOT && ex.Tuple == ssa.Value(lookup) && ex.Index == 1 {
					absentEdge = 0
				}
			}
			if absentEdge < 0 {
				continue
			}
			if onlyConstReturns(b.Succs[absentEdge], "false", map[*ssa.BasicBlock]bool{}) {
				okAbsent = true
			}
			if edgeDominates(b, 1-absentEdge, elemEq.Block()) {
				okPresent = true
			}
		}
		r.Check(okAbsent, q+"#missing-key", p.Rel(instrPos(lookup)), "a key missing from the other map makes the maps unequal", "the edge on which the key is missing from the other map does not answer false: maps of equal size with different key sets compare equal")
		r.Check(okPresent, q+"#element-guard", p.Rel(instrPos(elemEq)), "elements are compared only when the key is present", "the element comparison is not confined to the edge on which the key is present: a missing key hands nil to Equals, which panics")
	}
}

func fromLookup(v ssa.Value, lk *ssa.Lookup) bool {
	if v == ssa.Value(lk) {
		return true
	}
	if ex, ok := v.(*ssa.Extract); ok && ex.Tuple == ssa.Value(lk) {
		return true
	}
	return false
}

// ---------------------------------------------------------------------------
// R-TERMCONJ: termination analysis of if statements is a conjunction over all branches

var ruleTermConj = &Rule{
	ID:    "R-TERMCONJ",
	Doc:   "the parser's termination analysis of an if statement (used for `missing return` and `unreachable code`) is a conjunction: the else block, the if block and every else-if block are asked, and a branch that does not terminate answers false at once",
	Floor: 3,
	Run:   runTermConj,
}

func runTermConj(c *Ctx, r *Reporter) {
	p, pkg := parserPkg(c, r)
	if pkg == nil {
		return
	}
	fd := FindFunc(pkg, "(*IfStmt).alwaysTerminates")
	if fd == nil {
		r.Undecided("(*IfStmt).alwaysTerminates not found")
		return
	}
	sf := p.SSAFunc(fd.Obj)
	fields := map[string]bool{}
	n := 0
	for _, b := range sf.Blocks {
		for _, ins := range b.Instrs {
			call, ok := ins.(*ssa.Call)
			if !ok || call.Call.StaticCallee() == nil || call.Call.StaticCallee().Name() != "alwaysTerminates" {
				continue
			}
			n++
			recv := call.Call.Args[0]
			field := ""
			switch {
			case mentionsField(recv, "Else", 4):
				field = "Else"
			case mentionsField(recv, "IfBlock", 4):
				field = "IfBlock"
			case mentionsField(recv, "ElseIfBlocks", 6):
				field = "ElseIfBlocks"
			}
			fields[field] = true
			okConj := false
			for _, ref := range *call.Referrers() {
				if ifi, ok := ref.(*ssa.If); ok && ifi.Cond == ssa.Value(call) {
					okConj = onlyConstReturns(ifi.Block().Succs[1], "false", map[*ssa.BasicBlock]bool{})
				}
			}
			r.Check(okConj, fmt.Sprintf("%s#branch[%d]:%s", fd.QName(), n, field), p.Rel(instrPos(call)), "a branch that does not terminate makes the if statement non-terminating", "the result of this branch's alwaysTerminates() is not a direct `false ⇒ return false`: a later branch can overwrite it, so a function whose if/else-if chain falls through is accepted without `missing return` and returns no value at run time")
		}
	}
	for _, f := range []string{"Else", "IfBlock", "ElseIfBlocks"} {
		r.Check(fields[f], fd.QName()+"#covers:"+f, p.Rel(fd.Decl.Pos()), "branch is part of the analysis", "(*IfStmt).alwaysTerminates never asks "+f)
	}
	terminationTable(p, pkg, r)
}

// terminationTable: the rest of the 'does every path end in return/break' analysis behind "missing return" and
// "unreachable code". return and break always terminate; a loop never does (it may run zero times, and a break
// leaves it); a conditional block terminates as its block does; a block and the program answer with the flag the
// parser sets — only on the edge where the statement just parsed terminates, never cleared; and a function with a
// result type whose body does not terminate is reported, exactly on that conjunction.
func terminationTable(p *Program, pkg *packages.Package, r *Reporter) {
	want := map[string]string{"ReturnStmt": "true", "BreakStmt": "true", "WhileStmt": "false", "ForStmt": "false", "BlockStatement": "field:alwaysTerms", "Program": "field:alwaysTerms", "ConditionalBlock": "block"}
	seen := map[string]bool{}
	for _, fd := range Funcs(pkg) {
		if fd.Obj.Name() != "alwaysTerminates" {
			continue
		}
		rn := recvNamed(fd.Obj)
		if rn == nil {
			continue
		}
		kind := rn.Obj().Name()
		w, ok := want[kind]
		if !ok {
			if kind != "IfStmt" {
				r.Viol("pkg/parser.(*"+kind+").alwaysTerminates#kind", p.Rel(fd.Decl.Pos()), "a node kind takes part in the termination analysis that the table of this rule does not know: decide whether it always ends in return/break")
			}
			continue
		}
		seen[kind] = true
		sf := p.SSAFunc(fd.Obj)
		got := "?"
		rets := returnsOf(sf)
		if len(rets) == 1 && len(rets[0].Results) == 1 {
			switch v := rets[0].Results[0].(type) {
			case *ssa.Const:
				if v.Value != nil {
					got = v.Value.ExactString()
				}
			case *ssa.UnOp:
				if fa, ok := v.X.(*ssa.FieldAddr); ok {
					_, f := fieldAddrInfo(fa)
					got = "field:" + f
				}
			case *ssa.Call:
				if sc := v.Call.StaticCallee(); sc != nil && sc.Name() == "alwaysTerminates" && mentionsField(v.Call.Args[0], "Block", 4) {
					got = "block"
				}
			}
		}
		why := map[string]string{"true": "always ends the enclosing function or loop", "false": "may run zero times and can be left by break: never counts as terminating", "field:alwaysTerms": "answers with the flag the parser maintains", "block": "terminates as its block does"}[w]
		r.Check(got == w, "pkg/parser.(*"+kind+").alwaysTerminates#kind", p.Rel(fd.Decl.Pos()), why, fmt.Sprintf("(*%s).alwaysTerminates answers %s, expected %s: %s — otherwise `missing return` / `unreachable code` are reported for valid programs or not reported for functions that fall off their end", kind, got, w, why))
	}
	for k := range want {
		if !seen[k] {
			r.Viol("pkg/parser.(*"+k+").alwaysTerminates#kind", "pkg/parser/ast.go", "(*"+k+").alwaysTerminates not found: the node kind no longer takes part in the termination analysis")
		}
	}
	// the flag
	nflag := 0
	for _, fn := range ssaFuncsOf(p, pkg) {
		k := 0
		for _, b := range fn.Blocks {
			for _, ins := range b.Instrs {
				st, ok := ins.(*ssa.Store)
				if !ok {
					continue
				}
				fa, ok := st.Addr.(*ssa.FieldAddr)
				if !ok {
					continue
				}
				if _, f := fieldAddrInfo(fa); f != "alwaysTerms" {
					continue
				}
				nflag++
				k++
				construct := fmt.Sprintf("%s#terminates-flag[%d]", ssaQName(fn), k)
				kc, isConst := st.Val.(*ssa.Const)
				if !isConst || kc.Value == nil || kc.Value.ExactString() != "true" {
					r.Viol(construct, p.Rel(instrPos(st)), "the terminates flag of a block is assigned something other than the constant true: once a statement terminates, the rest of the block is unreachable whatever follows")
					continue
				}
				good := false
				for d := b; d != nil; d = d.Idom() {
					id := d.Idom()
					if id == nil || len(id.Instrs) == 0 {
						continue
					}
					ifi, ok := id.Instrs[len(id.Instrs)-1].(*ssa.If)
					if !ok {
						continue
					}
					if call, ok := ifi.Cond.(*ssa.Call); ok && call.Call.StaticCallee() != nil && (call.Call.StaticCallee().Name() == "alwaysTerms" || call.Call.StaticCallee().Name() == "alwaysTerminates") && edgeDominates(id, 0, b) {
						good = true
					}
				}
				r.Check(good, construct, p.Rel(instrPos(st)), "set on the edge where the statement just parsed terminates", "the terminates flag is set on a path that is not the true edge of alwaysTerms(stmt): a block counts as terminating although its statements do not")
			}
		}
	}
	if nflag == 0 {
		r.Viol("pkg/parser#terminates-flag", "pkg/parser/parser.go", "no block ever records that one of its statements terminates")
	}
	// missing return
	if fd := FindFunc(pkg, "(*parser).parseFunc"); fd != nil {
		sf := p.SSAFunc(fd.Obj)
		var report *ssa.Call
		for _, b := range sf.Blocks {
			for _, ins := range b.Instrs {
				if call, ok := ins.(*ssa.Call); ok && call.Call.StaticCallee() != nil && call.Call.StaticCallee().Name() == "appendError" && len(call.Call.Args) == 2 {
					if k, ok := call.Call.Args[1].(*ssa.Const); ok && k.Value != nil && strings.Contains(k.Value.ExactString(), "missing return") {
						report = call
					}
				}
			}
		}
		good := false
		if report != nil {
			typed, falls := false, false
			for d := report.Block(); d != nil; d = d.Idom() {
				id := d.Idom()
				if id == nil || len(id.Instrs) == 0 {
					continue
				}
				ifi, ok := id.Instrs[len(id.Instrs)-1].(*ssa.If)
				if !ok {
					continue
				}
				switch cnd := ifi.Cond.(type) {
				case *ssa.BinOp:
					if cnd.Op == token.NEQ && (loadsField(cnd.X, "ReturnType") || loadsField(cnd.Y, "ReturnType")) && edgeDominates(id, 0, report.Block()) {
						typed = true
					}
				case *ssa.Call:
					if sc := cnd.Call.StaticCallee(); sc != nil && sc.Name() == "alwaysTerminates" && edgeDominates(id, 1, report.Block()) {
						falls = true
					}
				case *ssa.UnOp:
					if c2, ok := cnd.X.(*ssa.Call); ok && cnd.Op == token.NOT && c2.Call.StaticCallee() != nil && c2.Call.StaticCallee().Name() == "alwaysTerminates" && edgeDominates(id, 0, report.Block()) {
						falls = true
					}
				}
			}
			// and nothing else stands between the two tests and the report: the report's block is the direct target of
			// the termination test, whose block is the direct target of the result-type test
			direct := false
			if len(report.Block().Preds) == 1 {
				a := report.Block().Preds[0]
				if ifa, ok := a.Instrs[len(a.Instrs)-1].(*ssa.If); ok && len(a.Preds) == 1 {
					isTerm := false
					switch cnd := ifa.Cond.(type) {
					case *ssa.Call:
						isTerm = cnd.Call.StaticCallee() != nil && cnd.Call.StaticCallee().Name() == "alwaysTerminates" && a.Succs[1] == report.Block()
					case *ssa.UnOp:
						c2, ok := cnd.X.(*ssa.Call)
						isTerm = ok && cnd.Op == token.NOT && c2.Call.StaticCallee() != nil && c2.Call.StaticCallee().Name() == "alwaysTerminates" && a.Succs[0] == report.Block()
					}
					t := a.Preds[0]
					if ift, ok := t.Instrs[len(t.Instrs)-1].(*ssa.If); ok && isTerm {
						if bo, ok := ift.Cond.(*ssa.BinOp); ok && bo.Op == token.NEQ && (loadsField(bo.X, "ReturnType") || loadsField(bo.Y, "ReturnType")) && t.Succs[0] == a {
							direct = true
						}
					}
				}
			}
			good = typed && falls && direct
		}
		r.Check(good, fd.QName()+"#missing-return", p.Rel(fd.Decl.Pos()), "a function with a result type whose body does not always terminate is reported", "parseFunc does not report `missing return` exactly when the function has a result type and its body does not always terminate: such a function returns no value at run time, which the evaluator hands on as a value of no type")
	} else {
		r.Undecided("(*parser).parseFunc not found")
	}
}

// ---------------------------------------------------------------------------
// R-LEXBOUND: the lexer never advances twice without looking ahead

var ruleLexBound = &Rule{
	ID:    "R-LEXBOUND",
	Doc:   "inside every loop of the lexer an advance() is preceded, on every path since the previous advance(), by a look-ahead (peekRune/lookAt): the position can pass the end of the input only by one, so slicing the input up to pos+1 stays in range and the EOF token has a position inside the text",
	Floor: 2,
	Run:   runLexBound,
}

func runLexBound(c *Ctx, r *Reporter) {
	p, err := c.Default()
	if err != nil {
		r.Undecided("%v", err)
		return
	}
	pkg := p.Pkg("pkg/lexer")
	adv, peek := FindFunc(pkg, "(*Lexer).advance"), FindFunc(pkg, "(*Lexer).peekRune")
	if adv == nil || peek == nil {
		r.Undecided("lexer advance/peekRune not found")
		return
	}
	advSSA, peekSSA := p.SSAFunc(adv.Obj), p.SSAFunc(peek.Obj)
	for _, fd := range Funcs(pkg) {
		sf := p.SSAFunc(fd.Obj)
		if sf == nil || sf == advSSA {
			continue
		}
		for _, fn := range withAnon(sf) {
			hasLoopAdvance := false
			for _, b := range fn.Blocks {
				if len(callsInBlock(b, advSSA)) > 0 && inCycle(b) {
					hasLoopAdvance = true
				}
			}
			if !hasLoopAdvance {
				continue
			}
			type st struct {
				b      *ssa.BasicBlock
				peeked bool
			}
			seen := map[st]bool{}
			var bad ssa.Instruction
			stack := []st{{fn.Blocks[0], false}}
			for len(stack) > 0 && bad == nil {
				cur := stack[len(stack)-1]
				stack = stack[:len(stack)-1]
				if seen[cur] {
					continue
				}
				seen[cur] = true
				peeked := cur.peeked
				for _, ins := range cur.b.Instrs {
					call, ok := ins.(*ssa.Call)
					if !ok {
						continue
					}
					switch call.Call.StaticCallee() {
					case peekSSA:
						peeked = true
					case advSSA:
						if !peeked && inCycle(cur.b) {
							bad = call
						}
						peeked = false
					}
				}
				for _, s := range cur.b.Succs {
					stack = append(stack, st{s, peeked})
				}
			}
			r.Check(bad == nil, ssaQName(fn)+"#lookahead-before-advance", p.Rel(fn.Pos()), "every advance in a loop follows a look-ahead", "a loop of the lexer can call advance() twice without looking ahead in between: at the end of the input the position runs past the text (slice out of range, or an EOF token located outside the input)")
		}
	}
}

func callsInBlock(b *ssa.BasicBlock, callee *ssa.Function) []*ssa.Call {
	var out []*ssa.Call
	for _, ins := range b.Instrs {
		if call, ok := ins.(*ssa.Call); ok && call.Call.StaticCallee() == callee {
			out = append(out, call)
		}
	}
	return out
}

// ---------------------------------------------------------------------------
// R-INDEXGUARD: constant indexes into slices are behind a length test

var ruleIndexGuard = &Rule{
	ID:    "R-INDEXGUARD",
	Doc:   "in the lexer and parser every constant index x[k] into a slice is dominated by a length test implying len(x) > k (or indexes a slice built in the same function with at least k+1 elements): a malformed program cannot crash the parser with an index out of range",
	Floor: 3,
	Run:   runIndexGuard,
}

func runIndexGuard(c *Ctx, r *Reporter) {
	p, err := c.Default()
	if err != nil {
		r.Undecided("%v", err)
		return
	}
	for _, rel := range []string{"pkg/lexer", "pkg/parser"} {
		pkg := p.Pkg(rel)
		if pkg == nil {
			r.Undecided("%s not loaded", rel)
			continue
		}
		for _, fd := range Funcs(pkg) {
			sf := p.SSAFunc(fd.Obj)
			if sf == nil {
				continue
			}
			n := 0
			for _, fn := range withAnon(sf) {
				for _, b := range fn.Blocks {
					for _, ins := range b.Instrs {
						ia, ok := ins.(*ssa.IndexAddr)
						if !ok {
							continue
						}
						if _, isSlice := ia.X.Type().Underlying().(*types.Slice); !isSlice {
							continue
						}
						k, ok := ia.Index.(*ssa.Const)
						if !ok || k.Value == nil {
							continue
						}
						if isFreshLiteralSlice(ia.X, k.Int64()) {
							continue
						}
						if _, isParam := ia.X.(*ssa.Parameter); isParam {
							continue // a contract on the callers; not tracked (stated limitation)
						}
						n++
						lo := lenLowerBound(ia, ia.X)
						r.Check(lo > k.Int64(), fmt.Sprintf("%s#index[%d]:%s[%d]", fd.QName(), n, shortValue(ia.X), k.Int64()), p.Rel(instrPos(ia)), fmt.Sprintf("len ≥ %d established by a dominating test", lo),
							fmt.Sprintf("%s[%d] is reached with only len ≥ %d established: an input that leaves the slice shorter crashes the parser with an index out of range", shortValue(ia.X), k.Int64(), lo))
					}
				}
			}
		}
	}
}

func shortValue(v ssa.Value) string {
	if u, ok := v.(*ssa.UnOp); ok {
		if fa, ok := u.X.(*ssa.FieldAddr); ok {
			_, name := fieldAddrInfo(fa)
			return name
		}
	}
	if prm, ok := v.(*ssa.Parameter); ok {
		return prm.Name()
	}
	return v.Name()
}

// isFreshLiteralSlice: v is a slice literal / make with a constant size > k in this function.
func isFreshLiteralSlice(v ssa.Value, k int64) bool {
	switch x := v.(type) {
	case *ssa.Slice:
		if a, ok := x.X.(*ssa.Alloc); ok {
			if at, ok := a.Type().Underlying().(*types.Pointer).Elem().Underlying().(*types.Array); ok {
				return at.Len() > k
			}
		}
	case *ssa.MakeSlice:
		if c, ok := x.Len.(*ssa.Const); ok {
			return c.Int64() > k
		}
	}
	return false
}

// lenLowerBound: the greatest lower bound on len(x) implied by the Ifs dominating ins.
func lenLowerBound(ins ssa.Instruction, x ssa.Value) int64 {
	var lo int64
	isLen := func(v ssa.Value) bool {
		call, ok := v.(*ssa.Call)
		if !ok {
			return false
		}
		bi, ok := call.Call.Value.(*ssa.Builtin)
		return ok && bi.Name() == "len" && (call.Call.Args[0] == x || sameValueExpr(call.Call.Args[0], x, 5))
	}
	for d := ins.Block(); d != nil; d = d.Idom() {
		idom := d.Idom()
		if idom == nil || len(idom.Instrs) == 0 {
			continue
		}
		ifi, ok := idom.Instrs[len(idom.Instrs)-1].(*ssa.If)
		if !ok {
			continue
		}
		bo, ok := ifi.Cond.(*ssa.BinOp)
		if !ok || !isLen(bo.X) {
			continue
		}
		k, ok := bo.Y.(*ssa.Const)
		if !ok || k.Value == nil {
			continue
		}
		n := k.Int64()
		onTrue, onFalse := edgeDominates(idom, 0, ins.Block()), edgeDominates(idom, 1, ins.Block())
		if !onTrue && !onFalse {
			// the failing edge leaves the function: everything after the If is on the other edge
			if onlyLeaves(idom.Succs[0]) && idom.Succs[1].Dominates(ins.Block()) {
				onFalse = true
			} else if onlyLeaves(idom.Succs[1]) && idom.Succs[0].Dominates(ins.Block()) {
				onTrue = true
			}
		}
		var b int64 = -1
		switch bo.Op {
		case token.LSS:
			if onFalse {
				b = n
			}
		case token.LEQ:
			if onFalse {
				b = n + 1
			}
		case token.GTR:
			if onTrue {
				b = n + 1
			}
		case token.GEQ:
			if onTrue {
				b = n
			}
		case token.EQL:
			if onTrue {
				b = n
			}
			if onFalse && n == 0 {
				b = 1
			}
		case token.NEQ:
			if onFalse {
				b = n
			}
			if onTrue && n == 0 {
				b = 1
			}
		}
		if b > lo {
			lo = b
		}
	}
	return lo
}

// onlyLeaves: every path from b returns or panics without rejoining.
func onlyLeaves(b *ssa.BasicBlock) bool {
	seen := map[*ssa.BasicBlock]bool{}
	var walk func(b *ssa.BasicBlock, depth int) bool
	walk = func(b *ssa.BasicBlock, depth int) bool {
		if seen[b] || depth > 6 {
			return false
		}
		seen[b] = true
		if len(b.Instrs) == 0 {
			return false
		}
		switch b.Instrs[len(b.Instrs)-1].(type) {
		case *ssa.Return, *ssa.Panic:
			return true
		}
		if len(b.Succs) == 0 {
			return true
		}
		for _, s := range b.Succs {
			if !walk(s, depth+1) {
				return false
			}
		}
		return true
	}
	return walk(b, 0)
}

// ---------------------------------------------------------------------------
// R-NOINPLACE: the formatter never rewrites the parser's side tables

var ruleNoInPlace = &Rule{
	ID:    "R-NOINPLACE",
	Doc:   "formatting is repeatable: no function of the formatter appends onto a reslice of a slice it was handed (in-place filtering rewrites the layout recorded by the parser, so a second Format of the same program prints something else); the fmt command (main.go) never appends onto a reslice of a buffer it was handed either (the members of a txtar archive share the input buffer)",
	Floor: 1,
	Run:   runNoInPlace,
}

func runNoInPlace(c *Ctx, r *Reporter) {
	p, pkg := parserPkg(c, r)
	if pkg == nil {
		return
	}
	n := 0
	for _, fd := range Funcs(pkg) {
		file := p.Fset.Position(fd.Decl.Pos()).Filename
		if !strings.HasSuffix(file, "format.go") && !strings.HasSuffix(file, "multiline.go") {
			continue
		}
		sf := p.SSAFunc(fd.Obj)
		if sf == nil {
			continue
		}
		bad := ""
		var badPos token.Pos
		appends := 0
		for _, fn := range withAnon(sf) {
			for _, b := range fn.Blocks {
				for _, ins := range b.Instrs {
					call, ok := ins.(*ssa.Call)
					if !ok {
						continue
					}
					bi, ok := call.Call.Value.(*ssa.Builtin)
					if !ok || bi.Name() != "append" {
						continue
					}
					appends++
					if sharedBase(call.Call.Args[0], 6) {
						bad = call.String()
						badPos = instrPos(call)
					}
				}
			}
		}
		if appends == 0 {
			continue
		}
		n++
		r.Check(bad == "", fd.QName()+"#no-in-place-append", p.Rel(fd.Decl.Pos()), "results are built in fresh slices", "appends onto a reslice of a parameter / recorded layout ("+bad+" at "+p.Rel(badPos)+"): the parser's side table is rewritten while formatting, so formatting the same program twice gives different text")
	}
	if n == 0 {
		r.Undecided("no appending function found in the formatter")
	}
	// the fmt command: the members of a txtar archive are sub-slices of the one input buffer (txtar.Parse), so output
	// appended onto a reslice of a member's Data overwrites the members that follow before they are formatted
	if mainPkg := p.Pkg(""); mainPkg != nil {
		for _, fd := range Funcs(mainPkg) {
			if !strings.HasSuffix(p.Fset.Position(fd.Decl.Pos()).Filename, "main.go") {
				continue
			}
			sf := p.SSAFunc(fd.Obj)
			if sf == nil {
				continue
			}
			k := 0
			for _, fn := range withAnon(sf) {
				for _, b := range fn.Blocks {
					for _, ins := range b.Instrs {
						call, ok := ins.(*ssa.Call)
						if !ok {
							continue
						}
						if bi, ok := call.Call.Value.(*ssa.Builtin); !ok || bi.Name() != "append" {
							continue
						}
						k++
						r.Check(!sharedBase(call.Call.Args[0], 6), fmt.Sprintf("%s#no-in-place-append[%d]", fd.QName(), k), p.Rel(instrPos(call)), "results are built in fresh slices",
							"appends onto a reslice of a buffer it was handed ("+call.String()+"): the members of a txtar archive share the input buffer, so a formatted member that grew overwrites the source of the next one before it is parsed")
					}
				}
			}
		}
	}
}

// sharedBase: v is a reslice x[:k] / x[i:j] whose base is a parameter or a value loaded from a map/field.
func sharedBase(v ssa.Value, depth int) bool {
	if depth == 0 {
		return false
	}
	switch x := v.(type) {
	case *ssa.Slice:
		switch b := x.X.(type) {
		case *ssa.Parameter, *ssa.Lookup, *ssa.Extract, *ssa.Field:
			return true
		case *ssa.UnOp:
			if _, isField := b.X.(*ssa.FieldAddr); isField {
				return true
			}
		case *ssa.Phi:
			return sharedBase(b, depth-1)
		}
	case *ssa.Phi:
		for _, e := range x.Edges {
			if sharedBase(e, depth-1) {
				return true
			}
		}
	}
	return false
}

// ---------------------------------------------------------------------------
// R-SCOPEPAIR/parser

var ruleScopePairParser = &Rule{
	ID:    "R-SCOPEPAIR/parser",
	Doc:   "static scopes are pushed and popped in pairs inside every parser function: a second push never happens while the first is still open (sibling branches of an if get sibling scopes, not nested ones), and every push is popped — directly or by a deferred pop — when the function returns",
	Floor: 4,
	Run:   runScopePairParser,
}

func runScopePairParser(c *Ctx, r *Reporter) {
	p, pkg := parserPkg(c, r)
	if pkg == nil {
		return
	}
	pop := FindFunc(pkg, "(*parser).popScope")
	if pop == nil {
		r.Undecided("(*parser).popScope not found")
		return
	}
	popSSA := p.SSAFunc(pop.Obj)
	pushNames := map[string]bool{"pushScope": true, "pushScopeWithNode": true}
	isPush := func(ins ssa.Instruction) bool {
		switch x := ins.(type) {
		case *ssa.Call:
			sc := x.Call.StaticCallee()
			return sc != nil && pushNames[sc.Name()]
		case *ssa.Store:
			// p.scope = newScope…(p.scope, …)
			if fa, ok := x.Addr.(*ssa.FieldAddr); ok {
				if named, name := fieldAddrInfo(fa); named != nil && named.Obj().Name() == "parser" && name == "scope" {
					if call, ok := x.Val.(*ssa.Call); ok && call.Call.StaticCallee() != nil && strings.HasPrefix(call.Call.StaticCallee().Name(), "newScope") {
						// root scope (nil outer) is never popped
						if k, ok := call.Call.Args[0].(*ssa.Const); ok && k.IsNil() {
							return false
						}
						return true
					}
				}
			}
		}
		return false
	}
	for _, fd := range Funcs(pkg) {
		sf := p.SSAFunc(fd.Obj)
		if sf == nil || pushNames[sf.Name()] || sf == popSSA {
			continue
		}
		has := false
		for _, b := range sf.Blocks {
			for _, ins := range b.Instrs {
				if isPush(ins) {
					has = true
				}
			}
		}
		if !has {
			continue
		}
		type st struct {
			b        *ssa.BasicBlock
			depth    int
			deferred int
		}
		seen := map[st]bool{}
		stack := []st{{sf.Blocks[0], 0, 0}}
		problem := ""
		for len(stack) > 0 && problem == "" {
			cur := stack[len(stack)-1]
			stack = stack[:len(stack)-1]
			if seen[cur] || cur.depth > 3 || cur.deferred > 3 {
				continue
			}
			seen[cur] = true
			depth, deferred := cur.depth, cur.deferred
			for _, ins := range cur.b.Instrs {
				switch x := ins.(type) {
				case *ssa.Defer:
					if x.Call.StaticCallee() == popSSA {
						deferred++
					}
				case *ssa.Call:
					if x.Call.StaticCallee() == popSSA {
						depth--
					}
				case *ssa.Return:
					if depth-deferred != 0 {
						problem = fmt.Sprintf("a return is reached with %d scope(s) still pushed (after deferred pops)", depth-deferred)
					}
				}
				if isPush(ins) {
					if depth >= 1 {
						problem = "a scope is pushed while the previous one of this function is still open: sibling blocks (if / else if / else) would be nested, so a name declared in one branch is visible in the next"
					}
					depth++
				}
			}
			for _, s := range cur.b.Succs {
				stack = append(stack, st{s, depth, deferred})
			}
		}
		r.Check(problem == "", fd.QName()+"#push-pop", p.Rel(fd.Decl.Pos()), "scopes are pushed and popped in pairs, never nested within the function", problem)
	}
}

// ---------------------------------------------------------------------------
// small evaluator clauses

var ruleEvalMisc = &Rule{
	ID:    "R-EVALMISC",
	Doc:   "small evaluator clauses: cap() is never applied to Evy arrays (length semantics only); type switches over value objects treat the three basic types alike; deepCopy copies the content of an any recursively; the map ranger returns a key only after testing that it is still present; the evaluator itself never writes the stop flag; a host random function gets an argument ≥ 1",
	Floor: 6,
	Run:   runEvalMisc,
}

func runEvalMisc(c *Ctx, r *Reporter) {
	p, pkg := evaluatorPkg(c, r)
	if pkg == nil {
		return
	}
	info := pkg.TypesInfo
	// cap()
	capUses := 0
	for _, fd := range Funcs(pkg) {
		ast.Inspect(fd.Decl.Body, func(n ast.Node) bool {
			if call, ok := n.(*ast.CallExpr); ok && isBuiltinCall(info, call, "cap") {
				capUses++
				r.Viol(fmt.Sprintf("%s#cap[%d]", fd.QName(), capUses), p.Rel(call.Pos()), "cap() of an Evy value slice: bounds must be checked against the length, spare capacity is not part of the array")
			}
			return true
		})
	}
	if capUses == 0 {
		r.Ok("pkg/evaluator#no-cap", "pkg/evaluator", "no use of cap() on value slices")
	}
	// basic trio in type switches over value
	valueObj := pkg.Types.Scope().Lookup("value")
	if valueObj != nil {
		iface := valueObj.Type().Underlying().(*types.Interface)
		for _, fd := range Funcs(pkg) {
			k := 0
			for _, ts := range typeSwitches(info, fd.Decl.Body, func(subj ast.Expr) bool {
				t := info.TypeOf(subj)
				return t != nil && types.Identical(t.Underlying(), iface)
			}) {
				cases, _ := typeSwitchCases(info, ts)
				have := map[string]bool{}
				for tn := range cases {
					have[tn.Name()] = true
				}
				cnt := 0
				for _, b := range []string{"numVal", "stringVal", "boolVal"} {
					if have[b] {
						cnt++
					}
				}
				if cnt < 2 || !have["anyVal"] {
					continue // only generic value walkers (those that also unwrap an any) must treat the three basic types alike
				}
				k++
				r.Check(cnt == 3, fmt.Sprintf("%s#basic-types[%d]", fd.QName(), k), p.Rel(ts.Pos()), "num, string and bool are handled alike", "a type switch over values handles two of the basic types num/string/bool but not the third: values of that type take the generic default path (e.g. bools reach Sprintf as strings)")
			}
		}
	}
	// deepCopy: any content copied recursively
	if fd := FindFunc(pkg, "deepCopy"); fd != nil {
		okDeep := false
		for _, ts := range typeSwitches(info, fd.Decl.Body, func(ast.Expr) bool { return true }) {
			cases, _ := typeSwitchCases(info, ts)
			for tn, cc := range cases {
				if tn.Name() != "anyVal" {
					continue
				}
				ast.Inspect(cc, func(n ast.Node) bool {
					if call, ok := n.(*ast.CallExpr); ok {
						if fn := calleeFunc(info, call); fn != nil && fn.Name() == "deepCopy" {
							okDeep = true
						}
					}
					return true
				})
				if len(cc.List) > 1 {
					okDeep = false // shared clause with the basic types cannot recurse into the content
				}
			}
		}
		r.Check(okDeep, fd.QName()+"#any-content", p.Rel(fd.Decl.Pos()), "the content of an any is deep-copied", "deepCopy does not recurse into the content of an any: arrays/maps held in an any stay shared between the repetitions of `arr * n`")
	}
	// mapRange.next: return true only after a presence test (directly, through a helper that reports the presence, or
	// through a helper — nextKey — whose own boolean result is true only after the test)
	if fd := FindFunc(pkg, "(*mapRange).next"); fd != nil {
		sf := p.SSAFunc(fd.Obj)
		var trueOnlyBehind func(fn *ssa.Function, idx int, depth int) (found, ok bool)
		trueOnlyBehind = func(fn *ssa.Function, idx int, depth int) (bool, bool) {
			found, okAll := false, true
			if depth > 2 {
				return false, false
			}
			for _, ret := range returnsOf(fn) {
				for _, v := range resultValues(ret, idx) {
					if k, ok := v.(*ssa.Const); ok {
						if k.Value == nil || k.Value.ExactString() != "true" {
							continue
						}
					} else if ex, ok := v.(*ssa.Extract); ok {
						// handing on a helper's boolean
						if call, ok := ex.Tuple.(*ssa.Call); ok && call.Call.StaticCallee() != nil && call.Call.StaticCallee().Pkg == fn.Pkg {
							f2, ok2 := trueOnlyBehind(call.Call.StaticCallee(), ex.Index, depth+1)
							found = found || f2
							if !ok2 {
								okAll = false
							}
							continue
						}
						okAll = false
						continue
					} else {
						if present, isP := presenceCond(v, pkg.Types, 0); isP && present {
							found = true
							continue
						}
						okAll = false
						continue
					}
					found = true
					guarded := false
					for d := ret.Block(); d != nil; d = d.Idom() {
						idom := d.Idom()
						if idom == nil || len(idom.Instrs) == 0 {
							continue
						}
						ifi, ok := idom.Instrs[len(idom.Instrs)-1].(*ssa.If)
						if !ok {
							continue
						}
						if present, isP := presenceCond(ifi.Cond, pkg.Types, 0); isP {
							e := 0
							if !present {
								e = 1
							}
							if edgeDominates(idom, e, ret.Block()) {
								guarded = true
							}
						}
						// the true edge of a helper's boolean that is itself true only behind the test
						cond, neg := ifi.Cond, false
						if u, ok := cond.(*ssa.UnOp); ok && u.Op == token.NOT {
							cond, neg = u.X, true
						}
						if ex, ok := cond.(*ssa.Extract); ok {
							if call, ok := ex.Tuple.(*ssa.Call); ok && call.Call.StaticCallee() != nil && call.Call.StaticCallee().Pkg == fn.Pkg {
								if f2, ok2 := trueOnlyBehind(call.Call.StaticCallee(), ex.Index, depth+1); f2 && ok2 {
									e := 0
									if neg {
										e = 1
									}
									if edgeDominates(idom, e, ret.Block()) {
										guarded = true
									}
								}
							}
						}
					}
					if !guarded {
						okAll = false
					}
				}
			}
			return found, okAll
		}
		found, okPres := trueOnlyBehind(sf, 0, 0)
		r.Check(found && okPres, fd.QName()+"#present", p.Rel(fd.Decl.Pos()), "a key is handed to the loop body only if it is still in the map", "(*mapRange).next can return true without having tested that the key is still present: a key deleted during the loop is visited and m[k] panics")
	}
	// Stopped is written only by the platform
	for _, fn := range ssaFuncsOf(p, pkg) {
		for _, b := range fn.Blocks {
			for _, ins := range b.Instrs {
				if st, ok := ins.(*ssa.Store); ok {
					if fa, ok := st.Addr.(*ssa.FieldAddr); ok {
						if named, name := fieldAddrInfo(fa); named != nil && named.Obj().Name() == "Evaluator" && name == "Stopped" {
							r.Viol(ssaQName(fn)+"#writes-Stopped", p.Rel(instrPos(st)), "the evaluator writes its own stop flag: a stop raised by the platform can be lost")
						}
					}
				}
			}
		}
	}
	r.Ok("pkg/evaluator#Stopped-owner", "pkg/evaluator", "checked: stores to Evaluator.Stopped inside the evaluator are violations")
	// host precondition: rand.Int31n / Intn / Int63n need n > 0
	for _, fn := range ssaFuncsOf(p, pkg) {
		k := 0
		for _, b := range fn.Blocks {
			for _, ins := range b.Instrs {
				call, ok := ins.(*ssa.Call)
				if !ok || call.Call.StaticCallee() == nil {
					continue
				}
				name := pkgFuncName(call.Call.StaticCallee())
				if name != "math/rand.Rand.Int31n" && name != "math/rand.Rand.Intn" && name != "math/rand.Rand.Int63n" {
					continue
				}
				k++
				arg := call.Call.Args[len(call.Call.Args)-1]
				okPos := false
				if cv, ok := arg.(*ssa.Convert); ok && isFloat(cv.X.Type()) {
					okPos = floatAtLeastOne(cv, cv.X)
				}
				r.Check(okPos, fmt.Sprintf("%s#host-precondition[%d]:%s", ssaQName(fn), k, call.Call.StaticCallee().Name()), p.Rel(instrPos(call)), "the bound handed to the host random function is ≥ 1", call.Call.StaticCallee().Name()+" panics for n <= 0: the converted float must be dominated by the true edge of `x >= c` with c ≥ 1 (a fraction in (0,1) truncates to 0)")
			}
		}
	}
}

// floatAtLeastOne: ins is dominated by the true edge of `f >= c` (c ≥ 1) or `f > c` (c ≥ 1).
func floatAtLeastOne(ins ssa.Instruction, f ssa.Value) bool {
	for _, fact := range impliedConds(ins.Block()) {
		bo, ok := fact.Cond.(*ssa.BinOp)
		if !ok || !fact.Truth || !sameFloat(bo.X, f) {
			continue
		}
		k, ok := bo.Y.(*ssa.Const)
		if !ok || k.Value == nil {
			continue
		}
		if (bo.Op == token.GEQ || bo.Op == token.GTR) && k.Float64() >= 1 {
			return true
		}
	}
	return false
}

// ---------------------------------------------------------------------------
// R-SLOTMAX

var ruleSlotMax = &Rule{
	ID:    "R-SLOTMAX",
	Doc:   "when a block's symbol table is popped, the slot requirement handed to the outer table depends on the outer table's previous requirement, the popped table's own nested requirement and its own variable count — dropping any of the three under-allocates locals for some nesting, and the operand stack then overwrites live variables",
	Floor: 3,
	Run:   runSlotMax,
}

func runSlotMax(c *Ctx, r *Reporter) {
	p, pkg := bytecodePkg(c, r)
	if pkg == nil {
		return
	}
	fd := FindFunc(pkg, "(*SymbolTable).Pop")
	if fd == nil {
		r.Undecided("(*SymbolTable).Pop not found")
		return
	}
	sf := p.SSAFunc(fd.Obj)
	var store *ssa.Store
	var stores []*ssa.Store
	for _, b := range sf.Blocks {
		for _, ins := range b.Instrs {
			if st, ok := ins.(*ssa.Store); ok {
				if fa, ok := st.Addr.(*ssa.FieldAddr); ok {
					if _, name := fieldAddrInfo(fa); name == "nestedMaxIndex" {
						store = st
						stores = append(stores, st)
					}
				}
			}
		}
	}
	if store == nil {
		r.Viol(fd.QName()+"#propagates", p.Rel(fd.Decl.Pos()), "Pop does not propagate the nested slot requirement to the outer table")
		return
	}
	deps := map[string]bool{}
	var walk func(v ssa.Value, depth int)
	walk = func(v ssa.Value, depth int) {
		if depth == 0 {
			return
		}
		switch x := v.(type) {
		case *ssa.UnOp:
			if fa, ok := x.X.(*ssa.FieldAddr); ok {
				_, name := fieldAddrInfo(fa)
				owner := "s"
				if mentionsField(fa.X, "outer", 3) {
					owner = "outer"
				}
				deps[owner+"."+name] = true
			}
			walk(x.X, depth-1)
		case *ssa.BinOp:
			walk(x.X, depth-1)
			walk(x.Y, depth-1)
		case *ssa.Call:
			for _, a := range x.Call.Args {
				walk(a, depth-1)
			}
		case *ssa.Phi:
			for _, e := range x.Edges {
				walk(e, depth-1)
			}
			// control dependence of a hand-written max: the compared values
			for _, pred := range x.Block().Preds {
				for d := pred; d != nil; d = d.Idom() {
					if len(d.Instrs) > 0 {
						if ifi, ok := d.Instrs[len(d.Instrs)-1].(*ssa.If); ok {
							walk(ifi.Cond, depth-1)
						}
					}
				}
			}
		case *ssa.Convert:
			walk(x.X, depth-1)
		}
	}
	for _, st := range stores {
		walk(st.Val, 8)
	}
	// a hand-written maximum may store conditionally: `if used > outer.nestedMaxIndex { outer.nestedMaxIndex = used }`.
	// The comparison the store depends on belongs to the computation, and where it compares the stored value with the
	// old value of the stored field, skipping the store keeps the larger old value: the test then stands for the store.
	maxGuards := map[*ssa.Store]*ssa.If{}
	for _, store := range stores {
		for _, f := range impliedConds(store.Block()) {
			walk(f.Cond, 8)
			bo, ok := f.Cond.(*ssa.BinOp)
			if !ok {
				continue
			}
			isOld := func(v ssa.Value) bool {
				u, ok := v.(*ssa.UnOp)
				if !ok {
					return false
				}
				fa, ok := u.X.(*ssa.FieldAddr)
				sa, ok2 := store.Addr.(*ssa.FieldAddr)
				return ok && ok2 && fa.Field == sa.Field && fa.X == sa.X
			}
			larger := (sameLoadOrValue(bo.X, store.Val) && isOld(bo.Y) && ((bo.Op == token.GTR && f.Truth) || (bo.Op == token.LEQ && !f.Truth))) ||
				(sameLoadOrValue(bo.Y, store.Val) && isOld(bo.X) && ((bo.Op == token.LSS && f.Truth) || (bo.Op == token.GEQ && !f.Truth)))
			if larger {
				if refs := bo.Referrers(); refs != nil {
					for _, ref := range *refs {
						if ifi, ok := ref.(*ssa.If); ok {
							maxGuards[store] = ifi
						}
					}
				}
			}
		}
	}
	for _, need := range []string{"outer.nestedMaxIndex", "s.nestedMaxIndex", "s.index"} {
		r.Check(deps[need], fd.QName()+"#depends-on:"+need, p.Rel(instrPos(store)), "the propagated requirement depends on "+need, "the slot requirement stored into the outer table no longer depends on "+need+": blocks nested or placed side by side in a certain way get too few local slots, and the VM's operand stack overwrites live variables")
	}
	// the requirement is propagated on every path that returns the outer table (no early return before the store)
	early := ""
	for _, ret := range returnsOf(sf) {
		if len(ret.Results) != 1 {
			continue
		}
		// returns of the receiver itself (global table: nothing to propagate to) are fine
		if ret.Results[0] == ssa.Value(sf.Params[0]) {
			continue
		}
		for _, st := range stores {
			if !instrDominates(st, ret) && !(maxGuards[st] != nil && instrDominates(maxGuards[st], ret)) {
				early = p.Rel(instrPos(ret))
			}
		}
	}
	r.Check(early == "", fd.QName()+"#propagates-on-every-path", p.Rel(instrPos(store)), "every return of the outer table follows the propagation of the slot requirement",
		"Pop returns the outer table at "+early+" without propagating the slot requirement: the requirement of blocks nested inside a scope that declares nothing itself is lost, "+
			"so deeper locals share slots with the operand stack or with loop state")
	// Push: the nested table continues the numbering of the outer table (or starts at 0 under the global table)
	if pf := FindFunc(pkg, "(*SymbolTable).Push"); pf != nil {
		psf := p.SSAFunc(pf.Obj)
		var idxStore *ssa.Store
		for _, b := range psf.Blocks {
			for _, ins := range b.Instrs {
				if st, ok := ins.(*ssa.Store); ok {
					if fa, ok := st.Addr.(*ssa.FieldAddr); ok {
						if _, name := fieldAddrInfo(fa); name == "index" {
							if _, fresh := fa.X.(*ssa.Alloc); fresh {
								idxStore = st
							}
						}
					}
				}
			}
		}
		if idxStore == nil {
			r.Viol(pf.QName()+"#continues-numbering", p.Rel(pf.Decl.Pos()), "Push does not initialise the index of the nested table")
		} else {
			okSrc := true
			why := ""
			var src func(v ssa.Value, depth int)
			src = func(v ssa.Value, depth int) {
				if depth > 4 {
					okSrc, why = false, "too deep"
					return
				}
				switch x := v.(type) {
				case *ssa.Const:
					if x.Value == nil || x.Value.ExactString() != "0" {
						okSrc, why = false, "constant "+x.String()
					}
				case *ssa.Phi:
					for _, e := range x.Edges {
						src(e, depth+1)
					}
				case *ssa.UnOp:
					fa, ok := x.X.(*ssa.FieldAddr)
					if ok {
						if _, name := fieldAddrInfo(fa); name == "index" && fa.X == ssa.Value(psf.Params[0]) {
							return
						}
					}
					okSrc, why = false, x.String()
				default:
					okSrc, why = false, v.String()
				}
			}
			src(idxStore.Val, 0)
			r.Check(okSrc, pf.QName()+"#continues-numbering", p.Rel(instrPos(idxStore)), "the nested table starts at the outer table's next free index (0 under the global table)",
				"the nested table's first index is "+why+", not the outer table's next free index: with three or more nested scopes an inner variable gets the slot of a live outer one")
		}
	} else {
		r.Undecided("(*SymbolTable).Push not found")
	}
	// the three quantities are absolute slot indexes: they combine by maximum, never by arithmetic
	arith := ""
	var scan func(v ssa.Value, depth int)
	scan = func(v ssa.Value, depth int) {
		if depth == 0 {
			return
		}
		switch x := v.(type) {
		case *ssa.BinOp:
			switch x.Op {
			case token.ADD, token.SUB, token.MUL:
				_, lc := x.X.(*ssa.Const)
				_, rc := x.Y.(*ssa.Const)
				if !lc && !rc {
					arith = x.Op.String()
				}
			}
			scan(x.X, depth-1)
			scan(x.Y, depth-1)
		case *ssa.Call:
			for _, a := range x.Call.Args {
				scan(a, depth-1)
			}
		case *ssa.Phi:
			for _, e := range x.Edges {
				scan(e, depth-1)
			}
		case *ssa.Convert:
			scan(x.X, depth-1)
		}
	}
	scan(store.Val, 8)
	r.Check(arith == "", fd.QName()+"#absolute-indexes", p.Rel(instrPos(store)), "the requirement is a maximum of absolute slot indexes",
		"the slot requirement combines two slot indexes with `"+arith+"`: both are absolute positions, so the sum grows with every nesting level (quadratic local count, VM stack overflow for deeply nested blocks) or the difference under-allocates")
	var got []string
	for k := range deps {
		got = append(got, k)
	}
	sort.Strings(got)
	r.Note("Pop dependencies: %v", got)
	symbolStoreDiscipline(p, pkg, r)
}

// symbolStoreDiscipline: the name→slot map of a symbol table and its slot counter are written by Define only
// (constructors initialise the tables they allocate). An entry stored into a table by anything else — a look-up
// that remembers what it found in an outer table, say — makes Define's "already defined here" test answer for a
// variable of another scope: `x := x + 1` inside a block would get the outer x's slot, so two variables that are
// alive at the same time share one storage slot. And the symbol stored by Define carries the table's own counter.
func symbolStoreDiscipline(p *Program, pkg *packages.Package, r *Reporter) {
	isTableField := func(v ssa.Value, field string) (ssa.Value, bool) { // v = &x.field of a SymbolTable
		fa, ok := v.(*ssa.FieldAddr)
		if !ok {
			return nil, false
		}
		owner, name := fieldAddrInfo(fa)
		if owner == nil || owner.Obj().Name() != "SymbolTable" || name != field {
			return nil, false
		}
		return fa.X, true
	}
	n := 0
	definesSeen := false
	for _, fn := range ssaFuncsOf(p, pkg) {
		k := 0
		for _, b := range fn.Blocks {
			for _, ins := range b.Instrs {
				switch x := ins.(type) {
				case *ssa.MapUpdate:
					u, ok := x.Map.(*ssa.UnOp)
					if !ok {
						continue
					}
					tbl, ok := isTableField(u.X, "store")
					if !ok {
						continue
					}
					n++
					k++
					construct := fmt.Sprintf("%s#symbol-store-write[%d]", ssaQName(fn), k)
					pos := p.Rel(instrPos(x))
					if ssaDisplayName(fn) != "(*SymbolTable).Define" {
						r.Viol(construct, pos, "the name→slot map of a symbol table is written outside Define: an entry that was not defined in this scope makes Define's `already defined` test answer for a variable of another scope — "+
							"`x := x + 1` in a block then reuses the outer x's slot (two live variables share storage)")
						continue
					}
					definesSeen = true
					// key is the name parameter, table is the receiver, value is a symbol whose Index is the receiver's counter
					good := len(fn.Params) == 2 && x.Key == ssa.Value(fn.Params[1]) && tbl == ssa.Value(fn.Params[0])
					why := "Define stores under another key or into another table than its own"
					if good {
						good = false
						why = "the symbol stored by Define does not carry the table's own slot counter (Index: s.index)"
						var sym ssa.Value = x.Value
						if ld, ok := sym.(*ssa.UnOp); ok && ld.Op == token.MUL {
							if a, ok := ld.X.(*ssa.Alloc); ok {
								if iv := storedFieldValue(a, "Index"); iv != nil {
									if l2, ok := iv.(*ssa.UnOp); ok && l2.Op == token.MUL {
										if t2, ok := isTableField(l2.X, "index"); ok && t2 == ssa.Value(fn.Params[0]) {
											good = true
										}
									}
								}
							}
						}
					}
					r.Check(good, construct, pos, "Define stores a symbol with the table's own counter under the defined name", why)
				case *ssa.Store:
					tbl, ok := isTableField(x.Addr, "index")
					if !ok {
						continue
					}
					if a, isAlloc := tbl.(*ssa.Alloc); isAlloc && a.Heap {
						continue // a constructor initialising the table it allocates (Push; checked by #continues-numbering)
					}
					n++
					k++
					construct := fmt.Sprintf("%s#slot-counter-write[%d]", ssaQName(fn), k)
					pos := p.Rel(instrPos(x))
					good := false
					if ssaDisplayName(fn) == "(*SymbolTable).Define" {
						if bo, ok := x.Val.(*ssa.BinOp); ok && bo.Op == token.ADD {
							if kc, ok := bo.Y.(*ssa.Const); ok && kc.Value != nil && kc.Value.ExactString() == "1" {
								if ld, ok := bo.X.(*ssa.UnOp); ok {
									if t2, ok := isTableField(ld.X, "index"); ok && t2 == tbl {
										good = true
									}
								}
							}
						}
					}
					r.Check(good, construct, pos, "the slot counter advances by one per definition", "the slot counter of a symbol table is written other than by `index++` in Define: slots could be handed out twice or skipped")
				}
			}
		}
	}
	if !definesSeen {
		r.Viol("pkg/bytecode.(*SymbolTable).Define#symbol-store-write", "", "Define does not record the symbol in the table")
	}
	_ = n
}

// sameLoadOrValue: the same SSA value, or two loads of the same field of the same object (s.index read twice).
func sameLoadOrValue(a, b ssa.Value) bool {
	if a == b {
		return true
	}
	ua, ok1 := a.(*ssa.UnOp)
	ub, ok2 := b.(*ssa.UnOp)
	if !ok1 || !ok2 {
		return false
	}
	fa, ok1 := ua.X.(*ssa.FieldAddr)
	fb, ok2 := ub.X.(*ssa.FieldAddr)
	return ok1 && ok2 && fa.Field == fb.Field && fa.X == fb.X
}
