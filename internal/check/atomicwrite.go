package check

import (
	"fmt"
	"go/token"
	"go/types"
	"sort"
	"strings"

	"golang.org/x/tools/go/packages"
	"golang.org/x/tools/go/ssa"
)

var ruleAtomicWrite = &Rule{
	ID:    "R-ATOMICWRITE",
	Doc:   "`evy fmt -w` file discipline over the call graph rooted at (*fmtCmd).Run: only CreateTemp/Write/Chmod/Close/Rename/Stat/ReadFile touch files (W1); the temp file is created in the target's directory and renamed onto the target (W2); CreateTemp→Write→Chmod→Close→Rename happen in this order, each error tested, its failing edge never reaching Rename (W3); the temp file gets the target's permission bits from Stat (W4); the writer runs only after a successful format, with format's output, under the Write flag, and format gets the Check flag — or, where format only formats, each of its callers tests the Check flag first thing on the success edge and hands the formatted bytes and format's output to the one comparison helper (W5); --check compares input with the formatter's own output and fails exactly on the unequal edge (W6); an error for one file ends the command with that error (W7); an error carried around a loop over the members of an archive is tested or used inside the loop before the next member replaces it (W8)",
	Floor: 15,
	Run:   runAtomicWrite,
}

func pkgFuncName(fn *ssa.Function) string {
	if fn == nil {
		return ""
	}
	pkg := ""
	if fn.Pkg != nil {
		pkg = fn.Pkg.Pkg.Path()
	} else if obj := fn.Object(); obj != nil && obj.Pkg() != nil {
		pkg = obj.Pkg().Path()
	}
	name := fn.Name()
	if recv := fn.Signature.Recv(); recv != nil {
		if n := namedOf(recv.Type()); n != nil {
			name = n.Obj().Name() + "." + name
		}
	}
	return pkg + "." + name
}

func errResultOf(call *ssa.Call) ssa.Value {
	sig := call.Call.Signature()
	n := sig.Results().Len()
	if n == 0 {
		return nil
	}
	if !isErrorType(sig.Results().At(n - 1).Type()) {
		return nil
	}
	if n == 1 {
		return call
	}
	if refs := call.Referrers(); refs != nil {
		for _, ref := range *refs {
			if ex, ok := ref.(*ssa.Extract); ok && ex.Index == n-1 {
				return ex
			}
		}
	}
	return nil
}

// nilErrGuards: use is dominated by the nil edge of the error result of call.
func nilErrGuards(call *ssa.Call, use ssa.Instruction) bool {
	errVal := errResultOf(call)
	if errVal == nil {
		return false
	}
	for d := use.Block(); d != nil; d = d.Idom() {
		idom := d.Idom()
		if idom == nil || len(idom.Instrs) == 0 {
			continue
		}
		ifi, ok := idom.Instrs[len(idom.Instrs)-1].(*ssa.If)
		if !ok {
			continue
		}
		bo, ok := ifi.Cond.(*ssa.BinOp)
		if !ok || bo.X != errVal {
			continue
		}
		k, ok := bo.Y.(*ssa.Const)
		if !ok || !k.IsNil() {
			continue
		}
		nilEdge := 1
		if bo.Op == token.EQL {
			nilEdge = 0
		}
		if edgeDominates(idom, nilEdge, use.Block()) {
			return true
		}
	}
	return false
}

func runAtomicWrite(c *Ctx, r *Reporter) {
	p, err := c.Default()
	if err != nil {
		r.Undecided("%v", err)
		return
	}
	mainPkg := p.Pkg("")
	if mainPkg == nil {
		r.Undecided("main package not loaded")
		return
	}
	get := func(name string) *ssa.Function {
		fd := FindFunc(mainPkg, name)
		if fd == nil {
			r.Undecided("main.%s not found", name)
			return nil
		}
		return p.SSAFunc(fd.Obj)
	}
	root := get("(*fmtCmd).Run")
	writer := get("writeAtomically")
	format := get("format")
	if root == nil || writer == nil || format == nil {
		return
	}
	// reachable set through static calls inside main
	reach := map[*ssa.Function]bool{}
	var visit func(fn *ssa.Function)
	visit = func(fn *ssa.Function) {
		if reach[fn] {
			return
		}
		reach[fn] = true
		for _, f := range withAnon(fn) {
			for _, b := range f.Blocks {
				for _, ins := range b.Instrs {
					if ci, ok := ins.(ssa.CallInstruction); ok {
						if sc := ci.Common().StaticCallee(); sc != nil && sc.Pkg != nil && sc.Pkg.Pkg == mainPkg.Types {
							visit(sc)
						}
					}
				}
			}
		}
	}
	visit(root)
	// W1
	allowed := map[string]bool{"os.ReadFile": true, "os.CreateTemp": true, "os.File.Write": true, "os.File.Chmod": true, "os.File.Close": true, "os.File.Name": true, "os.Rename": true, "os.Stat": true}
	var fns []*ssa.Function
	for fn := range reach {
		fns = append(fns, fn)
	}
	sort.Slice(fns, func(i, j int) bool { return fns[i].Name() < fns[j].Name() })
	n := 0
	for _, fn := range fns {
		for _, f := range withAnon(fn) {
			for _, b := range f.Blocks {
				for _, ins := range b.Instrs {
					ci, ok := ins.(ssa.CallInstruction)
					if !ok {
						continue
					}
					sc := ci.Common().StaticCallee()
					if sc == nil {
						continue
					}
					name := pkgFuncName(sc)
					if !strings.HasPrefix(name, "os.") && !strings.HasPrefix(name, "io/ioutil.") && !strings.HasPrefix(name, "syscall.") {
						continue
					}
					n++
					r.Check(allowed[name], fmt.Sprintf("%s#os-call[%d]:%s", ssaQName(fn), n, name), p.Rel(instrPos(ins)), "file primitive of the temp-file-and-rename discipline",
						fmt.Sprintf("`evy fmt` reaches %s: writing or opening the target in place (anything but CreateTemp+Write+Chmod+Close+Rename) can leave a truncated or half-written source file when the process is killed or the write fails", name))
				}
			}
		}
	}
	// writer internals
	var createTemp, write, chmod, closeC, rename, stat *ssa.Call
	for _, b := range writer.Blocks {
		for _, ins := range b.Instrs {
			call, ok := ins.(*ssa.Call)
			if !ok || call.Call.StaticCallee() == nil {
				continue
			}
			switch pkgFuncName(call.Call.StaticCallee()) {
			case "os.CreateTemp":
				createTemp = call
			case "os.File.Write":
				write = call
			case "os.File.Chmod":
				chmod = call
			case "os.File.Close":
				closeC = call
			case "os.Rename":
				rename = call
			case "os.Stat":
				stat = call
			}
		}
	}
	wq := "writeAtomically"
	wpos := p.Rel(writer.Pos())
	if createTemp == nil || write == nil || closeC == nil || rename == nil {
		// the steps may be spread over helpers of writeAtomically: they are then checked along the chain of calls
		if !atomicWriteChain(p, r, writer, wq, wpos) {
			r.Viol(wq+"#sequence", wpos, "writeAtomically must create a temp file, write it, close it and rename it onto the target")
			return
		}
		goto callers
	}
	{
		var filename, data ssa.Value
		for _, prm := range writer.Params {
			if b, ok := prm.Type().Underlying().(*types.Basic); ok && b.Kind() == types.String {
				filename = prm
			}
			if _, ok := prm.Type().Underlying().(*types.Slice); ok {
				data = prm
			}
		}
		tempFile := func() ssa.Value {
			for _, ref := range *createTemp.Referrers() {
				if ex, ok := ref.(*ssa.Extract); ok && ex.Index == 0 {
					return ex
				}
			}
			return nil
		}()
		// W2
		okDir := false
		if dirCall, ok := createTemp.Call.Args[0].(*ssa.Call); ok && dirCall.Call.StaticCallee() != nil && pkgFuncName(dirCall.Call.StaticCallee()) == "path/filepath.Dir" {
			okDir = unspill(dirCall.Call.Args[0]) == filename
		}
		r.Check(okDir, wq+"#W2:same-directory", p.Rel(instrPos(createTemp)), "the temp file is created in the directory of the target (rename cannot cross file systems)", "os.CreateTemp must get filepath.Dir(filename): a temp file elsewhere makes the final rename a non-atomic copy or fails across file systems")
		okRen := len(rename.Call.Args) == 2 && unspill(rename.Call.Args[1]) == filename
		if okRen {
			nameCall, ok := rename.Call.Args[0].(*ssa.Call)
			okRen = ok && nameCall.Call.StaticCallee() != nil && pkgFuncName(nameCall.Call.StaticCallee()) == "os.File.Name" && nameCall.Call.Args[0] == tempFile
		}
		r.Check(okRen, wq+"#W2:rename-temp-onto-target", p.Rel(instrPos(rename)), "the written temp file is renamed onto the target", "os.Rename must move tempFile.Name() onto filename")
		r.Check(len(write.Call.Args) == 2 && write.Call.Args[0] == tempFile && unspill(write.Call.Args[1]) == data, wq+"#W3:write-data", p.Rel(instrPos(write)), "the formatted bytes are written to the temp file", "tempFile.Write must write the data parameter to the temp file")
		// W3 order + error discipline
		seq := []*ssa.Call{createTemp, write, closeC, rename}
		names := []string{"CreateTemp", "Write", "Close", "Rename"}
		for i := 0; i+1 < len(seq); i++ {
			r.Check(nilErrGuards(seq[i], seq[i+1]), fmt.Sprintf("%s#W3:%s-ok-before-%s", wq, names[i], names[i+1]), p.Rel(instrPos(seq[i+1])), names[i+1]+" runs only after "+names[i]+" succeeded",
				fmt.Sprintf("%s is not confined to the err == nil edge of %s: after a failed %s the target would be replaced by an incomplete temp file", names[i+1], names[i], names[i]))
		}
		okClose := closeC.Call.Args[0] == tempFile
		r.Check(okClose, wq+"#W3:close-temp", p.Rel(instrPos(closeC)), "the temp file is closed before the rename", "Close must close the temp file")
		// success return only after Rename succeeded
		okRet := true
		for _, ret := range returnsOf(writer) {
			passes := len(ret.Results) > 0 && ret.Results[len(ret.Results)-1] == errResultOf(rename) && instrDominates(rename, ret)
			if isSuccessReturn(ret) && !nilErrGuards(rename, ret) && !passes { // `return os.Rename(…)` succeeds exactly when the rename does
				okRet = false
			}
		}
		r.Check(okRet, wq+"#W3:success-after-rename", wpos, "success is reported only after the rename succeeded", "writeAtomically can return nil without a successful rename")
		// W4
		okMode := false
		if chmod != nil && stat != nil {
			okMode = chmod.Call.Args[0] == tempFile && unspill(stat.Call.Args[0]) == filename && valueReaches(chmod.Call.Args[1], stat, 8) &&
				instrDominatesOrReaches(write, chmod) && reachesBlock(chmod.Block(), rename.Block()) && nilErrGuards(stat, chmod)
			// a failed chmod must not reach rename
			if okMode {
				okMode = !pathFromFailingEdge(chmod, rename)
			}
			// a failed Stat must not reach rename either: the temp file would keep the 0600 of os.CreateTemp
			if okMode {
				okMode = !pathFromFailingEdge(stat, rename)
			}
		}
		r.Check(okMode, wq+"#W4:permission-bits", wpos, "the temp file receives the target's permission bits (Stat → Chmod) before the rename", "the temp file created by os.CreateTemp has mode 0600; without a Chmod to the target's Stat().Mode().Perm() before the rename, `evy fmt -w` silently changes the file's permissions")
	}
callers:
	// W5: callers. A function that only hands its own parameters on to the writer (a wrapper that adds the file name
	// to the error, say) stands for the writer: its call sites are the write sites.
	dataArg := map[*ssa.Function]int{writer: 0}
	for pi, prm := range writer.Params {
		if _, isSlice := prm.Type().Underlying().(*types.Slice); isSlice {
			dataArg[writer] = pi
		}
	}
	for changed := true; changed; {
		changed = false
		for _, fn := range fns {
			if _, known := dataArg[fn]; known {
				continue
			}
			for _, b := range fn.Blocks {
				for _, ins := range b.Instrs {
					call, ok := ins.(*ssa.Call)
					if !ok {
						continue
					}
					di, isWriter := dataArg[call.Call.StaticCallee()]
					if !isWriter || di >= len(call.Call.Args) {
						continue
					}
					if prm, ok := call.Call.Args[di].(*ssa.Parameter); ok && prm.Parent() == fn {
						for pi, fp := range fn.Params {
							if fp == prm {
								dataArg[fn] = pi
								changed = true
							}
						}
					}
				}
			}
		}
	}
	k := 0
	for _, fn := range fns {
		if _, isWrapper := dataArg[fn]; isWrapper {
			continue
		}
		for _, b := range fn.Blocks {
			for _, ins := range b.Instrs {
				call, ok := ins.(*ssa.Call)
				if !ok {
					continue
				}
				dataIdx, isWriter := dataArg[call.Call.StaticCallee()]
				if !isWriter || dataIdx >= len(call.Call.Args) {
					continue
				}
				k++
				construct := fmt.Sprintf("%s#W5:write[%d]", ssaQName(fn), k)
				// dominated by success of every format call that dominates it or precedes it in the function; a helper
				// of the command that formats (in place, say the members of an archive) and fails whenever format
				// fails counts as a format call
				var fmtCalls []*ssa.Call
				viaHelper := map[*ssa.Call][]*ssa.Call{} // call of a formatting helper -> the format calls inside it
				helperOutput := map[*ssa.Call]bool{}     // … whose first result is format's output
				for _, b2 := range fn.Blocks {
					for _, i2 := range b2.Instrs {
						c2, ok := i2.(*ssa.Call)
						if !ok || c2.Call.StaticCallee() == nil {
							continue
						}
						h := c2.Call.StaticCallee()
						if h == format {
							fmtCalls = append(fmtCalls, c2)
							continue
						}
						if h.Pkg != fn.Pkg || h == writer || len(h.Blocks) == 0 || errResultOf(c2) == nil {
							continue
						}
						var inner []*ssa.Call
						tight := true
						for _, hb := range h.Blocks {
							for _, hi := range hb.Instrs {
								if c3, ok := hi.(*ssa.Call); ok && c3.Call.StaticCallee() == format {
									inner = append(inner, c3)
									for _, ret := range returnsOf(h) {
										if isSuccessReturn(ret) && pathFromFailingEdge(c3, ret) {
											tight = false
										}
									}
								}
							}
						}
						if len(inner) > 0 && tight {
							fmtCalls = append(fmtCalls, c2)
							viaHelper[c2] = inner
							// what the helper hands back as formatted text is format's own result (not, say, the
							// contents of a buffer it shares between calls)
							outOK := true
							for _, ret := range returnsOf(h) {
								if !isSuccessReturn(ret) || len(ret.Results) < 2 {
									continue
								}
								from := false
								for _, ifc := range inner {
									if valueReaches(ret.Results[0], ifc, 6) {
										from = true
									}
								}
								if !from {
									outOK = false
								}
							}
							helperOutput[c2] = outOK
						}
					}
				}
				okW := len(fmtCalls) > 0
				why := "writeAtomically is called in a function that never formats"
				for _, fc := range fmtCalls {
					// no path from the failing edge of format to the write
					if pathFromFailingEdge(fc, call) {
						okW = false
						why = "a path on which format(…) returned an error reaches writeAtomically: a file that does not parse would be overwritten"
					}
				}
				// data derives from format's output
				if okW {
					derives := false
					for _, fc := range fmtCalls {
						if _, isHelper := viaHelper[fc]; (valueReaches(call.Call.Args[dataIdx], fc, 8) || dataViaArchive(call.Call.Args[dataIdx], fc, fn)) && (!isHelper || helperOutput[fc]) {
							derives = true
						}
						// the helper formatted the members of the archive it was handed, and that archive is written
						if inner := viaHelper[fc]; inner != nil {
							if dc, ok := call.Call.Args[dataIdx].(*ssa.Call); ok && dc.Call.StaticCallee() != nil && dc.Call.StaticCallee().Name() == "Format" && len(dc.Call.Args) == 1 {
								handed := false
								for _, a := range fc.Call.Args {
									if a == dc.Call.Args[0] {
										handed = true
									}
								}
								for _, ifc := range inner {
									if handed && dataViaArchive(dc, ifc, fc.Call.StaticCallee()) {
										derives = true
									}
								}
							}
						}
					}
					if !derives {
						okW = false
						why = "the bytes written are not derived from format's output"
					}
				}
				// under the Write flag
				if okW && !guardedByField(call, "Write") {
					okW = false
					why = "the write is not confined to the edge where the Write flag is set"
				}
				r.Check(okW, construct, p.Rel(instrPos(call)), "the target is replaced only after a successful format, with the formatter's output, under -w", why)
			}
		}
	}
	// W8 — no verdict is overwritten: an error carried around a loop of the command (checkErr = check(member)) is tested
	// inside the loop or combined with its previous value; otherwise only the last member decides
	for _, fn := range fns {
		for _, lost := range lostLoopErrors(fn) {
			r.Viol(fmt.Sprintf("%s#W8:verdict-kept", ssaQName(fn)), p.Rel(instrPos(lost)), "an error value assigned in a loop overwrites the one of the previous iteration without that one having been tested: only the last member of the archive decides the result")
		}
	}
	// format's checkOnly argument derives from the Check flag
	k = 0
	for _, fn := range fns {
		for _, b := range fn.Blocks {
			for _, ins := range b.Instrs {
				call, ok := ins.(*ssa.Call)
				if !ok || call.Call.StaticCallee() != format {
					continue
				}
				k++
				if len(call.Call.Args) < 2 {
					// format only formats; the comparison is made by the callers through a helper (checkFormatted(in, out))
					why := callerCompares(call, fn, fns, cmpHelper(fns, format))
					r.Check(why == "", fmt.Sprintf("%s#W5:check-flag[%d]", ssaQName(fn), k), p.Rel(instrPos(call)), "under --check the input is compared with format's output right after a successful format", why)
					continue
				}
				arg := call.Call.Args[1]
				okC := loadsField(arg, "Check")
				if prm, ok := arg.(*ssa.Parameter); ok {
					// passed down: every caller passes the Check field
					okC = true
					for _, fn2 := range fns {
						for _, ci := range callsTo(fn2, fn) {
							for i, fp := range fn.Params {
								if fp == prm && !loadsField(ci.Common().Args[i], "Check") {
									okC = false
								}
							}
						}
					}
				}
				r.Check(okC, fmt.Sprintf("%s#W5:check-flag[%d]", ssaQName(fn), k), p.Rel(instrPos(call)), "format receives the --check flag", "format's checkOnly argument is not the Check flag: --check would not tell the truth")
			}
		}
	}
	// W6 — format, together with the helpers of the command it calls directly (parseSource, checkFormatted …)
	var parse, fmtMeth *ssa.Call
	var cmp *ssa.BinOp
	var fblocks []*ssa.BasicBlock
	for _, h := range regionFns(format, 1, nil) {
		fblocks = append(fblocks, h.Blocks...)
	}
	for _, b := range fblocks {
		for _, ins := range b.Instrs {
			switch x := ins.(type) {
			case *ssa.Call:
				if sc := x.Call.StaticCallee(); sc != nil {
					switch pkgFuncName(sc) {
					case ModulePath + "/pkg/parser.Parse":
						parse = x
					case ModulePath + "/pkg/parser.Program.Format":
						fmtMeth = x
					}
				}
			case *ssa.BinOp:
				if (x.Op == token.NEQ || x.Op == token.EQL) && isStringType(x.X.Type()) {
					cmp = x
				}
			}
		}
	}
	callerMode := len(format.Params) == 1
	if callerMode {
		cmp = nil
		if h := cmpHelper(fns, format); h != nil {
			for _, b := range h.Blocks {
				for _, ins := range b.Instrs {
					if x, ok := ins.(*ssa.BinOp); ok && (x.Op == token.NEQ || x.Op == token.EQL) && isStringType(x.X.Type()) {
						cmp = x
					}
				}
			}
		}
	}
	fq := "format"
	if parse == nil || fmtMeth == nil || fmtMeth.Parent() != format {
		r.Viol(fq+"#W6", p.Rel(format.Pos()), "format must parse its input and print the program with (*Program).Format")
		return
	}
	// the call in format that stands for an instruction of a helper, and helper parameters traced to format's values
	siteOf := func(ins ssa.Instruction) *ssa.Call {
		if ins.Parent() == format {
			return nil
		}
		var site *ssa.Call
		for _, ci := range callsTo(format, ins.Parent()) {
			if c2, ok := ci.(*ssa.Call); ok {
				if site != nil {
					return nil
				}
				site = c2
			}
		}
		return site
	}
	upF := func(v ssa.Value) ssa.Value {
		prm, ok := v.(*ssa.Parameter)
		if !ok || prm.Parent() == format {
			return v
		}
		sites := callsTo(format, prm.Parent())
		if len(sites) != 1 {
			return v
		}
		for i, hp := range prm.Parent().Params {
			if hp == prm && i < len(sites[0].Common().Args) {
				return sites[0].Common().Args[i]
			}
		}
		return v
	}
	okPF := false
	if parse.Parent() == format {
		okPF = nilErrGuards(parse, fmtMeth)
	} else if hc := siteOf(parse); hc != nil {
		// the helper hands out Parse's program, without an error only where Parse succeeded, and format formats that
		okPF = nilErrGuards(hc, fmtMeth) && valueReaches(fmtMeth.Call.Args[0], hc, 3)
		for _, ret := range returnsOf(parse.Parent()) {
			if isSuccessReturn(ret) && !(nilErrGuards(parse, ret) && len(ret.Results) == 2 && valueReaches(ret.Results[0], parse, 3)) {
				okPF = false
			}
		}
	}
	r.Check(okPF, fq+"#W6:parse-before-format", p.Rel(instrPos(fmtMeth)), "only a program that parsed is formatted", "(*Program).Format is not confined to the err == nil edge of parser.Parse")
	okParseIn := false
	if cv, ok := upF(parse.Call.Args[0]).(*ssa.Convert); ok {
		prm, isPrm := cv.X.(*ssa.Parameter)
		okParseIn = isPrm && prm.Parent() == format
	}
	r.Check(okParseIn, fq+"#W6:parses-input", p.Rel(instrPos(parse)), "the text parsed is the input", "parser.Parse is not called with the input bytes")
	okCmp := false
	if cmp != nil {
		in, out := upF(cmp.X), upF(cmp.Y)
		isIn := func(v ssa.Value) bool {
			cv, ok := v.(*ssa.Convert)
			if !ok {
				return false
			}
			prm, isParam := cv.X.(*ssa.Parameter)
			return isParam && prm.Parent() == format
		}
		isOut := func(v ssa.Value) bool { return valueReaches(v, fmtMeth, 4) }
		if callerMode {
			// the helper compares its two parameters; what they are is decided at its call sites (W5:check-flag)
			isPrm := func(v ssa.Value) bool {
				if cv, ok := v.(*ssa.Convert); ok {
					v = cv.X
				}
				prm, ok := v.(*ssa.Parameter)
				return ok && prm.Parent() == cmp.Parent()
			}
			isIn = func(v ssa.Value) bool { return isPrm(v) }
			isOut = isIn
			in, out = cmp.X, cmp.Y
		}
		if (isIn(in) && isOut(out)) || (isIn(out) && isOut(in)) {
			// errNotFormatted is returned exactly where the two are known to differ, under checkOnly — however the
			// tests are written (`if checkOnly && in != out`, `case !(in == out):`, a helper that compares)
			nNF := 0
			okCmp = true
			for _, ret := range returnsOf(cmp.Parent()) {
				if len(ret.Results) == 0 {
					continue
				}
				u, ok := ret.Results[len(ret.Results)-1].(*ssa.UnOp)
				if !ok {
					continue
				}
				if g, ok := u.X.(*ssa.Global); !ok || g.Name() != "errNotFormatted" {
					continue
				}
				nNF++
				differ := false
				for _, f := range impliedConds(ret.Block()) {
					if f.Cond == ssa.Value(cmp) && f.Truth == (cmp.Op == token.NEQ) {
						differ = true
					}
				}
				if !differ {
					okCmp = false
				}
				if callerMode {
					continue // the flag is tested at the call sites of the helper
				}
				at := ret.Block()
				if hc := siteOf(cmp); hc != nil {
					at = hc.Block()
				} else if cmp.Parent() != format {
					okCmp = false
				}
				underCheck := false
				for _, f := range impliedConds(at) {
					if prm, isParam := f.Cond.(*ssa.Parameter); isParam && prm.Parent() == format && f.Truth {
						underCheck = true
					}
				}
				if !underCheck {
					okCmp = false
				}
			}
			// and where they are known to be equal, no error comes out of the comparison
			for _, ret := range returnsOf(cmp.Parent()) {
				equal := false
				for _, f := range impliedConds(ret.Block()) {
					if f.Cond == ssa.Value(cmp) && f.Truth == (cmp.Op == token.EQL) {
						equal = true
					}
				}
				if equal && len(ret.Results) > 0 && !mayBeNilError(ret.Results[len(ret.Results)-1], ret.Block(), 0) {
					okCmp = false
				}
			}
			if nNF == 0 {
				okCmp = false
			}
		}
	}
	r.Check(okCmp, fq+"#W6:check-compares-input-with-output", p.Rel(format.Pos()), "--check fails exactly when the input differs from the formatter's own output", "format must return errNotFormatted exactly on the edge checkOnly && in != out, comparing the input with (*Program).Format's result")
	// format returns the formatter's output on success
	okOut := false
	for _, ret := range returnsOf(format) {
		if isSuccessReturn(ret) && len(ret.Results) == 2 && valueReaches(ret.Results[0], fmtMeth, 4) {
			okOut = true
		}
	}
	r.Check(okOut, fq+"#W6:returns-output", p.Rel(format.Pos()), "format returns the formatter's output", "format's successful return value is not (*Program).Format's result")
	// W7: error discipline in the command functions
	sig := map[*ssa.Function]bool{}
	for _, name := range []string{"(*fmtCmd).fmtEvyFile", "(*fmtCmd).fmtTxtarFile", "formatStdInOut", "format", "writeAtomically"} {
		if fn := get(name); fn != nil {
			sig[fn] = true
		}
	}
	// every other function of the command that returns an error (helpers that a refactoring may introduce)
	for _, fn := range fns {
		if res := fn.Signature.Results(); res.Len() > 0 && isErrorType(res.At(res.Len()-1).Type()) && fn.Pkg != nil && fn.Pkg == root.Pkg && fn != root {
			sig[fn] = true
		}
	}
	ei := &evalInfo{reach: sig}
	for _, fn := range fns {
		m := 0
		for _, b := range fn.Blocks {
			for _, ins := range b.Instrs {
				call, ok := ins.(*ssa.Call)
				if !ok || !sig[call.Call.StaticCallee()] {
					continue
				}
				m++
				why := errorDiscipline(call, ei)
				r.Check(why == "", fmt.Sprintf("%s#W7:error[%d]:%s", ssaQName(fn), m, call.Call.StaticCallee().Name()), p.Rel(instrPos(call)), "a failure ends the command with that error (non-zero exit status)",
					"the error of "+call.Call.StaticCallee().Name()+" can be lost ("+why+"): `evy fmt` would exit 0 although a file is unformatted or unparsable")
			}
		}
	}
}

func isStringType(t types.Type) bool {
	b, ok := t.Underlying().(*types.Basic)
	return ok && b.Info()&types.IsString != 0
}

func instrDominatesOrReaches(a, b ssa.Instruction) bool {
	return instrDominates(a, b) || reachesBlock(a.Block(), b.Block())
}

// pathFromFailingEdge: can the non-nil-error edge of call's error test reach target?
func pathFromFailingEdge(call *ssa.Call, target ssa.Instruction) bool {
	errVal := errResultOf(call)
	if errVal == nil {
		return true
	}
	refs := errVal.Referrers()
	tested := false
	for _, ref := range *refs {
		bo, ok := ref.(*ssa.BinOp)
		if !ok {
			continue
		}
		k, ok := bo.Y.(*ssa.Const)
		if !ok || !k.IsNil() {
			continue
		}
		for _, r2 := range *bo.Referrers() {
			ifi, ok := r2.(*ssa.If)
			if !ok {
				continue
			}
			tested = true
			failEdge := 0
			if bo.Op == token.EQL {
				failEdge = 1
			}
			if reachesBlock(ifi.Block().Succs[failEdge], target.Block()) {
				return true
			}
		}
	}
	if !tested {
		// error not tested at all: the call's block flows on regardless
		return reachesBlock(call.Block(), target.Block())
	}
	return false
}

// guardedByField: ins is dominated by the true edge of a test of a bool field named field.
func guardedByField(ins ssa.Instruction, field string) bool {
	for d := ins.Block(); d != nil; d = d.Idom() {
		idom := d.Idom()
		if idom == nil || len(idom.Instrs) == 0 {
			continue
		}
		if ifi, ok := idom.Instrs[len(idom.Instrs)-1].(*ssa.If); ok && loadsField(ifi.Cond, field) && edgeDominates(idom, 0, ins.Block()) {
			return true
		}
	}
	return false
}

// dataViaArchive: data = txtar.Format(archive) where a member of archive was assigned from format's output in fn.
func dataViaArchive(data ssa.Value, fc *ssa.Call, fn *ssa.Function) bool {
	call, ok := data.(*ssa.Call)
	if !ok || call.Call.StaticCallee() == nil || call.Call.StaticCallee().Name() != "Format" {
		return false
	}
	for _, b := range fn.Blocks {
		for _, ins := range b.Instrs {
			if st, ok := ins.(*ssa.Store); ok {
				if fa, ok := st.Addr.(*ssa.FieldAddr); ok {
					if _, name := fieldAddrInfo(fa); name == "Data" && valueReaches(st.Val, fc, 6) {
						return true
					}
				}
			}
		}
	}
	return false
}

// chainEvent: one file primitive on the success path of writeAtomically, in the function that makes the call.
type chainEvent struct {
	name string
	call *ssa.Call
}

// flattenChain lists the file primitives that fn performs on its way to a successful return, helpers of the package
// included, in order — provided the chain is tight: the significant calls of a function lie on one path, each runs
// only on the err == nil edge of the one before, and a successful return is either behind the err == nil edge of the
// last one or returns that call's error itself. Otherwise the reason is returned.
func flattenChain(fn *ssa.Function, depth int) ([]chainEvent, string) {
	prims := map[string]bool{"os.CreateTemp": true, "os.File.Write": true, "os.File.Chmod": true, "os.File.Close": true, "os.Rename": true, "os.Stat": true}
	type sigCall struct {
		call *ssa.Call
		sub  []chainEvent
		name string
	}
	var sig []sigCall
	for _, b := range fn.Blocks {
		for _, ins := range b.Instrs {
			call, ok := ins.(*ssa.Call)
			if !ok || call.Call.StaticCallee() == nil {
				continue
			}
			sc := call.Call.StaticCallee()
			if name := pkgFuncName(sc); prims[name] {
				if inCycle(b) {
					return nil, name + " is called in a loop"
				}
				sig = append(sig, sigCall{call: call, name: name})
				continue
			}
			if sc.Pkg == fn.Pkg && len(sc.Blocks) > 0 && depth < 3 && errResultOf(call) != nil {
				sub, why := flattenChain(sc, depth+1)
				if why != "" {
					return nil, why
				}
				if len(sub) > 0 {
					if inCycle(b) {
						return nil, sc.Name() + " is called in a loop"
					}
					sig = append(sig, sigCall{call: call, sub: sub, name: sc.Name()})
				}
			}
		}
	}
	if len(sig) == 0 {
		return nil, ""
	}
	// one path: totally ordered by dominance
	sort.SliceStable(sig, func(i, j int) bool { return instrDominates(sig[i].call, sig[j].call) })
	for i := 0; i+1 < len(sig); i++ {
		if !instrDominates(sig[i].call, sig[i+1].call) {
			return nil, sig[i].name + " and " + sig[i+1].name + " in " + fn.Name() + " do not lie on one path"
		}
		if !nilErrGuards(sig[i].call, sig[i+1].call) {
			return nil, sig[i+1].name + " in " + fn.Name() + " is not confined to the err == nil edge of " + sig[i].name
		}
	}
	last := sig[len(sig)-1].call
	for _, ret := range returnsOf(fn) {
		if !isSuccessReturn(ret) {
			continue
		}
		passes := len(ret.Results) > 0 && ret.Results[len(ret.Results)-1] == errResultOf(last) && instrDominates(last, ret)
		if !passes && !nilErrGuards(last, ret) {
			return nil, fn.Name() + " can return without an error although " + sig[len(sig)-1].name + " has not succeeded"
		}
	}
	var out []chainEvent
	for _, sc := range sig {
		if sc.sub != nil {
			out = append(out, sc.sub...)
		} else {
			out = append(out, chainEvent{sc.name, sc.call})
		}
	}
	return out, ""
}

// atomicWriteChain checks the temp-file-and-rename discipline when its steps are spread over helpers of the writer.
// It reports false when the steps cannot be found at all.
func atomicWriteChain(p *Program, r *Reporter, writer *ssa.Function, wq, wpos string) bool {
	events, why := flattenChain(writer, 0)
	idx := map[string]int{}
	at := map[string]*ssa.Call{}
	for i, e := range events {
		if _, dup := idx[e.name]; dup {
			why = e.name + " is called twice on the way"
		}
		idx[e.name], at[e.name] = i, e.call
	}
	for _, need := range []string{"os.CreateTemp", "os.File.Write", "os.File.Close", "os.Rename"} {
		if at[need] == nil {
			if why != "" {
				r.Viol(wq+"#sequence", wpos, "the steps of writeAtomically cannot be followed through its helpers: "+why)
				return true
			}
			return false
		}
	}
	// a value in a helper, traced to the function that handed it in
	region := regionFns(writer, 3, nil)
	var up func(v ssa.Value, depth int) ssa.Value
	up = func(v ssa.Value, depth int) ssa.Value {
		prm, ok := v.(*ssa.Parameter)
		if !ok || prm.Parent() == writer || depth > 3 {
			return v
		}
		var site ssa.CallInstruction
		n := 0
		for _, f := range region {
			for _, ci := range callsTo(f, prm.Parent()) {
				site = ci
				n++
			}
		}
		if n != 1 {
			return v
		}
		for i, hp := range prm.Parent().Params {
			if hp == prm && i < len(site.Common().Args) {
				return up(site.Common().Args[i], depth+1)
			}
		}
		return v
	}
	var filename, data ssa.Value
	for _, prm := range writer.Params {
		if b, ok := prm.Type().Underlying().(*types.Basic); ok && b.Kind() == types.String {
			filename = prm
		}
		if _, ok := prm.Type().Underlying().(*types.Slice); ok {
			data = prm
		}
	}
	createTemp, write, closeC, rename, chmod, stat := at["os.CreateTemp"], at["os.File.Write"], at["os.File.Close"], at["os.Rename"], at["os.File.Chmod"], at["os.Stat"]
	var tempFile ssa.Value
	for _, ref := range *createTemp.Referrers() {
		if ex, ok := ref.(*ssa.Extract); ok && ex.Index == 0 {
			tempFile = ex
		}
	}
	okDir := false
	if dirCall, ok := up(createTemp.Call.Args[0], 0).(*ssa.Call); ok && dirCall.Call.StaticCallee() != nil && pkgFuncName(dirCall.Call.StaticCallee()) == "path/filepath.Dir" {
		okDir = up(dirCall.Call.Args[0], 0) == filename
	}
	r.Check(okDir, wq+"#W2:same-directory", p.Rel(instrPos(createTemp)), "the temp file is created in the directory of the target (rename cannot cross file systems)", "os.CreateTemp must get filepath.Dir(filename): a temp file elsewhere makes the final rename a non-atomic copy or fails across file systems")
	okRen := len(rename.Call.Args) == 2 && up(rename.Call.Args[1], 0) == filename
	if okRen {
		nameCall, ok := up(rename.Call.Args[0], 0).(*ssa.Call)
		okRen = ok && nameCall.Call.StaticCallee() != nil && pkgFuncName(nameCall.Call.StaticCallee()) == "os.File.Name" && up(nameCall.Call.Args[0], 0) == tempFile
	}
	r.Check(okRen, wq+"#W2:rename-temp-onto-target", p.Rel(instrPos(rename)), "the written temp file is renamed onto the target", "os.Rename must move tempFile.Name() onto filename")
	r.Check(len(write.Call.Args) == 2 && up(write.Call.Args[0], 0) == tempFile && up(write.Call.Args[1], 0) == data, wq+"#W3:write-data", p.Rel(instrPos(write)), "the formatted bytes are written to the temp file", "tempFile.Write must write the data parameter to the temp file")
	seq := []string{"os.CreateTemp", "os.File.Write", "os.File.Close", "os.Rename"}
	names := []string{"CreateTemp", "Write", "Close", "Rename"}
	for i := 0; i+1 < len(seq); i++ {
		r.Check(why == "" && idx[seq[i]] < idx[seq[i+1]], fmt.Sprintf("%s#W3:%s-ok-before-%s", wq, names[i], names[i+1]), p.Rel(instrPos(at[seq[i+1]])), names[i+1]+" runs only after "+names[i]+" succeeded (through the helpers)",
			fmt.Sprintf("%s is not confined to the err == nil edge of %s (%s): after a failed %s the target would be replaced by an incomplete temp file", names[i+1], names[i], why, names[i]))
	}
	r.Check(up(closeC.Call.Args[0], 0) == tempFile, wq+"#W3:close-temp", p.Rel(instrPos(closeC)), "the temp file is closed before the rename", "Close must close the temp file")
	r.Check(why == "" && idx["os.Rename"] == len(events)-1, wq+"#W3:success-after-rename", wpos, "success is reported only after the rename succeeded", "writeAtomically can return nil without a successful rename ("+why+")")
	okMode := false
	if chmod != nil && stat != nil && why == "" {
		okMode = up(chmod.Call.Args[0], 0) == tempFile && up(stat.Call.Args[0], 0) == filename && chmod.Parent() == stat.Parent() && valueReaches(chmod.Call.Args[1], stat, 8) &&
			idx["os.File.Write"] < idx["os.File.Chmod"] && idx["os.Stat"] < idx["os.File.Chmod"] && idx["os.File.Chmod"] < idx["os.Rename"]
	}
	r.Check(okMode, wq+"#W4:permission-bits", wpos, "the temp file receives the target's permission bits (Stat → Chmod) before the rename", "the temp file created by os.CreateTemp has mode 0600; without a Chmod to the target's Stat().Mode().Perm() before the rename, `evy fmt -w` silently changes the file's permissions")
	return true
}

// unspill: a parameter that a closure captures lives in a cell (`t0 = new string (filename); *t0 = filename`) and is
// read through it; the value read is the parameter as long as nothing else is ever stored into the cell.
func unspill(v ssa.Value) ssa.Value {
	u, ok := v.(*ssa.UnOp)
	if !ok || u.Op != token.MUL {
		return v
	}
	cell, ok := u.X.(*ssa.Alloc)
	if !ok || cell.Referrers() == nil {
		return v
	}
	var stored ssa.Value
	check := func(refs []ssa.Instruction) bool {
		for _, ref := range refs {
			if st, ok := ref.(*ssa.Store); ok && st.Addr == ssa.Value(cell) {
				if stored != nil {
					return false
				}
				stored = st.Val
			}
		}
		return true
	}
	if !check(*cell.Referrers()) {
		return v
	}
	// stores through the closures that capture the cell
	for _, ref := range *cell.Referrers() {
		if mc, ok := ref.(*ssa.MakeClosure); ok {
			if af, ok := mc.Fn.(*ssa.Function); ok {
				for bi, b := range mc.Bindings {
					if b != ssa.Value(cell) || bi >= len(af.FreeVars) {
						continue
					}
					if fr := af.FreeVars[bi].Referrers(); fr != nil {
						for _, r2 := range *fr {
							if _, isStore := r2.(*ssa.Store); isStore {
								return v
							}
						}
					}
				}
			}
		}
	}
	if prm, ok := stored.(*ssa.Parameter); ok {
		return prm
	}
	return v
}

var _ = packages.NeedName

// lostLoopErrors: the instructions that compute an error which replaces, around a loop, the error of the previous
// iteration although that one was never tested inside the loop nor flows into the new one.
func lostLoopErrors(fn *ssa.Function) []ssa.Instruction {
	var out []ssa.Instruction
	for _, h := range fn.Blocks {
		loop := naturalLoop(h)
		if loop == nil {
			continue
		}
		for _, ins := range h.Instrs {
			phi, ok := ins.(*ssa.Phi)
			if !ok {
				break
			}
			if !isErrorType(phi.Type()) {
				continue
			}
			// the values carried over the back edges, through the merges inside the loop
			merged := map[ssa.Value]bool{phi: true}
			var leaves []ssa.Value
			var walk func(v ssa.Value)
			walk = func(v ssa.Value) {
				if merged[v] {
					return
				}
				if ph, ok := v.(*ssa.Phi); ok && loop[ph.Block()] {
					merged[v] = true
					for _, e := range ph.Edges {
						walk(e)
					}
					return
				}
				leaves = append(leaves, v)
			}
			for i, pred := range h.Preds {
				if loop[pred] && h.Dominates(pred) {
					walk(phi.Edges[i])
				}
			}
			// the carried value is tested (or used at all: returned, joined, passed on) inside the loop
			usedInLoop := false
			for m := range merged {
				refs := m.Referrers()
				if refs == nil {
					continue
				}
				for _, ref := range *refs {
					if _, isPhi := ref.(*ssa.Phi); isPhi || !loop[ref.Block()] {
						continue
					}
					usedInLoop = true
				}
			}
			if usedInLoop {
				continue
			}
			for _, l := range leaves {
				if k, ok := l.(*ssa.Const); ok && k.IsNil() {
					continue
				}
				if li, ok := l.(ssa.Instruction); ok && loop[li.Block()] {
					out = append(out, li)
				}
			}
		}
	}
	return out
}

// cmpHelper: the function of the command, other than format, that compares two strings and returns errNotFormatted
// (checkFormatted(in, out)); nil unless there is exactly one.
func cmpHelper(fns []*ssa.Function, format *ssa.Function) *ssa.Function {
	var found *ssa.Function
	for _, fn := range fns {
		if fn == format {
			continue
		}
		hasCmp, hasNF := false, false
		for _, b := range fn.Blocks {
			for _, ins := range b.Instrs {
				switch x := ins.(type) {
				case *ssa.BinOp:
					if (x.Op == token.NEQ || x.Op == token.EQL) && isStringType(x.X.Type()) {
						hasCmp = true
					}
				case *ssa.Return:
					if len(x.Results) > 0 {
						if u, ok := x.Results[len(x.Results)-1].(*ssa.UnOp); ok {
							if g, ok := u.X.(*ssa.Global); ok && g.Name() == "errNotFormatted" {
								hasNF = true
							}
						}
					}
				}
			}
		}
		if hasCmp && hasNF {
			if found != nil {
				return nil
			}
			found = fn
		}
	}
	return found
}

// callerCompares: fcall is a call of the one-parameter format in fn. On the success edge of that call the Check flag is
// tested before anything else is decided, and on its true edge the comparison helper is called with the bytes that were
// formatted and format's output. Returns "" or what is missing.
func callerCompares(fcall *ssa.Call, fn *ssa.Function, fns []*ssa.Function, helper *ssa.Function) string {
	if helper == nil {
		return "no single helper of the command compares the input with the formatted text and returns errNotFormatted: --check cannot tell the truth"
	}
	strip := func(v ssa.Value) ssa.Value {
		for {
			switch x := v.(type) {
			case *ssa.Convert:
				v = x.X
			case *ssa.ChangeType:
				v = x.X
			default:
				return v
			}
		}
	}
	isCheckFlag := func(v ssa.Value) bool {
		if loadsField(v, "Check") {
			return true
		}
		prm, ok := v.(*ssa.Parameter)
		if !ok || !isBoolType(prm.Type()) {
			return false
		}
		// passed down: every caller passes the Check field
		n := 0
		for _, fn2 := range fns {
			for _, ci := range callsTo(fn2, prm.Parent()) {
				for i, fp := range prm.Parent().Params {
					if fp == prm {
						n++
						if i >= len(ci.Common().Args) || !loadsField(ci.Common().Args[i], "Check") {
							return false
						}
					}
				}
			}
		}
		return n > 0
	}
	// follow unconditional jumps
	straight := func(from, to *ssa.BasicBlock) bool {
		for i := 0; i < 8 && from != nil; i++ {
			if from == to {
				return true
			}
			if len(from.Succs) != 1 {
				return false
			}
			from = from.Succs[0]
		}
		return false
	}
	for _, ci := range callsTo(fn, helper) {
		hc, ok := ci.(*ssa.Call)
		if !ok || len(hc.Call.Args) != 2 {
			continue
		}
		a0, a1 := strip(hc.Call.Args[0]), strip(hc.Call.Args[1])
		src := strip(fcall.Call.Args[0])
		isSrc := func(v ssa.Value) bool { return v == src || sameValueExpr(v, src, 6) }
		isOut := func(v ssa.Value) bool { return valueReaches(v, fcall, 4) }
		if !(isSrc(a0) && isOut(a1) || isSrc(a1) && isOut(a0)) {
			continue
		}
		if !nilErrGuards(fcall, hc) {
			continue
		}
		// the flag test that leads to the comparison
		for d := hc.Block(); d != nil; d = d.Idom() {
			id := d.Idom()
			if id == nil || len(id.Instrs) == 0 {
				continue
			}
			ifi, ok := id.Instrs[len(id.Instrs)-1].(*ssa.If)
			if !ok || !isCheckFlag(ifi.Cond) {
				continue
			}
			if !straight(id.Succs[0], hc.Block()) {
				continue
			}
			// the flag is the first thing decided on the success edge of format
			errVal := errResultOf(fcall)
			for _, b := range fn.Blocks {
				if len(b.Instrs) == 0 {
					continue
				}
				ei, ok := b.Instrs[len(b.Instrs)-1].(*ssa.If)
				if !ok {
					continue
				}
				bo, ok := ei.Cond.(*ssa.BinOp)
				if !ok || bo.X != errVal {
					continue
				}
				if k, isK := bo.Y.(*ssa.Const); !isK || !k.IsNil() {
					continue
				}
				okEdge := 1
				if bo.Op == token.EQL {
					okEdge = 0
				}
				if straight(b.Succs[okEdge], id) {
					return ""
				}
			}
		}
	}
	return "after this call of format the Check flag does not lead, as the first thing decided on the success edge, to a comparison of the formatted bytes with format's output: `evy fmt --check` would exit 0 for input that is not formatted"
}

func isBoolType(t types.Type) bool {
	b, ok := t.Underlying().(*types.Basic)
	return ok && b.Info()&types.IsBoolean != 0
}
