package check

import (
	"fmt"
	"go/ast"
	"go/token"
	"go/types"
	"sort"
	"strings"

	"golang.org/x/tools/go/packages"
)

// useSite is one reference to an object from a given enclosing declaration.
type useSite struct {
	Pkg       *packages.Package
	Obj       types.Object
	Ident     *ast.Ident
	Enclosing string // display name of enclosing func, or "var X" for package-level initialisers
}

// usesIn enumerates every identifier use in non-test files of pkg, with the enclosing declaration.
func usesIn(pkg *packages.Package, visit func(u useSite)) {
	for _, file := range pkg.Syntax {
		if strings.HasSuffix(pkg.Fset.Position(file.Pos()).Filename, "_test.go") {
			continue
		}
		for _, d := range file.Decls {
			enclosing := ""
			switch x := d.(type) {
			case *ast.FuncDecl:
				if obj, ok := pkg.TypesInfo.Defs[x.Name].(*types.Func); ok {
					enclosing = funcDisplayName(obj)
				} else {
					enclosing = x.Name.Name
				}
				inspectUses(pkg, x, enclosing, visit)
			case *ast.GenDecl:
				for _, spec := range x.Specs {
					if vs, ok := spec.(*ast.ValueSpec); ok {
						names := []string{}
						for _, n := range vs.Names {
							names = append(names, n.Name)
						}
						inspectUses(pkg, vs, "var "+strings.Join(names, ","), visit)
					} else {
						inspectUses(pkg, spec, "decl", visit)
					}
				}
			}
		}
	}
}

func inspectUses(pkg *packages.Package, n ast.Node, enclosing string, visit func(u useSite)) {
	ast.Inspect(n, func(x ast.Node) bool {
		if id, ok := x.(*ast.Ident); ok {
			if obj := pkg.TypesInfo.Uses[id]; obj != nil {
				visit(useSite{Pkg: pkg, Obj: obj, Ident: id, Enclosing: enclosing})
			}
		}
		return true
	})
}

func objPkgPath(obj types.Object) string {
	if obj.Pkg() == nil {
		return ""
	}
	return obj.Pkg().Path()
}

// R-TIMESOURCE: the only nondeterminism sources besides map order are time,
// random numbers and addresses; they must be confined to the seedable RandSource.
var ruleTimeSource = &Rule{
	ID:    "R-TIMESOURCE",
	Doc:   "clock, random-number and address sources are referenced only by the seedable RandSource initialiser and the --rand-seed override, which precedes evaluator creation; no goroutines, no %p",
	Floor: 4,
	Run:   runTimeSource,
}

var timeSourcePkgs = []string{"pkg/lexer", "pkg/parser", "pkg/evaluator", "pkg/bytecode", "pkg/cli", "pkg/cli/svg", ""}

// clockFuncs of package time that read the wall clock or schedule on it.
var clockFuncs = map[string]bool{"Now": true, "Since": true, "Until": true, "After": true, "AfterFunc": true, "Tick": true, "NewTimer": true, "NewTicker": true}

func runTimeSource(c *Ctx, r *Reporter) {
	p, err := c.Default()
	if err != nil {
		r.Undecided("%v", err)
		return
	}
	type allowed struct{ pkg, enclosing string }
	allow := map[string][]allowed{
		"time.Now":            {{"pkg/evaluator", "var RandSource"}},
		"math/rand.New":       {{"pkg/evaluator", "var RandSource"}, {"", "(*runCmd).Run"}},
		"math/rand.NewSource": {{"pkg/evaluator", "var RandSource"}, {"", "(*runCmd).Run"}},
	}
	seenRandSourceDecl := false
	randSourceReaders := map[string]bool{}
	randSourceWriters := map[string]bool{}
	counts := map[string]int{}
	for _, rel := range timeSourcePkgs {
		pkg := p.Pkg(rel)
		if pkg == nil {
			r.Undecided("package %q not loaded", rel)
			continue
		}
		usesIn(pkg, func(u useSite) {
			pp := objPkgPath(u.Obj)
			name := u.Obj.Name()
			key := pp + "." + name
			pos := p.Rel(u.Ident.Pos())
			construct := fmt.Sprintf("%s.%s→%s", rel, u.Enclosing, key)
			_, isFunc := u.Obj.(*types.Func)
			suspicious := false
			switch {
			case pp == "time" && isFunc && clockFuncs[name]:
				suspicious = true
			case (pp == "math/rand" || pp == "math/rand/v2") && isFunc && u.Obj.Parent() == u.Obj.Pkg().Scope():
				suspicious = true // package-level functions: global source or constructors
			case pp == "crypto/rand":
				suspicious = true
			case pp == "os" && (name == "Getpid" || name == "Getppid" || name == "Hostname"):
				suspicious = true
			case pp == "unsafe" || (pp == "reflect" && (name == "Pointer" || name == "UnsafePointer" || name == "UnsafeAddr")):
				suspicious = true
			case pp == "runtime" && isFunc:
				suspicious = true
			}
			if suspicious {
				counts[key]++
				okHere := false
				for _, a := range allow[key] {
					if a.pkg == rel && (a.enclosing == u.Enclosing || (a.enclosing == "(*runCmd).Run" && strings.HasPrefix(u.Enclosing, "(*runCmd)."))) {
						okHere = true // the run command, or a helper method it was split into
					}
				}
				if rel == "" && !strings.Contains(u.Enclosing, "runCmd") && !strings.Contains(u.Enclosing, "fmtCmd") {
					// main.go: only the run and fmt commands are in the scope of C08; serve etc. may use anything
					if key != "math/rand.New" && key != "math/rand.NewSource" {
						return
					}
				}
				r.Check(okHere, construct, pos, "nondeterminism source confined to the seedable RandSource", "reference to "+key+" in "+u.Enclosing+": clock/random/address source outside the seedable RandSource")
			}
			if pp == ModulePath+"/pkg/evaluator" && name == "RandSource" {
				if isAssignedAt(pkg, u.Ident) {
					randSourceWriters[rel+"."+u.Enclosing] = true
				} else {
					randSourceReaders[rel+"."+u.Enclosing] = true
				}
			}
		})
		// RandSource declaration
		if rel == "pkg/evaluator" {
			if obj := pkg.Types.Scope().Lookup("RandSource"); obj != nil {
				seenRandSourceDecl = true
			}
		}
		// go statements, select, %p
		for _, fn := range Funcs(pkg) {
			if rel == "" && !strings.Contains(fn.Name(), "runCmd") && !strings.Contains(fn.Name(), "fmtCmd") && fn.Name() != "format" && fn.Name() != "writeAtomically" && fn.Name() != "handleEvyErr" {
				continue
			}
			ast.Inspect(fn.Decl.Body, func(n ast.Node) bool {
				switch x := n.(type) {
				case *ast.GoStmt:
					r.Viol(fn.QName()+"#go", p.Rel(x.Pos()), "go statement: the single-goroutine assumption behind every ordering rule is broken")
				case *ast.SelectStmt:
					r.Viol(fn.QName()+"#select", p.Rel(x.Pos()), "select statement: nondeterministic choice")
				case *ast.BasicLit:
					if x.Kind == token.STRING && strings.Contains(x.Value, "%p") {
						r.Viol(fn.QName()+"#%p", p.Rel(x.Pos()), "format verb %p prints an address")
					}
				}
				return true
			})
		}
	}
	if !seenRandSourceDecl {
		r.Undecided("evaluator.RandSource not found")
		return
	}
	// who writes RandSource: only main.(*runCmd).Run
	writers := sortedKeys(randSourceWriters)
	r.Check(len(writers) == 1 && strings.HasPrefix(writers[0], ".(*runCmd)."), "RandSource#writers", "main.go", "RandSource is replaced only by the --rand-seed override in (*runCmd).Run", fmt.Sprintf("RandSource is assigned in %v; expected only main.(*runCmd).Run", writers))
	readers := sortedKeys(randSourceReaders)
	for _, rd := range readers {
		r.Check(strings.HasPrefix(rd, "pkg/evaluator.rand"), "RandSource#reader:"+rd, "pkg/evaluator/builtin.go", "random numbers are drawn from RandSource by the rand built-ins only", "RandSource is read in "+rd)
	}
	if len(readers) == 0 {
		r.Undecided("no reader of RandSource found")
	}
	// ordering in (*runCmd).Run: the assignment precedes NewEvaluator and eval.Run
	mainPkg := p.Pkg("")
	run := FindFunc(mainPkg, "(*runCmd).Run")
	if run == nil {
		r.Undecided("main.(*runCmd).Run not found")
		return
	}
	var assignPos, newEvalPos, seedCondOK = token.NoPos, token.NoPos, false
	info := mainPkg.TypesInfo
	fieldOf := func(e ast.Expr) types.Object { // c.F → field object F
		if sel, ok := ast.Unparen(e).(*ast.SelectorExpr); ok {
			if v, ok := info.Uses[sel.Sel].(*types.Var); ok && v.IsField() {
				return v
			}
		}
		return nil
	}
	// the override and the creation of the evaluator may live in a helper method of the run command: the method that
	// holds the assignment is examined, and when the evaluator is created elsewhere, the call of that method must
	// precede the creation
	body := run.Decl.Body
	var writerFn *FuncDecl
	for _, fd := range Funcs(mainPkg) {
		if len(writers) == 1 && "."+fd.Name() == writers[0] && fd.Name() != "(*runCmd).Run" {
			writerFn = fd
			body = fd.Decl.Body
		}
	}
	ast.Inspect(body, func(n ast.Node) bool {
		switch x := n.(type) {
		case *ast.IfStmt:
			// if c.<seed> != 0 { evaluator.RandSource = rand.New(rand.NewSource(c.<seed>)) }
			for _, st := range x.Body.List {
				as, ok := st.(*ast.AssignStmt)
				if !ok || len(as.Lhs) != 1 || len(as.Rhs) != 1 {
					continue
				}
				sel, ok := as.Lhs[0].(*ast.SelectorExpr)
				if !ok || info.Uses[sel.Sel] == nil || info.Uses[sel.Sel].Name() != "RandSource" || objPkgPath(info.Uses[sel.Sel]) != ModulePath+"/pkg/evaluator" {
					continue
				}
				assignPos = as.Pos()
				var seedField types.Object
				ast.Inspect(as.Rhs[0], func(m ast.Node) bool {
					if call, ok := m.(*ast.CallExpr); ok {
						if fn := calleeFunc(info, call); fn != nil && objPkgPath(fn) == "math/rand" && fn.Name() == "NewSource" && len(call.Args) == 1 {
							seedField = fieldOf(call.Args[0])
						}
					}
					return true
				})
				if seedField != nil {
					ast.Inspect(x.Cond, func(m ast.Node) bool {
						if e, ok := m.(ast.Expr); ok && fieldOf(e) == seedField {
							seedCondOK = true
						}
						return true
					})
				}
			}
		case *ast.CallExpr:
			if fn := calleeFunc(info, x); fn != nil && fn.Name() == "NewEvaluator" && objPkgPath(fn) == ModulePath+"/pkg/evaluator" && newEvalPos == token.NoPos {
				newEvalPos = x.Pos()
			}
		}
		return true
	})
	if writerFn != nil && !newEvalPos.IsValid() {
		// NewEvaluator is called by another method: there the call of the overriding method comes first
		for _, fd := range Funcs(mainPkg) {
			if !strings.HasPrefix(fd.Name(), "(*runCmd).") || fd.Obj == writerFn.Obj {
				continue
			}
			callPos := token.NoPos
			ast.Inspect(fd.Decl.Body, func(n ast.Node) bool {
				if call, ok := n.(*ast.CallExpr); ok {
					if fn := calleeFunc(info, call); fn != nil {
						if fn == writerFn.Obj && callPos == token.NoPos {
							callPos = call.Pos()
						}
						if fn.Name() == "NewEvaluator" && objPkgPath(fn) == ModulePath+"/pkg/evaluator" && newEvalPos == token.NoPos {
							newEvalPos = call.Pos()
						}
					}
				}
				return true
			})
			if newEvalPos.IsValid() {
				if callPos.IsValid() && callPos < newEvalPos {
					assignPos = callPos
				} else {
					assignPos = token.NoPos
				}
				break
			}
		}
	}
	r.Check(assignPos.IsValid() && newEvalPos.IsValid() && assignPos < newEvalPos && seedCondOK, "main.(*runCmd).Run#seed-before-evaluator", p.Rel(run.Decl.Pos()),
		"the --rand-seed value replaces RandSource before the evaluator is created", "the --rand-seed override must assign rand.New(rand.NewSource(c.RandSeed)) to RandSource before NewEvaluator is called")
	r.Note("suspicious-source reference counts: %v", counts)
}

func sortedKeys(m map[string]bool) []string {
	out := make([]string, 0, len(m))
	for k := range m {
		out = append(out, k)
	}
	sort.Strings(out)
	return out
}

// isAssignedAt reports whether ident (or the selector it terminates) is the LHS of an assignment.
func isAssignedAt(pkg *packages.Package, id *ast.Ident) bool {
	assigned := false
	for _, file := range pkg.Syntax {
		if file.Pos() <= id.Pos() && id.Pos() < file.End() {
			ast.Inspect(file, func(n ast.Node) bool {
				as, ok := n.(*ast.AssignStmt)
				if !ok {
					return true
				}
				for _, l := range as.Lhs {
					switch x := ast.Unparen(l).(type) {
					case *ast.Ident:
						if x == id {
							assigned = true
						}
					case *ast.SelectorExpr:
						if x.Sel == id {
							assigned = true
						}
					}
				}
				return true
			})
		}
	}
	return assigned
}
