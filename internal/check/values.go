package check

import (
	"fmt"
	"go/ast"
	"go/token"
	"go/types"
	"sort"
	"strings"

	"golang.org/x/tools/go/packages"
	"golang.org/x/tools/go/ssa"
)

const evaluatorRel = "pkg/evaluator"

func evaluatorPkg(c *Ctx, r *Reporter) (*Program, *packages.Package) {
	p, err := c.Default()
	if err != nil {
		r.Undecided("%v", err)
		return nil, nil
	}
	pkg := p.Pkg(evaluatorRel)
	if pkg == nil {
		r.Undecided("package %s not loaded", evaluatorRel)
		return nil, nil
	}
	return p, pkg
}

var basicValTypes = map[string]bool{"numVal": true, "stringVal": true, "boolVal": true, "anyVal": true}

// ---------------------------------------------------------------------------
// R-IMMUT: basic value objects are never written after construction.

var ruleImmut = &Rule{
	ID:    "R-IMMUT",
	Doc:   "no store to a field of numVal/stringVal/boolVal/anyVal (or whole-struct store through a pointer to one) outside construction; the Set methods of `value` have no call sites; copyOrRef returns arrays and maps by identity",
	Floor: 8,
	Run:   runImmut,
}

func runImmut(c *Ctx, r *Reporter) {
	p, pkg := evaluatorPkg(c, r)
	if pkg == nil {
		return
	}
	// (2) who-may-call Set
	setCallers := 0
	valueIface := pkg.Types.Scope().Lookup("value")
	if valueIface == nil {
		r.Undecided("interface value not found")
		return
	}
	for _, fn := range ssaFuncsOf(p, pkg) {
		inSet := ssaDisplayNameOf(fn) == "Set"
		for _, b := range fn.Blocks {
			for _, ins := range b.Instrs {
				ci, ok := ins.(ssa.CallInstruction)
				if !ok {
					continue
				}
				com := ci.Common()
				name := ""
				if com.IsInvoke() {
					if isNamed(com.Value.Type(), pkg.PkgPath, "value") {
						name = com.Method.Name()
					}
				} else if sc := com.StaticCallee(); sc != nil && sc.Signature.Recv() != nil && sc.Pkg == p.SSAPkg[pkg.PkgPath] {
					if n := namedOf(sc.Signature.Recv().Type()); n != nil && strings.HasSuffix(n.Obj().Name(), "Val") {
						name = sc.Name()
					}
				}
				if name != "Set" || inSet {
					continue
				}
				setCallers++
				r.Viol(fmt.Sprintf("%s#Set-call[%d]", ssaQName(fn), setCallers), p.Rel(instrPos(ins)),
					"calls value.Set: mutates a value object in place; every variable that shares the object (assignment does not copy) changes with it")
			}
		}
	}
	if setCallers == 0 {
		r.Ok("value.Set#callers", "pkg/evaluator/value.go", "value.Set has no call sites: value objects are only ever rebound, never overwritten")
	}
	// (1) stores
	n := 0
	for _, fn := range ssaFuncsOf(p, pkg) {
		if ssaDisplayNameOf(fn) == "Set" {
			continue // bodies of the uncalled Set methods
		}
		for _, b := range fn.Blocks {
			for _, ins := range b.Instrs {
				st, ok := ins.(*ssa.Store)
				if !ok {
					continue
				}
				var named *types.Named
				field := ""
				var base ssa.Value
				if fa, ok := st.Addr.(*ssa.FieldAddr); ok {
					named, field = fieldAddrInfo(fa)
					base = fa.X
				} else if pt, ok := st.Addr.Type().Underlying().(*types.Pointer); ok {
					if nn := namedOf(pt.Elem()); nn != nil {
						if _, isStruct := nn.Underlying().(*types.Struct); isStruct {
							named, field, base = nn, "*", st.Addr
						}
					}
				}
				if named == nil || named.Obj().Pkg() != pkg.Types || !basicValTypes[named.Obj().Name()] {
					continue
				}
				n++
				construct := fmt.Sprintf("%s#store:%s.%s[%d]", ssaQName(fn), named.Obj().Name(), field, n)
				pos := p.Rel(instrPos(st))
				switch {
				case isFreshAlloc(base):
					r.Ok(construct, pos, "initialisation of a freshly allocated value object")
				case named.Obj().Name() == "stringVal" && field == "runeSlice":
					r.Ok(construct, pos, "rune cache derived from the immutable V")
				default:
					r.Viol(construct, pos, fmt.Sprintf("writes %s.%s of an existing value object: values of basic type are shared between bindings (assignment, arguments, elements are not copied at every site), so the change shows through other variables", named.Obj().Name(), field))
				}
			}
		}
	}
	// (3) copyOrRef shape
	cr := FindFunc(pkg, "copyOrRef")
	if cr == nil {
		r.Undecided("copyOrRef not found")
		return
	}
	checkCopyShape(p, pkg, cr, r, map[string]string{"arrayVal": "same", "mapVal": "same"})
	dc := FindFunc(pkg, "deepCopy")
	if dc == nil {
		r.Undecided("deepCopy not found")
		return
	}
	checkCopyShape(p, pkg, dc, r, map[string]string{"arrayVal": "fresh", "mapVal": "fresh", "anyVal": "fresh"})
}

func ssaDisplayNameOf(fn *ssa.Function) string {
	for fn.Parent() != nil {
		fn = fn.Parent()
	}
	return fn.Name()
}

func isFreshAlloc(v ssa.Value) bool {
	_, ok := v.(*ssa.Alloc)
	return ok
}

// checkCopyShape inspects the type switch of copyOrRef/deepCopy: for the listed
// case types the returned expression must be the switch variable itself ("same")
// or something else ("fresh": a composite literal / recursive copy).
func checkCopyShape(p *Program, pkg *packages.Package, fn *FuncDecl, r *Reporter, want map[string]string) {
	// On the lowered function, so that a type switch and a chain of `if v, ok := val.(*T); ok` are one form: every
	// return is classified by the dynamic type of the argument known at it (the successful type assertion that
	// dominates it) and by whether the returned value is the argument — the asserted value, the parameter — or not.
	sf := p.SSAFunc(fn.Obj)
	if sf == nil || len(sf.Params) == 0 {
		r.Undecided("%s: no SSA", fn.Name())
		return
	}
	param := sf.Params[0]
	// a helper that handles some of the kinds (copyBasic) is followed for the kinds of interest only through its
	// own assertions; kinds it does not name fall through to the caller
	type verdict struct {
		same, fresh bool
		pos         token.Pos
	}
	got := map[string]*verdict{}
	// the tests `_, ok := param.(*T)`; behind the ok edge of one of them, up to the next such test, the kind is T
	type kindTest struct {
		kind string
		val  ssa.Value // the asserted value
		blk  *ssa.BasicBlock
	}
	var tests []kindTest
	isTestBlock := map[*ssa.BasicBlock]bool{}
	for _, b := range sf.Blocks {
		if len(b.Instrs) == 0 {
			continue
		}
		ifi, ok := b.Instrs[len(b.Instrs)-1].(*ssa.If)
		if !ok {
			continue
		}
		ex, ok := ifi.Cond.(*ssa.Extract)
		if !ok || ex.Index != 1 {
			continue
		}
		ta, ok := ex.Tuple.(*ssa.TypeAssert)
		if !ok || !ta.CommaOk || ta.X != ssa.Value(param) {
			continue
		}
		t := ta.AssertedType
		if pt, ok := t.(*types.Pointer); ok {
			t = pt.Elem()
		}
		n := namedOf(t)
		if n == nil {
			continue
		}
		var val ssa.Value
		if refs := ta.Referrers(); refs != nil {
			for _, ref := range *refs {
				if e0, ok := ref.(*ssa.Extract); ok && e0.Index == 0 {
					val = e0
				}
			}
		}
		tests = append(tests, kindTest{n.Obj().Name(), val, b})
		isTestBlock[b] = true
	}
	for _, kt := range tests {
		seen := map[*ssa.BasicBlock]bool{}
		var walk func(b *ssa.BasicBlock)
		walk = func(b *ssa.BasicBlock) {
			if seen[b] || isTestBlock[b] {
				return
			}
			seen[b] = true
			if len(b.Instrs) > 0 {
				if ret, ok := b.Instrs[len(b.Instrs)-1].(*ssa.Return); ok && len(ret.Results) > 0 {
					v := got[kt.kind]
					if v == nil {
						v = &verdict{pos: instrPos(ret)}
						got[kt.kind] = v
					}
					for _, rv := range resultValues(ret, 0) {
						x := rv
						if mi, ok := x.(*ssa.MakeInterface); ok {
							x = mi.X
						}
						if (kt.val != nil && x == kt.val) || x == ssa.Value(param) || rv == ssa.Value(param) {
							v.same = true
						} else {
							v.fresh = true
						}
					}
				}
			}
			for _, sx := range b.Succs {
				walk(sx)
			}
		}
		walk(kt.blk.Succs[0])
	}
	if len(got) == 0 {
		r.Undecided("%s does not distinguish the kinds of its argument by type assertions", fn.Name())
		return
	}
	var names []string
	for name := range want {
		names = append(names, name)
	}
	sort.Strings(names)
	for _, name := range names {
		w := want[name]
		construct := fmt.Sprintf("%s#case:%s", fn.QName(), name)
		v := got[name]
		if v == nil {
			r.Viol(construct, p.Rel(fn.Decl.Pos()), "no case for "+name)
			continue
		}
		why := ""
		if w == "same" && v.fresh {
			why = fn.Name() + " must return the array/map itself (composites are shared by reference), returns something else for " + name
		}
		if w == "fresh" && v.same {
			why = fn.Name() + " must return a fresh copy for " + name + ", returns its argument"
		}
		r.Check(why == "", construct, p.Rel(v.pos), "returns "+w, why)
	}
}

// ---------------------------------------------------------------------------
// R-FRESH: slicing, copying, concatenation and repetition return fresh containers.

var ruleFresh = &Rule{
	ID:    "R-FRESH",
	Doc:   "(*arrayVal).Slice/Copy and array + / * return containers whose backing slice is allocated in the same function (make/literal/append chain); repetition copies through deepCopy; the map ranger and evalMapLiteral store a private copy of the key order",
	Floor: 6,
	Run:   runFresh,
}

func runFresh(c *Ctx, r *Reporter) {
	p, pkg := evaluatorPkg(c, r)
	if pkg == nil {
		return
	}
	// every composite literal &arrayVal{Elements: X} / mapVal{Order: X} in the functions below must get fresh X
	type spec struct {
		fn     string
		typ    string
		field  string
		reason string
	}
	specs := []spec{
		{"(*arrayVal).Slice", "arrayVal", "Elements", "slicing returns a fresh copy"},
		{"(*arrayVal).Copy", "arrayVal", "Elements", "Copy returns a fresh container"},
		{"evalBinaryArrayExpr", "arrayVal", "Elements", "repetition returns a fresh container"},
		{"deepCopy", "arrayVal", "Elements", "deep copy allocates new arrays"},
		{"deepCopy", "mapVal", "Order", "deep copy allocates a new key order"},
		{"(*Evaluator).evalMapLiteral", "mapVal", "Order", "a map value never shares the literal's key-order slice"},
		{"(*Evaluator).newRange", "mapRange", "order", "the map ranger iterates a private snapshot of the key order"},
		{"(*Evaluator).evalArrayLiteral", "arrayVal", "Elements", "an array literal evaluates to a new array"},
	}
	for _, s := range specs {
		fd := FindFunc(pkg, s.fn)
		if fd == nil {
			r.Undecided("%s not found", s.fn)
			continue
		}
		sf := p.SSAFunc(fd.Obj)
		n := 0
		for _, fn := range regionFns(sf, 3, dispatcherNames) { // the function and the helpers extracted from it
			for _, b := range fn.Blocks {
				for _, ins := range b.Instrs {
					a, ok := ins.(*ssa.Alloc)
					if !ok {
						continue
					}
					named := namedOf(a.Type().Underlying().(*types.Pointer).Elem())
					if named == nil || named.Obj().Name() != s.typ || named.Obj().Pkg() != pkg.Types {
						continue
					}
					val := storedFieldValue(a, s.field)
					if val == nil {
						continue
					}
					n++
					construct := fmt.Sprintf("%s#new-%s.%s[%d]", fd.QName(), s.typ, s.field, n)
					fresh := false
					switch v := val.(type) {
					case *ssa.Alloc: // &elements : pointer to local slice variable
						fresh = allocStoresFresh(v, 0)
					case *ssa.Call: // a helper that returns a pointer to a slice it allocated
						if sc := v.Call.StaticCallee(); sc != nil && sc.Blocks != nil && sc.Pkg == fn.Pkg {
							if _, isPtr := v.Type().Underlying().(*types.Pointer); isPtr {
								fresh = true
								for _, ret := range returnsOf(sc) {
									for _, rv := range resultValues(ret, 0) {
										ra, ok := rv.(*ssa.Alloc)
										if !ok || !allocStoresFresh(ra, 0) {
											fresh = false
										}
									}
								}
							} else {
								fresh = isFreshSlice(val, 0)
							}
						}
					default:
						fresh = isFreshSlice(val, 0)
					}
					r.Check(fresh, construct, p.Rel(instrPos(a)), s.reason+": backing storage allocated here",
						s.reason+", but "+s.typ+"."+s.field+" is not provably a fresh allocation (it may alias the operand's storage)")
				}
			}
		}
		if n == 0 {
			r.Viol(fd.QName()+"#new-"+s.typ+"."+s.field, p.Rel(fd.Decl.Pos()), "expected "+s.fn+" to construct a "+s.typ+" with its own "+s.field+" ("+s.reason+"); no such construction found")
		}
	}
	// iteration state belongs to one activation of one loop: every function that returns a ranger returns an object
	// allocated in that very call (or the result of another such function), never one kept in the evaluator
	rangerT, _ := pkg.Types.Scope().Lookup("ranger").(*types.TypeName)
	if rangerT == nil {
		r.Undecided("type ranger not found")
	} else {
		nr := 0
		isRangerCtor := func(fn *ssa.Function) bool {
			res := fn.Signature.Results()
			return res.Len() >= 1 && types.Identical(res.At(0).Type(), rangerT.Type())
		}
		for _, fn := range ssaFuncsOf(p, pkg) {
			if !isRangerCtor(fn) {
				continue
			}
			k := 0
			for _, ret := range returnsOf(fn) {
				for _, v := range resultValues(ret, 0) {
					var bad func(v ssa.Value, depth int) string
					bad = func(v ssa.Value, depth int) string {
						if depth > 6 {
							return "value too deep to resolve"
						}
						switch x := v.(type) {
						case *ssa.Const:
							if x.IsNil() {
								return ""
							}
						case *ssa.MakeInterface:
							return bad(x.X, depth+1)
						case *ssa.Alloc:
							if x.Heap {
								return ""
							}
						case *ssa.Phi:
							for _, e := range x.Edges {
								if why := bad(e, depth+1); why != "" {
									return why
								}
							}
							return ""
						case *ssa.Extract:
							if call, ok := x.Tuple.(*ssa.Call); ok && x.Index == 0 {
								if sc := call.Call.StaticCallee(); sc != nil && isRangerCtor(sc) {
									return ""
								}
							}
						case *ssa.Call:
							sc := x.Call.StaticCallee()
							if sc != nil && isRangerCtor(sc) {
								return ""
							}
							// a constructor helper of the package: fresh if everything it returns is allocated in it
							if sc != nil && sc.Pkg != nil && sc.Pkg.Pkg == pkg.Types && sc.Blocks != nil && sc.Signature.Results().Len() == 1 {
								for _, r2 := range returnsOf(sc) {
									for _, v2 := range resultValues(r2, 0) {
										if why := bad(v2, depth+1); why != "" {
											return why + " (returned by " + sc.Name() + ")"
										}
									}
								}
								return ""
							}
						}
						return "`" + v.String() + "` is not an object allocated in this call"
					}
					k++
					nr++
					why := bad(v, 0)
					r.Check(why == "", fmt.Sprintf("%s#ranger-fresh[%d]", ssaQName(fn), k), p.Rel(instrPos(ret)), "the iteration state returned here is allocated in this call",
						"the iteration state of a loop is not allocated per activation ("+why+"): a loop that is entered again while an outer activation of the same statement is still running — recursion through a for loop — shares its state with it, so the outer loop continues where the inner one stopped")
				}
			}
		}
		if nr == 0 {
			r.Undecided("no function returning a ranger found")
		}
	}
	// concatenation: result of OP_PLUS in evalBinaryArrayExpr originates from Copy(); repetition elements from deepCopy
	fd := FindFunc(pkg, "evalBinaryArrayExpr")
	if fd != nil {
		sf := p.SSAFunc(fd.Obj)
		copyFn := FindFunc(pkg, "(*arrayVal).Copy")
		deep := FindFunc(pkg, "deepCopy")
		if copyFn == nil || deep == nil {
			r.Undecided("Copy/deepCopy not found")
			return
		}
		copySSA, deepSSA := p.SSAFunc(copyFn.Obj), p.SSAFunc(deep.Obj)
		// every Return whose first result is an *arrayVal must originate from Copy() or a fresh Alloc
		i := 0
		for _, ret := range returnsOf(sf) {
			if len(ret.Results) == 0 {
				continue
			}
			v := stripValue(ret.Results[0])
			if k, ok := v.(*ssa.Const); ok && k.IsNil() {
				continue
			}
			i++
			construct := fmt.Sprintf("%s#result[%d]", fd.QName(), i)
			why := "result is neither a new arrayVal nor the result of Copy()"
			var freshResult func(v ssa.Value, depth int) bool
			freshResult = func(v ssa.Value, depth int) bool {
				if depth > 4 {
					return false
				}
				v = stripValue(v)
				switch x := v.(type) {
				case *ssa.Alloc:
					return true
				case *ssa.Extract:
					if c, ok := x.Tuple.(*ssa.Call); ok && x.Index == 0 {
						return freshResult(c, depth)
					}
				case *ssa.Phi:
					for _, e := range x.Edges {
						if k, ok := e.(*ssa.Const); ok && k.IsNil() {
							continue
						}
						if !freshResult(e, depth+1) {
							return false
						}
					}
					return true
				case *ssa.Call:
					sc := x.Call.StaticCallee()
					if sc == copySSA {
						return true
					}
					if sc != nil && sc.Blocks != nil && sc.Pkg == sf.Pkg && !dispatcherNames[sc.Name()] {
						any := false
						for _, r2 := range returnsOf(sc) {
							if len(r2.Results) == 0 {
								return false
							}
							for _, rv := range resultValues(r2, 0) {
								if k, ok := stripValue(rv).(*ssa.Const); ok && k.IsNil() {
									continue
								}
								any = true
								if !freshResult(rv, depth+1) {
									return false
								}
							}
						}
						return any
					}
				}
				return false
			}
			r.Check(freshResult(v, 0), construct, p.Rel(instrPos(ret)), "array operator returns a fresh container", why)
		}
		// the repetition case never uses the shallow Copy: nested composites must be copied too
		info := pkg.TypesInfo
		for _, sw := range findSwitches(fd.Decl.Body, func(sw *ast.SwitchStmt) bool {
			return sw.Tag != nil && isNamed(info.TypeOf(sw.Tag), ModulePath+"/pkg/parser", "Operator")
		}) {
			cases, _ := caseConsts(info, sw.Body)
			for k, cc := range cases {
				if k.Name() != "OP_ASTERISK" {
					continue
				}
				shallow := false
				ast.Inspect(cc, func(n ast.Node) bool {
					if call, ok := n.(*ast.CallExpr); ok {
						if fn := calleeFunc(info, call); fn != nil && fn == copyFn.Obj {
							shallow = true
						}
					}
					return true
				})
				r.Check(!shallow, fd.QName()+"#repeat-deep", p.Rel(cc.Pos()), "repetition copies through deepCopy only", "the repetition case uses the shallow (*arrayVal).Copy: nested arrays/maps of the operand are shared with the result (`snap := board * 1` aliases the rows)")
			}
		}
		// appends in this function: every appended operand comes from Copy()/deepCopy
		j := 0
		var regionBlocks []*ssa.BasicBlock
		for _, f2 := range regionFns(sf, 2, map[string]bool{"eval": true, "Compile": true, "format": true, "deepCopy": true, "Copy": true, "copyOrRef": true}) {
			regionBlocks = append(regionBlocks, f2.Blocks...)
		}
		for _, b := range regionBlocks {
			for _, ins := range b.Instrs {
				call, ok := ins.(*ssa.Call)
				if !ok {
					continue
				}
				if bi, ok := call.Call.Value.(*ssa.Builtin); !ok || bi.Name() != "append" || len(call.Call.Args) < 2 {
					continue
				}
				j++
				construct := fmt.Sprintf("%s#append[%d]", fd.QName(), j)
				src := call.Call.Args[1]
				okv := derivesFromCall(src, map[*ssa.Function]bool{copySSA: true, deepSSA: true}, 8)
				r.Check(okv, construct, p.Rel(instrPos(call)), "appended elements are copies (Copy/deepCopy)", "appends the operand's own element objects: nested arrays/maps of the operand are shared with the result (repetition must deep-copy)")
			}
		}
	}
}

func derivesFromCall(v ssa.Value, targets map[*ssa.Function]bool, depth int) bool {
	if depth == 0 {
		return false
	}
	switch x := stripValue(v).(type) {
	case *ssa.Call:
		if targets[x.Call.StaticCallee()] {
			return true
		}
	case *ssa.UnOp:
		return derivesFromCall(x.X, targets, depth-1)
	case *ssa.FieldAddr:
		return derivesFromCall(x.X, targets, depth-1)
	case *ssa.Field:
		return derivesFromCall(x.X, targets, depth-1)
	case *ssa.TypeAssert:
		return derivesFromCall(x.X, targets, depth-1)
	case *ssa.Extract:
		return derivesFromCall(x.Tuple, targets, depth-1)
	case *ssa.Phi:
		for _, e := range x.Edges {
			if !derivesFromCall(e, targets, depth-1) {
				return false
			}
		}
		return len(x.Edges) > 0
	case *ssa.Slice:
		return derivesFromCall(x.X, targets, depth-1)
	}
	return false
}

// ---------------------------------------------------------------------------
// R-RUNES: strings are measured, indexed, sliced and iterated by code point.

func runesRule(rel string, typeName string, floor int) *Rule {
	return &Rule{
		ID:    "R-RUNES/" + rel,
		Doc:   "no len(), index, slice or range expression is applied to the byte string of a " + typeName + " in " + rel + ": string length/index/slice/iteration go through the rune view",
		Floor: floor,
		Run: func(c *Ctx, r *Reporter) {
			runRunes(c, r, rel, typeName)
		},
	}
}

func runRunes(c *Ctx, r *Reporter, rel, typeName string) {
	p, err := c.Default()
	if err != nil {
		r.Undecided("%v", err)
		return
	}
	pkg := p.Pkg(rel)
	if pkg == nil {
		r.Undecided("package %s not loaded", rel)
		return
	}
	info := pkg.TypesInfo
	// isEvyString: expression denotes the Go string content of an Evy string value
	isEvyString := func(e ast.Expr) bool {
		e = ast.Unparen(e)
		t := info.TypeOf(e)
		if t == nil {
			return false
		}
		// (a) value of the named string type itself (bytecode.stringVal)
		if n := namedOf(t); n != nil && n.Obj().Name() == typeName && n.Obj().Pkg() == pkg.Types {
			if b, ok := n.Underlying().(*types.Basic); ok && b.Info()&types.IsString != 0 {
				return true
			}
		}
		// (b) field V of struct stringVal
		if sel, ok := e.(*ast.SelectorExpr); ok {
			if b, ok := t.Underlying().(*types.Basic); ok && b.Info()&types.IsString != 0 {
				if n := namedOf(info.TypeOf(sel.X)); n != nil && n.Obj().Name() == typeName && n.Obj().Pkg() == pkg.Types {
					return true
				}
			}
		}
		// (c) conversion string(x) of (a)
		if call, ok := e.(*ast.CallExpr); ok && len(call.Args) == 1 {
			if _, conv := isConversion(info, call); conv {
				if b, ok := t.Underlying().(*types.Basic); ok && b.Info()&types.IsString != 0 {
					at := info.TypeOf(call.Args[0])
					if n := namedOf(at); n != nil && n.Obj().Name() == typeName && n.Obj().Pkg() == pkg.Types {
						return true
					}
				}
			}
		}
		return false
	}
	sites := 0
	for _, fn := range Funcs(pkg) {
		bad := []string{}
		var firstPos token.Pos
		uses := 0
		// slices of an Evy string that are only measured in runes (utf8.RuneCountInString(s[:i])) are the
		// legitimate conversion of a byte offset into a character index
		counted := map[ast.Expr]bool{}
		byteOffsets := map[types.Object]*ast.CallExpr{} // locals holding a byte offset into an Evy string
		ast.Inspect(fn.Decl.Body, func(n ast.Node) bool {
			call, ok := n.(*ast.CallExpr)
			if !ok {
				return true
			}
			if cf := calleeFunc(info, call); cf != nil && cf.Pkg() != nil && cf.Pkg().Path() == "unicode/utf8" && strings.HasPrefix(cf.Name(), "RuneCount") && len(call.Args) == 1 {
				counted[ast.Unparen(call.Args[0])] = true
			}
			return true
		})
		isByteOffsetCall := func(e ast.Expr) *ast.CallExpr {
			call, ok := ast.Unparen(e).(*ast.CallExpr)
			if !ok || len(call.Args) == 0 {
				return nil
			}
			cf := calleeFunc(info, call)
			if cf == nil || cf.Pkg() == nil || (cf.Pkg().Path() != "strings" && cf.Pkg().Path() != "bytes") {
				return nil
			}
			if !strings.HasPrefix(cf.Name(), "Index") && !strings.HasPrefix(cf.Name(), "LastIndex") {
				return nil
			}
			if !isEvyString(call.Args[0]) {
				// a local copy of the Go string: s := args[0].(*stringVal).V
				id, ok := ast.Unparen(call.Args[0]).(*ast.Ident)
				if !ok || !evyStringLocals(info, fn.Decl.Body, isEvyString)[info.ObjectOf(id)] {
					return nil
				}
			}
			return call
		}
		ast.Inspect(fn.Decl.Body, func(n ast.Node) bool {
			as, ok := n.(*ast.AssignStmt)
			if !ok || len(as.Lhs) != len(as.Rhs) {
				return true
			}
			for i, rhs := range as.Rhs {
				if call := isByteOffsetCall(rhs); call != nil {
					if id, ok := as.Lhs[i].(*ast.Ident); ok {
						if obj := info.ObjectOf(id); obj != nil {
							byteOffsets[obj] = call
						}
					}
				}
			}
			return true
		})
		ast.Inspect(fn.Decl.Body, func(n ast.Node) bool {
			switch x := n.(type) {
			case *ast.CallExpr:
				// float64(<byte offset>): the offset becomes an Evy number
				if tt, conv := isConversion(info, x); conv && len(x.Args) == 1 {
					if b, ok := tt.Underlying().(*types.Basic); ok && b.Info()&types.IsFloat != 0 {
						arg := ast.Unparen(x.Args[0])
						var src *ast.CallExpr
						if c := isByteOffsetCall(arg); c != nil {
							src = c
						} else if id, ok := arg.(*ast.Ident); ok {
							src = byteOffsets[info.ObjectOf(id)]
						}
						if src != nil {
							bad = append(bad, types.ExprString(src.Fun)+" returns a byte offset that becomes an Evy number")
							if !firstPos.IsValid() {
								firstPos = x.Pos()
							}
						}
					}
				}
				if isBuiltinCall(info, x, "len") && len(x.Args) == 1 && isEvyString(x.Args[0]) {
					bad = append(bad, "len("+types.ExprString(x.Args[0])+") counts bytes")
					if !firstPos.IsValid() {
						firstPos = x.Pos()
					}
				}
			case *ast.IndexExpr:
				if isEvyString(x.X) {
					bad = append(bad, types.ExprString(x)+" indexes bytes")
					if !firstPos.IsValid() {
						firstPos = x.Pos()
					}
				}
			case *ast.SliceExpr:
				if counted[x] {
					break // only measured in runes
				}
				if id, ok := ast.Unparen(x.X).(*ast.Ident); ok && evyStringLocals(info, fn.Decl.Body, isEvyString)[info.ObjectOf(id)] {
					bad = append(bad, types.ExprString(x)+" slices bytes")
					if !firstPos.IsValid() {
						firstPos = x.Pos()
					}
				}
				if isEvyString(x.X) {
					bad = append(bad, types.ExprString(x)+" slices bytes")
					if !firstPos.IsValid() {
						firstPos = x.Pos()
					}
				}
			case *ast.RangeStmt:
				// range over a string iterates runes: fine
			case *ast.SelectorExpr:
				if isEvyString(x) {
					uses++
				}
			}
			return true
		})
		// one obligation per function that touches Evy strings at all
		touches := uses > 0 || len(bad) > 0
		if !touches {
			// functions with a stringVal receiver or parameter of the named string type
			ast.Inspect(fn.Decl, func(n ast.Node) bool {
				if id, ok := n.(*ast.Ident); ok {
					if obj := info.ObjectOf(id); obj != nil {
						if nn := namedOf(obj.Type()); nn != nil && nn.Obj().Name() == typeName && nn.Obj().Pkg() == pkg.Types {
							touches = true
						}
					}
				}
				return !touches
			})
		}
		if !touches {
			continue
		}
		sites++
		construct := fn.QName() + "#bytestring"
		if len(bad) > 0 {
			if len(bad) > 3 {
				bad = append(bad[:3], "…")
			}
			r.Viol(construct, p.Rel(firstPos), "byte-based string access: "+strings.Join(bad, "; ")+" — non-ASCII strings get a wrong length or broken characters")
		} else {
			r.Ok(construct, p.Rel(fn.Decl.Pos()), "no byte-based length/index/slice on Evy strings")
		}
	}
	runeCacheClause(p, pkg, r, typeName)
}

// runeCacheClause: a cached rune view of a string value is only ever `[]rune(x.V)` of the very object it is stored
// in (a conversion, hence a fresh slice), or nil. A view derived from another value's view — extended with append,
// resliced, copied over — can share its backing array with that value, so indexing one string shows characters of
// another while printing stays correct.
func runeCacheClause(p *Program, pkg *packages.Package, r *Reporter, typeName string) {
	n := 0
	for _, fn := range ssaFuncsOf(p, pkg) {
		for _, b := range fn.Blocks {
			for _, ins := range b.Instrs {
				st, ok := ins.(*ssa.Store)
				if !ok {
					continue
				}
				fa, ok := st.Addr.(*ssa.FieldAddr)
				if !ok {
					continue
				}
				owner, fname := fieldAddrInfo(fa)
				if owner == nil || owner.Obj().Name() != typeName || owner.Obj().Pkg() != pkg.Types {
					continue
				}
				sl, isSlice := st.Val.Type().Underlying().(*types.Slice)
				if !isSlice {
					continue
				}
				if bt, ok := sl.Elem().Underlying().(*types.Basic); !ok || bt.Kind() != types.Int32 {
					continue
				}
				n++
				construct := fmt.Sprintf("%s#rune-cache:%s[%d]", ssaQName(fn), fname, n)
				good := false
				switch v := st.Val.(type) {
				case *ssa.Const:
					good = v.IsNil()
				case *ssa.Convert:
					if u, ok := v.X.(*ssa.UnOp); ok && u.Op == token.MUL {
						if fa2, ok := u.X.(*ssa.FieldAddr); ok {
							_, f2 := fieldAddrInfo(fa2)
							good = f2 == "V" && (fa2.X == fa.X || sameValueExpr(fa2.X, fa.X, 5))
						}
					}
				}
				r.Check(good, construct, p.Rel(instrPos(st)), "the cached rune view is the conversion of the object's own string",
					"the cached rune view of a string value is not `[]rune(x.V)` of the object it is stored in: a view built from another value's view (append, reslice) can share its backing array, "+
						"so `a := s + \"x\"; b := s + \"y\"` makes a[-1] show b's last character while printing stays correct")
			}
		}
	}
}

// ---------------------------------------------------------------------------
// R-MAPENC: the Go map and the key-order slice of mapVal are only updated together.

var ruleMapEnc = &Rule{
	ID:    "R-MAPENC",
	Doc:   "mapVal.Pairs and *mapVal.Order are written only inside SetKey/Delete/Set and the constructors that build both; SetKey appends the key only when it is new and always stores the value; Delete removes the key from both; has/del/len read Pairs; String/Repr/ranger follow Order; Equals never reads Order",
	Floor: 10,
	Run:   runMapEnc,
}

func runMapEnc(c *Ctx, r *Reporter) {
	p, pkg := evaluatorPkg(c, r)
	if pkg == nil {
		return
	}
	mutators := map[string]bool{"(*mapVal).SetKey": true, "(*mapVal).Delete": true, "(*mapVal).Set": true}
	// helpers that are called from mutators only (an extracted removeFromOrder, say) belong to the mutators
	{
		callers := map[*ssa.Function]map[*ssa.Function]bool{}
		byName := map[*ssa.Function]string{}
		for _, fd := range Funcs(pkg) {
			sf := p.SSAFunc(fd.Obj)
			if sf == nil {
				continue
			}
			byName[sf] = fd.Name()
			for _, fn := range withAnon(sf) {
				for _, b := range fn.Blocks {
					for _, ins := range b.Instrs {
						if ci, ok := ins.(ssa.CallInstruction); ok {
							if sc := ci.Common().StaticCallee(); sc != nil && sc.Pkg == sf.Pkg {
								if callers[sc] == nil {
									callers[sc] = map[*ssa.Function]bool{}
								}
								callers[sc][sf] = true
							}
						}
					}
				}
			}
		}
		for changed := true; changed; {
			changed = false
			for callee, cs := range callers {
				name := byName[callee]
				if name == "" || mutators[name] {
					continue
				}
				all := len(cs) > 0
				for c := range cs {
					if !mutators[byName[c]] {
						all = false
					}
				}
				if all {
					mutators[name] = true
					changed = true
				}
			}
		}
	}
	n := 0
	for _, fd := range Funcs(pkg) {
		sf := p.SSAFunc(fd.Obj)
		if sf == nil {
			continue
		}
		for _, fn := range withAnon(sf) {
			for _, b := range fn.Blocks {
				for _, ins := range b.Instrs {
					kind, base := mapValWrite(ins, pkg.Types)
					if kind == "" {
						continue
					}
					n++
					construct := fmt.Sprintf("%s#write:%s[%d]", fd.QName(), kind, n)
					pos := p.Rel(instrPos(ins))
					switch {
					case mutators[fd.Name()]:
						r.Ok(construct, pos, "inside a mutator of mapVal")
					case isFreshAlloc(base) || base == nil:
						r.Ok(construct, pos, "construction of a new mapVal")
					default:
						r.Viol(construct, pos, "writes mapVal."+kind+" outside SetKey/Delete/constructors: the Go map and the key order can get out of step (printing/iteration follow Order, lookups follow Pairs)")
					}
				}
			}
		}
	}
	// mutator bodies
	if fd := FindFunc(pkg, "(*mapVal).SetKey"); fd != nil {
		checkSetKey(p, pkg, fd, r)
	} else {
		r.Undecided("(*mapVal).SetKey not found")
	}
	if fd := FindFunc(pkg, "(*mapVal).Delete"); fd != nil {
		checkDelete(p, pkg, fd, r)
	} else {
		r.Undecided("(*mapVal).Delete not found")
	}
	// readers
	readers := []struct {
		fn    string
		field string
		must  bool // must read / must not read
		why   string
	}{
		{"(*mapVal).String", "Order", true, "printing follows insertion order"},
		{"(*mapVal).Repr", "Order", true, "repr follows insertion order"},
		{"(*mapVal).Equals", "Order", false, "map equality ignores order"},
		{"sameMap", "Order", false, "test equality ignores order"},
		{"(*mapVal).Get", "Pairs", true, "lookup uses the Go map"},
		{"(*Evaluator).newRange", "Order", true, "iteration follows insertion order"},
		{"(*mapRange).next", "Pairs", true, "iteration skips keys deleted since loop entry"},
	}
	for _, rd := range readers {
		fd := FindFunc(pkg, rd.fn)
		if fd == nil {
			r.Undecided("%s not found", rd.fn)
			continue
		}
		reads := readsMapValField(p.SSAFunc(fd.Obj), pkg.Types, rd.field)
		construct := fmt.Sprintf("%s#reads:%s", fd.QName(), rd.field)
		if rd.must {
			r.Check(reads, construct, p.Rel(fd.Decl.Pos()), rd.why, rd.why+", but "+rd.fn+" does not read mapVal."+rd.field)
		} else {
			r.Check(!reads, construct, p.Rel(fd.Decl.Pos()), rd.why, rd.why+", but "+rd.fn+" reads mapVal."+rd.field)
		}
	}
	// built-ins has/del/len
	for _, b := range []struct{ fn, want string }{{"hasFunc", "Pairs"}, {"lenFunc", "Pairs"}} {
		fd := FindFunc(pkg, b.fn)
		if fd == nil {
			r.Undecided("%s not found", b.fn)
			continue
		}
		reads := readsMapValField(p.SSAFunc(fd.Obj), pkg.Types, b.want)
		r.Check(reads, fd.QName()+"#reads:"+b.want, p.Rel(fd.Decl.Pos()), b.fn+" consults the Go map", b.fn+" does not consult mapVal."+b.want)
	}
	if fd := FindFunc(pkg, "delFunc"); fd != nil {
		del := FindFunc(pkg, "(*mapVal).Delete")
		okv := del != nil && len(callsTo(p.SSAFunc(fd.Obj), p.SSAFunc(del.Obj))) > 0
		r.Check(okv, fd.QName()+"#uses-Delete", p.Rel(fd.Decl.Pos()), "del goes through (*mapVal).Delete", "del does not call (*mapVal).Delete: key order and map would diverge")
	} else {
		r.Undecided("delFunc not found")
	}
}

// mapValWrite classifies an instruction that writes mapVal.Pairs (field store, map update, delete) or Order (field store, store through *Order).
func mapValWrite(ins ssa.Instruction, pkg *types.Package) (string, ssa.Value) {
	isMapValField := func(v ssa.Value, field string) (bool, ssa.Value) {
		switch x := v.(type) {
		case *ssa.FieldAddr:
			if named, name := fieldAddrInfo(x); named != nil && named.Obj().Name() == "mapVal" && named.Obj().Pkg() == pkg && name == field {
				return true, x.X
			}
		case *ssa.UnOp: // load of the field
			if fa, ok := x.X.(*ssa.FieldAddr); ok {
				if named, name := fieldAddrInfo(fa); named != nil && named.Obj().Name() == "mapVal" && named.Obj().Pkg() == pkg && name == field {
					return true, fa.X
				}
			}
		}
		return false, nil
	}
	switch x := ins.(type) {
	case *ssa.Store:
		switch a := x.Addr.(type) {
		case *ssa.FieldAddr:
			if ok, base := isMapValField(a, "Pairs"); ok {
				return "Pairs", base
			}
			if ok, base := isMapValField(a, "Order"); ok {
				return "Order", base
			}
		case *ssa.UnOp: // *m.Order = …
			if ok, base := isMapValField(a, "Order"); ok {
				return "*Order", base
			}
		}
	case *ssa.MapUpdate:
		if ok, base := isMapValField(x.Map, "Pairs"); ok {
			return "Pairs[k]", base
		}
	case *ssa.Call:
		if bi, ok := x.Call.Value.(*ssa.Builtin); ok && bi.Name() == "delete" {
			if ok2, base := isMapValField(x.Call.Args[0], "Pairs"); ok2 {
				return "delete(Pairs)", base
			}
		}
	}
	return "", nil
}

func readsMapValField(fn *ssa.Function, pkg *types.Package, field string) bool {
	if fn == nil {
		return false
	}
	for _, f := range regionFns(fn, 3, dispatcherNames) { // the function and the helpers it calls
		for _, b := range f.Blocks {
			for _, ins := range b.Instrs {
				switch x := ins.(type) {
				case *ssa.FieldAddr:
					if named, name := fieldAddrInfo(x); named != nil && named.Obj().Name() == "mapVal" && named.Obj().Pkg() == pkg && name == field {
						return true
					}
				case *ssa.Field:
					if named, name := fieldValInfo(x); named != nil && named.Obj().Name() == "mapVal" && named.Obj().Pkg() == pkg && name == field {
						return true
					}
				}
			}
		}
	}
	return false
}

// checkSetKey: the value store Pairs[key]=val is on every path to return; the
// append to *Order is control-dependent on a failed lookup of the same key.
// eventSites: where in root an event happens — the instructions of root that satisfy pred, and the calls in root of
// helpers of the package (within two levels) in which it happens.
func eventSites(root *ssa.Function, pred func(ssa.Instruction) bool) (sites []ssa.Instruction, actual []ssa.Instruction) {
	region := regionFns(root, 3, dispatcherNames)
	has := map[*ssa.Function]bool{}
	for _, f := range region {
		for _, b := range f.Blocks {
			for _, ins := range b.Instrs {
				if pred(ins) {
					actual = append(actual, ins)
					if f != root {
						has[f] = true
					}
				}
			}
		}
	}
	for changed := true; changed; {
		changed = false
		for _, f := range region {
			if f == root || has[f] {
				continue
			}
			for _, b := range f.Blocks {
				for _, ins := range b.Instrs {
					if ci, ok := ins.(ssa.CallInstruction); ok && has[ci.Common().StaticCallee()] {
						has[f] = true
						changed = true
					}
				}
			}
		}
	}
	for _, b := range root.Blocks {
		for _, ins := range b.Instrs {
			if pred(ins) {
				sites = append(sites, ins)
			} else if ci, ok := ins.(ssa.CallInstruction); ok && has[ci.Common().StaticCallee()] {
				sites = append(sites, ins)
			}
		}
	}
	return sites, actual
}

// presenceCond: v is true exactly when a key was found in mapVal.Pairs (present=true) or exactly when it was not
// (present=false): the ok of a comma-ok look-up, its negation, or the result of a helper that returns just that.
func presenceCond(v ssa.Value, pkg *types.Package, depth int) (present bool, ok bool) {
	if depth > 3 {
		return false, false
	}
	switch x := v.(type) {
	case *ssa.UnOp:
		if x.Op == token.NOT {
			p, ok := presenceCond(x.X, pkg, depth+1)
			return !p, ok
		}
	case *ssa.Extract:
		if lk, isLk := x.Tuple.(*ssa.Lookup); isLk && lk.CommaOk && x.Index == 1 {
			if u, isLoad := lk.X.(*ssa.UnOp); isLoad {
				if fa, isFA := u.X.(*ssa.FieldAddr); isFA {
					if named, name := fieldAddrInfo(fa); named != nil && named.Obj().Name() == "mapVal" && name == "Pairs" {
						return true, true
					}
				}
			}
		}
	case *ssa.Call:
		sc := x.Call.StaticCallee()
		if sc == nil || sc.Blocks == nil || sc.Pkg == nil || sc.Pkg.Pkg != pkg {
			return false, false
		}
		rets := returnsOf(sc)
		if len(rets) == 1 && len(rets[0].Results) == 1 {
			return presenceCond(rets[0].Results[0], pkg, depth+1)
		}
	}
	return false, false
}

func checkSetKey(p *Program, pkg *packages.Package, fd *FuncDecl, r *Reporter) {
	sf := p.SSAFunc(fd.Obj)
	updSites, _ := eventSites(sf, func(ins ssa.Instruction) bool {
		if mu, ok := ins.(*ssa.MapUpdate); ok {
			k, _ := mapValWrite(mu, pkg.Types)
			return k != ""
		}
		return false
	})
	ordSites, ordStores := eventSites(sf, func(ins ssa.Instruction) bool {
		if st, ok := ins.(*ssa.Store); ok {
			k, _ := mapValWrite(st, pkg.Types)
			return k == "*Order"
		}
		return false
	})
	construct := fd.QName() + "#body"
	if len(updSites) == 0 || len(ordSites) == 0 {
		r.Viol(construct, p.Rel(fd.Decl.Pos()), "SetKey must store the value in Pairs and append new keys to *Order")
		return
	}
	var updBlocks []*ssa.BasicBlock
	for _, u := range updSites {
		updBlocks = append(updBlocks, u.Block())
	}
	if path := successPathAvoiding(sf.Blocks[0], updBlocks); path != "" {
		r.Viol(construct+":store", p.Rel(instrPos(updSites[0])), "a path through SetKey returns without storing the value in Pairs")
	} else {
		r.Ok(construct+":store", p.Rel(instrPos(updSites[0])), "Pairs[key] = val on every path")
	}
	// every order append lies on the edge on which the key was found absent
	guarded := true
	for _, site := range ordSites {
		g := false
		for d := site.Block(); d != nil; d = d.Idom() {
			idom := d.Idom()
			if idom == nil || len(idom.Instrs) == 0 {
				continue
			}
			ifi, ok := idom.Instrs[len(idom.Instrs)-1].(*ssa.If)
			if !ok {
				continue
			}
			present, ok := presenceCond(ifi.Cond, pkg.Types, 0)
			if !ok {
				continue
			}
			absentEdge := 1
			if !present {
				absentEdge = 0
			}
			if edgeDominates(idom, absentEdge, site.Block()) {
				g = true
			}
		}
		if !g {
			guarded = false
		}
	}
	r.Check(guarded, construct+":order", p.Rel(instrPos(ordSites[0])), "key appended to *Order only when it was not present", "SetKey appends to *Order without being guarded by a failed lookup of the key: overwriting a key would duplicate it in the order (printed twice, position lost)")
	for _, ins := range ordStores {
		st := ins.(*ssa.Store)
		if call, ok := st.Val.(*ssa.Call); ok {
			if bi, ok := call.Call.Value.(*ssa.Builtin); ok && bi.Name() == "append" {
				okv := derivesFromOrderLoad(call.Call.Args[0], pkg.Types)
				r.Check(okv, construct+":order-append", p.Rel(instrPos(call)), "appends to the existing order", "the new order is not an append to the existing *Order")
			}
		}
	}
}

func derivesFromOrderLoad(v ssa.Value, pkg *types.Package) bool {
	if u, ok := v.(*ssa.UnOp); ok {
		if u2, ok := u.X.(*ssa.UnOp); ok {
			if fa, ok := u2.X.(*ssa.FieldAddr); ok {
				named, name := fieldAddrInfo(fa)
				return named != nil && named.Obj().Name() == "mapVal" && name == "Order"
			}
		}
	}
	return false
}

// checkDelete: delete(Pairs,key) and a store to *Order on the path where the key was found.
func checkDelete(p *Program, pkg *packages.Package, fd *FuncDecl, r *Reporter) {
	sf := p.SSAFunc(fd.Obj)
	delSites, _ := eventSites(sf, func(ins ssa.Instruction) bool {
		if c, ok := ins.(*ssa.Call); ok {
			k, _ := mapValWrite(c, pkg.Types)
			return k == "delete(Pairs)"
		}
		return false
	})
	ordSites, ordStores := eventSites(sf, func(ins ssa.Instruction) bool {
		if st, ok := ins.(*ssa.Store); ok {
			k, _ := mapValWrite(st, pkg.Types)
			return k == "*Order"
		}
		return false
	})
	for i, site := range ordSites {
		after := false
		for _, d := range delSites {
			if instrDominates(d, site) {
				after = true
			}
		}
		if len(delSites) > 0 {
			r.Check(after, fmt.Sprintf("%s#body:order-after-delete[%d]", fd.QName(), i+1), p.Rel(instrPos(site)),
				"the key order changes only after the key was removed from the Go map",
				"a path shortens *Order without delete(m.Pairs, key) having run: the key leaves the printed/iterated order but `has`, `len` and lookups still find it")
		}
	}
	construct := fd.QName() + "#body"
	if len(delSites) == 0 || len(ordSites) == 0 {
		r.Viol(construct, p.Rel(fd.Decl.Pos()), "Delete must remove the key from Pairs and from *Order")
		return
	}
	reach := false
	for _, d := range delSites {
		for _, o := range ordSites {
			if d.Block() == o.Block() || reachesBlock(d.Block(), o.Block()) {
				reach = true
			}
		}
	}
	r.Check(reach, construct+":both", p.Rel(instrPos(delSites[0])), "key removed from Pairs and from *Order", "the removal from *Order is not reachable after delete(Pairs, key)")
	for _, ins := range ordStores {
		st := ins.(*ssa.Store)
		if call, ok := st.Val.(*ssa.Call); ok {
			if bi, ok := call.Call.Value.(*ssa.Builtin); ok && bi.Name() == "append" && len(call.Call.Args) == 2 {
				_, s1 := call.Call.Args[0].(*ssa.Slice)
				_, s2 := call.Call.Args[1].(*ssa.Slice)
				r.Check(s1 && s2, construct+":splice", p.Rel(instrPos(call)), "key spliced out of the order", "the order update in Delete is not a splice of the old order")
			}
		}
	}
}

// evyStringLocals returns the local variables of body that are initialised with the Go string of an Evy string value.
func evyStringLocals(info *types.Info, body ast.Node, isEvyString func(ast.Expr) bool) map[types.Object]bool {
	out := map[types.Object]bool{}
	ast.Inspect(body, func(n ast.Node) bool {
		as, ok := n.(*ast.AssignStmt)
		if !ok || len(as.Lhs) != len(as.Rhs) {
			return true
		}
		for i, rhs := range as.Rhs {
			if isEvyString(rhs) {
				if id, ok := as.Lhs[i].(*ast.Ident); ok {
					if obj := info.ObjectOf(id); obj != nil {
						out[obj] = true
					}
				}
			}
		}
		return true
	})
	return out
}
