package check

import (
	"fmt"
	"go/ast"
	"go/constant"
	"go/token"
	"go/types"
	"os"
	"path/filepath"
	"reflect"
	"regexp"
	"sort"
	"strings"

	"golang.org/x/tools/go/packages"
	"golang.org/x/tools/go/ssa"
)

var ruleSVG = &Rule{
	ID:    "R-SVG",
	Doc:   "drawing discipline of pkg/cli/svg: x positions go through transformX, y positions through transformY, lengths through scale (roles from the GraphicsPlatform interface) and x/y siblings are computed symmetrically; every style method calls Push before it changes the pen and sets its attributes unconditionally; every drawing method appends exactly one element on every path; Push consults an element's own attributes before overwriting them; grid steps are validated positive before the platform loop; no style value is overwritten before it is read; output bytes come only from the XML encoder and no field is emitted as raw inner XML",
	Floor: 40,
	Run:   runSVG,
}

var svgKnownRole = map[string]string{
	"x": "X", "y": "Y",
	"dx": "L", "dy": "L", "radius": "L", "radiusX": "L", "radiusY": "L", "w": "L", "unit": "L", "width": "L", "height": "L",
}

func runSVG(c *Ctx, r *Reporter) {
	p, err := c.Default()
	if err != nil {
		r.Undecided("%v", err)
		return
	}
	pkg := p.Pkg("pkg/cli/svg")
	evalPkg := p.Pkg("pkg/evaluator")
	if pkg == nil || evalPkg == nil {
		r.Undecided("pkg/cli/svg or pkg/evaluator not loaded")
		return
	}
	ifaceObj := evalPkg.Types.Scope().Lookup("GraphicsPlatform")
	if ifaceObj == nil {
		r.Undecided("evaluator.GraphicsPlatform not found")
		return
	}
	iface := ifaceObj.Type().Underlying().(*types.Interface)
	gpObj := pkg.Types.Scope().Lookup("GraphicsPlatform")
	if gpObj == nil {
		r.Undecided("svg.GraphicsPlatform not found")
		return
	}
	method := func(name string) (*FuncDecl, *ssa.Function) {
		fd := FindFunc(pkg, "(*GraphicsPlatform)."+name)
		if fd == nil {
			return nil, nil
		}
		return fd, p.SSAFunc(fd.Obj)
	}
	_, pushFn := method("Push")
	if pushFn == nil {
		r.Undecided("(*GraphicsPlatform).Push not found")
		return
	}
	var drawing, styling []string
	// R-COORD
	for i := 0; i < iface.NumMethods(); i++ {
		m := iface.Method(i)
		fd, sf := method(m.Name())
		if sf == nil {
			r.Viol("svg."+m.Name()+"#implemented", "pkg/cli/svg/runtime.go", "GraphicsPlatform method "+m.Name()+" is not implemented by the SVG platform")
			continue
		}
		sig := m.Type().(*types.Signature)
		for j := 0; j < sig.Params().Len(); j++ {
			prm := sig.Params().At(j)
			role := svgKnownRole[prm.Name()]
			if b, ok := prm.Type().Underlying().(*types.Basic); !ok || b.Info()&types.IsFloat == 0 {
				role = ""
				if prm.Name() == "vertices" {
					role = "V"
				}
				if prm.Name() == "segments" {
					role = "S"
				}
			}
			if role == "" {
				continue
			}
			if j+1 >= len(sf.Params) {
				continue
			}
			sp := sf.Params[j+1]
			construct := fmt.Sprintf("svg.%s#coord:%s", m.Name(), prm.Name())
			bad := coordUses(sp, role)
			r.Check(bad == "", construct, p.Rel(fd.Decl.Pos()), map[string]string{"X": "x position goes through transformX", "Y": "y position goes through transformY (axis flipped)", "L": "length goes through scale", "V": "vertex x through transformX, y through transformY", "S": "dash lengths go through scale"}[role], bad)
		}
		// classify
		writesStyle, appends := svgEffects(sf)
		if writesStyle {
			styling = append(styling, m.Name())
		}
		if appends > 0 {
			drawing = append(drawing, m.Name())
		}
	}
	sort.Strings(drawing)
	sort.Strings(styling)
	if len(drawing) < 5 || len(styling) < 5 {
		r.Undecided("expected at least 5 drawing and 5 style methods, found %v / %v", drawing, styling)
	}
	// R-XYSYM on composite literals and paired assignments
	for _, name := range drawing {
		fd, _ := method(name)
		xySymmetry(p, pkg, fd, r)
	}
	if fd, _ := method("Move"); fd != nil {
		xySymmetry(p, pkg, fd, r)
	}
	// R-PUSHFIRST + unconditional set
	for _, name := range styling {
		fd, sf := method(name)
		var pushCall ssa.Instruction
		for _, ci := range callsTo(sf, pushFn) {
			if pushCall == nil {
				pushCall = ci
			}
		}
		stores := styleStores(sf)
		okPush := pushCall != nil
		for _, st := range stores {
			if pushCall == nil || !instrDominates(pushCall, st) {
				okPush = false
			}
		}
		r.Check(okPush, "svg."+name+"#push-first", p.Rel(fd.Decl.Pos()), "pending shapes are flushed with the old pen before the pen changes", name+" changes the pen style without calling rt.Push() first: shapes drawn before the change would be emitted with the new style")
		// unconditional: for setters without map parameter, every return path passes a store of each field written
		if name != "Font" {
			byField := map[string][]*ssa.BasicBlock{}
			for _, st := range stores {
				byField[styleFieldOf(st)] = append(byField[styleFieldOf(st)], st.Block())
			}
			fields := []string{}
			for f := range byField {
				fields = append(fields, f)
			}
			sort.Strings(fields)
			for _, f := range fields {
				r.Check(!anyReturnPathAvoiding(sf.Blocks[0], byField[f]), "svg."+name+"#sets:"+f, p.Rel(fd.Decl.Pos()), "the attribute is set on every path", name+" can return without setting "+f+": the command would be ignored for some pen states")
			}
		}
	}
	if fd, sf := method("WriteSVG"); sf != nil {
		var pushCall, encode ssa.Instruction
		var writerUses []string
		w := sf.Params[1]
		for _, b := range sf.Blocks {
			for _, ins := range b.Instrs {
				call, ok := ins.(*ssa.Call)
				if !ok {
					continue
				}
				if call.Call.StaticCallee() == pushFn {
					pushCall = call
				}
				if sc := call.Call.StaticCallee(); sc != nil && pkgFuncName(sc) == "encoding/xml.Encoder.Encode" {
					encode = call
				}
				for _, a := range call.Call.Args {
					if a == ssa.Value(w) {
						writerUses = append(writerUses, pkgFuncName(call.Call.StaticCallee()))
					}
				}
			}
		}
		r.Check(pushCall != nil && encode != nil && instrDominates(pushCall, encode), "svg.WriteSVG#push-before-encode", p.Rel(fd.Decl.Pos()), "pending shapes are flushed before the document is encoded", "WriteSVG must call rt.Push() before encoding: the last shapes would be missing from the output")
		sort.Strings(writerUses)
		okW := true
		for _, u := range writerUses {
			if u != "encoding/xml.NewEncoder" && u != "fmt.Fprintln" {
				okW = false
			}
		}
		r.Check(okW && len(writerUses) >= 1, "svg.WriteSVG#xml-only", p.Rel(fd.Decl.Pos()), "bytes reach the writer only through the XML encoder (plus the final newline)", fmt.Sprintf("WriteSVG hands the writer to %v: only xml.NewEncoder and one fmt.Fprintln may write (escaping and well-formedness are the encoder's)", writerUses))
	} else {
		r.Undecided("(*GraphicsPlatform).WriteSVG not found")
	}
	// no raw XML fields
	xmlTag := regexp.MustCompile(`xml:"([^"]*)"`)
	scope := pkg.Types.Scope()
	for _, tn := range scope.Names() {
		named, ok := scope.Lookup(tn).Type().(*types.Named)
		if !ok {
			continue
		}
		st, ok := named.Underlying().(*types.Struct)
		if !ok {
			continue
		}
		for i := 0; i < st.NumFields(); i++ {
			tag := reflect.StructTag(st.Tag(i))
			_ = tag
			m := xmlTag.FindStringSubmatch(st.Tag(i))
			if m == nil {
				continue
			}
			raw := strings.Contains(m[1], "innerxml")
			if b, ok := st.Field(i).Type().Underlying().(*types.Basic); ok && b.Info()&types.IsString != 0 {
				r.Check(!raw, fmt.Sprintf("svg.%s.%s#xml-tag", tn, st.Field(i).Name()), p.Rel(st.Field(i).Pos()), "string field is escaped by the encoder", "field "+tn+"."+st.Field(i).Name()+" is emitted as raw inner XML: user text is written unescaped and can make the document malformed")
			}
		}
	}
	// R-APPENDONCE
	for _, name := range drawing {
		fd, sf := method(name)
		var blocks []*ssa.BasicBlock
		cnt := 0
		for _, b := range sf.Blocks {
			for _, ins := range b.Instrs {
				if st, ok := ins.(*ssa.Store); ok && isElementsAppend(st) {
					cnt++
					blocks = append(blocks, b)
				}
			}
		}
		okA := cnt == 1 && !anyReturnPathAvoiding(sf.Blocks[0], blocks) && !inCycle(blocks[0])
		r.Check(okA, "svg."+name+"#append-once", p.Rel(fd.Decl.Pos()), "exactly one shape is queued on every path", fmt.Sprintf("%s must append exactly one element to rt.elements on every path (found %d append site(s), or a path that skips it / repeats it)", name, cnt))
	}
	// R-ATTROWN
	ownTypes := map[string]bool{}
	for _, fd := range Funcs(pkg) {
		ast.Inspect(fd.Decl.Body, func(n ast.Node) bool {
			cl, ok := n.(*ast.CompositeLit)
			if !ok {
				return true
			}
			named := namedOf(pkg.TypesInfo.TypeOf(cl))
			if named == nil || named.Obj().Pkg() != pkg.Types {
				return true
			}
			for _, el := range cl.Elts {
				if kvp, ok := el.(*ast.KeyValueExpr); ok {
					if k, ok := kvp.Key.(*ast.Ident); ok && k.Name == "Attr" && named.Obj().Name() != "SVG" {
						ownTypes[named.Obj().Name()] = true
					}
				}
			}
			return true
		})
	}
	if len(ownTypes) > 0 {
		// functions reachable from Push (static, in package)
		reach := map[*ssa.Function]bool{}
		var visit func(fn *ssa.Function)
		visit = func(fn *ssa.Function) {
			if reach[fn] {
				return
			}
			reach[fn] = true
			for _, b := range fn.Blocks {
				for _, ins := range b.Instrs {
					if ci, ok := ins.(ssa.CallInstruction); ok {
						if sc := ci.Common().StaticCallee(); sc != nil && sc.Pkg != nil && sc.Pkg.Pkg == pkg.Types && sc.Name() != "setAttr" {
							visit(sc)
						}
					}
				}
			}
		}
		visit(pushFn)
		names := []string{}
		for t := range ownTypes {
			names = append(names, t)
		}
		sort.Strings(names)
		for _, t := range names {
			reads := false
			for fn := range reach {
				for _, b := range fn.Blocks {
					for _, ins := range b.Instrs {
						if fa, ok := ins.(*ssa.FieldAddr); ok {
							if named, name := fieldAddrInfo(fa); named != nil && named.Obj().Name() == t && name == "Attr" {
								for _, ref := range *fa.Referrers() {
									if _, isLoad := ref.(*ssa.UnOp); isLoad {
										reads = true
									}
								}
							}
						}
					}
				}
			}
			r.Check(reads, "svg.Push#own-attr:"+t, p.Rel(pushFn.Pos()), "Push looks at the element's own attributes before it applies the pen style", "elements of type "+t+" are created with attributes of their own (e.g. the colour of clear / gridn), but Push never reads "+t+".Attr before calling setAttr: a pending pen style overwrites them")
		}
	}
	// the pending list: once Push has handed it to a group of the document, the platform starts a new one. Every
	// store to rt.elements is nil, or an append onto the current list; a reslice (`rt.elements[:0]`) keeps the
	// backing array the group already holds, so the next shape overwrites an element of the finished group.
	ne := 0
	for _, fn := range ssaFuncsOf(p, pkg) {
		k := 0
		for _, b := range fn.Blocks {
			for _, ins := range b.Instrs {
				st, ok := ins.(*ssa.Store)
				if !ok {
					continue
				}
				fa, ok := st.Addr.(*ssa.FieldAddr)
				if !ok {
					continue
				}
				owner, fname := fieldAddrInfo(fa)
				if owner == nil || owner.Obj().Name() != "GraphicsPlatform" || fname != "elements" {
					continue
				}
				ne++
				k++
				good, what := false, ""
				switch v := st.Val.(type) {
				case *ssa.Const:
					good = v.IsNil()
				case *ssa.Call:
					if bi, ok := v.Call.Value.(*ssa.Builtin); ok && bi.Name() == "append" && len(v.Call.Args) == 2 {
						if ld, ok := v.Call.Args[0].(*ssa.UnOp); ok {
							if fa2, ok := ld.X.(*ssa.FieldAddr); ok && fa2.Field == fa.Field && (fa2.X == fa.X || sameValueExpr(fa2.X, fa.X, 4)) {
								good = true
							}
						}
						what = "an append onto something other than the pending list itself"
					}
				case *ssa.Slice:
					what = "a reslice, which keeps the backing array"
				case *ssa.MakeSlice:
					good = true
				}
				if what == "" {
					what = "`" + st.Val.String() + "`"
				}
				r.Check(good, fmt.Sprintf("svg.%s#pending-list[%d]", strings.TrimPrefix(ssaDisplayName(fn), "(*GraphicsPlatform)."), k), p.Rel(instrPos(st)),
					"the pending list is reset to nil or extended by one shape", "the pending list of shapes is assigned "+what+": a list that Push has handed to a group of the document must not be reused — "+
						"with `rt.elements[:0]` the next shape overwrites an element of the finished group (the background of clear or a grid disappears and the next shape is drawn twice)")
			}
		}
	}
	if ne < 5 {
		r.Undecided("expected the drawing methods and Push to assign rt.elements (found %d stores)", ne)
	}
	// the background rectangle of clear always carries a colour of its own: what is stored into its Fill and Stroke
	// is a non-empty constant or the parameter on the edge where it was found non-empty. A rectangle without own
	// attributes is not protected from the pen in Push and is drawn black (or in the pen's colour).
	if fd, sf := method("Clear"); sf != nil && len(sf.Params) == 2 {
		prm := sf.Params[1]
		var nonEmpty func(v ssa.Value, via *ssa.BasicBlock, to *ssa.BasicBlock, depth int) bool
		nonEmpty = func(v ssa.Value, via, to *ssa.BasicBlock, depth int) bool {
			if depth > 4 {
				return false
			}
			switch x := v.(type) {
			case *ssa.Const:
				return x.Value != nil && x.Value.Kind() == constant.String && constant.StringVal(x.Value) != ""
			case *ssa.Parameter:
				if x != prm {
					return false
				}
				// on the edge via→to the parameter was compared with "" and found different, or a dominator did so
				check := func(b *ssa.BasicBlock, target *ssa.BasicBlock) bool {
					if b == nil || len(b.Instrs) == 0 {
						return false
					}
					ifi, ok := b.Instrs[len(b.Instrs)-1].(*ssa.If)
					if !ok {
						return false
					}
					bo, ok := ifi.Cond.(*ssa.BinOp)
					if !ok || (bo.Op != token.EQL && bo.Op != token.NEQ) || bo.X != ssa.Value(prm) {
						return false
					}
					k, ok := bo.Y.(*ssa.Const)
					if !ok || k.Value == nil || k.Value.Kind() != constant.String || constant.StringVal(k.Value) != "" {
						return false
					}
					edge := 1
					if bo.Op == token.NEQ {
						edge = 0
					}
					return b.Succs[edge] == target
				}
				if check(via, to) {
					return true
				}
				for d := via; d != nil; d = d.Idom() {
					if id := d.Idom(); id != nil && check(id, d) && len(d.Preds) == 1 {
						return true
					}
				}
				return false
			case *ssa.Phi:
				for i, e := range x.Edges {
					if !nonEmpty(e, x.Block().Preds[i], x.Block(), depth+1) {
						return false
					}
				}
				return len(x.Edges) > 0
			}
			return false
		}
		nc := 0
		for _, b := range sf.Blocks {
			for _, ins := range b.Instrs {
				st, ok := ins.(*ssa.Store)
				if !ok {
					continue
				}
				fa, ok := st.Addr.(*ssa.FieldAddr)
				if !ok {
					continue
				}
				owner, fname := fieldAddrInfo(fa)
				if owner == nil || owner.Obj().Name() != "Attr" || (fname != "Fill" && fname != "Stroke") {
					continue
				}
				nc++
				r.Check(nonEmpty(st.Val, b, b, 0), "svg.Clear#own-colour:"+fname, p.Rel(instrPos(st)), "the background rectangle always gets a colour of its own",
					"the "+fname+" of clear's background rectangle can be the empty string (the parameter is stored without the `== \"\"` default): a rectangle without attributes of its own is not shielded from the pen in Push, so `clear \"\"` paints the canvas black or in the pen's colour")
			}
		}
		if nc == 0 {
			r.Viol("svg.Clear#own-colour", p.Rel(fd.Decl.Pos()), "Clear gives its background rectangle no colour of its own")
		}
	}
	// Push decides whether the pending shapes need attributes by looking at the whole pen: either the pen is
	// compared with the default as a struct, or every field of Attr is read by the deciding helper. A field that
	// is left out (the dash pattern, say) is silently dropped for a pen that differs from the default only there.
	{
		attrT, _ := pkg.Types.Scope().Lookup("Attr").(*types.TypeName)
		if attrT == nil {
			r.Undecided("type Attr not found")
		} else {
			attrStruct := attrT.Type().Underlying().(*types.Struct)
			all := map[string]bool{}
			for i := 0; i < attrStruct.NumFields(); i++ {
				all[attrStruct.Field(i).Name()] = true
			}
			var fieldsRead func(fn *ssa.Function, depth int, seen map[*ssa.Function]bool) (map[string]bool, bool)
			fieldsRead = func(fn *ssa.Function, depth int, seen map[*ssa.Function]bool) (map[string]bool, bool) {
				out := map[string]bool{}
				whole := false
				if fn == nil || seen[fn] || depth > 2 {
					return out, false
				}
				seen[fn] = true
				for _, b := range fn.Blocks {
					for _, ins := range b.Instrs {
						switch x := ins.(type) {
						case *ssa.BinOp:
							if (x.Op == token.EQL || x.Op == token.NEQ) && types.Identical(x.X.Type(), attrT.Type()) {
								whole = true
							}
						case *ssa.FieldAddr:
							if o, f := fieldAddrInfo(x); o != nil && o.Obj() == attrT {
								out[f] = true
							}
						case *ssa.Field:
							if o, f := fieldValInfo(x); o != nil && o.Obj() == attrT {
								out[f] = true
							}
						}
					}
				}
				return out, whole
			}
			// Push and the bool-valued helpers it calls on the platform: the pen is compared as a whole, or every field is read
			isPen := func(v ssa.Value) bool { // rt.attr (address or loaded value)
				if u, ok := v.(*ssa.UnOp); ok {
					v = u.X
				}
				fa, ok := v.(*ssa.FieldAddr)
				if !ok {
					return false
				}
				o, f := fieldAddrInfo(fa)
				return o != nil && o.Obj().Name() == "GraphicsPlatform" && f == "attr"
			}
			whole := false
			got := map[string]bool{}
			var scan func(fn *ssa.Function, depth int, seen map[*ssa.Function]bool)
			scan = func(fn *ssa.Function, depth int, seen map[*ssa.Function]bool) {
				if fn == nil || seen[fn] || depth > 2 {
					return
				}
				seen[fn] = true
				for _, b := range fn.Blocks {
					for _, ins := range b.Instrs {
						switch x := ins.(type) {
						case *ssa.BinOp:
							if (x.Op == token.EQL || x.Op == token.NEQ) && (isPen(x.X) || isPen(x.Y)) {
								whole = true
							}
						case *ssa.FieldAddr:
							if o, f := fieldAddrInfo(x); o != nil && o.Obj() == attrT && isPen(x.X) {
								got[f] = true
							}
						case *ssa.Field:
							if o, f := fieldValInfo(x); o != nil && o.Obj() == attrT && isPen(x.X) {
								got[f] = true
							}
						case *ssa.Call:
							sc := x.Call.StaticCallee()
							if sc == nil || sc.Signature.Recv() == nil || sc.Signature.Results().Len() != 1 {
								continue
							}
							if bt, ok := sc.Signature.Results().At(0).Type().Underlying().(*types.Basic); ok && bt.Kind() == types.Bool {
								if rn := namedOf(sc.Signature.Recv().Type()); rn != nil && rn.Obj().Name() == "GraphicsPlatform" {
									scan(sc, depth+1, seen)
								}
							}
						}
					}
				}
			}
			// only the decision that guards setAttr counts: the tests in the chain of blocks that lead to the call
			whole, got = false, map[string]bool{}
			var setBlock *ssa.BasicBlock
			for _, b := range pushFn.Blocks {
				for _, ins := range b.Instrs {
					if ci, ok := ins.(ssa.CallInstruction); ok && ci.Common().IsInvoke() && ci.Common().Method.Name() == "setAttr" {
						setBlock = b
					}
				}
			}
			if setBlock == nil {
				r.Undecided("Push does not call setAttr")
			} else {
				penCopy := func(v ssa.Value) bool { // a local copy of the pen: a := rt.attr
					a, ok := v.(*ssa.Alloc)
					if !ok {
						return false
					}
					for _, ref := range *a.Referrers() {
						if st, ok := ref.(*ssa.Store); ok && st.Addr == ssa.Value(a) && isPen(st.Val) {
							return true
						}
					}
					return false
				}
				var condFields func(v ssa.Value, depth int)
				condFields = func(v ssa.Value, depth int) {
					if depth > 6 || v == nil {
						return
					}
					switch x := v.(type) {
					case *ssa.BinOp:
						if (x.Op == token.EQL || x.Op == token.NEQ) && (isPen(x.X) || isPen(x.Y)) {
							whole = true
						}
						condFields(x.X, depth+1)
						condFields(x.Y, depth+1)
					case *ssa.UnOp:
						condFields(x.X, depth+1)
					case *ssa.FieldAddr:
						if o, f := fieldAddrInfo(x); o != nil && o.Obj() == attrT && (isPen(x.X) || penCopy(x.X)) {
							got[f] = true
						}
						condFields(x.X, depth+1)
					case *ssa.Field:
						if o, f := fieldValInfo(x); o != nil && o.Obj() == attrT && isPen(x.X) {
							got[f] = true
						}
					case *ssa.Phi:
						for _, e := range x.Edges {
							condFields(e, depth+1)
						}
						// the blocks that feed the phi are part of the same condition
					case *ssa.Call:
						if sc := x.Call.StaticCallee(); sc != nil && sc.Signature.Recv() != nil {
							if rn := namedOf(sc.Signature.Recv().Type()); rn != nil && rn.Obj().Name() == "GraphicsPlatform" {
								for _, b2 := range sc.Blocks {
									for _, i2 := range b2.Instrs {
										if vv, ok := i2.(ssa.Value); ok {
											switch vv.(type) {
											case *ssa.BinOp, *ssa.FieldAddr, *ssa.Field:
												condFields(vv, depth+1)
											}
										}
									}
								}
							}
						}
					}
				}
				seenB := map[*ssa.BasicBlock]bool{}
				var back func(b *ssa.BasicBlock, depth int)
				back = func(b *ssa.BasicBlock, depth int) {
					if seenB[b] || depth > 8 {
						return
					}
					seenB[b] = true
					for _, pb := range b.Preds {
						if len(pb.Instrs) == 0 {
							continue
						}
						ifi, ok := pb.Instrs[len(pb.Instrs)-1].(*ssa.If)
						if !ok {
							continue
						}
						condFields(ifi.Cond, 0)
						// a test block that only computes its condition continues the chain
						pure := true
						for _, i2 := range pb.Instrs {
							if c2, ok := i2.(*ssa.Call); ok && c2.Call.StaticCallee() == nil {
								pure = false
							}
							if _, ok := i2.(*ssa.Store); ok {
								pure = false
							}
						}
						if pure && len(pb.Preds) == 1 {
							back(pb, depth+1)
						}
					}
				}
				back(setBlock, 0)
			}
			missing := ""
			covered := whole
			if !whole {
				covered = len(got) > 0
				var fs []string
				for f := range all {
					fs = append(fs, f)
				}
				sort.Strings(fs)
				for _, f := range fs {
					if !got[f] {
						covered = false
						missing = f
					}
				}
			}
			_ = fieldsRead
			r.Check(covered, "svg.Push#styled-test-covers-the-pen", p.Rel(pushFn.Pos()), "whether the shapes need attributes is decided on the whole pen",
				"Push decides whether the pending shapes get the pen's attributes without looking at the pen's "+missing+": a pen that differs from the default only there (`dash 5 3` then a line) is written without it")
		}
	}
	// sibling agreement with the browser runtime: every canvas style property that the JavaScript gridn overrides
	// while it draws (and restores afterwards) is a pen attribute the grid must not inherit; the SVG Gridn has to
	// set the matching attribute on the grid's own group (conditionally is fine: the default pen needs no override).
	if js, err := os.ReadFile(filepath.Join(c.Repo, "frontend", "play", "index.js")); err != nil {
		r.Note("frontend/play/index.js not readable: sibling clause for gridn skipped (%v)", err)
	} else if body := jsFunctionBody(string(js), "gridn"); body == "" {
		r.Undecided("function gridn not found in frontend/play/index.js")
	} else if fd, sf := method("Gridn"); sf != nil {
		jsProps := map[string]string{"strokeStyle": "Stroke", "lineWidth": "StrokeWidth", "setLineDash": "StrokeDashArray", "fillStyle": "Fill", "lineCap": "StrokeLinecap"}
		set := map[string]bool{}
		for _, b := range sf.Blocks {
			for _, ins := range b.Instrs {
				st, ok := ins.(*ssa.Store)
				if !ok {
					continue
				}
				fa, ok := st.Addr.(*ssa.FieldAddr)
				if !ok {
					continue
				}
				if owner, fname := fieldAddrInfo(fa); owner != nil && owner.Obj().Name() == "Attr" {
					// the Attr of the group (not of a line)
					if outer, ok := fa.X.(*ssa.FieldAddr); ok {
						if o2, _ := fieldAddrInfo(outer); o2 != nil && o2.Obj().Name() == "Group" {
							set[fname] = true
						}
					}
				}
			}
		}
		var props []string
		for js := range jsProps {
			props = append(props, js)
		}
		sort.Strings(props)
		nsib := 0
		for _, jp := range props {
			if !regexp.MustCompile(`ctx\.` + jp + `\s*(=|\()`).MatchString(body) {
				continue
			}
			nsib++
			attr := jsProps[jp]
			r.Check(set[attr], "svg.Gridn#sibling-style:"+attr, p.Rel(fd.Decl.Pos()), "the grid's own group sets "+attr+", as the browser runtime overrides ctx."+jp+" while drawing the grid",
				"the browser runtime's gridn overrides ctx."+jp+" while it draws the grid, but the SVG Gridn never sets "+attr+" on the grid's group: pushed under a pen with that attribute changed, the grid inherits it (`width 3; dash 2 2; gridn 50 \"red\"` draws thick dashed grid lines in the SVG only)")
		}
		if nsib == 0 {
			r.Undecided("frontend/play/index.js: gridn overrides no canvas style property (sibling clause found nothing to compare)")
		}
	}
	// R-DEADSTORE on style fields
	for _, name := range styling {
		fd, sf := method(name)
		stores := styleStores(sf)
		dead := map[string]ssa.Instruction{}
		for _, s1 := range stores {
			for _, s2 := range stores {
				if s1 == s2 || styleFieldOf(s1) != styleFieldOf(s2) {
					continue
				}
				if !(instrDominatesOrReaches(s1, s2)) || s1.Block() == s2.Block() && !instrDominates(s1, s2) {
					continue
				}
				if s1.Block() != s2.Block() && (anyReturnPathAvoiding(s1.Block(), []*ssa.BasicBlock{s2.Block()}) || reachesBlock(s2.Block(), s1.Block())) {
					continue
				}
				if _, ok := dead[styleFieldOf(s1)]; !ok {
					dead[styleFieldOf(s1)] = s1
				}
			}
		}
		fields := []string{}
		for f := range dead {
			fields = append(fields, f)
		}
		sort.Strings(fields)
		for _, f := range fields {
			r.Viol(fmt.Sprintf("svg.%s#dead-store:%s", name, f), p.Rel(instrPos(dead[f])), "a value stored to "+f+" is overwritten on every path before it can be read: the mapping computed there (e.g. baseline top → hanging) never takes effect")
		}
		if len(fields) == 0 && len(stores) > 1 {
			r.Ok("svg."+name+"#dead-store", p.Rel(fd.Decl.Pos()), "no style value is overwritten before it is read")
		}
	}
	// R-LOOPSTEP
	loopStep(c, p, pkg, evalPkg, r)
}

// coordUses checks every use of a float parameter against its role; returns "" or the complaint.
func coordUses(prm *ssa.Parameter, role string) string {
	refs := prm.Referrers()
	if refs == nil {
		return ""
	}
	want := map[string][]string{"X": {"transformX"}, "Y": {"transformY"}, "L": {"scale", "transformX"}}
	check := func(v ssa.Value, role string) string {
		rf := v.Referrers()
		if rf == nil {
			return ""
		}
		for _, ref := range *rf {
			switch x := ref.(type) {
			case *ssa.DebugRef:
				continue
			case *ssa.Call:
				sc := x.Call.StaticCallee()
				name := ""
				if sc != nil {
					name = sc.Name()
				}
				ok := false
				for _, w := range want[role] {
					if name == w {
						ok = true
					}
				}
				if !ok {
					return fmt.Sprintf("%s (role %s) is passed to %s; expected %v — the shape would be placed without the scale/axis flip that every other shape gets", v.Name(), map[string]string{"X": "x position", "Y": "y position", "L": "length"}[role], name, want[role])
				}
			case *ssa.BinOp:
				// comparisons are fine; arithmetic on an untransformed coordinate is not
				switch x.Op.String() {
				case "==", "!=", "<", "<=", ">", ">=":
				default:
					return fmt.Sprintf("%s is used in arithmetic (%s) before being transformed", v.Name(), x.String())
				}
			case *ssa.Store, *ssa.MakeInterface, *ssa.Phi, *ssa.Convert:
				return fmt.Sprintf("%s is used untransformed (%s)", v.Name(), x.String())
			}
		}
		return ""
	}
	switch role {
	case "X", "Y", "L":
		return check(prm, role)
	case "V":
		// vertices [][]float64: element v; v[0] → X, v[1] → Y
		var bad string
		forEachElementIndex(prm, func(idx int64, val ssa.Value) {
			r := "X"
			if idx == 1 {
				r = "Y"
			}
			if idx > 1 {
				return
			}
			if b := check(val, r); b != "" && bad == "" {
				bad = fmt.Sprintf("vertex[%d]: %s", idx, b)
			}
		})
		return bad
	case "S":
		// segments []float64: every element through scale
		var bad string
		for _, ref := range *refs {
			if ia, ok := ref.(*ssa.IndexAddr); ok {
				for _, r2 := range *ia.Referrers() {
					if u, ok := r2.(*ssa.UnOp); ok {
						if b := check(u, "L"); b != "" && bad == "" {
							bad = b
						}
					}
				}
			}
		}
		return bad
	}
	return ""
}

// forEachElementIndex: for v [][]float64, visit loads inner[const] of every element of v.
func forEachElementIndex(v ssa.Value, f func(idx int64, val ssa.Value)) {
	refs := v.Referrers()
	if refs == nil {
		return
	}
	for _, ref := range *refs {
		ia, ok := ref.(*ssa.IndexAddr)
		if !ok {
			continue
		}
		for _, r2 := range *ia.Referrers() {
			inner, ok := r2.(*ssa.UnOp) // the vertex slice
			if !ok {
				continue
			}
			for _, r3 := range *inner.Referrers() {
				ia2, ok := r3.(*ssa.IndexAddr)
				if !ok {
					continue
				}
				k, ok := ia2.Index.(*ssa.Const)
				if !ok || k.Value == nil {
					continue
				}
				for _, r4 := range *ia2.Referrers() {
					if u, ok := r4.(*ssa.UnOp); ok {
						f(k.Int64(), u)
					}
				}
			}
		}
	}
}

func styleFieldOf(st *ssa.Store) string {
	fa, ok := st.Addr.(*ssa.FieldAddr)
	if !ok {
		return ""
	}
	_, name := fieldAddrInfo(fa)
	if fa2, ok := fa.X.(*ssa.FieldAddr); ok {
		_, outer := fieldAddrInfo(fa2)
		return outer + "." + name
	}
	return name
}

// styleStores: stores to rt.attr.* / rt.textAttr.*
func styleStores(fn *ssa.Function) []*ssa.Store {
	var out []*ssa.Store
	for _, b := range fn.Blocks {
		for _, ins := range b.Instrs {
			st, ok := ins.(*ssa.Store)
			if !ok {
				continue
			}
			f := styleFieldOf(st)
			if strings.HasPrefix(f, "attr.") || strings.HasPrefix(f, "textAttr.") {
				out = append(out, st)
			}
		}
	}
	return out
}

func isElementsAppend(st *ssa.Store) bool {
	fa, ok := st.Addr.(*ssa.FieldAddr)
	if !ok {
		return false
	}
	named, name := fieldAddrInfo(fa)
	if named == nil || named.Obj().Name() != "GraphicsPlatform" || name != "elements" {
		return false
	}
	return growsFromOld(st.Val)
}

func svgEffects(fn *ssa.Function) (bool, int) {
	appends := 0
	for _, b := range fn.Blocks {
		for _, ins := range b.Instrs {
			if st, ok := ins.(*ssa.Store); ok && isElementsAppend(st) {
				appends++
			}
		}
	}
	return len(styleStores(fn)) > 0, appends
}

// xySymmetry: paired fields of element literals and paired local assignments are isomorphic under x→y renaming.
func xySymmetry(p *Program, pkg *packages.Package, fd *FuncDecl, r *Reporter) {
	rename := func(s string) string {
		repl := strings.NewReplacer("transformX", "transformY", "radiusX", "radiusY", "width", "height", "Width", "Height", "[0]", "[1]")
		s = repl.Replace(s)
		// identifiers x / X at word boundaries
		re := regexp.MustCompile(`\bx\b`)
		s = re.ReplaceAllString(s, "y")
		re2 := regexp.MustCompile(`\bX(\d?)\b`)
		s = re2.ReplaceAllString(s, "Y$1")
		s = strings.ReplaceAll(s, "rt.x", "rt.y")
		return s
	}
	pairs := [][2]string{{"X", "Y"}, {"X1", "Y1"}, {"X2", "Y2"}, {"CX", "CY"}, {"RX", "RY"}, {"Width", "Height"}}
	n := 0
	// only methods that place something relative to a position: they read the cursor or take x/y/dx/dy/vertices
	positional := false
	ast.Inspect(fd.Decl, func(node ast.Node) bool {
		switch x := node.(type) {
		case *ast.SelectorExpr:
			if id, ok := x.X.(*ast.Ident); ok && id.Name == "rt" && (x.Sel.Name == "x" || x.Sel.Name == "y") {
				positional = true
			}
		case *ast.Field:
			for _, nm := range x.Names {
				switch nm.Name {
				case "x", "y", "dx", "dy", "vertices":
					positional = true
				}
			}
		}
		return true
	})
	if !positional {
		return
	}
	ast.Inspect(fd.Decl.Body, func(node ast.Node) bool {
		switch x := node.(type) {
		case *ast.CompositeLit:
			fields := map[string]ast.Expr{}
			for _, el := range x.Elts {
				if kvp, ok := el.(*ast.KeyValueExpr); ok {
					if k, ok := kvp.Key.(*ast.Ident); ok {
						fields[k.Name] = kvp.Value
					}
				}
			}
			for _, pr := range pairs {
				a, b := fields[pr[0]], fields[pr[1]]
				if a == nil || b == nil {
					continue
				}
				if !mentionsAxis(types.ExprString(a)) && !mentionsAxis(types.ExprString(b)) {
					continue // neither side depends on a coordinate (e.g. the fixed grid lines)
				}
				n++
				sa, sb := rename(types.ExprString(a)), types.ExprString(b)
				r.Check(sa == sb, fmt.Sprintf("svg.%s#xy-symmetry:%s/%s[%d]", strings.TrimPrefix(fd.Name(), "(*GraphicsPlatform)."), pr[0], pr[1], n), p.Rel(x.Pos()),
					pr[0]+" and "+pr[1]+" are computed the same way", fmt.Sprintf("%s is `%s` but %s is `%s`: the two axes are treated differently (after renaming x→y the expressions should coincide)", pr[0], types.ExprString(a), pr[1], types.ExprString(b)))
			}
		case *ast.BlockStmt:
			// consecutive assignments  x = E(x) ; y = E'(y)
			for i := 0; i+1 < len(x.List); i++ {
				a1, ok1 := x.List[i].(*ast.AssignStmt)
				a2, ok2 := x.List[i+1].(*ast.AssignStmt)
				if !ok1 || !ok2 || len(a1.Lhs) != 1 || len(a2.Lhs) != 1 || len(a1.Rhs) != 1 || len(a2.Rhs) != 1 {
					continue
				}
				l1, l2 := types.ExprString(a1.Lhs[0]), types.ExprString(a2.Lhs[0])
				if rename(l1) != l2 || l1 == l2 {
					continue
				}
				n++
				sa, sb := rename(types.ExprString(a1.Rhs[0])), types.ExprString(a2.Rhs[0])
				// a deliberate sign flip of the y extent is allowed: height = -scale(height)
				sb = strings.TrimPrefix(sb, "-")
				r.Check(sa == sb, fmt.Sprintf("svg.%s#xy-symmetry:%s/%s[%d]", strings.TrimPrefix(fd.Name(), "(*GraphicsPlatform)."), l1, l2, n), p.Rel(a1.Pos()),
					l1+" and "+l2+" are computed the same way", fmt.Sprintf("%s = `%s` but %s = `%s`: the two axes are treated differently", l1, types.ExprString(a1.Rhs[0]), l2, types.ExprString(a2.Rhs[0])))
			}
		}
		return true
	})
}

// loopStep: a float loop step that comes from a platform parameter is validated > 0 (NaN-safely) by every built-in that forwards to it.
func loopStep(c *Ctx, p *Program, pkg, evalPkg *packages.Package, r *Reporter) {
	// platform methods with a loop `i += param-derived`
	type stepParam struct {
		method string
		idx    int
	}
	var steps []stepParam
	for _, fd := range Funcs(pkg) {
		sf := p.SSAFunc(fd.Obj)
		if sf == nil || sf.Signature.Recv() == nil {
			continue
		}
		for _, b := range sf.Blocks {
			for _, ins := range b.Instrs {
				phi, ok := ins.(*ssa.Phi)
				if !ok || !isFloat(phi.Type()) {
					continue
				}
				for _, e := range phi.Edges {
					bo, ok := e.(*ssa.BinOp)
					if !ok || bo.Op.String() != "+" || bo.X != ssa.Value(phi) {
						continue
					}
					if _, isConst := bo.Y.(*ssa.Const); isConst {
						continue
					}
					for i, prm := range sf.Params {
						if i == 0 {
							continue
						}
						if derivesFromParam(bo.Y, prm, 4) {
							steps = append(steps, stepParam{sf.Name(), i - 1})
						}
					}
				}
			}
		}
	}
	if len(steps) == 0 {
		r.Ok("svg#loop-step", "pkg/cli/svg/runtime.go", "no platform loop advances by a user-supplied step")
		return
	}
	table, why := loadBuiltinTable(evalPkg)
	if table == nil {
		r.Undecided("%s", why)
		return
	}
	nb := FindFunc(evalPkg, "newBuiltins")
	for _, sp := range steps {
		// entries whose factory argument is rt.<method>
		found := 0
		ast.Inspect(nb.Decl.Body, func(n ast.Node) bool {
			kvp, ok := n.(*ast.KeyValueExpr)
			if !ok {
				return true
			}
			name, ok := constString(evalPkg.TypesInfo, kvp.Key)
			if !ok {
				return true
			}
			var factory *ast.CallExpr
			ast.Inspect(kvp.Value, func(m ast.Node) bool {
				if call, ok := m.(*ast.CallExpr); ok && len(call.Args) == 1 {
					if sel, ok := call.Args[0].(*ast.SelectorExpr); ok && sel.Sel.Name == sp.method {
						factory = call
					}
				}
				return true
			})
			if factory == nil {
				return true
			}
			found++
			id, _ := factory.Fun.(*ast.Ident)
			construct := fmt.Sprintf("builtin:%s→svg.%s#step>0", name, sp.method)
			fd := FindFunc(evalPkg, id.Name)
			if fd == nil {
				r.Viol(construct, p.Rel(kvp.Pos()), "cannot resolve the built-in forwarding to "+sp.method)
				return true
			}
			sf := p.SSAFunc(fd.Obj)
			okStep := false
			for _, fn := range withAnon(sf) {
				for _, b := range fn.Blocks {
					for _, ins := range b.Instrs {
						call, ok := ins.(*ssa.Call)
						if !ok || call.Call.StaticCallee() != nil || call.Call.IsInvoke() {
							continue
						}
						isFree := false
						switch v := call.Call.Value.(type) {
						case *ssa.FreeVar:
							isFree = true
						case *ssa.UnOp:
							_, isFree = v.X.(*ssa.FreeVar)
						}
						if !isFree {
							continue
						}
						if sp.idx >= len(call.Call.Args) {
							continue
						}
						arg := call.Call.Args[sp.idx]
						if k, ok := arg.(*ssa.Const); ok && k.Value != nil && !strings.HasPrefix(k.Value.ExactString(), "-") && k.Value.ExactString() != "0" {
							okStep = true
							continue
						}
						lower, _, _ := nanSafeGuards(call, arg)
						if lower {
							okStep = true
						}
					}
				}
			}
			r.Check(okStep, construct, p.Rel(fd.Decl.Pos()), "the step handed to the platform loop is a positive constant or checked > 0 NaN-safely", "built-in "+name+" forwards its argument to "+sp.method+", whose loop advances by it, without a NaN-safe `> 0` check: a zero, negative or NaN step loops and allocates without end")
			return true
		})
		if found == 0 {
			r.Undecided("no built-in forwards to platform method %s", sp.method)
		}
	}
	_ = table
}

func derivesFromParam(v ssa.Value, prm *ssa.Parameter, depth int) bool {
	if v == ssa.Value(prm) {
		return true
	}
	if depth == 0 {
		return false
	}
	switch x := v.(type) {
	case *ssa.Call:
		for _, a := range x.Call.Args {
			if derivesFromParam(a, prm, depth-1) {
				return true
			}
		}
	case *ssa.BinOp:
		return derivesFromParam(x.X, prm, depth-1) || derivesFromParam(x.Y, prm, depth-1)
	case *ssa.Convert:
		return derivesFromParam(x.X, prm, depth-1)
	case *ssa.Phi:
		for _, e := range x.Edges {
			if derivesFromParam(e, prm, depth-1) {
				return true
			}
		}
	}
	return false
}

var axisWord = regexp.MustCompile(`\b(x|y|width|height|radius|radiusX|radiusY)\b|rt\.(x|y)\b`)

func mentionsAxis(s string) bool { return axisWord.MatchString(s) }

// jsFunctionBody returns the text between the braces of `function <name>(`…, "" if not found.
func jsFunctionBody(src, name string) string {
	i := strings.Index(src, "function "+name+"(")
	if i < 0 {
		return ""
	}
	j := strings.Index(src[i:], "{")
	if j < 0 {
		return ""
	}
	depth := 0
	for k := i + j; k < len(src); k++ {
		switch src[k] {
		case '{':
			depth++
		case '}':
			depth--
			if depth == 0 {
				return src[i+j+1 : k]
			}
		}
	}
	return ""
}
