package check

import (
	"fmt"
	"go/ast"
	"go/token"
	"go/types"
	"strings"

	"golang.org/x/tools/go/packages"
	"golang.org/x/tools/go/ssa"
)

// evalInfo caches facts about the evaluator used by several rules.
type evalInfo struct {
	p       *Program
	pkg     *packages.Package
	eval    *ssa.Function
	yield   *ssa.Function
	funcs   []*ssa.Function        // all functions of pkg/evaluator
	reach   map[*ssa.Function]bool // may reach eval (static calls + invokes resolved in package)
	must    map[*ssa.Function]bool // every entry→return path calls eval (or a must function)
	callees map[*ssa.Function][]calleeEdge
}

type calleeEdge struct {
	site   ssa.CallInstruction
	callee *ssa.Function
}

func (c *Ctx) evalInfo(r *Reporter) *evalInfo {
	if v, ok := c.cache["evalInfo"]; ok {
		return v.(*evalInfo)
	}
	p, pkg := evaluatorPkg(c, r)
	if pkg == nil {
		return nil
	}
	ei := &evalInfo{p: p, pkg: pkg, reach: map[*ssa.Function]bool{}, must: map[*ssa.Function]bool{}, callees: map[*ssa.Function][]calleeEdge{}}
	fd := FindFunc(pkg, "(*Evaluator).eval")
	if fd == nil {
		r.Undecided("(*Evaluator).eval not found")
		return nil
	}
	ei.eval = p.SSAFunc(fd.Obj)
	if yd := FindFunc(pkg, "(*Evaluator).yield"); yd != nil {
		ei.yield = p.SSAFunc(yd.Obj)
	}
	ei.funcs = ssaFuncsOf(p, pkg)
	g := c.CallGraph(p)
	for _, fn := range ei.funcs {
		node := g.Nodes[fn]
		if node == nil {
			continue
		}
		for _, e := range node.Out {
			if e.Callee.Func != nil && e.Site != nil {
				// static calls and interface invokes only (dynamic calls of func values cannot reach eval: builtins have no evaluator)
				if e.Site.Common().StaticCallee() != nil || e.Site.Common().IsInvoke() {
					ei.callees[fn] = append(ei.callees[fn], calleeEdge{site: e.Site, callee: e.Callee.Func})
				}
			}
		}
	}
	// reach
	ei.reach[ei.eval] = true
	for changed := true; changed; {
		changed = false
		for _, fn := range ei.funcs {
			if ei.reach[fn] {
				continue
			}
			for _, e := range ei.callees[fn] {
				if ei.reach[e.callee] {
					ei.reach[fn] = true
					changed = true
					break
				}
			}
		}
	}
	// must: greatest... use least fixpoint from eval: fn is must if no entry→return path avoids blocks with a static call to a must function
	ei.must[ei.eval] = true
	for changed := true; changed; {
		changed = false
		for _, fn := range ei.funcs {
			if ei.must[fn] || len(fn.Blocks) == 0 {
				continue
			}
			var avoid []*ssa.BasicBlock
			for _, b := range fn.Blocks {
				for _, ins := range b.Instrs {
					if ci, ok := ins.(*ssa.Call); ok {
						if sc := ci.Call.StaticCallee(); sc != nil && ei.must[sc] {
							avoid = append(avoid, b)
						}
					}
				}
			}
			if len(avoid) == 0 {
				continue
			}
			if !anyReturnPathAvoiding(fn.Blocks[0], avoid) {
				ei.must[fn] = true
				changed = true
			}
		}
	}
	c.cache["evalInfo"] = ei
	return ei
}

// anyReturnPathAvoiding: is there a path from `from` to any Return (or panic exit) that avoids the blocks?
func anyReturnPathAvoiding(from *ssa.BasicBlock, avoid []*ssa.BasicBlock) bool {
	av := map[*ssa.BasicBlock]bool{}
	for _, b := range avoid {
		av[b] = true
	}
	seen := map[*ssa.BasicBlock]bool{}
	stack := []*ssa.BasicBlock{from}
	for len(stack) > 0 {
		cur := stack[len(stack)-1]
		stack = stack[:len(stack)-1]
		if seen[cur] || av[cur] {
			continue
		}
		seen[cur] = true
		if len(cur.Instrs) > 0 {
			if _, ok := cur.Instrs[len(cur.Instrs)-1].(*ssa.Return); ok {
				return true
			}
		}
		stack = append(stack, cur.Succs...)
	}
	return false
}

// sccOf returns the set of blocks in the same strongly connected component as b (nil if b is not in a cycle).
func sccOf(b *ssa.BasicBlock) map[*ssa.BasicBlock]bool {
	if !inCycle(b) {
		return nil
	}
	out := map[*ssa.BasicBlock]bool{b: true}
	for _, other := range b.Parent().Blocks {
		if other != b && reachesBlock(b, other) && reachesBlock(other, b) {
			out[other] = true
		}
	}
	return out
}

// ---------------------------------------------------------------------------
// R-YIELD

var ruleYield = &Rule{
	ID:    "R-YIELD",
	Doc:   "eval tests the stop flag and yields before dispatching; every loop of the evaluator that runs user code passes, on each iteration, through a call that must reach eval; a built-in's implementation is called only behind a stop test that follows the last evaluation in its function, and a helper that neither evaluates nor tests is guarded only if all its call sites are; an error coming out of evaluation (ErrStopped included) is returned on every path where it may be non-nil (as the first argument where cmp.Or chooses) and nothing is evaluated afterwards; the browser event loops test the stop flag each iteration",
	Floor: 30,
	Run:   runYield,
}

func runYield(c *Ctx, r *Reporter) {
	ei := c.evalInfo(r)
	if ei == nil {
		return
	}
	p := ei.p
	// Y1
	var stopIf *ssa.If
	var yieldCall *ssa.Call
	var asserts []ssa.Instruction
	scan := func(fn *ssa.Function) {
		for _, b := range fn.Blocks {
			for _, ins := range b.Instrs {
				switch x := ins.(type) {
				case *ssa.If:
					if u, ok := x.Cond.(*ssa.UnOp); ok {
						if fa, ok := u.X.(*ssa.FieldAddr); ok {
							if _, name := fieldAddrInfo(fa); name == "Stopped" && stopIf == nil {
								stopIf = x
							}
						}
					}
				case *ssa.Call:
					if x.Call.StaticCallee() == ei.yield && ei.yield != nil && yieldCall == nil {
						yieldCall = x
					}
				}
			}
		}
	}
	scan(ei.eval)
	for _, b := range ei.eval.Blocks {
		for _, ins := range b.Instrs {
			if x, ok := ins.(*ssa.TypeAssert); ok {
				asserts = append(asserts, x)
			}
		}
	}
	// eval may be split into a checkpoint (stop test and yield) and the dispatch proper: the calls of eval to
	// functions of the evaluator that dispatch (contain the node type switch) are then the dispatch points, and a
	// helper that eval calls before them may hold the stop test and the yield
	var checkpoint *ssa.Function
	var checkpointCall *ssa.Call
	if len(asserts) == 0 || stopIf == nil || yieldCall == nil {
		for _, b := range ei.eval.Blocks {
			for _, ins := range b.Instrs {
				call, ok := ins.(*ssa.Call)
				if !ok || call.Call.StaticCallee() == nil || call.Call.StaticCallee().Pkg != ei.eval.Pkg || len(call.Call.StaticCallee().Blocks) == 0 {
					continue
				}
				h := call.Call.StaticCallee()
				nAsserts := 0
				for _, hb := range h.Blocks {
					for _, hi := range hb.Instrs {
						if _, ok := hi.(*ssa.TypeAssert); ok {
							nAsserts++
						}
					}
				}
				if nAsserts >= 10 && len(asserts) == 0 {
					asserts = append(asserts, call)
					continue
				}
				if (stopIf == nil || yieldCall == nil) && checkpoint == nil && h != ei.yield && nAsserts == 0 {
					s0, y0 := stopIf, yieldCall
					scan(h)
					if stopIf != s0 || yieldCall != y0 {
						checkpoint, checkpointCall = h, call
					}
				}
			}
		}
	}
	cEval := "pkg/evaluator.(*Evaluator).eval"
	pos := p.Rel(ei.eval.Pos())
	// passedCheckpoint: at block b of eval the checkpoint has returned no error
	passedCheckpoint := func(b *ssa.BasicBlock) bool {
		if checkpointCall == nil {
			return false
		}
		for _, f := range impliedConds(b) {
			if bo, ok := f.Cond.(*ssa.BinOp); ok && (bo.Op == token.NEQ || bo.Op == token.EQL) {
				if k, ok := bo.Y.(*ssa.Const); ok && k.IsNil() && valueReaches(bo.X, checkpointCall, 2) && f.Truth == (bo.Op == token.EQL) {
					return true
				}
			}
		}
		return false
	}
	isErrStopped := func(v ssa.Value) bool {
		if u, ok := v.(*ssa.UnOp); ok {
			if g, ok := u.X.(*ssa.Global); ok && g.Name() == "ErrStopped" {
				return true
			}
		}
		return false
	}
	if stopIf == nil {
		r.Viol(cEval+"#stop-test", pos, "eval does not test e.Stopped: a raised stop flag is never honoured")
	} else {
		// true edge returns ErrStopped
		t := stopIf.Block().Succs[0]
		retOK := false
		if len(t.Instrs) > 0 {
			if ret, ok := t.Instrs[len(t.Instrs)-1].(*ssa.Return); ok && len(ret.Results) >= 1 && isErrStopped(ret.Results[len(ret.Results)-1]) {
				retOK = true
			}
		}
		if retOK && stopIf.Parent() == checkpoint {
			// … and eval hands the checkpoint's error on: where it is non-nil eval returns it
			retOK = false
			for _, ret := range returnsOf(ei.eval) {
				if len(ret.Results) == 2 && valueReaches(ret.Results[1], checkpointCall, 3) {
					retOK = true
				}
			}
		}
		r.Check(retOK, cEval+"#stop-test", p.Rel(instrPos(stopIf)), "a raised stop flag ends the step with ErrStopped", "the e.Stopped branch of eval does not return ErrStopped")
		domAll := len(asserts) > 0
		for _, a := range asserts {
			if stopIf.Parent() == checkpoint {
				if !passedCheckpoint(a.Block()) {
					domAll = false
				}
			} else if !stopIf.Block().Dominates(a.Block()) {
				domAll = false
			}
		}
		r.Check(domAll, cEval+"#stop-before-dispatch", p.Rel(instrPos(stopIf)), "the stop test dominates the node dispatch", "a node case of eval is reachable without passing the stop test")
	}
	if yieldCall == nil {
		r.Viol(cEval+"#yield", pos, "eval does not call e.yield(): an endless program never hands control to the platform")
	} else {
		domAll := len(asserts) > 0
		for _, a := range asserts {
			if yieldCall.Parent() == checkpoint {
				// the checkpoint yields on every path on which it returns no error
				if !passedCheckpoint(a.Block()) {
					domAll = false
				}
				for _, ret := range returnsOf(checkpoint) {
					if !(yieldCall.Block() == ret.Block() || yieldCall.Block().Dominates(ret.Block())) && !(len(ret.Results) == 1 && isErrStopped(ret.Results[0])) {
						domAll = false
					}
				}
			} else if !instrDominates(yieldCall, a) {
				domAll = false
			}
		}
		r.Check(domAll, cEval+"#yield", p.Rel(instrPos(yieldCall)), "the yield call dominates the node dispatch", "a node case of eval is reachable without yielding")
	}
	if ei.yield != nil {
		invokes := false
		for _, b := range ei.yield.Blocks {
			for _, ins := range b.Instrs {
				if ci, ok := ins.(ssa.CallInstruction); ok && ci.Common().IsInvoke() && ci.Common().Method.Name() == "Yield" {
					invokes = true
				}
			}
		}
		r.Check(invokes, "pkg/evaluator.(*Evaluator).yield#invoke", p.Rel(ei.yield.Pos()), "yield calls the platform's Yielder", "(*Evaluator).yield does not call Yielder.Yield")
	} else {
		r.Undecided("(*Evaluator).yield not found")
	}
	// Y2: loops
	for _, fn := range ei.funcs {
		if !ei.reach[fn] || fn == ei.eval {
			continue
		}
		n := 0
		done := map[*ssa.BasicBlock]bool{}
		for _, b := range fn.Blocks {
			if done[b] {
				continue
			}
			scc := sccOf(b)
			if scc == nil {
				continue
			}
			for k := range scc {
				done[k] = true
			}
			// does this loop run user code at all?
			runs := false
			var mustBlocks []*ssa.BasicBlock
			for blk := range scc {
				for _, ins := range blk.Instrs {
					ci, ok := ins.(*ssa.Call)
					if !ok {
						continue
					}
					// a loop stepping a ranger runs as often as the program's range says, whether or not it
					// evaluates anything: it is a loop of the program, not of the interpreter
					if ci.Call.IsInvoke() && ci.Call.Method.Name() == "next" {
						if n := namedOf(ci.Call.Value.Type()); n != nil && n.Obj().Name() == "ranger" {
							runs = true
						}
					}
					if sc := ci.Call.StaticCallee(); sc != nil {
						if ei.reach[sc] {
							runs = true
						}
						if ei.must[sc] {
							mustBlocks = append(mustBlocks, blk)
						}
						if sc.Name() == "next" && sc.Signature.Recv() != nil && strings.HasSuffix(sc.Signature.Recv().Type().String(), "Range") {
							runs = true
						}
					}
				}
			}
			if !runs {
				continue
			}
			n++
			construct := fmt.Sprintf("%s#loop[%d]", ssaQName(fn), n)
			// remove must blocks: remaining subgraph must be acyclic
			okLoop := !cycleAvoiding(scc, mustBlocks)
			r.Check(okLoop, construct, p.Rel(loopPos(scc)), "every iteration passes through a call that must reach eval (stop test + yield)",
				"an iteration of this loop can complete without any call that is guaranteed to reach eval: no stop test and no yield on that path")
		}
	}
	// Y2b: a built-in runs its platform effect without passing through eval. Its arguments do pass through eval, and
	// one of them (read, sleep) may hand control to the platform, which can raise the stop flag meanwhile. So the
	// call of the built-in's implementation is dominated by the clear edge of a stop test that comes after the
	// evaluation of the arguments.
	// stopGuarded: site (in fn) is dominated by the clear edge of a stop test that comes after the last call of fn that
	// reaches eval; a helper that neither evaluates nor tests before the site (callBuiltin(funcCall, b, args)) is
	// guarded when each of its call sites is. eval itself yields after its own stop test, so a function that is entered
	// from the dispatch without any test does not count as guarded.
	var stopGuarded func(fn *ssa.Function, site ssa.Instruction, depth int) bool
	stopGuarded = func(fn *ssa.Function, site ssa.Instruction, depth int) bool {
		var lastEval *ssa.Call
		for _, b2 := range fn.Blocks {
			for _, i2 := range b2.Instrs {
				c2, ok := i2.(*ssa.Call)
				if !ok || ssa.Instruction(c2) == site {
					continue
				}
				if sc := c2.Call.StaticCallee(); sc != nil && ei.reach[sc] && instrDominates(c2, site) {
					if lastEval == nil || instrDominates(lastEval, c2) {
						lastEval = c2
					}
				}
			}
		}
		b := site.Block()
		for d := b; d != nil; d = d.Idom() {
			id := d.Idom()
			if id == nil || len(id.Instrs) == 0 {
				continue
			}
			ifi, ok := id.Instrs[len(id.Instrs)-1].(*ssa.If)
			if !ok || !loadsField(ifi.Cond, "Stopped") {
				continue
			}
			ld := ifi.Cond.(ssa.Instruction)
			if edgeDominates(id, 1, b) && (lastEval == nil || instrDominates(lastEval, ld)) {
				return true
			}
		}
		if lastEval != nil || depth >= 3 {
			return false
		}
		sites := 0
		for _, caller := range ei.funcs {
			for _, ci := range callsTo(caller, fn) {
				sites++
				if !stopGuarded(caller, ci, depth+1) {
					return false
				}
			}
		}
		return sites > 0
	}
	for _, fn := range ei.funcs {
		k := 0
		for _, b := range fn.Blocks {
			for _, ins := range b.Instrs {
				call, ok := ins.(*ssa.Call)
				if !ok || call.Call.IsInvoke() || call.Call.StaticCallee() != nil {
					continue
				}
				if !loadsField(call.Call.Value, "Func") { // builtin.Func(scope, args)
					continue
				}
				k++
				construct := fmt.Sprintf("%s#builtin-call[%d]:stop-test-after-arguments", ssaQName(fn), k)
				good := stopGuarded(fn, call, 0)
				r.Check(good, construct, p.Rel(instrPos(call)), "the stop flag is tested between the evaluation of the arguments and the built-in's effect",
					"the built-in's implementation is called without a test of the stop flag after its arguments were evaluated: an argument such as `read` or `sleep` hands control to the platform, "+
						"which may raise the flag — `print (read)` then still prints (an effect that the uninterrupted run does not have) and the run does not end with ErrStopped")
			}
		}
	}
	// Y3: error discipline
	for _, fn := range ei.funcs {
		n := 0
		for _, b := range fn.Blocks {
			for _, ins := range b.Instrs {
				call, ok := ins.(*ssa.Call)
				if !ok {
					continue
				}
				sc := call.Call.StaticCallee()
				if sc == nil || !ei.reach[sc] {
					continue
				}
				res := sc.Signature.Results()
				if res.Len() == 0 || !isErrorType(res.At(res.Len()-1).Type()) {
					continue
				}
				n++
				construct := fmt.Sprintf("%s#call[%d]:%s", ssaQName(fn), n, sc.Name())
				why := errorDiscipline(call, ei)
				r.Check(why == "", construct, p.Rel(instrPos(call)), "error is returned wherever it may be non-nil; nothing is evaluated after it", why)
			}
		}
	}
	// Y4 tinygo
	tp, err := c.Tinygo()
	if err != nil {
		r.Undecided("%v", err)
		return
	}
	for _, pkg := range tp.Pkgs {
		for _, fd := range Funcs(pkg) {
			n := 0
			ast.Inspect(fd.Decl.Body, func(node ast.Node) bool {
				fs, ok := node.(*ast.ForStmt)
				if !ok || fs.Cond != nil {
					return true
				}
				n++
				construct := fmt.Sprintf("%s#forever[%d]", fd.QName(), n)
				okStop := false
				for _, st := range fs.Body.List {
					ifs, ok := st.(*ast.IfStmt)
					if !ok {
						continue
					}
					if sel, ok := ast.Unparen(ifs.Cond).(*ast.SelectorExpr); ok && sel.Sel.Name == "Stopped" {
						if v, ok := pkg.TypesInfo.Uses[sel.Sel].(*types.Var); ok && v.IsField() && objPkgPath(v) == ModulePath+"/pkg/evaluator" {
							for _, bs := range ifs.Body.List {
								if _, isRet := bs.(*ast.ReturnStmt); isRet {
									okStop = true
								}
							}
						}
					}
					break // must be the first statement of the body
				}
				r.Check(okStop, construct, tp.Rel(fs.Pos()), "endless platform loop tests eval.Stopped first on every iteration", "endless loop in the browser platform does not start each iteration with a test of eval.Stopped that returns")
				return true
			})
			if fd.Name() == "stop" {
				stores := false
				ast.Inspect(fd.Decl.Body, func(node ast.Node) bool {
					if as, ok := node.(*ast.AssignStmt); ok && len(as.Lhs) == 1 {
						if sel, ok := as.Lhs[0].(*ast.SelectorExpr); ok && sel.Sel.Name == "Stopped" {
							if id, ok := as.Rhs[0].(*ast.Ident); ok && id.Name == "true" {
								stores = true
							}
						}
					}
					return true
				})
				r.Check(stores, fd.QName()+"#raises-flag", tp.Rel(fd.Decl.Pos()), "stop raises eval.Stopped", "the exported stop function does not set eval.Stopped = true")
			}
		}
	}
}

func loopPos(scc map[*ssa.BasicBlock]bool) token.Pos {
	best := token.NoPos
	for b := range scc {
		for _, ins := range b.Instrs {
			if p := ins.Pos(); p.IsValid() && (!best.IsValid() || p < best) {
				best = p
			}
		}
	}
	return best
}

// cycleAvoiding: does the subgraph scc \ removed still contain a cycle?
func cycleAvoiding(scc map[*ssa.BasicBlock]bool, removed []*ssa.BasicBlock) bool {
	rm := map[*ssa.BasicBlock]bool{}
	for _, b := range removed {
		rm[b] = true
	}
	for start := range scc {
		if rm[start] {
			continue
		}
		seen := map[*ssa.BasicBlock]bool{}
		stack := []*ssa.BasicBlock{}
		for _, s := range start.Succs {
			if scc[s] && !rm[s] {
				stack = append(stack, s)
			}
		}
		for len(stack) > 0 {
			cur := stack[len(stack)-1]
			stack = stack[:len(stack)-1]
			if cur == start {
				return true
			}
			if seen[cur] {
				continue
			}
			seen[cur] = true
			for _, s := range cur.Succs {
				if scc[s] && !rm[s] {
					stack = append(stack, s)
				}
			}
		}
	}
	return false
}

// errorDiscipline checks the error result of an eval-reaching call; returns "" when fine.
func errorDiscipline(call *ssa.Call, ei *evalInfo) string {
	return errorDisciplineGen(call, func(c2 *ssa.Call) bool {
		sc2 := c2.Call.StaticCallee()
		return sc2 != nil && ei.reach[sc2]
	})
}

// callName names the callee of a call for messages.
func callName(call *ssa.Call) string {
	if sc := call.Call.StaticCallee(); sc != nil {
		return sc.Name()
	}
	if call.Call.IsInvoke() {
		return call.Call.Method.Name()
	}
	return call.Call.Value.Name()
}

type namedCallee struct{ name string }

func (n namedCallee) Name() string { return n.name }

// errorDisciplineGen: like errorDiscipline with a caller-supplied notion of "significant call".
func errorDisciplineGen(call *ssa.Call, significant func(*ssa.Call) bool) string {
	sc := namedCallee{callName(call)}
	nres := call.Call.Signature().Results().Len()
	var errVal ssa.Value
	if nres == 1 {
		errVal = call
	} else if refs := call.Referrers(); refs != nil {
		for _, ref := range *refs {
			if ex, ok := ref.(*ssa.Extract); ok && ex.Index == nres-1 {
				errVal = ex
			}
		}
	}
	if errVal == nil {
		// whole tuple returned? `return f()` yields extracts, so nil means the error is dropped
		return "the error result of " + sc.Name() + " is discarded: a stop or panic inside it would be swallowed and evaluation would continue"
	}
	// region U: blocks reachable after the call where errVal may be non-nil
	start := call.Block()
	type item struct {
		b     *ssa.BasicBlock
		first bool
	}
	seen := map[*ssa.BasicBlock]bool{}
	var problems []string
	var visit func(b *ssa.BasicBlock, fromInstr int)
	visit = func(b *ssa.BasicBlock, fromInstr int) {
		if fromInstr == 0 {
			if seen[b] {
				return
			}
			seen[b] = true
		}
		for i := fromInstr; i < len(b.Instrs); i++ {
			switch x := b.Instrs[i].(type) {
			case *ssa.Call:
				if significant(x) {
					// reaching the call itself again (around a loop) with its error still pending overwrites that error
					problems = append(problems, fmt.Sprintf("%s is called while the error of %s may still be pending", callName(x), sc.Name()))
					return
				}
			case *ssa.Return:
				if len(x.Results) == 0 {
					problems = append(problems, "returns without the pending error")
					return
				}
				last := x.Results[len(x.Results)-1]
				okRet := isErrorType(last.Type())
				if okRet {
					okRet = false
					for _, rv := range resultValues(x, len(x.Results)-1) {
						if derivesFromErr(rv, errVal, 0) {
							okRet = true
						}
					}
				}
				if !okRet {
					problems = append(problems, "a return reachable with the error pending does not return it")
				}
				return
			case *ssa.If:
				// edges that establish errVal == nil end the region
				nilEdge := -1
				if bo, ok := x.Cond.(*ssa.BinOp); ok {
					if k, ok := bo.Y.(*ssa.Const); ok && k.IsNil() && sameErr(bo.X, errVal) {
						if bo.Op == token.NEQ {
							nilEdge = 1
						} else if bo.Op == token.EQL {
							nilEdge = 0
						}
					}
				}
				if nilEdge < 0 {
					// `if done(val, ok, err) { return …, err }`: a helper whose result says that err is nil
					nilEdge = predicateNilEdge(x.Cond, func(arg ssa.Value) bool { return sameErr(arg, errVal) })
				}
				for idx, s := range b.Succs {
					if idx == nilEdge {
						continue
					}
					visit(s, 0)
				}
				return
			}
		}
		for _, s := range b.Succs {
			visit(s, 0)
		}
	}
	// find index of call in its block
	idx := 0
	for i, ins := range start.Instrs {
		if ins == ssa.Instruction(call) {
			idx = i + 1
		}
	}
	visit(start, idx)
	if len(problems) > 0 {
		return problems[0]
	}
	return ""
}

// sameErr: v is errVal or a phi that merges errVal (loop-carried error variable).
func sameErr(v, errVal ssa.Value) bool {
	if v == errVal {
		return true
	}
	if phi, ok := v.(*ssa.Phi); ok {
		for _, e := range phi.Edges {
			if e == errVal {
				return true
			}
		}
	}
	return false
}

func derivesFromErr(v, errVal ssa.Value, depth int) bool {
	if depth > 6 {
		return false
	}
	if v == errVal {
		return true
	}
	switch x := v.(type) {
	case *ssa.Phi:
		for _, e := range x.Edges {
			if derivesFromErr(e, errVal, depth+1) {
				return true
			}
		}
	case *ssa.MakeInterface:
		return derivesFromErr(x.X, errVal, depth+1)
	case *ssa.ChangeInterface:
		return derivesFromErr(x.X, errVal, depth+1)
	case *ssa.Call:
		// cmp.Or(a, b, …) yields its first non-zero argument: the pending error survives only in first position
		firstOnly := false
		if sc := x.Call.StaticCallee(); sc != nil && sc.Pkg == nil && sc.Origin() != nil && sc.Origin().Pkg != nil && sc.Origin().Pkg.Pkg.Path() == "cmp" && sc.Origin().Name() == "Or" {
			firstOnly = true
		}
		for _, a := range x.Call.Args {
			if derivesFromErr(a, errVal, depth+1) {
				return true
			}
			// variadic: slice of interface values
			if sl, ok := a.(*ssa.Slice); ok {
				if al, ok := sl.X.(*ssa.Alloc); ok {
					for _, ref := range *al.Referrers() {
						if ia, ok := ref.(*ssa.IndexAddr); ok {
							if k, isK := ia.Index.(*ssa.Const); firstOnly && !(isK && k.Value != nil && k.Value.ExactString() == "0") {
								continue
							}
							for _, r2 := range *ia.Referrers() {
								if st, ok := r2.(*ssa.Store); ok && derivesFromErr(st.Val, errVal, depth+1) {
									return true
								}
							}
						}
					}
				}
			}
		}
	}
	return false
}

// ---------------------------------------------------------------------------
// R-SCOPEPAIR

var ruleScopePairEval = &Rule{
	ID:    "R-SCOPEPAIR/evaluator",
	Doc:   "every pushScope in the evaluator is immediately followed by `defer popScope()` (released on every exit, error returns included); pushFuncScope's restore closure is deferred; the function scope's parent is the global scope; a block evaluated inside a loop gets its scope pushed inside that loop (one scope per iteration); parameters are bound and bodies evaluated only after the function scope is pushed",
	Floor: 8,
	Run:   runScopePairEval,
}

func runScopePairEval(c *Ctx, r *Reporter) {
	ei := c.evalInfo(r)
	if ei == nil {
		return
	}
	p, pkg := ei.p, ei.pkg
	find := func(name string) *ssa.Function {
		fd := FindFunc(pkg, name)
		if fd == nil {
			r.Undecided("%s not found", name)
			return nil
		}
		return p.SSAFunc(fd.Obj)
	}
	push, pop, pushFunc := find("(*Evaluator).pushScope"), find("(*Evaluator).popScope"), find("(*Evaluator).pushFuncScope")
	scopeSet := find("(*scope).set")
	if push == nil || pop == nil || pushFunc == nil || scopeSet == nil {
		return
	}
	for _, fn := range ei.funcs {
		n := 0
		for _, b := range fn.Blocks {
			for i, ins := range b.Instrs {
				call, ok := ins.(*ssa.Call)
				if !ok {
					continue
				}
				switch call.Call.StaticCallee() {
				case push:
					n++
					construct := fmt.Sprintf("%s#push[%d]", ssaQName(fn), n)
					okd := false
					for _, later := range b.Instrs[i+1:] {
						if d, ok := later.(*ssa.Defer); ok && d.Call.StaticCallee() == pop {
							okd = true
							break
						}
						if _, isCall := later.(*ssa.Call); isCall {
							break // something runs between push and the deferred pop
						}
					}
					r.Check(okd, construct, p.Rel(instrPos(call)), "pushScope is immediately followed by defer popScope()", "pushScope is not immediately followed by `defer e.popScope()`: an exit (error return, break, return) can leave the scope pushed, so later lookups see stale block-local variables")
				case pushFunc:
					n++
					construct := fmt.Sprintf("%s#pushFunc[%d]", ssaQName(fn), n)
					okd := false
					for _, later := range b.Instrs[i+1:] {
						if d, ok := later.(*ssa.Defer); ok && d.Call.Value == ssa.Value(call) {
							okd = true
							break
						}
						if _, isCall := later.(*ssa.Call); isCall {
							break
						}
					}
					r.Check(okd, construct, p.Rel(instrPos(call)), "the restore closure of pushFuncScope is deferred at once", "the closure returned by pushFuncScope is not deferred immediately: the caller's scope is not restored on every exit")
					// binding and body evaluation after the push
					for _, b2 := range fn.Blocks {
						for _, ins2 := range b2.Instrs {
							c2, ok := ins2.(*ssa.Call)
							if !ok {
								continue
							}
							sc := c2.Call.StaticCallee()
							if sc == scopeSet || (sc == ei.eval && argIsBlock(c2)) {
								n++
								r.Check(instrDominates(call, c2), fmt.Sprintf("%s#after-pushFunc[%d]", ssaQName(fn), n), p.Rel(instrPos(c2)),
									"runs in the fresh function scope", "a parameter is bound or the body evaluated before/without pushFuncScope: the callee would see or clobber the caller's locals")
							}
						}
					}
				}
			}
		}
	}
	// who evaluates a function/handler body must push a function scope: eval(<x>.Body)
	for _, fn := range ei.funcs {
		for _, b := range fn.Blocks {
			for _, ins := range b.Instrs {
				c2, ok := ins.(*ssa.Call)
				if !ok || c2.Call.StaticCallee() != ei.eval || !argIsBlock(c2) {
					continue
				}
				field := blockArgField(c2)
				construct := fmt.Sprintf("%s#eval-block:%s", ssaQName(fn), field)
				// a scope push in the same function dominates it, and lies in every loop the eval lies in
				var pushes []*ssa.Call
				for _, b3 := range fn.Blocks {
					for _, ins3 := range b3.Instrs {
						if c3, ok := ins3.(*ssa.Call); ok {
							sc := c3.Call.StaticCallee()
							if sc == push || sc == pushFunc {
								pushes = append(pushes, c3)
							}
						}
					}
				}
				if field == "Body" {
					okp := false
					for _, pc := range pushes {
						if pc.Call.StaticCallee() == pushFunc && instrDominates(pc, c2) {
							okp = true
						}
					}
					// pushFuncScope written out in place: e.scope = newInnerScope(e.global), with a deferred closure
					// that puts a scope back
					if !okp {
						fresh, restored := false, false
						for _, b3 := range fn.Blocks {
							for _, ins3 := range b3.Instrs {
								switch x := ins3.(type) {
								case *ssa.Store:
									if fa, ok := x.Addr.(*ssa.FieldAddr); ok {
										if named, name := fieldAddrInfo(fa); named != nil && named.Obj().Name() == "Evaluator" && name == "scope" {
											if nc, ok := x.Val.(*ssa.Call); ok && nc.Call.StaticCallee() != nil && nc.Call.StaticCallee().Name() == "newInnerScope" && len(nc.Call.Args) == 1 && loadsField(nc.Call.Args[0], "global") && instrDominates(x, c2) {
												fresh = true
											}
										}
									}
								case *ssa.Defer:
									if mc, ok := x.Call.Value.(*ssa.MakeClosure); ok && instrDominates(x, c2) {
										if af, ok := mc.Fn.(*ssa.Function); ok {
											for _, ab := range af.Blocks {
												for _, ai := range ab.Instrs {
													if st, ok := ai.(*ssa.Store); ok {
														if fa, ok := st.Addr.(*ssa.FieldAddr); ok {
															if _, name := fieldAddrInfo(fa); name == "scope" {
																restored = true
															}
														}
													}
												}
											}
										}
									}
								}
							}
						}
						okp = fresh && restored
					}
					r.Check(okp, construct, p.Rel(instrPos(c2)), "function/handler body runs under pushFuncScope", "a function or handler body is evaluated without a dominating pushFuncScope: it would see the caller's locals")
					continue
				}
				okp := false
				why := "a block is evaluated without a scope of its own being pushed in this function"
				scc := sccOf(c2.Block())
				for _, pc := range pushes {
					if !instrDominates(pc, c2) {
						continue
					}
					if scc != nil && !scc[pc.Block()] {
						why = "the scope for this block is pushed outside the loop that evaluates it: variables declared in the block survive into the next iteration"
						continue
					}
					okp = true
				}
				r.Check(okp, construct, p.Rel(instrPos(c2)), "the block gets a fresh scope for each evaluation", why)
			}
		}
	}
	// R-FUNCSCOPE: pushFuncScope stores newInnerScope(e.global)
	okParent := false
	for _, b := range pushFunc.Blocks {
		for _, ins := range b.Instrs {
			st, ok := ins.(*ssa.Store)
			if !ok {
				continue
			}
			fa, ok := st.Addr.(*ssa.FieldAddr)
			if !ok {
				continue
			}
			if _, name := fieldAddrInfo(fa); name != "scope" {
				continue
			}
			if call, ok := st.Val.(*ssa.Call); ok && call.Call.StaticCallee() != nil && call.Call.StaticCallee().Name() == "newInnerScope" && len(call.Call.Args) == 1 {
				if u, ok := call.Call.Args[0].(*ssa.UnOp); ok {
					if fa2, ok := u.X.(*ssa.FieldAddr); ok {
						if _, n2 := fieldAddrInfo(fa2); n2 == "global" {
							okParent = true
						}
					}
				}
			}
		}
	}
	r.Check(okParent, "pkg/evaluator.(*Evaluator).pushFuncScope#parent", p.Rel(pushFunc.Pos()), "a function scope's parent is the global scope", "pushFuncScope does not create newInnerScope(e.global): function bodies would resolve names in the caller's scopes (dynamic scoping)")
	// newInnerScope links its parameter as outer
	if nis := find("newInnerScope"); nis != nil {
		okOuter := false
		for _, b := range nis.Blocks {
			for _, ins := range b.Instrs {
				if a, ok := ins.(*ssa.Alloc); ok {
					if v := storedFieldValue(a, "outer"); v != nil {
						if _, isParam := v.(*ssa.Parameter); isParam {
							okOuter = true
						}
					}
				}
			}
		}
		r.Check(okOuter, "pkg/evaluator.newInnerScope#outer", p.Rel(nis.Pos()), "inner scope links to the given outer scope", "newInnerScope does not store its argument as outer")
	}
	// popScope restores outer
	okPop := false
	for _, b := range pop.Blocks {
		for _, ins := range b.Instrs {
			if st, ok := ins.(*ssa.Store); ok {
				if fa, ok := st.Addr.(*ssa.FieldAddr); ok {
					if _, name := fieldAddrInfo(fa); name == "scope" {
						if u, ok := st.Val.(*ssa.UnOp); ok {
							if fa2, ok := u.X.(*ssa.FieldAddr); ok {
								if _, n2 := fieldAddrInfo(fa2); n2 == "outer" {
									okPop = true
								}
							}
						}
					}
				}
			}
		}
	}
	r.Check(okPop, "pkg/evaluator.(*Evaluator).popScope#outer", p.Rel(pop.Pos()), "popScope returns to the enclosing scope", "popScope does not set e.scope = e.scope.outer")
}

// argIsBlock: the node argument of an eval call is statically a *parser.BlockStatement.
func argIsBlock(call *ssa.Call) bool {
	if len(call.Call.Args) < 2 {
		return false
	}
	v := call.Call.Args[1]
	if mi, ok := v.(*ssa.MakeInterface); ok {
		return isNamed(mi.X.Type(), ModulePath+"/pkg/parser", "BlockStatement")
	}
	return false
}

// blockArgField: name of the field the block was loaded from (Block, Else, Body), or "".
func blockArgField(call *ssa.Call) string {
	mi, ok := call.Call.Args[1].(*ssa.MakeInterface)
	if !ok {
		return ""
	}
	switch x := mi.X.(type) {
	case *ssa.UnOp:
		if fa, ok := x.X.(*ssa.FieldAddr); ok {
			_, name := fieldAddrInfo(fa)
			return name
		}
	case *ssa.Parameter:
		return "param:" + x.Name()
	}
	return ""
}

// ---------------------------------------------------------------------------
// R-SIGNAL

var ruleSignal = &Rule{
	ID:    "R-SIGNAL",
	Doc:   "the value produced by evaluating a block (which may be a break or return signal) is returned to the caller or inspected; both loop evaluators turn a break signal into a plain result and pass a return signal on; a function call unwraps the return signal; a zero step is rejected before the first iteration; the range operand is evaluated once, outside the loop",
	Floor: 8,
	Run:   runSignal,
}

func runSignal(c *Ctx, r *Reporter) {
	ei := c.evalInfo(r)
	if ei == nil {
		return
	}
	p, pkg := ei.p, ei.pkg
	isBreakFn, isReturnFn := FindFunc(pkg, "isBreak"), FindFunc(pkg, "isReturn")
	if isBreakFn == nil || isReturnFn == nil {
		r.Undecided("isBreak/isReturn not found")
		return
	}
	isBreakSSA, isReturnSSA := p.SSAFunc(isBreakFn.Obj), p.SSAFunc(isReturnFn.Obj)
	// block-result functions: functions with a `value` first result deriving from eval(<block>) — fixpoint
	blockResult := map[*ssa.Function]bool{}
	isBlockCall := func(call *ssa.Call) bool {
		sc := call.Call.StaticCallee()
		if sc == ei.eval && argIsBlock(call) {
			return true
		}
		return sc != nil && blockResult[sc]
	}
	firstResult := func(call *ssa.Call) ssa.Value {
		if call.Call.StaticCallee().Signature.Results().Len() == 1 {
			return call
		}
		if refs := call.Referrers(); refs != nil {
			for _, ref := range *refs {
				if ex, ok := ref.(*ssa.Extract); ok && ex.Index == 0 {
					return ex
				}
			}
		}
		return nil
	}
	for changed := true; changed; {
		changed = false
		for _, fn := range ei.funcs {
			if blockResult[fn] || fn == ei.eval || fn.Signature.Results().Len() == 0 {
				continue
			}
			if !isNamed(fn.Signature.Results().At(0).Type(), pkg.PkgPath, "value") {
				continue
			}
			for _, b := range fn.Blocks {
				for _, ins := range b.Instrs {
					call, ok := ins.(*ssa.Call)
					if !ok || call.Call.StaticCallee() == nil || !isBlockCall(call) {
						continue
					}
					v := firstResult(call)
					if v == nil {
						continue
					}
					for _, ret := range returnsOf(fn) {
						for _, rv := range resultValues(ret, 0) {
							if derivesFromErr(rv, v, 0) && !blockResult[fn] {
								blockResult[fn] = true
								changed = true
							}
						}
					}
				}
			}
		}
	}
	// inspectsSignal: the value is examined for a break/return signal — asserted, handed to isBreak/isReturn, or handed
	// to a helper of the evaluator that does so with its parameter (whileDone(val, ok, err))
	var inspectsSignal func(v ssa.Value, depth int) bool
	inspectsSignal = func(v ssa.Value, depth int) bool {
		refs := v.Referrers()
		if refs == nil || depth > 2 {
			return false
		}
		for _, ref := range *refs {
			switch x := ref.(type) {
			case *ssa.TypeAssert:
				return true
			case *ssa.Phi:
				if inspectsSignal(x, depth+1) {
					return true
				}
			case *ssa.Call:
				sc := x.Call.StaticCallee()
				if sc == isBreakSSA || sc == isReturnSSA {
					return true
				}
				if sc != nil && sc.Pkg == ei.eval.Pkg && len(sc.Blocks) > 0 && sc != ei.eval {
					for i, a := range x.Call.Args {
						if a == v && i < len(sc.Params) && inspectsSignal(sc.Params[i], depth+1) {
							return true
						}
					}
				}
			}
		}
		return false
	}
	dropAllowed := map[string]bool{"(*Evaluator).HandleEvent": true, "(*Evaluator).Eval": true}
	for _, fn := range ei.funcs {
		n := 0
		for _, b := range fn.Blocks {
			for _, ins := range b.Instrs {
				call, ok := ins.(*ssa.Call)
				if !ok || call.Call.StaticCallee() == nil || !isBlockCall(call) {
					continue
				}
				n++
				construct := fmt.Sprintf("%s#block-result[%d]", ssaQName(fn), n)
				v := firstResult(call)
				used := false
				if v != nil {
					used = inspectsSignal(v, 0)
				}
				if v != nil && feedsReturn(v, 0) {
					used = true
				}
				switch {
				case used:
					r.Ok(construct, p.Rel(instrPos(call)), "break/return signal of the block is inspected or passed on")
				case dropAllowed[ssaDisplayName(fn)]:
					r.Ok(construct, p.Rel(instrPos(call)), "top of an evaluation: the parser admits no break or valued return here")
				default:
					r.Viol(construct, p.Rel(instrPos(call)), "the result of evaluating a block is dropped: a `return` or `break` inside it would be ignored and execution would continue after the block")
				}
			}
		}
	}
	// loop evaluators, by role: the functions eval dispatches *parser.WhileStmt and *parser.ForStmt to
	loopFns := map[*ssa.Function]string{}
	if evalDecl := FindFunc(pkg, "(*Evaluator).eval"); evalDecl != nil {
		_, nodeIface := parserNodeTypes(p)
		var tss []*ast.TypeSwitchStmt
		if nodeIface != nil {
			if _, ts := nodeDispatcher(pkg, evalDecl, nodeIface); ts != nil {
				tss = append(tss, ts)
			}
		}
		for _, ts := range tss {
			cases, _ := typeSwitchCases(pkg.TypesInfo, ts)
			for tn, cc := range cases {
				if tn.Name() != "WhileStmt" && tn.Name() != "ForStmt" {
					continue
				}
				ast.Inspect(cc, func(n ast.Node) bool {
					if call, ok := n.(*ast.CallExpr); ok {
						if callee := calleeFunc(pkg.TypesInfo, call); callee != nil && callee.Pkg() == pkg.Types {
							if sf := p.SSAFunc(callee); sf != nil {
								loopFns[sf] = tn.Name()
							}
						}
					}
					return true
				})
			}
		}
	}
	if len(loopFns) < 2 {
		r.Undecided("could not resolve the evaluator functions for WhileStmt and ForStmt from eval's type switch (found %d)", len(loopFns))
	}
	for fn, kind := range loopFns {
		var loopCall *ssa.Call
		for _, b := range fn.Blocks {
			for _, ins := range b.Instrs {
				if call, ok := ins.(*ssa.Call); ok && call.Call.StaticCallee() != nil && isBlockCall(call) && inCycle(b) {
					loopCall = call
				}
			}
		}
		construct := ssaQName(fn) + "#loop-signals"
		if loopCall == nil {
			r.Viol(construct, p.Rel(fn.Pos()), "the evaluator function for "+kind+" has no loop that evaluates the body block")
			continue
		}
		pos := p.Rel(instrPos(loopCall))
		plain, signal, tested := false, "", false
		// the break test may live in a helper that is handed the block result and whose own result the loop evaluator
		// returns (`return whileResult(val), err`)
		scanBlocks := append([]*ssa.BasicBlock{}, fn.Blocks...)
		if lv := firstResult(loopCall); lv != nil {
			carriers := map[ssa.Value]bool{lv: true}
			for changed := true; changed; {
				changed = false
				for _, b := range fn.Blocks {
					for _, ins := range b.Instrs {
						if phi, ok := ins.(*ssa.Phi); ok && !carriers[phi] {
							for _, e := range phi.Edges {
								if carriers[e] {
									carriers[phi] = true
									changed = true
								}
							}
						}
					}
				}
			}
			for _, b := range fn.Blocks {
				for _, ins := range b.Instrs {
					hc, ok := ins.(*ssa.Call)
					if !ok || hc.Call.StaticCallee() == nil || hc.Call.StaticCallee().Pkg != fn.Pkg || len(hc.Call.StaticCallee().Blocks) == 0 {
						continue
					}
					h := hc.Call.StaticCallee()
					if h == isBreakSSA || h == isReturnSSA || h == ei.eval || ei.reach[h] {
						continue
					}
					gets := false
					for _, a := range hc.Call.Args {
						if carriers[a] {
							gets = true
						}
					}
					if gets && feedsReturn(hc, 0) && isNamed(h.Signature.Results().At(0).Type(), pkg.PkgPath, "value") {
						scanBlocks = append(scanBlocks, h.Blocks...)
					}
				}
			}
		}
		for _, b := range scanBlocks {
			if len(b.Instrs) == 0 {
				continue
			}
			ifi, ok := b.Instrs[len(b.Instrs)-1].(*ssa.If)
			if !ok {
				continue
			}
			// isBreak(v), or the same test written as a type assertion / type switch case on *breakVal
			var testedVal ssa.Value
			if call, ok := ifi.Cond.(*ssa.Call); ok && call.Call.StaticCallee() == isBreakSSA {
				testedVal = call.Call.Args[0]
			} else if ex, ok := ifi.Cond.(*ssa.Extract); ok && ex.Index == 1 {
				if ta, ok := ex.Tuple.(*ssa.TypeAssert); ok && ta.CommaOk {
					t := ta.AssertedType
					if pt, ok := t.(*types.Pointer); ok {
						t = pt.Elem()
					}
					if n := namedOf(t); n != nil && n.Obj().Name() == "breakVal" {
						testedVal = ta.X
					}
				}
			}
			if testedVal == nil {
				continue
			}
			tested = true
			okb, why := edgeReturnsPlain(ifi, testedVal)
			if okb {
				plain = true
			} else if strings.Contains(why, "signal itself") {
				signal = why
			}
		}
		switch {
		case !tested:
			r.Viol(construct+":break", pos, "a loop evaluator never tests the block result with isBreak: the break signal would leave the loop and propagate to the enclosing loop as well")
		case signal != "":
			r.Viol(construct+":break", pos, signal)
		default:
			r.Check(plain, construct+":break", pos, "on break the loop returns a plain value, so exactly one loop is left", "no isBreak test of this loop evaluator leads to a return of a plain (non-signal) value")
		}
		r.Check(blockResult[fn], construct+":return", pos, "a return signal is passed on to the caller", "the loop evaluator never returns the block's value: a `return` inside a loop body would not leave the function")
	}
	// evalFunccall unwraps returnVal
	if fd := FindFunc(pkg, "(*Evaluator).evalFunccall"); fd != nil {
		sf := p.SSAFunc(fd.Obj)
		unwraps := false
		for _, h := range regionFns(sf, 2, dispatcherNames) { // the call of a defined function may live in a helper
			for _, b := range h.Blocks {
				for _, ins := range b.Instrs {
					if ta, ok := ins.(*ssa.TypeAssert); ok && isNamed(ta.AssertedType, pkg.PkgPath, "returnVal") {
						unwraps = true
					}
				}
			}
		}
		r.Check(unwraps && !blockResult[sf], fd.QName()+"#unwrap-return", p.Rel(fd.Decl.Pos()), "a call consumes the return signal of its body", "evalFunccall must unwrap *returnVal and must not hand the signal itself to its caller (a return would leave more than the current call)")
	} else {
		r.Undecided("evalFunccall not found")
	}
	// zero step
	if fd := FindFunc(pkg, "(*Evaluator).newStepRange"); fd != nil {
		sf := p.SSAFunc(fd.Obj)
		var zeroIf *ssa.If
		var alloc *ssa.Alloc
		for _, b := range sf.Blocks {
			for _, ins := range b.Instrs {
				switch x := ins.(type) {
				case *ssa.If:
					if bo, ok := x.Cond.(*ssa.BinOp); ok && bo.Op == token.EQL {
						if k, ok := bo.Y.(*ssa.Const); ok && k.Value != nil && k.Value.ExactString() == "0" {
							zeroIf = x
						}
					}
				case *ssa.Alloc:
					if isNamed(x.Type().Underlying().(*types.Pointer).Elem(), pkg.PkgPath, "stepRange") {
						alloc = x
					}
				}
			}
		}
		okz := false
		if zeroIf != nil {
			tb := zeroIf.Block().Succs[0]
			if len(tb.Instrs) > 0 {
				if ret, ok := tb.Instrs[len(tb.Instrs)-1].(*ssa.Return); ok && len(ret.Results) == 2 && !mayBeNilError(ret.Results[1], tb, 0) {
					okz = true
				}
			}
			// every return that hands out a range lies behind the non-zero edge
			fb := zeroIf.Block().Succs[1]
			for _, ret := range returnsOf(sf) {
				if len(ret.Results) != 2 {
					continue
				}
				if k, ok := ret.Results[1].(*ssa.Const); ok && k.IsNil() {
					if !(fb == ret.Block() || fb.Dominates(ret.Block())) {
						okz = false
					}
				}
			}
			// the tested value is the step operand of the range: the number evaluated from GetStep()
			if okz {
				okz = false
				// … or, however it was obtained, the very value that becomes the range's step
				if alloc != nil {
					if sv := storedFieldValue(alloc, "step"); sv != nil && sv == zeroIf.Cond.(*ssa.BinOp).X {
						okz = true
					}
				}
				if ex, ok := zeroIf.Cond.(*ssa.BinOp).X.(*ssa.Extract); ok && ex.Index == 0 {
					if call, ok := ex.Tuple.(*ssa.Call); ok && len(call.Call.Args) >= 2 {
						if inv, ok := call.Call.Args[len(call.Call.Args)-1].(*ssa.Call); ok && (inv.Call.IsInvoke() && inv.Call.Method.Name() == "GetStep" || inv.Call.StaticCallee() != nil && inv.Call.StaticCallee().Name() == "GetStep") {
							okz = true
						}
					}
				}
			}
		}
		r.Check(okz, fd.QName()+"#zero-step", p.Rel(fd.Decl.Pos()), "a zero step is rejected with an error before the range exists", "newStepRange must return an error when step == 0 before constructing the stepRange (otherwise the loop never terminates)")
	} else {
		r.Undecided("newStepRange not found")
	}
	// range operand evaluated once: newRange call in evalFor is outside every cycle
	if fd := FindFunc(pkg, "(*Evaluator).evalFor"); fd != nil {
		sf := p.SSAFunc(fd.Obj)
		nr := FindFunc(pkg, "(*Evaluator).newRange")
		if nr != nil {
			calls := callsTo(sf, p.SSAFunc(nr.Obj))
			okc := len(calls) == 1 && !inCycle(calls[0].Block())
			r.Check(okc, fd.QName()+"#range-once", p.Rel(fd.Decl.Pos()), "the range operand is evaluated once at loop entry", "newRange must be called exactly once, outside the iteration loop of evalFor")
		}
	}
}

// edgeReturnsPlain: on the true edge of `if isBreak(v)`, the function's value result is not v (nil or a fresh value).
func edgeReturnsPlain(ifi *ssa.If, v ssa.Value) (bool, string) {
	t := ifi.Block().Succs[0]
	// follow unconditional jumps
	prev := ifi.Block()
	for steps := 0; steps < 8; steps++ {
		if len(t.Instrs) == 0 {
			break
		}
		last := t.Instrs[len(t.Instrs)-1]
		if ret, ok := last.(*ssa.Return); ok {
			if len(ret.Results) == 0 {
				return false, "no value returned"
			}
			for _, res := range resultValues(ret, 0) {
				if phi, ok := res.(*ssa.Phi); ok && phi.Block() == t {
					for i, pred := range t.Preds {
						if pred == prev {
							res = phi.Edges[i]
						}
					}
				}
				if derivesFromErr(res, v, 0) {
					return false, "on the break edge the loop evaluator returns the break signal itself: the enclosing loop would be left as well"
				}
			}
			return true, ""
		}
		if _, ok := last.(*ssa.Jump); ok {
			prev = t
			t = t.Succs[0]
			continue
		}
		break
	}
	return false, "cannot follow the break edge to a return"
}

// ---------------------------------------------------------------------------
// R-PARSEGATE

var ruleParseGate = &Rule{
	ID:    "R-PARSEGATE",
	Doc:   "evaluation is gated on an error-free parse: Parse returns a program only when no error was recorded; (*Evaluator).Run calls Eval only on the err == nil edge; `evy run` skips the SVG output exactly for parser.Errors and hands the error to handleEvyErr, which prints to stderr and exits with status 1 (or the exit status of an ExitError)",
	Floor: 6,
	Run:   runParseGate,
}

func runParseGate(c *Ctx, r *Reporter) {
	p, err := c.Default()
	if err != nil {
		r.Undecided("%v", err)
		return
	}
	evalPkg, parserPkg, mainPkg := p.Pkg("pkg/evaluator"), p.Pkg("pkg/parser"), p.Pkg("")
	// Parse
	if fd := FindFunc(parserPkg, "Parse"); fd != nil {
		sf := p.SSAFunc(fd.Obj)
		n := 0
		for _, ret := range returnsOf(sf) {
			if len(ret.Results) != 2 {
				continue
			}
			if k, ok := ret.Results[0].(*ssa.Const); ok && k.IsNil() {
				continue
			}
			n++
			// dominated by the false edge of `len(errors) > 0`
			okg := false
			for d := ret.Block(); d != nil; d = d.Idom() {
				idom := d.Idom()
				if idom == nil || len(idom.Instrs) == 0 {
					continue
				}
				ifi, ok := idom.Instrs[len(idom.Instrs)-1].(*ssa.If)
				if !ok {
					continue
				}
				if bo, ok := ifi.Cond.(*ssa.BinOp); ok && bo.Op == token.GTR {
					if call, ok := bo.X.(*ssa.Call); ok {
						if bi, ok := call.Call.Value.(*ssa.Builtin); ok && bi.Name() == "len" && loadsField(call.Call.Args[0], "errors") {
							if idom.Succs[1] == d || idom.Succs[1].Dominates(ret.Block()) {
								// the check must come after the parse call: the block of the If is dominated by a call to parse
								okg = true
							}
						}
					}
				}
				if okg {
					break
				}
			}
			// the program comes from parser.parse() and the test follows it
			r.Check(okg, fmt.Sprintf("%s#return-program[%d]", fd.QName(), n), p.Rel(instrPos(ret)), "a program is returned only when no error was recorded", "Parse returns a non-nil program on a path that is not guarded by len(parser.errors) == 0")
			if call, ok := ret.Results[0].(*ssa.Call); ok {
				// the len check between the call and the return
				okAfter := false
				for d := ret.Block(); d != nil; d = d.Idom() {
					if d == call.Block() {
						break
					}
					idom := d.Idom()
					if idom != nil && len(idom.Instrs) > 0 {
						if _, isIf := idom.Instrs[len(idom.Instrs)-1].(*ssa.If); isIf && (idom == call.Block() || call.Block().Dominates(idom)) {
							okAfter = true
						}
					}
				}
				r.Check(okAfter, fmt.Sprintf("%s#check-after-parse[%d]", fd.QName(), n), p.Rel(instrPos(ret)), "the error check follows the parse", "the error-count check does not lie between parser.parse() and the return of its program")
			}
		}
		if n == 0 {
			r.Undecided("Parse has no return of a program")
		}
		// the main pass runs only when the signature pre-pass recorded no error: the pre-pass leaves nil types in
		// signatures it could not parse (FuncDefStmt.ReturnType after "invalid return type"), and the main pass
		// dereferences signature types without a nil test
		prepassNil := ""
		for _, ofn := range ssaFuncsOf(p, parserPkg) {
			for _, b := range ofn.Blocks {
				for _, ins := range b.Instrs {
					st, ok := ins.(*ssa.Store)
					if !ok {
						continue
					}
					fa, ok := st.Addr.(*ssa.FieldAddr)
					if !ok {
						continue
					}
					named, field := fieldAddrInfo(fa)
					if named == nil || named.Obj().Name() != "FuncDefStmt" {
						continue
					}
					if call, ok := st.Val.(*ssa.Call); ok && call.Call.StaticCallee() != nil && call.Call.StaticCallee().Name() == "parseType" {
						prepassNil = "FuncDefStmt." + field + " = parseType() in " + ofn.Name()
					}
				}
			}
		}
		var parseCall *ssa.Call
		for _, b := range sf.Blocks {
			for _, ins := range b.Instrs {
				if call, ok := ins.(*ssa.Call); ok && call.Call.StaticCallee() != nil && call.Call.StaticCallee().Name() == "parse" {
					parseCall = call
				}
			}
		}
		switch {
		case parseCall == nil:
			r.Undecided("Parse does not call (*parser).parse")
		case prepassNil == "":
			r.Ok(fd.QName()+"#main-pass-after-clean-prepass", p.Rel(instrPos(parseCall)), "the signature pre-pass stores no possibly-nil type into a signature: nothing to gate")
		default:
			gated := false
			for d := parseCall.Block(); d != nil; d = d.Idom() {
				idom := d.Idom()
				if idom == nil || len(idom.Instrs) == 0 {
					continue
				}
				ifi, ok := idom.Instrs[len(idom.Instrs)-1].(*ssa.If)
				if !ok {
					continue
				}
				if bo, ok := ifi.Cond.(*ssa.BinOp); ok && bo.Op == token.GTR {
					if call, ok := bo.X.(*ssa.Call); ok {
						if bi, ok := call.Call.Value.(*ssa.Builtin); ok && bi.Name() == "len" && loadsField(call.Call.Args[0], "errors") && edgeDominates(idom, 1, parseCall.Block()) {
							gated = true
						}
					}
				}
			}
			r.Check(gated, fd.QName()+"#main-pass-after-clean-prepass", p.Rel(instrPos(parseCall)),
				"the main pass runs only on the edge where the pre-pass recorded no error ("+prepassNil+" can be nil otherwise)",
				"parser.parse() runs although newParser may have recorded errors: the pre-pass stores a nil type into a signature it cannot parse ("+prepassNil+
					"), and the main pass dereferences signature types (validateBinaryType, combineTypes, accepts) — e.g. `func f:nun` plus `(f) + 1` crashes the parser")
		}
	} else {
		r.Undecided("parser.Parse not found")
	}
	// Evaluator.Run
	if fd := FindFunc(evalPkg, "(*Evaluator).Run"); fd != nil {
		sf := p.SSAFunc(fd.Obj)
		var parseCall, evalCall *ssa.Call
		for _, b := range sf.Blocks {
			for _, ins := range b.Instrs {
				if call, ok := ins.(*ssa.Call); ok {
					if sc := call.Call.StaticCallee(); sc != nil {
						if sc.Name() == "Parse" && sc.Pkg != nil && sc.Pkg.Pkg.Path() == parserPkg.PkgPath {
							parseCall = call
						}
						if sc.Name() == "Eval" {
							evalCall = call
						}
					}
				}
			}
		}
		okg := false
		if parseCall != nil && evalCall != nil {
			okg = guardedByNilErr(parseCall, evalCall)
		}
		r.Check(okg, fd.QName()+"#gate", p.Rel(fd.Decl.Pos()), "Eval is reached only when Parse returned no error", "(*Evaluator).Run must call Eval only on the err == nil edge of parser.Parse")
		// Eval's argument is Parse's program
		if okg {
			arg := evalCall.Call.Args[len(evalCall.Call.Args)-1]
			ex, isEx := arg.(*ssa.Extract)
			r.Check(isEx && ex.Tuple == ssa.Value(parseCall) && ex.Index == 0, fd.QName()+"#program", p.Rel(fd.Decl.Pos()), "the evaluated program is the parsed one", "Eval is not called with the program returned by Parse")
		}
	} else {
		r.Undecided("(*Evaluator).Run not found")
	}
	// main
	if fd := FindFunc(mainPkg, "(*runCmd).Run"); fd != nil {
		sf := p.SSAFunc(fd.Obj)
		var runCall, asCall, svgCall, handleCall *ssa.Call
		var asCalls, handleCalls []*ssa.Call
		// the command may be split into helpers: the calls are looked for in the command function and the functions of
		// the main package it calls
		for _, h := range regionFns(sf, 2, nil) {
			if h.Pkg != sf.Pkg {
				continue
			}
			for _, b := range h.Blocks {
				for _, ins := range b.Instrs {
					if call, ok := ins.(*ssa.Call); ok {
						if sc := call.Call.StaticCallee(); sc != nil {
							switch {
							case sc.Name() == "Run" && sc.Pkg != nil && sc.Pkg.Pkg.Path() == evalPkg.PkgPath:
								runCall = call
							case sc.Name() == "As" && sc.Pkg != nil && sc.Pkg.Pkg.Path() == "errors":
								asCalls = append(asCalls, call)
							case sc.Name() == "writeSVG":
								svgCall = call
							case sc.Name() == "handleEvyErr":
								handleCall = call
								handleCalls = append(handleCalls, call)
							}
						}
					}
				}
			}
		}
		for _, ac := range asCalls { // the errors.As that examines Run's error
			if runCall != nil && ac.Parent() == runCall.Parent() && len(ac.Call.Args) == 2 && valueReaches(ac.Call.Args[0], runCall, 3) {
				asCall = ac
			}
		}
		if runCall == nil || handleCall == nil {
			r.Viol(fd.QName()+"#report", p.Rel(fd.Decl.Pos()), "`evy run` must run the program through (*Evaluator).Run and hand its error to handleEvyErr")
		} else if runCall.Parent() == handleCall.Parent() {
			// handleEvyErr on every path after Run
			// (several calls: each either hands over Run's error or sits where that error is known to be nil)
			var hblocks []*ssa.BasicBlock
			okh := true
			for _, hc := range handleCalls {
				if hc.Parent() != runCall.Parent() {
					continue
				}
				hblocks = append(hblocks, hc.Block())
				if valueReaches(hc.Call.Args[0], runCall, 5) {
					continue
				}
				knownNil := false
				for _, f := range impliedConds(hc.Block()) {
					if bo, ok := f.Cond.(*ssa.BinOp); ok && (bo.Op == token.NEQ || bo.Op == token.EQL) {
						if k, ok := bo.Y.(*ssa.Const); ok && k.IsNil() && valueReaches(bo.X, runCall, 3) && f.Truth == (bo.Op == token.EQL) {
							knownNil = true
						}
					}
				}
				if !knownNil {
					okh = false
				}
			}
			okh = okh && len(hblocks) > 0 && !anyReturnPathAvoiding(runCall.Block(), hblocks)
			r.Check(okh, fd.QName()+"#report", p.Rel(instrPos(handleCall)), "the evaluation error always reaches handleEvyErr", "a path from eval.Run to the end of `evy run` avoids handleEvyErr, or handleEvyErr does not receive Run's error: a rejected program could end with status 0")
		} else {
			// the program is run in a helper: the helper returns Run's error whenever there is one, and its caller hands
			// the helper's result to handleEvyErr on every path
			runFn, hFn := runCall.Parent(), handleCall.Parent()
			okh := false
			for _, hc := range callsTo(hFn, runFn) {
				inner, isCall := hc.(*ssa.Call)
				if !isCall {
					continue
				}
				okh = !anyReturnPathAvoiding(inner.Block(), []*ssa.BasicBlock{handleCall.Block()}) && reachesBlock(inner.Block(), handleCall.Block()) &&
					valueReaches(handleCall.Call.Args[0], inner, 5)
			}
			for _, ret := range returnsOf(runFn) {
				if len(ret.Results) == 0 {
					okh = false
					continue
				}
				if valueReaches(ret.Results[len(ret.Results)-1], runCall, 5) {
					continue
				}
				knownNil := false // Run's error is nil on this path: another error may be returned
				for _, f := range impliedConds(ret.Block()) {
					if bo, ok := f.Cond.(*ssa.BinOp); ok && (bo.Op == token.NEQ || bo.Op == token.EQL) {
						if k, ok := bo.Y.(*ssa.Const); ok && k.IsNil() && valueReaches(bo.X, runCall, 3) && f.Truth == (bo.Op == token.EQL) {
							knownNil = true
						}
					}
				}
				if !knownNil {
					okh = false
				}
			}
			r.Check(okh, fd.QName()+"#report", p.Rel(instrPos(handleCall)), "the evaluation error always reaches handleEvyErr (through "+runFn.Name()+")", "a path from eval.Run to the end of `evy run` avoids handleEvyErr, or handleEvyErr does not receive Run's error: a rejected program could end with status 0")
		}
		if svgCall != nil {
			okS := false
			if asCall != nil && len(asCall.Call.Args) == 2 {
				// target type *parser.Errors and first arg is Run's error; svg on the false edge
				tgt := asCall.Call.Args[1]
				if mi, ok := tgt.(*ssa.MakeInterface); ok {
					if pt, ok := mi.X.Type().Underlying().(*types.Pointer); ok && isNamed(pt.Elem(), parserPkg.PkgPath, "Errors") && !isPointer(pt.Elem()) {
						if valueReaches(asCall.Call.Args[0], runCall, 3) {
							blk := asCall.Block()
							if ifi, ok := blk.Instrs[len(blk.Instrs)-1].(*ssa.If); ok && ifi.Cond == ssa.Value(asCall) {
								okS = (blk.Succs[1] == svgCall.Block() || blk.Succs[1].Dominates(svgCall.Block())) && !blk.Succs[0].Dominates(svgCall.Block())
							}
						}
					}
				}
			}
			r.Check(okS, fd.QName()+"#no-svg-on-parse-error", p.Rel(instrPos(svgCall)), "no SVG is written for a program that was rejected by the parser", "writeSVG is not confined to the edge where errors.As(evyErr, *parser.Errors) is false: a rejected program still produces drawing output")
		}
	} else {
		r.Undecided("main.(*runCmd).Run not found")
	}
	if fd := FindFunc(mainPkg, "handleEvyErr"); fd != nil {
		sf := p.SSAFunc(fd.Obj)
		exits := map[string]bool{}
		stderr := false
		for _, b := range sf.Blocks {
			for _, ins := range b.Instrs {
				call, ok := ins.(*ssa.Call)
				if !ok {
					continue
				}
				sc := call.Call.StaticCallee()
				if sc == nil || sc.Pkg == nil {
					continue
				}
				if sc.Pkg.Pkg.Path() == "os" && sc.Name() == "Exit" {
					// the status, or what a helper of the package that computes it returns
					vals := []ssa.Value{call.Call.Args[0]}
					if ex, ok := call.Call.Args[0].(*ssa.Extract); ok {
						if hc, ok := ex.Tuple.(*ssa.Call); ok && hc.Call.StaticCallee() != nil && hc.Call.StaticCallee().Pkg == sf.Pkg {
							vals = nil
							for _, ret := range returnsOf(hc.Call.StaticCallee()) {
								vals = append(vals, ret.Results[ex.Index])
							}
						}
					} else if hc, ok := call.Call.Args[0].(*ssa.Call); ok && hc.Call.StaticCallee() != nil && hc.Call.StaticCallee().Pkg == sf.Pkg {
						vals = nil
						for _, ret := range returnsOf(hc.Call.StaticCallee()) {
							vals = append(vals, ret.Results[0])
						}
					}
					// a status merged from several paths (exitCode := 1; if … { exitCode = int(exitErr) }) stands for each
					var flat []ssa.Value
					var fl func(v ssa.Value, depth int)
					fl = func(v ssa.Value, depth int) {
						if phi, ok := v.(*ssa.Phi); ok && depth < 4 {
							for _, e := range phi.Edges {
								fl(e, depth+1)
							}
							return
						}
						flat = append(flat, v)
					}
					for _, v := range vals {
						fl(v, 0)
					}
					for _, v := range flat {
						if k, ok := v.(*ssa.Const); ok && k.Value != nil {
							exits[k.Value.ExactString()] = true
						} else {
							exits["dynamic"] = true
						}
					}
				}
				if sc.Pkg.Pkg.Path() == "fmt" && strings.HasPrefix(sc.Name(), "Fprint") {
					if u, ok := stripValue(call.Call.Args[0]).(*ssa.UnOp); ok {
						if g, ok := u.X.(*ssa.Global); ok && g.Name() == "Stderr" {
							stderr = true
						}
					}
				}
			}
		}
		r.Check(exits["1"] && !exits["0"], fd.QName()+"#status", p.Rel(fd.Decl.Pos()), "errors end the process with status 1", "handleEvyErr must call os.Exit(1) for errors (and never os.Exit(0))")
		r.Check(exits["dynamic"], fd.QName()+"#exit-status", p.Rel(fd.Decl.Pos()), "exit n ends the process with status n", "handleEvyErr does not map ExitError to its status")
		r.Check(stderr, fd.QName()+"#stderr", p.Rel(fd.Decl.Pos()), "the error is printed on stderr", "handleEvyErr does not print the error to os.Stderr")
		// nil error returns before any exit: the first If tests err == nil
	} else {
		r.Undecided("main.handleEvyErr not found")
	}
}

func isPointer(t types.Type) bool {
	_, ok := t.(*types.Pointer)
	return ok
}

func loadsField(v ssa.Value, field string) bool {
	if u, ok := v.(*ssa.UnOp); ok {
		if fa, ok := u.X.(*ssa.FieldAddr); ok {
			_, name := fieldAddrInfo(fa)
			return name == field
		}
	}
	return false
}

// guardedByNilErr: `use` is dominated by the err == nil edge of the error result of `call`.
func guardedByNilErr(call *ssa.Call, use ssa.Instruction) bool {
	n := call.Call.StaticCallee().Signature.Results().Len()
	var errVal ssa.Value
	if n == 1 {
		errVal = call
	} else if refs := call.Referrers(); refs != nil {
		for _, ref := range *refs {
			if ex, ok := ref.(*ssa.Extract); ok && ex.Index == n-1 {
				errVal = ex
			}
		}
	}
	if errVal == nil {
		return false
	}
	for d := use.Block(); d != nil; d = d.Idom() {
		idom := d.Idom()
		if idom == nil || len(idom.Instrs) == 0 {
			continue
		}
		ifi, ok := idom.Instrs[len(idom.Instrs)-1].(*ssa.If)
		if !ok {
			continue
		}
		bo, ok := ifi.Cond.(*ssa.BinOp)
		if !ok || bo.X != errVal {
			continue
		}
		k, ok := bo.Y.(*ssa.Const)
		if !ok || !k.IsNil() {
			continue
		}
		nilEdge := 1
		if bo.Op == token.EQL {
			nilEdge = 0
		}
		if edgeDominates(idom, nilEdge, use.Block()) {
			return true
		}
	}
	return false
}

// valueReaches: v derives (through phis, extracts, simple calls with it as first argument) from the result of call.
func valueReaches(v ssa.Value, call *ssa.Call, depth int) bool {
	if depth == 0 {
		return false
	}
	switch x := v.(type) {
	case *ssa.Call:
		if x == call {
			return true
		}
		for _, a := range x.Call.Args {
			if valueReaches(a, call, depth-1) {
				return true
			}
		}
		if x.Call.IsInvoke() && valueReaches(x.Call.Value, call, depth-1) {
			return true
		}
	case *ssa.Convert:
		return valueReaches(x.X, call, depth-1)
	case *ssa.ChangeType:
		return valueReaches(x.X, call, depth-1)
	case *ssa.Extract:
		return valueReaches(x.Tuple, call, depth-1)
	case *ssa.Phi:
		for _, e := range x.Edges {
			if valueReaches(e, call, depth-1) {
				return true
			}
		}
	case *ssa.MakeInterface:
		return valueReaches(x.X, call, depth-1)
	case *ssa.Slice:
		if al, ok := x.X.(*ssa.Alloc); ok {
			for _, ref := range *al.Referrers() {
				if ia, ok := ref.(*ssa.IndexAddr); ok {
					for _, r2 := range *ia.Referrers() {
						if st, ok := r2.(*ssa.Store); ok && valueReaches(st.Val, call, depth-1) {
							return true
						}
					}
				}
			}
		}
	case *ssa.UnOp:
		return valueReaches(x.X, call, depth-1)
	}
	return false
}
