package check

import (
	"go/ast"
	"go/token"
	"go/types"
	"strings"

	"golang.org/x/tools/go/packages"
	"golang.org/x/tools/go/ssa"
	"golang.org/x/tools/go/types/typeutil"
)

// relPkg returns the module-relative package path ("pkg/parser", "" for main).
func relPkg(path string) string {
	return strings.TrimPrefix(strings.TrimPrefix(path, ModulePath), "/")
}

// rootIdent returns the identifier at the root of a selector/index/star/paren chain.
func rootIdent(e ast.Expr) *ast.Ident {
	for {
		switch x := e.(type) {
		case *ast.Ident:
			return x
		case *ast.SelectorExpr:
			e = x.X
		case *ast.IndexExpr:
			e = x.X
		case *ast.StarExpr:
			e = x.X
		case *ast.ParenExpr:
			e = x.X
		case *ast.SliceExpr:
			e = x.X
		case *ast.TypeAssertExpr:
			e = x.X
		case *ast.UnaryExpr:
			e = x.X
		case *ast.CallExpr:
			// method call chain a.b().c : follow receiver
			if sel, ok := x.Fun.(*ast.SelectorExpr); ok {
				e = sel.X
				continue
			}
			return nil
		default:
			return nil
		}
	}
}

// calleeFunc resolves the static callee of a call (function or method), or nil.
func calleeFunc(info *types.Info, call *ast.CallExpr) *types.Func {
	f, _ := typeutil.Callee(info, call).(*types.Func)
	return f
}

// isBuiltinCall reports whether call is a call of the named Go builtin.
func isBuiltinCall(info *types.Info, call *ast.CallExpr, name string) bool {
	id, ok := ast.Unparen(call.Fun).(*ast.Ident)
	if !ok || id.Name != name {
		return false
	}
	_, ok = info.Uses[id].(*types.Builtin)
	return ok
}

// isConversion reports whether call is a type conversion and returns the target type.
func isConversion(info *types.Info, call *ast.CallExpr) (types.Type, bool) {
	tv, ok := info.Types[call.Fun]
	if ok && tv.IsType() {
		return tv.Type, true
	}
	return nil, false
}

// isInterfaceMethod reports whether fn is a method declared on an interface.
func isInterfaceMethod(fn *types.Func) bool {
	sig, ok := fn.Type().(*types.Signature)
	if !ok || sig.Recv() == nil {
		return false
	}
	return types.IsInterface(sig.Recv().Type())
}

// recvNamed returns the named receiver type of a method (through pointer), or nil.
func recvNamed(fn *types.Func) *types.Named {
	sig, ok := fn.Type().(*types.Signature)
	if !ok || sig.Recv() == nil {
		return nil
	}
	t := sig.Recv().Type()
	if p, ok := t.(*types.Pointer); ok {
		t = p.Elem()
	}
	n, _ := t.(*types.Named)
	return n
}

// namedOf strips pointers and returns the named type, or nil.
func namedOf(t types.Type) *types.Named {
	if t == nil {
		return nil
	}
	if p, ok := t.(*types.Pointer); ok {
		t = p.Elem()
	}
	n, _ := t.(*types.Named)
	return n
}

// isNamed reports whether t (through one pointer) is the named type pkgPath.name.
func isNamed(t types.Type, pkgPath, name string) bool {
	n := namedOf(t)
	if n == nil || n.Obj() == nil || n.Obj().Name() != name {
		return false
	}
	if n.Obj().Pkg() == nil {
		return pkgPath == ""
	}
	return n.Obj().Pkg().Path() == pkgPath
}

// implementers returns the concrete methods in pkgs that implement the
// interface method m.
func implementers(pkgs []*packages.Package, m *types.Func) []*types.Func {
	sig := m.Type().(*types.Signature)
	iface, ok := sig.Recv().Type().Underlying().(*types.Interface)
	if !ok {
		return nil
	}
	var out []*types.Func
	for _, pkg := range pkgs {
		scope := pkg.Types.Scope()
		for _, name := range scope.Names() {
			tn, ok := scope.Lookup(name).(*types.TypeName)
			if !ok || tn.IsAlias() {
				continue
			}
			named, ok := tn.Type().(*types.Named)
			if !ok || types.IsInterface(named) {
				continue
			}
			for _, t := range []types.Type{named, types.NewPointer(named)} {
				if types.Implements(t, iface) {
					obj, _, _ := types.LookupFieldOrMethod(t, true, m.Pkg(), m.Name())
					if f, ok := obj.(*types.Func); ok {
						out = append(out, f)
					}
					break
				}
			}
		}
	}
	return out
}

// concreteNodeTypes returns all named non-interface types of pkg that
// implement iface (directly or via pointer), sorted by name.
func concreteImplementers(pkg *types.Package, iface *types.Interface) []*types.Named {
	var out []*types.Named
	scope := pkg.Scope()
	for _, name := range scope.Names() {
		tn, ok := scope.Lookup(name).(*types.TypeName)
		if !ok || tn.IsAlias() {
			continue
		}
		named, ok := tn.Type().(*types.Named)
		if !ok || types.IsInterface(named) {
			continue
		}
		if types.Implements(named, iface) || types.Implements(types.NewPointer(named), iface) {
			out = append(out, named)
		}
	}
	return out
}

// funcOfSSA returns the source-level display name of an SSA function
// (anonymous functions are attributed to their parent).
func ssaDisplayName(fn *ssa.Function) string {
	for fn.Parent() != nil {
		fn = fn.Parent()
	}
	if obj, ok := fn.Object().(*types.Func); ok && obj != nil {
		return funcDisplayName(obj)
	}
	return fn.Name()
}

// ssaQName returns "pkg/rel.Name" for an SSA function.
func ssaQName(fn *ssa.Function) string {
	top := fn
	for top.Parent() != nil {
		top = top.Parent()
	}
	pkg := ""
	if top.Pkg != nil {
		pkg = relPkg(top.Pkg.Pkg.Path())
		if !strings.HasPrefix(top.Pkg.Pkg.Path(), ModulePath) {
			pkg = top.Pkg.Pkg.Path()
		}
	}
	return pkg + "." + ssaDisplayName(fn)
}

// allSSAFuncs returns fn and all anonymous functions nested in it.
func withAnon(fn *ssa.Function) []*ssa.Function {
	out := []*ssa.Function{fn}
	for _, a := range fn.AnonFuncs {
		out = append(out, withAnon(a)...)
	}
	return out
}

// instrPos returns the best position for an instruction.
func instrPos(i ssa.Instruction) token.Pos {
	if p := i.Pos(); p.IsValid() {
		return p
	}
	if v, ok := i.(ssa.Value); ok {
		if refs := v.Referrers(); refs != nil {
			for _, r := range *refs {
				if p := r.Pos(); p.IsValid() {
					return p
				}
			}
		}
	}
	return token.NoPos
}

// staticCalleeOf returns the static callee of a call instruction, following
// immediately-applied closures (MakeClosure) too.
func staticCalleeOf(c *ssa.CallCommon) *ssa.Function {
	if f := c.StaticCallee(); f != nil {
		return f
	}
	return nil
}

// constString returns the constant string value of an expression if any.
func constString(info *types.Info, e ast.Expr) (string, bool) {
	tv, ok := info.Types[e]
	if !ok || tv.Value == nil {
		return "", false
	}
	s := tv.Value.ExactString()
	if len(s) >= 2 && s[0] == '"' {
		// constant.StringVal would be cleaner, but ExactString is a quoted Go string.
		unq, err := unquote(s)
		if err == nil {
			return unq, true
		}
	}
	return "", false
}
