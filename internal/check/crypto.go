package check

import (
	"fmt"
	"go/token"
	"go/types"
	"sort"
	"strings"

	"golang.org/x/tools/go/ssa"
)

const learnPath = "evylang.dev/evy/learn/pkg/learn"

var ruleCrypto = &Rule{
	ID:    "R-CRYPTO",
	Doc:   "sealed answers (learn module): the symmetric layer is an AEAD (cipher.NewGCM with Seal/Open, no stream/CBC mode); every error of the decode/decrypt chain is tested and returned before the value is used; the envelope is sliced only behind a covering `len <` check (in hybridDecrypt or the helper it hands the envelope to) and is rejected for its length only by `len < bound` with a bound it is sliced at; hybridEncrypt and hybridDecrypt agree on hash, label, nonce, additional data and header layout; the crypto functions keep no package-level state; verifyChoiceMatch has both rejection conditions on the exact outputs; match verification is decided by isMatchQuestion",
	Floor: 25,
	Run:   runCrypto,
}

func runCrypto(c *Ctx, r *Reporter) {
	p, err := c.Learn()
	if err != nil {
		r.Undecided("%v", err)
		return
	}
	pkg := p.ByPath[learnPath]
	if pkg == nil {
		r.Undecided("package %s not loaded", learnPath)
		return
	}
	get := func(name string) *ssa.Function {
		fd := FindFunc(pkg, name)
		if fd == nil {
			r.Undecided("learn.%s not found", name)
			return nil
		}
		return p.SSAFunc(fd.Obj)
	}
	enc, dec := get("hybridEncrypt"), get("hybridDecrypt")
	if enc == nil || dec == nil {
		return
	}
	q := func(fn *ssa.Function) string { return "learn." + ssaDisplayName(fn) }
	// 1. AEAD
	// the two functions are looked at together with the helpers of the package they call (newSessionGCM, envelopeHeader …)
	regionBlocks := func(fn *ssa.Function) []*ssa.BasicBlock {
		var out []*ssa.BasicBlock
		for _, h := range regionFns(fn, 2, map[string]bool{"hybridEncrypt": true, "hybridDecrypt": true}) {
			out = append(out, h.Blocks...)
		}
		return out
	}
	callsNamed := func(fn *ssa.Function, name string) []*ssa.Call {
		var out []*ssa.Call
		for _, b := range regionBlocks(fn) {
			for _, ins := range b.Instrs {
				if call, ok := ins.(*ssa.Call); ok {
					full := ""
					if sc := call.Call.StaticCallee(); sc != nil {
						full = pkgFuncName(sc)
					} else if call.Call.IsInvoke() {
						full = call.Call.Value.Type().String() + "." + call.Call.Method.Name()
					}
					if full == name {
						out = append(out, call)
					}
				}
			}
		}
		return out
	}
	r.Check(len(callsNamed(enc, "crypto/cipher.NewGCM")) == 1 && len(callsNamed(enc, "crypto/cipher.AEAD.Seal")) == 1, q(enc)+"#aead", p.Rel(enc.Pos()), "the message is sealed with AES-GCM (authenticated)", "hybridEncrypt must seal with cipher.NewGCM(...).Seal")
	r.Check(len(callsNamed(dec, "crypto/cipher.NewGCM")) == 1 && len(callsNamed(dec, "crypto/cipher.AEAD.Open")) == 1, q(dec)+"#aead", p.Rel(dec.Pos()), "the message is opened with AES-GCM (tampering is rejected)", "hybridDecrypt must open with cipher.NewGCM(...).Open")
	fns := ssaFuncsOf(p, pkg)
	n := 0
	for _, fn := range fns {
		for _, b := range fn.Blocks {
			for _, ins := range b.Instrs {
				if call, ok := ins.(*ssa.Call); ok {
					if sc := call.Call.StaticCallee(); sc != nil && sc.Pkg != nil && sc.Pkg.Pkg.Path() == "crypto/cipher" {
						switch sc.Name() {
						case "NewGCM", "NewGCMWithNonceSize", "NewGCMWithTagSize":
						default:
							n++
							r.Viol(fmt.Sprintf("%s#cipher-mode[%d]", q(fn), n), p.Rel(instrPos(call)), "uses crypto/cipher."+sc.Name()+": an unauthenticated mode lets an altered sealed value decrypt to a different answer")
						}
					}
					if call.Call.IsInvoke() && call.Call.Method.Name() == "XORKeyStream" {
						n++
						r.Viol(fmt.Sprintf("%s#cipher-mode[%d]", q(fn), n), p.Rel(instrPos(call)), "uses a stream cipher (XORKeyStream): an altered sealed value decrypts to a different answer")
					}
				}
			}
		}
	}
	// 2. error discipline
	chain := []string{"Encrypt", "Decrypt", "hybridEncrypt", "hybridDecrypt", "parsePublicKey", "parsePrivateKey", "(*questionFrontmatter).getAnswer", "(*questionFrontmatter).Seal", "(*questionFrontmatter).Unseal"}
	isSig := func(call *ssa.Call) bool {
		res := call.Call.Signature().Results()
		if res.Len() == 0 || !isErrorType(res.At(res.Len()-1).Type()) {
			return false
		}
		if sc := call.Call.StaticCallee(); sc != nil && sc.Pkg != nil && (sc.Pkg.Pkg.Path() == "fmt" || sc.Pkg.Pkg.Path() == "errors") {
			return false // error constructors
		}
		return true
	}
	for _, name := range chain {
		fn := get(name)
		if fn == nil {
			continue
		}
		k := 0
		for _, b := range fn.Blocks {
			for _, ins := range b.Instrs {
				call, ok := ins.(*ssa.Call)
				if !ok || !isSig(call) {
					continue
				}
				k++
				why := errorDisciplineGen(call, isSig)
				// the value result must not be used on the failing edge
				r.Check(why == "", fmt.Sprintf("%s#error[%d]:%s", q(fn), k, callName(call)), p.Rel(instrPos(call)), "the error is tested and returned before anything else happens", "the error of "+callName(call)+" is not returned where it may be non-nil ("+why+"): a corrupt or foreign sealed value would be treated as if it had decrypted")
			}
		}
	}
	// 3. slices of the envelope behind length checks — in hybridDecrypt and in a helper it hands the envelope to
	var decEnvelope *ssa.Parameter
	for _, prm := range dec.Params {
		if _, ok := prm.Type().Underlying().(*types.Slice); ok {
			decEnvelope = prm
		}
	}
	type envSite struct {
		fn  *ssa.Function
		env *ssa.Parameter
	}
	envSites := []envSite{{dec, decEnvelope}}
	for _, h := range regionFns(dec, 2, map[string]bool{"hybridEncrypt": true}) {
		if h == dec {
			continue
		}
		for _, ci := range callsTo(dec, h) {
			for ai, a := range ci.Common().Args {
				if a == ssa.Value(decEnvelope) && ai < len(h.Params) {
					envSites = append(envSites, envSite{h, h.Params[ai]})
				}
			}
		}
	}
	k := 0
	for _, es := range envSites {
		envelope := es.env
		var bounds []ssa.Value // the bounds the envelope is sliced at in this function
		for _, b := range es.fn.Blocks {
			for _, ins := range b.Instrs {
				if sl, ok := ins.(*ssa.Slice); ok && sl.X == ssa.Value(envelope) {
					for _, bv := range []ssa.Value{sl.Low, sl.High} {
						if bv != nil {
							bounds = append(bounds, bv)
						}
					}
				}
			}
		}
		for _, b := range es.fn.Blocks {
			for _, ins := range b.Instrs {
				sl, ok := ins.(*ssa.Slice)
				if !ok || sl.X != ssa.Value(envelope) {
					continue
				}
				k++
				bound := sl.High
				if bound == nil {
					bound = sl.Low
				}
				okB := false
				for _, f := range impliedConds(sl.Block()) {
					bo, ok := f.Cond.(*ssa.BinOp)
					if !ok || bo.Op != token.LSS || f.Truth {
						continue
					}
					lc, ok := bo.X.(*ssa.Call)
					if !ok {
						continue
					}
					if bi, ok := lc.Call.Value.(*ssa.Builtin); !ok || bi.Name() != "len" || lc.Call.Args[0] != ssa.Value(envelope) {
						continue
					}
					// len >= bo.Y ; need bo.Y >= bound
					if bound == nil || sameValueExpr(bo.Y, bound, 5) {
						okB = true
					}
					if kb, ok := bound.(*ssa.Const); ok {
						if ky, ok := bo.Y.(*ssa.Const); ok && ky.Int64() >= kb.Int64() {
							okB = true
						}
					}
				}
				r.Check(okB, fmt.Sprintf("%s#slice[%d]", q(es.fn), k), p.Rel(instrPos(sl)), "the envelope is sliced only behind a length check covering the bound", "the sealed value is sliced without a dominating length check: a truncated value crashes instead of being rejected")
			}
		}
		// 3b. a sealed value is rejected for its length only where it is too short to be taken apart: every test of
		// len(envelope) that leads to an error is `len < bound` with a bound the envelope is sliced at (or a smaller
		// constant). A stricter test (room for more than is sliced, `<=`) turns away values that Seal produces — the
		// sealing of the empty text is header, RSA part and the bare authentication tag.
		nt := 0
		for _, b := range es.fn.Blocks {
			if len(b.Instrs) == 0 {
				continue
			}
			ifi, ok := b.Instrs[len(b.Instrs)-1].(*ssa.If)
			if !ok {
				continue
			}
			bo, ok := ifi.Cond.(*ssa.BinOp)
			if !ok {
				continue
			}
			isLenEnv := func(v ssa.Value) bool {
				lc, ok := v.(*ssa.Call)
				if !ok {
					return false
				}
				bi, ok := lc.Call.Value.(*ssa.Builtin)
				return ok && bi.Name() == "len" && lc.Call.Args[0] == ssa.Value(envelope)
			}
			var bound ssa.Value
			strict, rejectEdge := false, 0
			switch {
			case isLenEnv(bo.X) && (bo.Op == token.LSS || bo.Op == token.LEQ):
				bound, strict = bo.Y, bo.Op == token.LSS
			case isLenEnv(bo.Y) && (bo.Op == token.GTR || bo.Op == token.GEQ):
				bound, strict = bo.X, bo.Op == token.GTR
			case isLenEnv(bo.X) && (bo.Op == token.GEQ || bo.Op == token.GTR):
				bound, strict, rejectEdge = bo.Y, bo.Op == token.GEQ, 1
			default:
				continue
			}
			if !onlyErrorReturns(b.Succs[rejectEdge], map[*ssa.BasicBlock]bool{}) {
				continue
			}
			nt++
			okT := false
			if strict {
				for _, bv := range bounds {
					if sameValueExpr(bound, bv, 5) {
						okT = true
					}
					if kb, ok := bound.(*ssa.Const); ok {
						if kv, ok := bv.(*ssa.Const); ok && kb.Int64() <= kv.Int64() {
							okT = true
						}
					}
				}
			}
			r.Check(okT, fmt.Sprintf("%s#too-short-test[%d]", q(es.fn), nt), p.Rel(instrPos(ifi)), "the value is rejected as too short only below a bound it is sliced at",
				"a sealed value is rejected for its length by a test that is not `len < bound` with a bound the value is sliced at: values that Seal produces (the sealing of the empty text ends with the bare 16-byte tag) are then reported as cut off")
		}
	}
	// 4. sibling agreement
	oaepE, oaepD := callsNamed(enc, "crypto/rsa.EncryptOAEP"), callsNamed(dec, "crypto/rsa.DecryptOAEP")
	okOAEP := len(oaepE) == 1 && len(oaepD) == 1
	if okOAEP {
		hE, hD := oaepE[0].Call.Args[0], oaepD[0].Call.Args[0]
		lE, lD := oaepE[0].Call.Args[len(oaepE[0].Call.Args)-1], oaepD[0].Call.Args[len(oaepD[0].Call.Args)-1]
		okOAEP = sameValueExpr(hE, hD, 4) && isNilConst(lE) && isNilConst(lD)
	}
	r.Check(okOAEP, "learn.hybrid#oaep-agreement", p.Rel(enc.Pos()), "both sides use the same OAEP hash and label", "hybridEncrypt and hybridDecrypt disagree on the OAEP hash constructor or label: nothing sealed can be unsealed")
	sealC, openC := callsNamed(enc, "crypto/cipher.AEAD.Seal"), callsNamed(dec, "crypto/cipher.AEAD.Open")
	okN := len(sealC) == 1 && len(openC) == 1
	if okN {
		nE, nD := sealC[0].Call.Args[1], openC[0].Call.Args[1]
		aE, aD := sealC[0].Call.Args[3], openC[0].Call.Args[3]
		okN = isZeroNonce(nE) && isZeroNonce(nD) && isNilConst(aE) && isNilConst(aD)
	}
	r.Check(okN, "learn.hybrid#nonce-aad-agreement", p.Rel(enc.Pos()), "both sides use the same nonce construction and additional data", "Seal and Open disagree on nonce or additional data")
	// header layout: encrypt make([]byte, H) + PutUint16(ct[O:]) ; decrypt Uint16(ct[O:]) and payload offset H
	hE, oE := headerLayout(enc)
	hD, oD := headerLayout(dec)
	r.Check(hE > 0 && hE == hD && oE == oD && oE >= 0, "learn.hybrid#header-agreement", p.Rel(enc.Pos()), fmt.Sprintf("both sides use a %d-byte header with the length field at offset %d", hE, oE), fmt.Sprintf("header layout differs: encrypt (header %d, length at %d) vs decrypt (header %d, length at %d)", hE, oE, hD, oD))
	// 4b. the length field holds the length of the very RSA ciphertext that follows the header
	{
		okLen, why := false, "no binary.BigEndian.PutUint16 of a length found in hybridEncrypt"
		for _, b := range regionBlocks(enc) {
			for _, ins := range b.Instrs {
				call, ok := ins.(*ssa.Call)
				if !ok || !(call.Call.IsInvoke() && (call.Call.Method.Name() == "PutUint16" || call.Call.Method.Name() == "AppendUint16")) && !(call.Call.StaticCallee() != nil && (call.Call.StaticCallee().Name() == "PutUint16" || call.Call.StaticCallee().Name() == "AppendUint16")) {
					continue
				}
				v := call.Call.Args[len(call.Call.Args)-1]
				if cv, ok := v.(*ssa.Convert); ok {
					v = cv.X
				}
				// written in a helper that is handed the length: what hybridEncrypt passes for it
				if prm, ok := v.(*ssa.Parameter); ok && prm.Parent() != enc {
					for i, hp := range prm.Parent().Params {
						if hp != prm {
							continue
						}
						if sites := callsTo(enc, prm.Parent()); len(sites) == 1 && i < len(sites[0].Common().Args) {
							v = sites[0].Common().Args[i]
						}
					}
				}
				okLen, why = false, "the length field is "+v.String()+", not len() of the RSA-OAEP ciphertext"
				if of, isLen := isLenOf(v); isLen {
					if ex, ok := of.(*ssa.Extract); ok {
						if c2, ok := ex.Tuple.(*ssa.Call); ok && c2.Call.StaticCallee() != nil && pkgFuncName(c2.Call.StaticCallee()) == "crypto/rsa.EncryptOAEP" {
							// and that same value is what is appended after the header
							appended := false
							for _, ref := range *ex.Referrers() {
								if c3, ok := ref.(*ssa.Call); ok {
									if bi, ok := c3.Call.Value.(*ssa.Builtin); ok && bi.Name() == "append" {
										appended = true
									}
								}
							}
							if appended {
								okLen, why = true, ""
							} else {
								why = "the RSA ciphertext whose length is written is not the one appended after the header"
							}
						}
					}
				}
			}
		}
		r.Check(okLen, "learn.hybridEncrypt#length-field-is-len-of-rsa-ciphertext", p.Rel(enc.Pos()), "the header's length field is len() of the RSA-OAEP ciphertext that is appended after it",
			why+": hybridDecrypt splits the envelope at that length, so a value computed any other way (key size arithmetic) makes matching keys fail for some key sizes")
	}
	// 5b. no run-time package state on the verification path: what a question verifies to must not depend on which
	// questions were handled before it in the same process
	{
		var roots []*ssa.Function
		for _, name := range []string{"(*QuestionModel).Verify", "(*QuestionModel).Seal", "(*QuestionModel).Unseal", "(*QuestionModel).ExportAnswerKey"} {
			if fn := get(name); fn != nil {
				roots = append(roots, fn)
			}
		}
		// the models are built (and their renderers run) before they are verified: every exported constructor counts
		for _, fd := range Funcs(pkg) {
			if fd.Obj.Exported() && strings.HasPrefix(fd.Obj.Name(), "New") {
				if sf := p.SSAFunc(fd.Obj); sf != nil {
					roots = append(roots, sf)
				}
			}
		}
		seen := map[*ssa.Function]bool{}
		work := append([]*ssa.Function{}, roots...)
		var reach []*ssa.Function
		for len(work) > 0 {
			fn := work[len(work)-1]
			work = work[:len(work)-1]
			if fn == nil || seen[fn] || fn.Pkg == nil || fn.Pkg.Pkg != pkg.Types {
				continue
			}
			seen[fn] = true
			reach = append(reach, fn)
			for _, b := range fn.Blocks {
				for _, ins := range b.Instrs {
					if ci, ok := ins.(ssa.CallInstruction); ok {
						if sc := ci.Common().StaticCallee(); sc != nil {
							work = append(work, sc)
						} else if ci.Common().IsInvoke() {
							// interface methods implemented in this package (Renderer …)
							for _, fd := range Funcs(pkg) {
								if fd.Obj.Name() == ci.Common().Method.Name() {
									work = append(work, p.SSAFunc(fd.Obj))
								}
							}
						}
					}
					if mc, ok := ins.(*ssa.MakeClosure); ok {
						if cf, ok := mc.Fn.(*ssa.Function); ok {
							work = append(work, cf)
						}
					}
				}
			}
			work = append(work, fn.AnonFuncs...)
		}
		sort.Slice(reach, func(i, j int) bool { return q(reach[i]) < q(reach[j]) })
		bad := ""
		for _, fn := range reach {
			for _, b := range fn.Blocks {
				for _, ins := range b.Instrs {
					switch x := ins.(type) {
					case *ssa.Store:
						if g := rootGlobal(x.Addr, 4); g != nil && g.Pkg == fn.Pkg {
							bad = q(fn) + " writes the package-level variable " + g.Name() + " (" + p.Rel(instrPos(x)) + ")"
						}
					case *ssa.MapUpdate:
						if g := rootGlobal(x.Map, 4); g != nil && g.Pkg == fn.Pkg {
							bad = q(fn) + " updates the package-level map " + g.Name() + " (" + p.Rel(instrPos(x)) + ")"
						}
					case *ssa.Call:
						// a method with a pointer receiver on a package-level variable (sync.Map.Store, sync.Once.Do, …)
						if sc := x.Call.StaticCallee(); sc != nil && sc.Signature.Recv() != nil && len(x.Call.Args) > 0 {
							if g, isG := x.Call.Args[0].(*ssa.Global); isG && g.Pkg == fn.Pkg {
								if _, ptr := sc.Signature.Recv().Type().(*types.Pointer); ptr && sc.Pkg != nil && sc.Pkg.Pkg != pkg.Types {
									bad = q(fn) + " calls " + sc.Name() + " on the package-level variable " + g.Name() + " (" + p.Rel(instrPos(x)) + ")"
								}
							}
						}
					}
				}
			}
		}
		r.Check(bad == "", "learn.verification-path#no-package-state", p.Rel(roots[0].Pos()), fmt.Sprintf("none of the %d functions reachable from the model constructors and Verify/Seal/Unseal/ExportAnswerKey writes package-level state", len(reach)),
			bad+": a cached or memoised value shared between questions makes the verdict for one question depend on the questions handled before it")
	}
	// 5. no package state in the crypto path
	for _, name := range []string{"Encrypt", "Decrypt", "hybridEncrypt", "hybridDecrypt", "parsePublicKey", "parsePrivateKey"} {
		fn := get(name)
		if fn == nil {
			continue
		}
		okS := true
		for _, b := range fn.Blocks {
			for _, ins := range b.Instrs {
				switch x := ins.(type) {
				case *ssa.Store:
					if _, isG := x.Addr.(*ssa.Global); isG {
						okS = false
					}
				case *ssa.UnOp:
					if g, isG := x.X.(*ssa.Global); isG && g.Pkg == fn.Pkg && !strings.HasPrefix(g.Name(), "Err") {
						okS = false
					}
				}
			}
		}
		r.Check(okS, q(fn)+"#stateless", p.Rel(fn.Pos()), "keeps no package-level state", name+" reads or writes a package-level variable: the result for one key would depend on earlier calls with another key")
	}
	// 6. verifyChoiceMatch
	if fn := get("(*QuestionModel).verifyChoiceMatch"); fn != nil {
		// Every return of an error that depends on the mark of a choice or on the comparison of its output with the
		// question's is classified by what is known there: (marked?, outputs equal?). The rejected combinations must be
		// exactly (marked, different) and (unmarked, equal) — however the two tests are written (two ifs, a switch over
		// two flags, one shared comparison).
		type combo struct{ marked, equal bool }
		rejected := map[combo]bool{}
		var cmps []*ssa.BinOp
		why := "verifyChoiceMatch must reject a marked choice whose output differs AND an unmarked choice whose output is equal"
		okV := true
		for _, b := range fn.Blocks {
			if len(b.Instrs) == 0 {
				continue
			}
			if _, isRet := b.Instrs[len(b.Instrs)-1].(*ssa.Return); !isRet || !onlyErrorReturns(b, map[*ssa.BasicBlock]bool{}) {
				continue
			}
			var marked, equal *bool
			for _, f := range impliedConds(b) {
				f := f
				switch x := f.Cond.(type) {
				case *ssa.Lookup:
					if !x.CommaOk {
						t := f.Truth
						marked = &t
					}
				case *ssa.BinOp:
					if (x.Op == token.EQL || x.Op == token.NEQ) && isStringType(x.X.Type()) {
						t := f.Truth == (x.Op == token.EQL)
						equal = &t
						cmps = append(cmps, x)
					}
				}
			}
			// `if marked == matches { continue }` followed by `if marked { … }`: the one flag is known through the other
			for _, f := range impliedConds(b) {
				bo, ok := f.Cond.(*ssa.BinOp)
				if !ok || (bo.Op != token.EQL && bo.Op != token.NEQ) {
					continue
				}
				var lk *ssa.Lookup
				var cmp *ssa.BinOp
				for _, side := range []ssa.Value{bo.X, bo.Y} {
					switch x := side.(type) {
					case *ssa.Lookup:
						if !x.CommaOk {
							lk = x
						}
					case *ssa.BinOp:
						if (x.Op == token.EQL || x.Op == token.NEQ) && isStringType(x.X.Type()) {
							cmp = x
						}
					}
				}
				if lk == nil || cmp == nil {
					continue
				}
				sameTruth := (bo.Op == token.EQL) == f.Truth // marked and the comparison have the same truth value
				cmps = append(cmps, cmp)
				switch {
				case marked != nil && equal == nil:
					c := *marked
					if !sameTruth {
						c = !c
					}
					t := c == (cmp.Op == token.EQL)
					equal = &t
				case equal != nil && marked == nil:
					c := *equal == (cmp.Op == token.EQL) // the comparison's own truth
					if !sameTruth {
						c = !c
					}
					marked = &c
				}
			}
			switch {
			case marked != nil && equal != nil:
				rejected[combo{*marked, *equal}] = true
			case marked != nil:
				okV = false
				why = "a choice is rejected for its mark alone, whatever its output"
			case equal != nil:
				okV = false
				why = "a choice is rejected for its output alone, whether it is marked or not"
			}
		}
		if okV && !(len(rejected) == 2 && rejected[combo{true, false}] && rejected[combo{false, true}]) {
			okV = false
			if rejected[combo{true, true}] || rejected[combo{false, false}] {
				why = "the != test must apply to marked choices and the == test to unmarked ones"
			}
		}
		for _, bo := range cmps {
			for _, opnd := range []ssa.Value{bo.X, bo.Y} {
				if call, ok := opnd.(*ssa.Call); ok {
					if sc := call.Call.StaticCallee(); sc != nil && sc.Pkg != nil && sc.Pkg.Pkg.Path() == "strings" {
						okV = false
						why = "the outputs are compared after strings." + sc.Name() + ": outputs that differ only in whitespace would count as equal"
					}
				}
			}
			if okV && !sameOperands(bo, cmps[0]) {
				okV = false
				why = "the two conditions compare different pairs of values"
			}
		}
		r.Check(okV, q(fn)+"#both-conditions", p.Rel(fn.Pos()), "a question is accepted exactly when marked choices match and unmarked ones do not", why)
		// every accepting return comes after the loop over all outputs: it is the nil constant and both tests dominate... the loop exit
		if okV && len(cmps) > 0 {
			accept := ""
			for _, ret := range returnsOf(fn) {
				for _, rv := range resultValues(ret, len(ret.Results)-1) {
					if onlyNonNil(rv) {
						continue
					}
					// a return that may accept (the nil constant, or the verdict of a further check handed on) lies
					// behind the loop over all outputs: the loop header dominates it and it cannot get back into the loop
					hdr := loopHeaderOf(cmps[0].Block())
					if hdr != nil && hdr != ret.Block() && hdr.Dominates(ret.Block()) && !reachesBlock(ret.Block(), hdr) {
						continue
					}
					if k, isConst := rv.(*ssa.Const); isConst && k.IsNil() {
						accept = "a `return nil` that does not follow the loop over the outputs (it lies inside the loop or is reachable without entering it)"
						continue
					}
					accept = "a return of " + rv.String() + " (an acceptance decided outside the loop over all outputs)"
				}
			}
			r.Check(accept == "", q(fn)+"#accepts-only-after-all-outputs", p.Rel(fn.Pos()), "every accepting return follows the loop that tests every output against the marked set",
				"verifyChoiceMatch has "+accept+": some kinds of question are then accepted without every choice having been compared with the question's output")
		}
	}
	// 7. match verification decided by isMatchQuestion
	if fn := get("(*QuestionModel).getVerifiedAnswer"); fn != nil {
		isMatch, verify := get("(*QuestionModel).isMatchQuestion"), get("(*QuestionModel).verifyMatch")
		okM := false
		if isMatch != nil && verify != nil {
			vc := callsTo(fn, verify)
			ic := callsTo(fn, isMatch)
			if len(vc) == 1 && len(ic) >= 1 {
				for _, c2 := range ic {
					blk := c2.Block()
					if ifi, ok := blk.Instrs[len(blk.Instrs)-1].(*ssa.If); ok && ifi.Cond == c2.Value() && edgeDominates(blk, 0, vc[0].Block()) {
						okM = true
					}
				}
			}
		}
		r.Check(okM, q(fn)+"#match-gate", p.Rel(fn.Pos()), "match verification runs for every question isMatchQuestion classifies as a match question", "verifyMatch must run on the true edge of isMatchQuestion(): with another gate, questions with an explicit `verification: match` (or the default) would be accepted unverified")
	}
	// 6c. nothing is handed out that did not pass the authenticated layer: every successful return of hybridDecrypt
	// returns the result of the AEAD's Open, and every successful return of hybridEncrypt a value that Seal extended
	for _, spec := range []struct {
		fn     *ssa.Function
		method string
	}{{dec, "Open"}, {enc, "Seal"}} {
		var through func(v ssa.Value, depth int, seen map[ssa.Value]bool) bool
		through = func(v ssa.Value, depth int, seen map[ssa.Value]bool) bool {
			if depth > 8 || seen[v] {
				return false
			}
			seen[v] = true
			switch x := v.(type) {
			case *ssa.Call:
				if x.Call.IsInvoke() && x.Call.Method.Name() == spec.method {
					return true
				}
				if bi, ok := x.Call.Value.(*ssa.Builtin); ok && bi.Name() == "append" {
					for _, a := range x.Call.Args {
						if through(a, depth+1, seen) {
							return true
						}
					}
				}
			case *ssa.Extract:
				return through(x.Tuple, depth+1, seen)
			case *ssa.Phi:
				for _, e := range x.Edges {
					if !through(e, depth+1, seen) {
						return false
					}
				}
				return len(x.Edges) > 0
			case *ssa.Slice:
				return through(x.X, depth+1, seen)
			}
			return false
		}
		k := 0
		for _, ret := range returnsOf(spec.fn) {
			if len(ret.Results) != 2 {
				continue
			}
			if kc, ok := ret.Results[1].(*ssa.Const); !ok || !kc.IsNil() {
				continue // an error return
			}
			k++
			good := true
			for _, rv := range resultValues(ret, 0) {
				if !through(rv, 0, map[ssa.Value]bool{}) {
					good = false
				}
			}
			r.Check(good, fmt.Sprintf("%s#success-through-%s[%d]", q(spec.fn), spec.method, k), p.Rel(instrPos(ret)), "a successful return hands out what the AEAD's "+spec.method+" produced",
				"a successful return of "+spec.fn.Name()+" does not come from the AEAD's "+spec.method+": an envelope without (or with a skipped) authenticated part is accepted — a sealed value cut off behind the wrapped key would unseal to the empty answer with any key")
		}
		if k == 0 {
			r.Undecided("%s has no successful return", spec.fn.Name())
		}
	}
	// 7b. the marked set is examined as a whole: the loops of the three choice verifications look the marked set up
	// by the index of each existing choice, so a letter beyond the last choice is never seen by them. Each of these
	// functions therefore also ranges over the marked set or measures it (directly or in a callee it hands it to).
	var walksMap func(v ssa.Value, depth int) bool
	walksMap = func(v ssa.Value, depth int) bool {
		refs := v.Referrers()
		if refs == nil || depth > 2 {
			return false
		}
		for _, ref := range *refs {
			switch x := ref.(type) {
			case *ssa.Range:
				return true
			case *ssa.MakeClosure: // captured by a range-over-func body or a literal
				if cf, ok := x.Fn.(*ssa.Function); ok {
					for i, bnd := range x.Bindings {
						if bnd == v && i < len(cf.FreeVars) && walksMap(cf.FreeVars[i], depth) {
							return true
						}
					}
				}
			case *ssa.Store: // kept in a variable cell that a closure shares
				if x.Val == v {
					if walksMap(x.Addr, depth) {
						return true
					}
				}
			case *ssa.UnOp: // load from such a cell
				if x.Op == token.MUL && x.X == v && walksMap(x, depth) {
					return true
				}
			case *ssa.Call:
				if bi, ok := x.Call.Value.(*ssa.Builtin); ok && bi.Name() == "len" {
					return true
				}
				if sc := x.Call.StaticCallee(); sc != nil && sc.Blocks != nil {
					for i, a := range x.Call.Args {
						if a == v && i < len(sc.Params) && walksMap(sc.Params[i], depth+1) {
							return true
						}
					}
				}
			}
		}
		return false
	}
	for _, name := range []string{"(*QuestionModel).verifyChoiceMatch", "(*QuestionModel).verifyParseError", "(*QuestionModel).verifyNoParseError"} {
		fn := get(name)
		if fn == nil {
			continue
		}
		var marked ssa.Value
		for _, b := range fn.Blocks {
			for _, ins := range b.Instrs {
				if call, ok := ins.(*ssa.Call); ok && call.Call.StaticCallee() != nil && call.Call.StaticCallee().Name() == "correctAnswerIndices" {
					marked = call
				}
			}
		}
		if marked == nil {
			r.Undecided("%s does not call correctAnswerIndices", name)
			continue
		}
		r.Check(walksMap(marked, 0), q(fn)+"#marked-set-examined-whole", p.Rel(fn.Pos()), "the marked set is ranged over or measured, so a mark without a choice is seen",
			"the set of choices marked correct is only looked up by the index of the existing choices: a letter beyond the last choice (`answer: a, z` with three choices) is never examined and the question is accepted although the marked set is not the set of matching choices")
	}
	// 8. the answer state of a question is its front matter's Answer / SealedAnswer and nothing else: the fields of a
	// front matter are written by Seal and Unseal only (decoding fills them by reflection). Anything else a reader
	// of the answer leaves behind on the object — a remembered plain text, say — survives a later Seal of an edited
	// answer, so what is unsealed, verified or exported is no longer what was sealed last.
	nw := 0
	for _, fn := range ssaFuncsOf(p, pkg) {
		k := 0
		for _, b := range fn.Blocks {
			for _, ins := range b.Instrs {
				st, ok := ins.(*ssa.Store)
				if !ok {
					continue
				}
				fa, ok := st.Addr.(*ssa.FieldAddr)
				if !ok {
					continue
				}
				owner, fname := fieldAddrInfo(fa)
				if owner == nil || owner.Obj().Name() != "questionFrontmatter" {
					continue
				}
				if a, isAlloc := fa.X.(*ssa.Alloc); isAlloc && a.Parent() == fn {
					continue // building a new front matter
				}
				nw++
				k++
				name := ssaDisplayName(fn)
				good := (name == "(*questionFrontmatter).Seal" || name == "(*questionFrontmatter).Unseal") && (fname == "Answer" || fname == "SealedAnswer")
				r.Check(good, fmt.Sprintf("%s#frontmatter-write[%d]:%s", q(fn), k, fname), p.Rel(instrPos(st)), "Seal/Unseal move the answer between Answer and SealedAnswer",
					"a field of a question's front matter ("+fname+") is written outside Seal/Unseal or is not one of Answer/SealedAnswer: state that a reader of the answer leaves on the object (a remembered decryption) survives a later re-seal, "+
						"so Unseal, Verify and ExportAnswerKey answer with an earlier answer than the one that was sealed last")
			}
		}
	}
	if nw < 4 {
		r.Undecided("expected Seal and Unseal to write Answer and SealedAnswer (found %d writes of front-matter fields)", nw)
	}
}

func isNilConst(v ssa.Value) bool {
	k, ok := v.(*ssa.Const)
	return ok && k.IsNil()
}

// isZeroNonce: make([]byte, gcm.NonceSize()) that is never written.
func isZeroNonce(v ssa.Value) bool {
	// a helper of the package that returns the nonce (zeroNonce(gcm))
	if hc, ok := v.(*ssa.Call); ok {
		if h := hc.Call.StaticCallee(); h != nil && len(h.Blocks) > 0 && h.Signature.Results().Len() == 1 {
			rets := returnsOf(h)
			for _, ret := range rets {
				if !isZeroNonce(ret.Results[0]) {
					return false
				}
			}
			return len(rets) > 0
		}
	}
	ms, ok := v.(*ssa.MakeSlice)
	if !ok {
		return false
	}
	call, ok := ms.Len.(*ssa.Call)
	if !ok || !call.Call.IsInvoke() || call.Call.Method.Name() != "NonceSize" {
		return false
	}
	for _, ref := range *ms.Referrers() {
		if _, isIA := ref.(*ssa.IndexAddr); isIA {
			return false
		}
	}
	return true
}

// headerLayout: (header length, offset of the uint16 length field).
func headerLayout(fn *ssa.Function) (int64, int64) {
	var header, off int64 = -1, -1
	var blocks []*ssa.BasicBlock
	for _, h := range regionFns(fn, 2, map[string]bool{"hybridEncrypt": true, "hybridDecrypt": true}) {
		blocks = append(blocks, h.Blocks...)
	}
	for _, b := range blocks {
		for _, ins := range b.Instrs {
			switch x := ins.(type) {
			case *ssa.Alloc:
				// make([]byte, N) with a small constant N is lowered to new [N]byte + slice
				if at, ok := x.Type().Underlying().(*types.Pointer).Elem().Underlying().(*types.Array); ok && at.Len() > 0 && at.Len() < 16 && header < 0 {
					if b, ok := at.Elem().Underlying().(*types.Basic); ok && b.Kind() == types.Uint8 {
						header = at.Len()
					}
				}
			case *ssa.MakeSlice:
				if k, ok := x.Len.(*ssa.Const); ok && k.Int64() > 0 && k.Int64() < 16 && header < 0 {
					if _, isByte := x.Type().Underlying().(*types.Slice); isByte {
						header = k.Int64()
					}
				}
			case *ssa.Call:
				if x.Call.IsInvoke() {
					continue
				}
				name := ""
				if sc := x.Call.StaticCallee(); sc != nil {
					name = sc.Name()
				}
				if name == "PutUint16" || name == "Uint16" {
					for _, a := range x.Call.Args {
						if sl, ok := a.(*ssa.Slice); ok {
							if k, ok := sl.Low.(*ssa.Const); ok {
								off = k.Int64()
							}
						}
					}
				}
				// binary.BigEndian.AppendUint16([]byte{version}, n): the length field follows the literal, the header is
				// the literal and the two bytes
				if name == "AppendUint16" {
					for _, a := range x.Call.Args {
						if sl, ok := a.(*ssa.Slice); ok {
							if al, ok := sl.X.(*ssa.Alloc); ok {
								if at, ok := al.Type().Underlying().(*types.Pointer).Elem().Underlying().(*types.Array); ok && at.Len() < 14 {
									off = at.Len()
									header = at.Len() + 2
								}
							}
						}
					}
				}
			case *ssa.Slice:
				// decrypt: payload starts at ciphertext[H : …]
				if k, ok := x.Low.(*ssa.Const); ok && x.High != nil && header < 0 {
					if _, constHigh := x.High.(*ssa.Const); constHigh {
						break // ciphertext[1:3]: the length field itself, not the payload
					}
					if _, isParam := x.X.(*ssa.Parameter); isParam {
						header = k.Int64()
					}
				}
			}
		}
	}
	return header, off
}

func sameOperands(a, b *ssa.BinOp) bool {
	return (sameValueExpr(a.X, b.X, 4) && sameValueExpr(a.Y, b.Y, 4)) || (sameValueExpr(a.X, b.Y, 4) && sameValueExpr(a.Y, b.X, 4))
}

// guardedByLookup: the comparison is evaluated on the edge where a map lookup (correctByIndex[i]) is `want`.
func guardedByLookup(bo *ssa.BinOp, want bool) bool {
	for d := bo.Block(); d != nil; d = d.Idom() {
		idom := d.Idom()
		if idom == nil || len(idom.Instrs) == 0 {
			continue
		}
		ifi, ok := idom.Instrs[len(idom.Instrs)-1].(*ssa.If)
		if !ok {
			continue
		}
		if _, isLookup := ifi.Cond.(*ssa.Lookup); !isLookup {
			continue
		}
		edge := 0
		if !want {
			edge = 1
		}
		if edgeDominates(idom, edge, bo.Block()) {
			return true
		}
	}
	return false
}

// rootGlobal returns the package-level variable at the root of an address expression, or nil.
func rootGlobal(v ssa.Value, depth int) *ssa.Global {
	for i := 0; i < depth; i++ {
		switch x := v.(type) {
		case *ssa.Global:
			return x
		case *ssa.FieldAddr:
			v = x.X
		case *ssa.IndexAddr:
			v = x.X
		case *ssa.UnOp:
			v = x.X
		default:
			return nil
		}
	}
	return nil
}

// loopHeaderOf returns the header of the innermost natural loop containing b, or nil.
func loopHeaderOf(b *ssa.BasicBlock) *ssa.BasicBlock {
	var best *ssa.BasicBlock
	size := 0
	for _, h := range b.Parent().Blocks {
		if body := naturalLoop(h); body != nil && body[b] && (best == nil || len(body) < size) {
			best, size = h, len(body)
		}
	}
	return best
}

// onlyNonNil: v is an error value that cannot be nil (fmt.Errorf, errors.New, a wrapped error constructor).
func onlyNonNil(v ssa.Value) bool {
	switch x := v.(type) {
	case *ssa.Call:
		if sc := x.Call.StaticCallee(); sc != nil {
			switch pkgFuncName(sc) {
			case "fmt.Errorf", "errors.New", "errors.Join":
				return true
			}
		}
	case *ssa.MakeInterface:
		return true
	case *ssa.Phi:
		for _, e := range x.Edges {
			if !onlyNonNil(e) {
				return false
			}
		}
		return true
	}
	return false
}
