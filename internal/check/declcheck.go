package check

import (
	"fmt"
	"go/constant"
	"go/token"

	"golang.org/x/tools/go/packages"
	"golang.org/x/tools/go/ssa"
)

// R-DECLCHECK: every variable enters a static scope through the declaration validator, and the validator
// answers "may be declared" only after each of its tests came out negative.
//
// The parser keeps the static environment on which every later type decision rests. A name that shadows a
// built-in global (err, errmsg) in an inner scope with another type makes the evaluator's str2num/str2bool
// store a bool/string into a variable the parser typed differently; a name declared twice in one scope or
// equal to a function name makes later uses refer to a variable of another type. So:
//
//	(set-validated)  every (*scope).set outside the constructor is dominated by a call of validateVarDecl for the
//	                 variable whose name is set; for declarations inside a block (statement, loop variable) the set
//	                 lies on the edge where the validator answered true. Parameters may ignore the answer: the error
//	                 is recorded, so the program is rejected as a whole.
//	(validator)      in validateVarDecl every return of true is dominated by the not-found edge of the look-up of
//	                 the name among the built-in globals, by the false edge of inLocalScope(name) on the current scope
//	                 and by the not-found edge of the look-up among the function names — unconditionally, i.e. none of
//	                 the three tests is itself reached only under another test.
var ruleDeclCheck = &Rule{
	ID: "R-DECLCHECK",
	Doc: "every variable enters a static scope through validateVarDecl (declarations on the edge where it answered true), and validateVarDecl answers true only after the " +
		"name was looked up among the built-in globals, in the current scope and among the function names, each unconditionally and each with a negative result",
	Floor: 8,
	Run:   runDeclCheck,
}

func runDeclCheck(c *Ctx, r *Reporter) {
	p, pkg := parserPkg(c, r)
	if pkg == nil {
		return
	}
	setFn := FindFunc(pkg, "(*scope).set")
	valFn := FindFunc(pkg, "(*parser).validateVarDecl")
	if setFn == nil || valFn == nil {
		r.Undecided("(*scope).set or (*parser).validateVarDecl not found")
		return
	}
	setSSA, valSSA := p.SSAFunc(setFn.Obj), p.SSAFunc(valFn.Obj)

	// --- clause set-validated
	sites := 0
	for _, fd := range Funcs(pkg) {
		sf := p.SSAFunc(fd.Obj)
		if sf == nil {
			continue
		}
		var vals []*ssa.Call
		for _, b := range sf.Blocks {
			for _, ins := range b.Instrs {
				if call, ok := ins.(*ssa.Call); ok && call.Call.StaticCallee() == valSSA {
					vals = append(vals, call)
				}
			}
		}
		n := 0
		for _, b := range sf.Blocks {
			for _, ins := range b.Instrs {
				call, ok := ins.(*ssa.Call)
				if !ok || call.Call.StaticCallee() != setSSA {
					continue
				}
				n++
				construct := fmt.Sprintf("%s#set-validated[%d]", fd.QName(), n)
				pos := p.Rel(instrPos(call))
				name := call.Call.Args[1]
				if declFromBuiltinsTable(name) {
					r.Exempt(construct, pos, "registers the built-in globals handed in through parser.Builtins: they are the names validateVarDecl protects")
					continue
				}
				sites++
				// `if loopVar != nil { scope.set(loopVar.Name, loopVar) }`: the variable is the one built on the path
				// that contributes the non-nil value, and control came through that path's last block
				setVar := call.Call.Args[2]
				atBlock := call.Block()
				var at ssa.Instruction = call
				if pv, via := guardedPhiValue(setVar, call); pv != nil && len(via.Instrs) > 0 {
					if u, ok := name.(*ssa.UnOp); ok {
						if fa, ok := u.X.(*ssa.FieldAddr); ok && fa.X == setVar {
							if _, f := fieldAddrInfo(fa); f == "Name" {
								name = nil // the name of the phi is the name of the variable it stands for
							}
						}
					}
					setVar, atBlock, at = pv, via, via.Instrs[len(via.Instrs)-1]
				}
				verdict, why := false, "no call of validateVarDecl for the variable whose name is set dominates this scope.set: a redeclaration, a shadowed built-in global or a function name enters the scope unchecked"
				for _, v := range vals {
					if !instrDominates(v, at) {
						continue
					}
					if name == nil {
						if v.Call.Args[1] != setVar {
							continue
						}
					} else if !nameOfVar(name, v.Call.Args[1]) {
						continue
					}
					// is the answer used?  allowUnderscore=false marks a declaration inside a block
					k, isConst := v.Call.Args[3].(*ssa.Const)
					if isConst && k.Value != nil && constant.BoolVal(k.Value) {
						verdict, why = true, "parameter: validated before it is set (a failed validation records an error, the program is rejected)"
						break
					}
					if onTrueEdgeOf(v, atBlock) {
						verdict, why = true, "declaration: set only on the edge where validateVarDecl answered true"
						break
					}
					why = "validateVarDecl is called for this declaration, but the scope.set is not confined to the edge where it answered true: a rejected name still enters the scope and later statements are typed against it"
				}
				r.Check(verdict, construct, pos, why, why)
			}
		}
	}
	if sites == 0 {
		r.Undecided("no scope.set call site found in pkg/parser")
	}

	scopeNameTests(p, pkg, r)
	// the loop variable of a for statement is in scope in the body only: the range operands are parsed (and, in the
	// evaluator, evaluated) before it exists, so `for x := range x` iterates over the enclosing x
	if fd := FindFunc(pkg, "(*parser).parseForStatement"); fd != nil {
		sf := p.SSAFunc(fd.Obj)
		var sets, lists []*ssa.Call
		for _, b := range sf.Blocks {
			for _, ins := range b.Instrs {
				if call, ok := ins.(*ssa.Call); ok && call.Call.StaticCallee() != nil {
					switch call.Call.StaticCallee() {
					case setSSA:
						sets = append(sets, call)
					default:
						if call.Call.StaticCallee().Name() == "parseExprList" {
							lists = append(lists, call)
						}
					}
				}
			}
		}
		good := len(sets) > 0 && len(lists) == 1
		for _, st := range sets {
			if len(lists) != 1 || !instrDominates(lists[0], st) {
				good = false
			}
		}
		r.Check(good, fd.QName()+"#loopvar-after-range", p.Rel(fd.Decl.Pos()), "the loop variable enters the scope after the range operands have been parsed",
			"the loop variable is put into the scope before the range operands are parsed: `x := [1 2 3]` `for x := range x` then refers to the loop variable itself (type none) and is rejected, while the evaluator evaluates the operand in the enclosing scope")
	} else {
		r.Undecided("(*parser).parseForStatement not found")
	}

	// --- clause validator
	type test struct {
		key, text string
		match     func(cond ssa.Value) (falseEdge int, ok bool) // which successor means "name is free"
	}
	origValSSA := valSSA
	var nameParam *ssa.Parameter // when the decision was moved into a helper: the helper's parameter that receives v.Name
	isNameOfParam := func(v ssa.Value) bool {
		if nameParam != nil {
			return v == ssa.Value(nameParam)
		}
		u, ok := v.(*ssa.UnOp)
		if !ok {
			return false
		}
		fa, ok := u.X.(*ssa.FieldAddr)
		if !ok {
			return false
		}
		_, fname := fieldAddrInfo(fa)
		prm, ok := fa.X.(*ssa.Parameter)
		return ok && fname == "Name" && len(valSSA.Params) > 1 && prm == valSSA.Params[1]
	}
	// delegation: validateVarDecl answers true exactly when a helper of the package returns "" (no complaint)
	acceptConst := "true"
	{
		hasLookup := false
		for _, b := range valSSA.Blocks {
			for _, ins := range b.Instrs {
				if _, ok := ins.(*ssa.Lookup); ok {
					hasLookup = true
				}
			}
		}
		if !hasLookup {
			for _, b := range valSSA.Blocks {
				if len(b.Instrs) == 0 {
					continue
				}
				ifi, ok := b.Instrs[len(b.Instrs)-1].(*ssa.If)
				if !ok {
					continue
				}
				bo, ok := ifi.Cond.(*ssa.BinOp)
				if !ok || (bo.Op != token.EQL && bo.Op != token.NEQ) {
					continue
				}
				call, ok := bo.X.(*ssa.Call)
				k, ok2 := bo.Y.(*ssa.Const)
				if !ok || !ok2 || k.Value == nil || k.Value.ExactString() != `""` || call.Call.StaticCallee() == nil || call.Call.StaticCallee().Blocks == nil {
					continue
				}
				emptyEdge := 0
				if bo.Op == token.NEQ {
					emptyEdge = 1
				}
				// the true answers lie on the edge where the helper had no complaint, the false answers on the other
				okDeleg := true
				for _, ret := range returnsOf(valSSA) {
					for _, v := range resultValues(ret, 0) {
						kc, isC := v.(*ssa.Const)
						if !isC || kc.Value == nil {
							okDeleg = false
							continue
						}
						if constant.BoolVal(kc.Value) != edgeDominates(b, emptyEdge, ret.Block()) {
							okDeleg = false
						}
					}
				}
				if !okDeleg {
					continue
				}
				h := call.Call.StaticCallee()
				for i, a := range call.Call.Args {
					if isNameOfParam(a) && i < len(h.Params) {
						nameParam = h.Params[i]
					}
				}
				if nameParam != nil {
					valSSA = h
					acceptConst = `""`
				}
			}
		}
	}
	_ = origValSSA
	lookupIn := func(field string) func(ssa.Value) (int, bool) {
		return func(cond ssa.Value) (int, bool) {
			neg := false
			for {
				u, ok := cond.(*ssa.UnOp)
				if !ok || u.Op != token.NOT {
					break
				}
				neg = !neg
				cond = u.X
			}
			isName := isNameOfParam
			// a predicate of the package that makes the look-up for the name it is handed (p.isFuncName(name))
			if hc, ok := cond.(*ssa.Call); ok {
				h := hc.Call.StaticCallee()
				if h == nil || h.Pkg != valSSA.Pkg || len(h.Blocks) == 0 {
					return 0, false
				}
				rets := returnsOf(h)
				if len(rets) != 1 || len(rets[0].Results) != 1 {
					return 0, false
				}
				var hname ssa.Value
				for i, a := range hc.Call.Args {
					if isNameOfParam(a) && i < len(h.Params) {
						hname = h.Params[i]
					}
				}
				if hname == nil {
					return 0, false
				}
				cond = rets[0].Results[0]
				isName = func(v ssa.Value) bool { return v == hname }
			}
			ex, ok := cond.(*ssa.Extract)
			if !ok || ex.Index != 1 {
				return 0, false
			}
			lk, ok := ex.Tuple.(*ssa.Lookup)
			if !ok || !lk.CommaOk || !isName(lk.Index) || !loadsField(lk.X, field) {
				return 0, false
			}
			if neg {
				return 0, true
			}
			return 1, true
		}
	}
	tests := []test{
		{"builtin-global", "the look-up of the name among the built-in globals (p.builtins.Globals)", lookupIn("Globals")},
		{"function-name", "the look-up of the name among the function names (p.funcs)", lookupIn("funcs")},
		{"current-scope", "inLocalScope(name) on the current scope", func(cond ssa.Value) (int, bool) {
			neg := false
			for {
				u, ok := cond.(*ssa.UnOp)
				if !ok || u.Op != token.NOT {
					break
				}
				neg = !neg
				cond = u.X
			}
			call, ok := cond.(*ssa.Call)
			if !ok || call.Call.StaticCallee() == nil || call.Call.StaticCallee().Name() != "inLocalScope" || len(call.Call.Args) < 2 {
				return 0, false
			}
			if !isNameOfParam(call.Call.Args[1]) || !loadsField(call.Call.Args[0], "scope") {
				return 0, false
			}
			if neg {
				return 0, true
			}
			return 1, true
		}},
	}
	var trueRets []*ssa.BasicBlock
	undecidedRet := false
	for _, ret := range returnsOf(valSSA) {
		for _, v := range resultValues(ret, 0) {
			switch k := v.(type) {
			case *ssa.Const:
				if k.Value != nil && k.Value.ExactString() == acceptConst {
					trueRets = append(trueRets, ret.Block())
				}
			default:
				if acceptConst == "true" {
					undecidedRet = true
				} // a helper that returns messages: everything but "" is a complaint
			}
		}
	}
	if undecidedRet {
		r.Undecided("validateVarDecl returns a computed value: the validator clause reads only constant answers")
		return
	}
	if len(trueRets) == 0 {
		r.Undecided("validateVarDecl never returns true")
		return
	}
	for _, t := range tests {
		construct := fmt.Sprintf("%s#validator:%s", valFn.QName(), t.key)
		pos := p.Rel(valSSA.Pos())
		found := false
		good := true
		for _, b := range valSSA.Blocks {
			if len(b.Instrs) == 0 {
				continue
			}
			ifi, ok := b.Instrs[len(b.Instrs)-1].(*ssa.If)
			if !ok {
				continue
			}
			edge, ok := t.match(ifi.Cond)
			if !ok {
				continue
			}
			found = true
			pos = p.Rel(condPos(ifi.Cond))
			for _, rb := range trueRets {
				if !edgeDominates(b, edge, rb) {
					good = false
				}
			}
		}
		switch {
		case !found:
			r.Viol(construct, pos, "validateVarDecl does not decide on "+t.text+": a declaration can no longer be rejected for this reason")
		case !good:
			r.Viol(construct, pos, "a return of true in validateVarDecl is not dominated by the negative edge of "+t.text+
				" (the test is reached only under another test, or its positive edge continues): e.g. a variable named err of type num can be declared inside a function, and str2num then stores a bool into it")
		default:
			r.Ok(construct, pos, "every return of true is dominated by the negative edge of "+t.text)
		}
	}
}

// scopeNameTests: the static scope stores and finds every name except the anonymous variable "_": every branch in
// (*scope).set and (*scope).get tests the receiver for nil, the name for equality with the constant "_" (directly
// or through a helper that is just this comparison), or the result of the map look-up. Any other test on the name
// makes a class of identifiers invisible to the scope: declared but never stored, so redeclaration, unused-variable
// and type checks silently stop applying to them while the evaluator still creates the variables.
func scopeNameTests(p *Program, pkg *packages.Package, r *Reporter) {
	for _, name := range []string{"(*scope).set", "(*scope).get"} {
		fd := FindFunc(pkg, name)
		if fd == nil {
			r.Undecided("%s not found", name)
			continue
		}
		sf := p.SSAFunc(fd.Obj)
		if len(sf.Params) < 2 {
			r.Undecided("%s: unexpected signature", name)
			continue
		}
		var isAnonTest func(v ssa.Value, nameVal ssa.Value, depth int) bool
		isAnonTest = func(v ssa.Value, nameVal ssa.Value, depth int) bool {
			switch x := v.(type) {
			case *ssa.UnOp:
				if x.Op == token.NOT {
					return isAnonTest(x.X, nameVal, depth)
				}
			case *ssa.BinOp:
				if x.Op != token.EQL && x.Op != token.NEQ {
					return false
				}
				a, b := x.X, x.Y
				if _, ok := a.(*ssa.Const); ok {
					a, b = b, a
				}
				k, ok := b.(*ssa.Const)
				return ok && a == nameVal && k.Value != nil && k.Value.ExactString() == `"_"`
			case *ssa.Call:
				sc := x.Call.StaticCallee()
				if depth == 0 || sc == nil || len(sc.Params) != 1 || len(x.Call.Args) != 1 || x.Call.Args[0] != nameVal || len(sc.Blocks) != 1 {
					return false
				}
				rets := returnsOf(sc)
				return len(rets) == 1 && len(rets[0].Results) == 1 && isAnonTest(rets[0].Results[0], sc.Params[0], depth-1)
			}
			return false
		}
		bad := ""
		var badPos token.Pos
		nTests := 0
		for _, b := range sf.Blocks {
			if len(b.Instrs) == 0 {
				continue
			}
			ifi, ok := b.Instrs[len(b.Instrs)-1].(*ssa.If)
			if !ok {
				continue
			}
			cond := ifi.Cond
			switch {
			case isAnonTest(cond, sf.Params[1], 1):
				nTests++
			case isNilTestOfCursor(cond, sf):
			case isLookupOk(cond):
			default:
				bad = "`" + cond.String() + "`"
				badPos = condPos(cond)
			}
		}
		construct := fd.QName() + "#only-underscore-is-anonymous"
		switch {
		case bad != "":
			r.Viol(construct, p.Rel(badPos), "the static scope decides on "+bad+", which is neither the nil test of the scope, nor the comparison of the name with \"_\", nor the result of the map look-up: "+
				"names other than the anonymous variable become invisible to the scope (e.g. every identifier starting with an underscore), so redeclaration, unused-variable and type checks no longer apply to them")
		case nTests == 0:
			r.Viol(construct, p.Rel(fd.Decl.Pos()), "the static scope does not single out the anonymous variable \"_\"")
		default:
			r.Ok(construct, p.Rel(fd.Decl.Pos()), "the only name the scope treats specially is the constant \"_\"")
		}
	}
}

func isNilTestOf(cond ssa.Value, v ssa.Value) bool {
	bo, ok := cond.(*ssa.BinOp)
	if !ok || (bo.Op != token.EQL && bo.Op != token.NEQ) {
		return false
	}
	k, ok := bo.Y.(*ssa.Const)
	return ok && k.IsNil() && bo.X == v
}

// isScopeCursor: v walks the scope chain outwards from the receiver: the receiver itself, or a phi of the receiver
// and loads of the `outer` field of the cursor (the loop form of the recursive look-up).
func isScopeCursor(v ssa.Value, fn *ssa.Function, seen map[ssa.Value]bool) bool {
	if len(fn.Params) > 0 && v == ssa.Value(fn.Params[0]) {
		return true
	}
	if seen[v] {
		return true
	}
	seen[v] = true
	switch x := v.(type) {
	case *ssa.Phi:
		for _, e := range x.Edges {
			if !isScopeCursor(e, fn, seen) {
				return false
			}
		}
		return len(x.Edges) > 0
	case *ssa.UnOp:
		if fa, ok := x.X.(*ssa.FieldAddr); ok && x.Op == token.MUL {
			if _, f := fieldAddrInfo(fa); f == "outer" {
				return isScopeCursor(fa.X, fn, seen)
			}
		}
	}
	return false
}

func isNilTestOfCursor(cond ssa.Value, fn *ssa.Function) bool {
	bo, ok := cond.(*ssa.BinOp)
	if !ok || (bo.Op != token.EQL && bo.Op != token.NEQ) {
		return false
	}
	k, ok := bo.Y.(*ssa.Const)
	return ok && k.IsNil() && isScopeCursor(bo.X, fn, map[ssa.Value]bool{})
}

func isLookupOk(cond ssa.Value) bool {
	ex, ok := cond.(*ssa.Extract)
	if !ok || ex.Index != 1 {
		return false
	}
	lk, ok := ex.Tuple.(*ssa.Lookup)
	return ok && lk.CommaOk
}

// declFromBuiltinsTable: the name comes from an element of the Globals table handed in through parser.Builtins
// (range over a map field named Globals).
func declFromBuiltinsTable(name ssa.Value) bool {
	u, ok := name.(*ssa.UnOp)
	if !ok {
		return false
	}
	fa, ok := u.X.(*ssa.FieldAddr)
	if !ok {
		return false
	}
	ex, ok := fa.X.(*ssa.Extract)
	if !ok {
		return false
	}
	nx, ok := ex.Tuple.(*ssa.Next)
	if !ok {
		return false
	}
	rg, ok := nx.Iter.(*ssa.Range)
	return ok && loadsField(rg.X, "Globals")
}

// nameOfVar: name is the Name of the variable v (a load of v.Name through the same access path, or the very value
// stored into the Name field of the locally built variable v).
func nameOfVar(name, v ssa.Value) bool {
	if u, ok := name.(*ssa.UnOp); ok {
		if fa, ok := u.X.(*ssa.FieldAddr); ok {
			if _, f := fieldAddrInfo(fa); f == "Name" && (fa.X == v || sameValueExpr(fa.X, v, 6)) {
				return true
			}
		}
	}
	if a, ok := resolveLocalFieldLoad(v).(*ssa.Alloc); ok {
		for _, st := range fieldStores(a, "Name") {
			if st.Val == name || sameValueExpr(st.Val, name, 6) {
				return true
			}
		}
	}
	return false
}

// onTrueEdgeOf: block b is dominated by the edge on which the call's boolean result is true.
func onTrueEdgeOf(call *ssa.Call, b *ssa.BasicBlock) bool {
	for _, blk := range call.Parent().Blocks {
		if len(blk.Instrs) == 0 {
			continue
		}
		ifi, ok := blk.Instrs[len(blk.Instrs)-1].(*ssa.If)
		if !ok {
			continue
		}
		cond, neg := ifi.Cond, false
		for {
			u, ok := cond.(*ssa.UnOp)
			if !ok || u.Op != token.NOT {
				break
			}
			neg = !neg
			cond = u.X
		}
		// `a && call()` lowers to a phi of constants and the call: follow the edge from the call's block
		if cond == ssa.Value(call) {
			edge := 0
			if neg {
				edge = 1
			}
			if edgeDominates(blk, edge, b) {
				return true
			}
		}
		if phi, ok := cond.(*ssa.Phi); ok && !neg {
			// every incoming value is the call or the constant false: true edge ⇒ the call answered true
			all, has := true, false
			for _, e := range phi.Edges {
				if e == ssa.Value(call) {
					has = true
					continue
				}
				if k, ok := e.(*ssa.Const); ok && k.Value != nil && !constant.BoolVal(k.Value) {
					continue
				}
				all = false
			}
			if all && has && edgeDominates(blk, 0, b) {
				return true
			}
		}
	}
	return false
}

// condPos: a position for a branch condition (If instructions carry none).
func condPos(v ssa.Value) token.Pos {
	for i := 0; i < 6 && v != nil; i++ {
		if v.Pos().IsValid() {
			return v.Pos()
		}
		switch x := v.(type) {
		case *ssa.UnOp:
			v = x.X
		case *ssa.Extract:
			v = x.Tuple
		case *ssa.BinOp:
			v = x.X
		default:
			return token.NoPos
		}
	}
	return token.NoPos
}

// R-BLOCKKEEP: what a block parses it keeps or diagnoses, and every block's variables are checked for use.
//
// In the statement loops of parseProgram and parseBlockWithEndTokens a statement that was parsed (a non-nil result of
// parseStatement, parseFunc or parseEventHandler) is appended to the statement list, or an error is recorded, on
// every path back to the loop header: a statement that is parsed and silently dropped — a comment line behind a
// return, say — disappears when the program is formatted, and does not run. And validateScope, which reports
// variables that are declared but not used, runs on every path through both functions (not only for blocks that
// end in `end`: the branches of an if are closed by `else`).
var ruleBlockKeep = &Rule{
	ID: "R-BLOCKKEEP",
	Doc: "in the statement loops of parseProgram and parseBlockWithEndTokens every parsed (non-nil) statement is appended or an error is recorded on every path around the loop, " +
		"and validateScope is called on every path through both functions",
	Floor: 4,
	Run:   runBlockKeep,
}

func runBlockKeep(c *Ctx, r *Reporter) {
	p, pkg := parserPkg(c, r)
	if pkg == nil {
		return
	}
	stmtParsers := map[string]bool{"parseStatement": true, "parseFunc": true, "parseEventHandler": true}
	for _, name := range []string{"(*parser).parseProgram", "(*parser).parseBlockWithEndTokens"} {
		fd := FindFunc(pkg, name)
		if fd == nil {
			r.Undecided("%s not found", name)
			continue
		}
		sf := p.SSAFunc(fd.Obj)
		// (a) validateScope on every path
		var vblocks []*ssa.BasicBlock
		for _, b := range sf.Blocks {
			for _, ins := range b.Instrs {
				if call, ok := ins.(*ssa.Call); ok && call.Call.StaticCallee() != nil && call.Call.StaticCallee().Name() == "validateScope" {
					vblocks = append(vblocks, b)
				}
			}
		}
		r.Check(len(vblocks) > 0 && !anyReturnPathAvoiding(sf.Blocks[0], vblocks), fd.QName()+"#validates-scope-on-every-path", p.Rel(fd.Decl.Pos()), "unused variables of the block are reported however the block ends",
			"a path through "+name+" returns without calling validateScope: variables that are declared but never used in such a block (an if branch that is followed by else, say) are accepted")
		// (b) parsed statements are kept or diagnosed
		k := 0
		for _, b := range sf.Blocks {
			for _, ins := range b.Instrs {
				call, ok := ins.(*ssa.Call)
				if !ok || call.Call.StaticCallee() == nil || !stmtParsers[call.Call.StaticCallee().Name()] || !inCycle(b) {
					continue
				}
				k++
				hdr := loopHeaderOf(b)
				// values that carry the statement
				derived := map[ssa.Value]bool{call: true}
				for changed := true; changed; {
					changed = false
					for _, b2 := range sf.Blocks {
						for _, i2 := range b2.Instrs {
							if ph, ok := i2.(*ssa.Phi); ok && !derived[ph] {
								for _, e := range ph.Edges {
									if derived[e] {
										derived[ph] = true
										changed = true
									}
								}
							}
						}
					}
				}
				var settlesIn func(x *ssa.BasicBlock, from int, derived map[ssa.Value]bool, depth int) bool
				settles := func(x *ssa.BasicBlock, from int) bool { return settlesIn(x, from, derived, 0) }
				settlesIn = func(x *ssa.BasicBlock, from int, derived map[ssa.Value]bool, depth int) bool { // a block that keeps or diagnoses (instructions from index `from`)
					for _, i2 := range x.Instrs[from:] {
						c2, ok := i2.(*ssa.Call)
						if !ok {
							continue
						}
						// a helper of the package that is handed the statement and keeps or diagnoses it on every path
						if h := c2.Call.StaticCallee(); h != nil && h.Pkg == sf.Pkg && len(h.Blocks) > 0 && depth < 2 {
							hd := map[ssa.Value]bool{}
							for i, a := range c2.Call.Args {
								if derived[a] && i < len(h.Params) {
									hd[h.Params[i]] = true
								}
							}
							if len(hd) > 0 {
								var sb []*ssa.BasicBlock
								for _, hb := range h.Blocks {
									if settlesIn(hb, 0, hd, depth+1) {
										sb = append(sb, hb)
									}
								}
								if len(sb) > 0 && !anyReturnPathAvoiding(h.Blocks[0], sb) {
									return true
								}
							}
						}
						if bi, ok := c2.Call.Value.(*ssa.Builtin); ok && bi.Name() == "append" {
							for _, a := range c2.Call.Args {
								if sl, ok := a.(*ssa.Slice); ok {
									if al, ok := sl.X.(*ssa.Alloc); ok {
										for _, ref := range *al.Referrers() {
											if ia, ok := ref.(*ssa.IndexAddr); ok {
												for _, r3 := range *ia.Referrers() {
													if st, ok := r3.(*ssa.Store); ok && derived[st.Val] {
														return true
													}
												}
											}
										}
									}
								}
							}
						}
						if sc := c2.Call.StaticCallee(); sc != nil && (sc.Name() == "appendError" || sc.Name() == "appendErrorForToken") {
							return true
						}
					}
					return false
				}
				bad := ""
				seen := map[*ssa.BasicBlock]bool{}
				var walk func(x *ssa.BasicBlock, from int, path string)
				walk = func(x *ssa.BasicBlock, from int, path string) {
					if bad != "" || (seen[x] && from == 0) {
						return
					}
					if from == 0 {
						seen[x] = true
						if x == hdr {
							bad = path
							return
						}
					}
					if settles(x, from) {
						return
					}
					if len(x.Instrs) == 0 {
						return
					}
					switch t := x.Instrs[len(x.Instrs)-1].(type) {
					case *ssa.Return:
						return
					case *ssa.If:
						if bo, ok := t.Cond.(*ssa.BinOp); ok && (bo.Op == token.EQL || bo.Op == token.NEQ) {
							if kc, ok := bo.Y.(*ssa.Const); ok && kc.IsNil() && derived[bo.X] {
								nonNil := 1
								if bo.Op == token.NEQ {
									nonNil = 0
								}
								walk(x.Succs[nonNil], 0, path+fmt.Sprintf("→b%d", x.Succs[nonNil].Index))
								return
							}
						}
					}
					for _, sx := range x.Succs {
						walk(sx, 0, path+fmt.Sprintf("→b%d", sx.Index))
					}
				}
				// start right behind the call
				idx := 0
				for i, i2 := range b.Instrs {
					if i2 == ssa.Instruction(call) {
						idx = i + 1
					}
				}
				walk(b, idx, fmt.Sprintf("b%d", b.Index))
				r.Check(bad == "", fmt.Sprintf("%s#keeps-or-diagnoses[%d]:%s", fd.QName(), k, call.Call.StaticCallee().Name()), p.Rel(instrPos(call)), "a parsed statement is appended or an error is recorded before the next one is parsed",
					"a statement returned by "+call.Call.StaticCallee().Name()+" can reach the next iteration ("+bad+") without being appended to the statement list and without an error: it is accepted and then missing from the tree — "+
						"`evy fmt` deletes it (a comment line behind the last return of a block, say) and it never runs")
			}
		}
		if k == 0 {
			r.Undecided("%s parses no statements in a loop", name)
		}
	}
}
