package check

import (
	"fmt"
	"go/constant"
	"go/token"
	"go/types"

	"golang.org/x/tools/go/packages"
	"golang.org/x/tools/go/ssa"
)

func isFloat(t types.Type) bool {
	b, ok := t.Underlying().(*types.Basic)
	return ok && b.Info()&types.IsFloat != 0
}

func isIntType(t types.Type) bool {
	b, ok := t.Underlying().(*types.Basic)
	return ok && b.Info()&types.IsInteger != 0
}

// sameFloat: a and b denote the same float value (identical, or conversions/loads of the same thing).
func sameFloat(a, b ssa.Value) bool {
	strip := func(v ssa.Value) ssa.Value {
		for {
			switch x := v.(type) {
			case *ssa.Convert:
				if isFloat(x.Type()) && isFloat(x.X.Type()) {
					v = x.X
					continue
				}
			case *ssa.ChangeType:
				v = x.X
				continue
			}
			return v
		}
	}
	a, b = strip(a), strip(b)
	return a == b || sameValueExpr(a, b, 4)
}

// nanSafeBounded: ins is dominated by the TRUE edges of ordered comparisons of f giving a lower and an upper bound.
// A true ordered comparison excludes NaN; false edges do not.
func nanSafeGuards(ins ssa.Instruction, f ssa.Value) (lower, upper, anyTrue bool) {
	for _, fact := range impliedConds(ins.Block()) {
		bo, ok := fact.Cond.(*ssa.BinOp)
		if !ok || !fact.Truth { // only the TRUE outcome of an ordered comparison excludes NaN
			continue
		}
		fx, fy := sameFloat(bo.X, f), sameFloat(bo.Y, f)
		if !fx && !fy {
			continue
		}
		switch bo.Op {
		case token.GEQ, token.GTR:
			anyTrue = true
			if fx {
				lower = true
			} else {
				upper = true
			}
		case token.LEQ, token.LSS:
			anyTrue = true
			if fx {
				upper = true
			} else {
				lower = true
			}
		case token.EQL:
			anyTrue = true
		}
	}
	return
}

// ---------------------------------------------------------------------------
// R-F2I

var f2iExempt = map[string]string{
	"pkg/bytecode.(*VM).Run#f2i:OpIterRange": "the converted value is the VM's own iteration counter (pushed by the compiler as the constant 0 and incremented by 1), never a user value",
}

func f2iRule(rel string, floor int) *Rule {
	return &Rule{
		ID:    "R-F2I/" + rel,
		Doc:   "every conversion of a float64 to an integer type in " + rel + " is protected NaN/Inf/fraction-safely: by a round-trip test float64(i) != f whose failing edge leaves before i is used, or by dominating ordered comparisons on their TRUE edges (a test of the form f < lo || f > hi lets NaN through); allocation sizes derived from a converted value are bounded below and above",
		Floor: floor,
		Run: func(c *Ctx, r *Reporter) {
			runF2I(c, r, rel)
		},
	}
}

func runF2I(c *Ctx, r *Reporter, rel string) {
	p, err := c.Default()
	if err != nil {
		r.Undecided("%v", err)
		return
	}
	pkg := p.Pkg(rel)
	if pkg == nil {
		r.Undecided("package %s not loaded", rel)
		return
	}
	for _, fd := range Funcs(pkg) {
		sf := p.SSAFunc(fd.Obj)
		if sf == nil {
			continue
		}
		n := 0
		for _, fn := range withAnon(sf) {
			for _, b := range fn.Blocks {
				for _, ins := range b.Instrs {
					cv, ok := ins.(*ssa.Convert)
					if !ok || !isFloat(cv.X.Type()) || !isIntType(cv.Type()) {
						continue
					}
					if _, isConst := cv.X.(*ssa.Const); isConst {
						continue
					}
					n++
					construct := fmt.Sprintf("%s#f2i[%d]", fd.QName(), n)
					pos := p.Rel(instrPos(cv))
					// exempt by target type: durations and exit statuses cannot crash the host
					if named := namedOf(cv.Type()); named != nil && (named.Obj().Name() == "Duration" || named.Obj().Name() == "ExitError") {
						r.Ok(construct, pos, "converted to "+named.Obj().Name()+": an out-of-range value is implementation-defined but cannot panic")
						continue
					}
					if why := roundTripProtected(cv); why == "" {
						r.Ok(construct, pos, "round-trip test float64(i) == f guards every use of the integer")
						checkAlloc(p, fd, cv, r)
						checkTripCount(p, fd, cv, r)
						continue
					}
					lo, hi, _ := nanSafeGuards(cv, cv.X)
					if lo && hi {
						r.Ok(construct, pos, "dominated by NaN-rejecting lower and upper bound comparisons")
						continue
					}
					key := ""
					if fd.Name() == "(*VM).Run" {
						key = fd.QName() + "#f2i:" + vmCaseOf(p, pkg, fd, cv)
					}
					if why := f2iExempt[key]; why != "" {
						r.Exempt(key, pos, why)
						continue
					}
					r.Viol(construct, pos, fmt.Sprintf("%s(%s) converts a user number to an integer without a NaN/Inf/fraction-safe guard: %s — NaN, ±Inf, huge or fractional values become arbitrary integers (wrong element, silent truncation) or crash a host function", cv.Type(), cv.X.Name(), roundTripProtected(cv)))
				}
			}
		}
	}
}

// vmCaseOf names the opcode case that contains the instruction (by source position).
func vmCaseOf(p *Program, pkg *packages.Package, fd *FuncDecl, ins ssa.Instruction) string {
	pos := instrPos(ins)
	name := ""
	for _, sw := range findSwitchesAll(fd) {
		for _, st := range sw.Body.List {
			if st.Pos() <= pos && pos < st.End() {
				if cc, ok := st.(interface{ Pos() token.Pos }); ok {
					_ = cc
				}
				if k := firstCaseConst(pkg, st); k != "" {
					name = k
				}
			}
		}
	}
	return name
}

// roundTripProtected returns "" when every use of the converted integer other
// than the round-trip comparison is dominated by the edge on which float64(i) == f.
func roundTripProtected(cv *ssa.Convert) string {
	refs := cv.Referrers()
	if refs == nil {
		return "the result is unused"
	}
	var back *ssa.Convert
	for _, ref := range *refs {
		if c2, ok := ref.(*ssa.Convert); ok && isFloat(c2.Type()) {
			back = c2
		}
	}
	if back == nil {
		return "no round-trip test float64(i) != f"
	}
	// comparison of back with the original
	var cmp *ssa.BinOp
	for _, ref := range *back.Referrers() {
		if bo, ok := ref.(*ssa.BinOp); ok && (bo.Op == token.NEQ || bo.Op == token.EQL) {
			other := bo.X
			if other == ssa.Value(back) {
				other = bo.Y
			}
			if sameFloat(other, cv.X) {
				cmp = bo
			}
		}
	}
	if cmp == nil {
		return "float64(i) is not compared with the original value"
	}
	// every other use of the integer lies where the comparison is known to have found the two equal — however the
	// test is written (`if f != float64(i)`, `case !(f == float64(i)):`, a flag computed from it)
	wantTruth := cmp.Op == token.EQL
	for _, ref := range *refs {
		if ref == ssa.Instruction(back) {
			continue
		}
		if _, isDebug := ref.(*ssa.DebugRef); isDebug {
			continue
		}
		known := false
		for _, f := range impliedConds(ref.Block()) {
			if f.Cond == ssa.Value(cmp) && f.Truth == wantTruth {
				known = true
			}
		}
		if !known {
			if cmp.Referrers() == nil || len(*cmp.Referrers()) == 0 {
				return "the round-trip comparison does not control a branch"
			}
			return fmt.Sprintf("the integer is used (%s) on a path not guarded by the round-trip test", ref.String())
		}
	}
	return ""
}

// checkAlloc: a make() whose size is computed from the converted value is bounded below and above.
func checkAlloc(p *Program, fd *FuncDecl, cv *ssa.Convert, r *Reporter) {
	fn := cv.Parent()
	k := 0
	for _, b := range fn.Blocks {
		for _, ins := range b.Instrs {
			ms, ok := ins.(*ssa.MakeSlice)
			if !ok {
				continue
			}
			if !derivesFrom(ms.Cap, cv, 4) && !derivesFrom(ms.Len, cv, 4) {
				continue
			}
			k++
			construct := fmt.Sprintf("%s#alloc[%d]", fd.QName(), k)
			lower, upper := intBounds(ms, cv)
			if !upper {
				upper = allPathsUpperBounded(cv, ms)
			}
			r.Check(lower && upper, construct, p.Rel(instrPos(ms)), "allocation size derived from a user number is bounded below and above",
				fmt.Sprintf("make(…) with a size computed from the user number %s lacks a dominating %s: a negative or huge count crashes the host (makeslice: cap out of range / out of memory)", cv.Name(), map[bool]string{true: "upper bound", false: "lower bound"}[lower]))
		}
	}
}

func derivesFrom(v ssa.Value, src ssa.Value, depth int) bool {
	if v == src {
		return true
	}
	if depth == 0 {
		return false
	}
	switch x := v.(type) {
	case *ssa.BinOp:
		return derivesFrom(x.X, src, depth-1) || derivesFrom(x.Y, src, depth-1)
	case *ssa.Convert:
		return derivesFrom(x.X, src, depth-1)
	case *ssa.Phi:
		for _, e := range x.Edges {
			if derivesFrom(e, src, depth-1) {
				return true
			}
		}
	}
	return false
}

// intBounds: ins is dominated by the false edge of `v < c` (lower bound) and the false edge of `v > c` (upper bound).
func intBounds(ins ssa.Instruction, v ssa.Value) (lower, upper bool) {
	for d := ins.Block(); d != nil; d = d.Idom() {
		idom := d.Idom()
		if idom == nil || len(idom.Instrs) == 0 {
			continue
		}
		ifi, ok := idom.Instrs[len(idom.Instrs)-1].(*ssa.If)
		if !ok {
			continue
		}
		bo, ok := ifi.Cond.(*ssa.BinOp)
		if !ok || (bo.X != v && bo.Y != v) {
			continue
		}
		onTrue := edgeDominates(idom, 0, ins.Block())
		onFalse := edgeDominates(idom, 1, ins.Block())
		vLeft := bo.X == v
		switch bo.Op {
		case token.LSS, token.LEQ: // v < c
			if vLeft && onFalse || !vLeft && onTrue {
				lower = true
			}
			if vLeft && onTrue || !vLeft && onFalse {
				upper = true
			}
		case token.GTR, token.GEQ: // v > c
			if vLeft && onFalse || !vLeft && onTrue {
				upper = true
			}
			if vLeft && onTrue || !vLeft && onFalse {
				lower = true
			}
		}
	}
	return
}

// ---------------------------------------------------------------------------
// R-NANGUARD

var ruleNaNGuard = &Rule{
	ID:    "R-NANGUARD",
	Doc:   "a built-in that range-checks a number argument does so NaN-safely: when some ordered comparison of the argument rejects it (its true edge only reaches error returns), every other use of the argument is dominated by the TRUE edge of an ordered comparison — `x < lo || x > hi` lets NaN through, `!(x >= lo && x <= hi)` does not",
	Floor: 3,
	Run:   runNaNGuard,
}

func runNaNGuard(c *Ctx, r *Reporter) {
	p, pkg := evaluatorPkg(c, r)
	if pkg == nil {
		return
	}
	// the numeric ranger: the loop goes on only over the TRUE edge of an ordered comparison of its float state
	// (a NaN start, stop or step takes every FALSE edge and must end the loop)
	if fd := FindFunc(pkg, "(*stepRange).next"); fd != nil {
		sf := p.SSAFunc(fd.Obj)
		var loads []*ssa.UnOp
		for _, b := range sf.Blocks {
			for _, ins := range b.Instrs {
				u, ok := ins.(*ssa.UnOp)
				if !ok || u.Op != token.MUL || !isFloat(u.Type()) {
					continue
				}
				if fa, ok := u.X.(*ssa.FieldAddr); ok {
					if named, _ := fieldAddrInfo(fa); named != nil && named.Obj().Name() == "stepRange" {
						loads = append(loads, u)
					}
				}
			}
		}
		bad := ""
		for _, ret := range returnsOf(sf) {
			for _, rv := range resultValues(ret, 0) {
				if k, ok := rv.(*ssa.Const); ok && k.Value != nil && k.Value.ExactString() == "false" {
					continue
				}
				if nanPathReaches(sf, loads, ret.Block()) {
					bad = p.Rel(instrPos(ret))
				}
			}
		}
		if len(loads) == 0 {
			r.Undecided("(*stepRange).next reads no float state")
		} else {
			r.Check(bad == "", fd.QName()+"#nan-ends-the-loop", p.Rel(fd.Decl.Pos()), "the ranger continues only over the true edge of an ordered comparison of its state",
				"the ranger can report another iteration ("+bad+") on a path where every ordered comparison of start/stop/step took its false edge — the path a NaN takes: "+
					"`for i := range 0 3 (0/0)` or `range (0/0)` never ends")
		}
	} else {
		r.Undecided("(*stepRange).next not found")
	}
	for _, fd := range Funcs(pkg) {
		sf := p.SSAFunc(fd.Obj)
		if sf == nil {
			continue
		}
		n := 0
		for _, fn := range withAnon(sf) {
			// number arguments: loads of field V of *numVal, grouped by the value object they are loaded from
			groups := map[ssa.Value][]*ssa.UnOp{}
			var order []ssa.Value
			for _, b := range fn.Blocks {
				for _, ins := range b.Instrs {
					u, ok := ins.(*ssa.UnOp)
					if !ok || u.Op != token.MUL || !isFloat(u.Type()) {
						continue
					}
					fa, ok := u.X.(*ssa.FieldAddr)
					if !ok {
						continue
					}
					if named, name := fieldAddrInfo(fa); named == nil || named.Obj().Name() != "numVal" || name != "V" {
						continue
					}
					if _, ok := groups[fa.X]; !ok {
						order = append(order, fa.X)
					}
					groups[fa.X] = append(groups[fa.X], u)
				}
			}
			for _, base := range order {
				loads := groups[base]
				var rejecting []*ssa.BinOp
				for _, u := range loads {
					for _, ref := range *u.Referrers() {
						bo, ok := ref.(*ssa.BinOp)
						if !ok || !isFloat(bo.X.Type()) {
							continue
						}
						switch bo.Op {
						case token.LSS, token.LEQ, token.GTR, token.GEQ:
						default:
							continue
						}
						for _, r2 := range *bo.Referrers() {
							if ifi, ok := r2.(*ssa.If); ok && (onlyErrorReturns(ifi.Block().Succs[0], map[*ssa.BasicBlock]bool{}) || onlyErrorReturns(ifi.Block().Succs[1], map[*ssa.BasicBlock]bool{})) {
								rejecting = append(rejecting, bo)
							}
						}
					}
				}
				if len(rejecting) == 0 {
					continue
				}
				n++
				construct := fmt.Sprintf("%s#range-check[%d]", fd.QName(), n)
				bad := ""
				for _, u := range loads {
					for _, ref := range *u.Referrers() {
						if bo, ok := ref.(*ssa.BinOp); ok {
							switch bo.Op {
							case token.LSS, token.LEQ, token.GTR, token.GEQ, token.EQL, token.NEQ:
								continue
							}
						}
						if _, isDebug := ref.(*ssa.DebugRef); isDebug {
							continue
						}
						if onlyErrorReturns(ref.Block(), map[*ssa.BasicBlock]bool{}) {
							continue // used to build the error message on the rejecting path
						}
						target := ref.Block()
						if phi, ok := ref.(*ssa.Phi); ok {
							for i, e := range phi.Edges {
								if e == ssa.Value(u) {
									target = phi.Block().Preds[i]
								}
							}
						}
						if nanPathReaches(fn, loads, target) {
							bad = ref.String()
						}
					}
				}
				r.Check(bad == "", construct, p.Rel(instrPos(rejecting[0])), "the range check rejects NaN as well",
					fmt.Sprintf("the argument is range-checked with a comparison that is false for NaN (`x < lo || x > hi` form) and then used (%s): NaN passes the check although it is outside the documented domain", bad))
			}
		}
	}
}

func alsoLoadedGuarded(ref ssa.Instruction, fa *ssa.FieldAddr) bool { return false }

// onlyErrorReturns: every path from b ends in a return whose last result is a non-nil error (or a panic).
func onlyErrorReturns(b *ssa.BasicBlock, seen map[*ssa.BasicBlock]bool) bool {
	if seen[b] {
		return true
	}
	seen[b] = true
	if len(b.Instrs) == 0 {
		return false
	}
	switch last := b.Instrs[len(b.Instrs)-1].(type) {
	case *ssa.Return:
		if len(last.Results) == 0 {
			return false
		}
		res := last.Results[len(last.Results)-1]
		if !isErrorType(res.Type()) {
			return false
		}
		for _, v := range resultValues(last, len(last.Results)-1) {
			if mayBeNilError(v, b, 0) {
				return false
			}
		}
		return true
	case *ssa.Panic:
		return true
	case *ssa.If, *ssa.Jump:
		for _, s := range b.Succs {
			if !onlyErrorReturns(s, seen) {
				return false
			}
		}
		return true
	}
	return false
}

// allPathsUpperBounded: every path from the conversion to the allocation takes
// the false edge of `v > c` / `v >= c`, or the false edge of `other > 0` where
// other is the second factor of the size product (the product is then ≤ 0·v).
func allPathsUpperBounded(cv *ssa.Convert, ms *ssa.MakeSlice) bool {
	var other ssa.Value
	for _, sz := range []ssa.Value{ms.Cap, ms.Len} {
		if bo, ok := sz.(*ssa.BinOp); ok && bo.Op == token.MUL {
			if bo.X == ssa.Value(cv) {
				other = bo.Y
			} else if bo.Y == ssa.Value(cv) {
				other = bo.X
			}
		}
	}
	return pathsUpperBounded(cv, ms.Block(), other)
}

// checkTripCount: a loop whose trip count is the converted user number (`for range n`, `for i := 0; i < n; i++`)
// is reached only over the false edge of an upper-bound test of that number.
func checkTripCount(p *Program, fd *FuncDecl, cv *ssa.Convert, r *Reporter) {
	fn := cv.Parent()
	k := 0
	for _, b := range fn.Blocks {
		if len(b.Instrs) == 0 {
			continue
		}
		ifi, ok := b.Instrs[len(b.Instrs)-1].(*ssa.If)
		if !ok {
			continue
		}
		bo, ok := ifi.Cond.(*ssa.BinOp)
		if !ok || (bo.Op != token.LSS && bo.Op != token.LEQ) || bo.Y != ssa.Value(cv) {
			continue
		}
		// a loop: the test is on a cycle (go/ssa rotates `for range n` into a guard plus a bottom test)
		if !reachesBlock(b.Succs[0], b) {
			continue
		}
		k++
		construct := fmt.Sprintf("%s#trip-count[%d]", fd.QName(), k)
		r.Check(pathsUpperBounded(cv, b, nil), construct, p.Rel(instrPos(cv)), "the loop count derived from a user number is bounded above on every path to the loop",
			fmt.Sprintf("a loop runs %s times, a count converted from a user number, and a path reaches it without an upper-bound test: a count like 1e15 keeps the host busy for ever (no stop check inside the loop)", cv.Name()))
	}
}

// pathsUpperBounded: every path from the conversion to target takes the false edge of `v > c` / `v >= c`
// (or of `other > 0` when other is given).
func pathsUpperBounded(cv *ssa.Convert, target *ssa.BasicBlock, other ssa.Value) bool {
	blocked := func(b *ssa.BasicBlock, idx int) bool {
		if len(b.Instrs) == 0 {
			return false
		}
		ifi, ok := b.Instrs[len(b.Instrs)-1].(*ssa.If)
		if !ok {
			return false
		}
		bo, ok := ifi.Cond.(*ssa.BinOp)
		if !ok || (bo.Op != token.GTR && bo.Op != token.GEQ) {
			return false
		}
		if idx != 1 {
			return false
		}
		if bo.X == ssa.Value(cv) {
			return true
		}
		if other != nil && (bo.X == other || sameValueExpr(bo.X, other, 4)) {
			if k, ok := bo.Y.(*ssa.Const); ok && k.Value != nil && k.Value.ExactString() == "0" {
				return true
			}
		}
		return false
	}
	seen := map[*ssa.BasicBlock]bool{}
	var reach func(b *ssa.BasicBlock) bool
	reach = func(b *ssa.BasicBlock) bool {
		if b == target {
			return true
		}
		if seen[b] {
			return false
		}
		seen[b] = true
		for i, s := range b.Succs {
			if blocked(b, i) {
				continue
			}
			if reach(s) {
				return true
			}
		}
		return false
	}
	return !reach(cv.Block())
}

// nanPathReaches: is there a path from the entry to target on which at least one
// ordered comparison of the argument was evaluated and every evaluated one took
// its FALSE edge (the only edges NaN can take)?
func nanPathReaches(fn *ssa.Function, loads []*ssa.UnOp, target *ssa.BasicBlock) bool {
	isLoad := func(v ssa.Value) bool {
		for _, u := range loads {
			if sameFloat(v, u) {
				return true
			}
		}
		return false
	}
	cmpBlock := func(b *ssa.BasicBlock) bool {
		if len(b.Instrs) == 0 {
			return false
		}
		ifi, ok := b.Instrs[len(b.Instrs)-1].(*ssa.If)
		if !ok {
			return false
		}
		bo, ok := ifi.Cond.(*ssa.BinOp)
		if !ok {
			return false
		}
		switch bo.Op {
		case token.LSS, token.LEQ, token.GTR, token.GEQ:
			return isLoad(bo.X) || isLoad(bo.Y)
		}
		return false
	}
	type state struct {
		b, pred *ssa.BasicBlock
		eval    bool
	}
	// nanValue: the value a boolean has when every ordered comparison of the float state is false (a NaN operand);
	// a phi of the block the walk stands in takes the edge the walk came over.
	var nanValue func(v ssa.Value, at, pred *ssa.BasicBlock, depth int) (val, known, usesCmp bool)
	nanValue = func(v ssa.Value, at, pred *ssa.BasicBlock, depth int) (bool, bool, bool) {
		if depth > 5 {
			return false, false, false
		}
		switch x := v.(type) {
		case *ssa.Const:
			if x.Value != nil && x.Value.Kind() == constant.Bool {
				return constant.BoolVal(x.Value), true, false
			}
		case *ssa.UnOp:
			if x.Op == token.NOT {
				val, known, uses := nanValue(x.X, at, pred, depth+1)
				return !val, known, uses
			}
		case *ssa.BinOp:
			switch x.Op {
			case token.LSS, token.LEQ, token.GTR, token.GEQ:
				if isLoad(x.X) || isLoad(x.Y) {
					return false, true, true
				}
			}
		case *ssa.Phi:
			if x.Block() == at && pred != nil {
				for k, pb := range at.Preds {
					if pb == pred && k < len(x.Edges) {
						return nanValue(x.Edges[k], pb, nil, depth+1)
					}
				}
				return false, false, false
			}
			first, all, uses := false, true, false
			for k, e := range x.Edges {
				val, known, u := nanValue(e, x.Block(), nil, depth+1)
				if !known {
					return false, false, false
				}
				if k == 0 {
					first = val
				} else if val != first {
					all = false
				}
				uses = uses || u
			}
			if all && len(x.Edges) > 0 {
				return first, true, uses
			}
		}
		return false, false, false
	}
	seen := map[state]bool{}
	stack := []state{{fn.Blocks[0], nil, false}}
	for len(stack) > 0 {
		cur := stack[len(stack)-1]
		stack = stack[:len(stack)-1]
		if seen[cur] {
			continue
		}
		seen[cur] = true
		if cur.b == target && cur.eval {
			return true
		}
		if cmpBlock(cur.b) {
			stack = append(stack, state{cur.b.Succs[1], cur.b, true})
			continue
		}
		// a test of a boolean that was computed from such comparisons (inRange := s.cur < s.stop … if !inRange)
		if len(cur.b.Instrs) > 0 {
			if ifi, ok := cur.b.Instrs[len(cur.b.Instrs)-1].(*ssa.If); ok {
				if val, known, uses := nanValue(ifi.Cond, cur.b, cur.pred, 0); known {
					next := 1
					if val {
						next = 0
					}
					stack = append(stack, state{cur.b.Succs[next], cur.b, cur.eval || uses})
					continue
				}
			}
		}
		for _, s := range cur.b.Succs {
			stack = append(stack, state{s, cur.b, cur.eval})
		}
	}
	return false
}
