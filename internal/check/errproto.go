package check

import (
	"fmt"

	"golang.org/x/tools/go/ssa"
)

// R-ERRPROTO: the recoverable-error protocol of str2num / str2bool.
var ruleErrProto = &Rule{
	ID:    "R-ERRPROTO",
	Doc:   "str2num and str2bool call resetGlobalErr before anything else on every path and setGlobalErr only on the edge where the conversion failed; reset rebinds err=false and errmsg=\"\" unconditionally; no other function touches the globals; the test built-in's bookkeeping counts every call and records failures",
	Floor: 8,
	Run:   runErrProto,
}

func runErrProto(c *Ctx, r *Reporter) {
	p, pkg := evaluatorPkg(c, r)
	if pkg == nil {
		return
	}
	find := func(name string) *ssa.Function {
		fd := FindFunc(pkg, name)
		if fd == nil {
			r.Undecided("%s not found", name)
			return nil
		}
		return p.SSAFunc(fd.Obj)
	}
	reset, set, global := find("resetGlobalErr"), find("setGlobalErr"), find("globalErr")
	if reset == nil || set == nil || global == nil {
		return
	}
	// who may call
	for _, fn := range ssaFuncsOf(p, pkg) {
		for _, b := range fn.Blocks {
			for _, ins := range b.Instrs {
				call, ok := ins.(*ssa.Call)
				if !ok {
					continue
				}
				sc := call.Call.StaticCallee()
				if sc != reset && sc != set && sc != global {
					continue
				}
				name := ssaDisplayName(fn)
				okCaller := name == "str2numFunc" || name == "str2boolFunc" || (sc == global && (fn == reset || fn == set))
				r.Check(okCaller, fmt.Sprintf("%s#calls:%s", ssaQName(fn), sc.Name()), p.Rel(instrPos(call)), "err/errmsg are touched only by the conversion built-ins", name+" changes the global err/errmsg: only str2num and str2bool may")
			}
		}
	}
	for _, name := range []string{"str2numFunc", "str2boolFunc"} {
		fn := find(name)
		if fn == nil {
			continue
		}
		resets := callsTo(fn, reset)
		sets := callsTo(fn, set)
		construct := "pkg/evaluator." + name
		// reset dominates every return and every other call
		okReset := len(resets) == 1 && resets[0].Block() == fn.Blocks[0]
		if okReset {
			for _, ins := range fn.Blocks[0].Instrs {
				if ins == resets[0].(ssa.Instruction) {
					break
				}
				if _, isCall := ins.(*ssa.Call); isCall {
					okReset = false
				}
			}
		}
		r.Check(okReset, construct+"#reset-first", p.Rel(fn.Pos()), "err/errmsg are reset before the conversion on every path", name+" must call resetGlobalErr first, unconditionally: a successful conversion has to clear an earlier error")
		// set only on failure edge: dominated by true edge of `err != nil`
		okSet := len(sets) == 1
		if okSet {
			okSet = false
			s := sets[0]
			for d := s.Block(); d != nil; d = d.Idom() {
				idom := d.Idom()
				if idom == nil || len(idom.Instrs) == 0 {
					continue
				}
				if ifi, ok := idom.Instrs[len(idom.Instrs)-1].(*ssa.If); ok {
					if bo, ok := ifi.Cond.(*ssa.BinOp); ok && isErrorType(bo.X.Type()) {
						if k, ok := bo.Y.(*ssa.Const); ok && k.IsNil() {
							edge := 0
							if bo.Op.String() == "==" {
								edge = 1
							}
							if edgeDominates(idom, edge, s.Block()) {
								okSet = true
							}
						}
					}
				}
			}
		}
		r.Check(okSet, construct+"#set-on-failure", p.Rel(fn.Pos()), "err/errmsg are set exactly on the failure edge of the conversion", name+" must call setGlobalErr exactly once, on the edge where the strconv error is non-nil")
	}
	// resetGlobalErr / setGlobalErr call globalErr unconditionally with the right flag
	for fn, want := range map[*ssa.Function]string{reset: "false", set: "true"} {
		calls := callsTo(fn, global)
		okc := len(calls) == 1 && calls[0].Block() == fn.Blocks[0] && len(fn.Blocks) == 1
		if okc {
			if k, ok := calls[0].Common().Args[1].(*ssa.Const); !ok || k.Value == nil || k.Value.ExactString() != want {
				okc = false
			}
		}
		r.Check(okc, "pkg/evaluator."+fn.Name()+"#unconditional", p.Rel(fn.Pos()), "rebinds err="+want+" unconditionally", fn.Name()+" must call globalErr(scope, "+want+", …) unconditionally")
	}
	// globalErr updates both names on every path
	if upd := find("(*scope).update"); upd != nil {
		calls := callsTo(global, upd)
		names := map[string]bool{}
		for _, cc := range calls {
			if k, ok := cc.Common().Args[1].(*ssa.Const); ok && k.Value != nil {
				names[k.Value.ExactString()] = true
				if anyReturnPathAvoiding(global.Blocks[0], []*ssa.BasicBlock{cc.Block()}) {
					names["!"+k.Value.ExactString()] = true
				}
			}
		}
		okg := names[`"err"`] && names[`"errmsg"`] && !names[`!"err"`] && !names[`!"errmsg"`]
		r.Check(okg, "pkg/evaluator.globalErr#both", p.Rel(global.Pos()), "err and errmsg are both rebound on every path", "globalErr must update both err and errmsg on every path that returns")
	}
	// test bookkeeping in evalFunccall: total++ on every path through the `test` branch, failures appended
	if ef := find("(*Evaluator).evalFunccall"); ef != nil {
		incs, appends := 0, 0
		var efBlocks []*ssa.BasicBlock
		for _, h := range regionFns(ef, 2, dispatcherNames) { // the bookkeeping may live in a helper of evalFunccall
			efBlocks = append(efBlocks, h.Blocks...)
		}
		for _, b := range efBlocks {
			for _, ins := range b.Instrs {
				st, ok := ins.(*ssa.Store)
				if !ok {
					continue
				}
				fa, ok := st.Addr.(*ssa.FieldAddr)
				if !ok {
					continue
				}
				_, name := fieldAddrInfo(fa)
				if name == "total" {
					if bo, ok := st.Val.(*ssa.BinOp); ok && bo.Op.String() == "+" {
						incs++
					}
				}
				if name == "errors" && growsFromOld(st.Val) {
					appends++
				}
			}
		}
		r.Check(incs == 1 && appends == 1, "pkg/evaluator.(*Evaluator).evalFunccall#test-bookkeeping", p.Rel(ef.Pos()), "each test call is counted once and a failure is recorded once", fmt.Sprintf("evalFunccall must increment TestInfo.total once and append a failed test once (found %d increments, %d appends)", incs, appends))
	}
}
