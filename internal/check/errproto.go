package check

import (
	"fmt"
	"go/constant"

	"golang.org/x/tools/go/ssa"
)

// R-ERRPROTO: the recoverable-error protocol of str2num / str2bool.
var ruleErrProto = &Rule{
	ID:    "R-ERRPROTO",
	Doc:   "str2num and str2bool call resetGlobalErr before anything else on every path and setGlobalErr only on the edge where the conversion failed; reset rebinds err=false and errmsg=\"\" unconditionally; no other function touches the globals; the test built-in's bookkeeping counts every call and records failures",
	Floor: 8,
	Run:   runErrProto,
}

func runErrProto(c *Ctx, r *Reporter) {
	p, pkg := evaluatorPkg(c, r)
	if pkg == nil {
		return
	}
	find := func(name string) *ssa.Function {
		fd := FindFunc(pkg, name)
		if fd == nil {
			r.Undecided("%s not found", name)
			return nil
		}
		return p.SSAFunc(fd.Obj)
	}
	reset, set := find("resetGlobalErr"), find("setGlobalErr")
	upd := find("(*scope).update")
	if reset == nil || set == nil || upd == nil {
		return
	}
	// The bindings of err and errmsg are changed by scope.update with one of these names — written as a constant, or
	// handed down as a constant through the parameters of helpers (globalErr, or a generic "update this global").
	// errUpdates lists what a function rebinds when called with the given arguments: the name, the constant value of
	// a bool bound to it ("" if unknown) and whether the update lies on every path that returns.
	type errUpd struct {
		name, flag string
		uncond     bool
		pos        ssa.Instruction
	}
	var errUpdates func(fn *ssa.Function, bind map[ssa.Value]ssa.Value, depth int) []errUpd
	resolve := func(v ssa.Value, bind map[ssa.Value]ssa.Value) ssa.Value {
		for i := 0; i < 4; i++ {
			if b, ok := bind[v]; ok {
				v = b
				continue
			}
			break
		}
		return v
	}
	errUpdates = func(fn *ssa.Function, bind map[ssa.Value]ssa.Value, depth int) []errUpd {
		var out []errUpd
		if fn == nil || len(fn.Blocks) == 0 || depth > 3 {
			return nil
		}
		for _, b := range fn.Blocks {
			for _, ins := range b.Instrs {
				call, ok := ins.(*ssa.Call)
				if !ok || call.Call.StaticCallee() == nil {
					continue
				}
				uncond := !anyReturnPathAvoiding(fn.Blocks[0], []*ssa.BasicBlock{b}) && !inCycle(b)
				sc := call.Call.StaticCallee()
				if sc == upd && len(call.Call.Args) >= 3 {
					k, ok := resolve(call.Call.Args[1], bind).(*ssa.Const)
					if !ok || k.Value == nil || k.Value.Kind() != constant.String {
						continue
					}
					name := constant.StringVal(k.Value)
					if name != "err" && name != "errmsg" {
						continue
					}
					flag := ""
					val := resolve(call.Call.Args[2], bind)
					if mi, ok := val.(*ssa.MakeInterface); ok {
						val = mi.X
					}
					if al, ok := val.(*ssa.Alloc); ok {
						if fv := storedFieldValue(al, "V"); fv != nil {
							if kc, ok := resolve(fv, bind).(*ssa.Const); ok && kc.Value != nil && kc.Value.Kind() == constant.Bool {
								flag = kc.Value.ExactString()
							}
						}
					}
					out = append(out, errUpd{name, flag, uncond, call})
					continue
				}
				if sc.Pkg != fn.Pkg || sc == reset || sc == set {
					continue
				}
				nb := map[ssa.Value]ssa.Value{}
				for k, v := range bind {
					nb[k] = v
				}
				for i, prm := range sc.Params {
					if i < len(call.Call.Args) {
						nb[prm] = resolve(call.Call.Args[i], bind)
					}
				}
				for _, u := range errUpdates(sc, nb, depth+1) {
					u.uncond = u.uncond && uncond
					u.pos = call
					out = append(out, u)
				}
			}
		}
		return out
	}
	// who may touch the globals: the two conversion built-ins, through resetGlobalErr and setGlobalErr
	touches := map[*ssa.Function]bool{}
	for _, fn := range ssaFuncsOf(p, pkg) {
		for _, b := range fn.Blocks {
			for _, ins := range b.Instrs {
				call, ok := ins.(*ssa.Call)
				if !ok {
					continue
				}
				if sc := call.Call.StaticCallee(); sc == reset || sc == set {
					name := ssaDisplayName(fn)
					okCaller := name == "str2numFunc" || name == "str2boolFunc"
					r.Check(okCaller, fmt.Sprintf("%s#calls:%s", ssaQName(fn), sc.Name()), p.Rel(instrPos(call)), "err/errmsg are touched only by the conversion built-ins", name+" changes the global err/errmsg: only str2num and str2bool may")
				}
			}
		}
		if fn != reset && fn != set && len(errUpdates(fn, nil, 0)) > 0 {
			touches[fn] = true
		}
	}
	// … and what rebinds err/errmsg on its own account is a helper of those two, called by nothing else
	under := map[*ssa.Function]bool{}
	for _, root := range []*ssa.Function{reset, set} {
		for _, h := range regionFns(root, 3, nil) {
			under[h] = true
		}
	}
	for _, fn := range ssaFuncsOf(p, pkg) {
		if !touches[fn] {
			continue
		}
		okT := under[fn]
		if okT {
			for _, caller := range ssaFuncsOf(p, pkg) {
				if len(callsTo(caller, fn)) > 0 && !under[caller] {
					okT = false
				}
			}
		}
		r.Check(okT, fmt.Sprintf("%s#rebinds-err", ssaQName(fn)), p.Rel(fn.Pos()), "rebinds err/errmsg on behalf of resetGlobalErr / setGlobalErr only", ssaDisplayName(fn)+" rebinds the global err/errmsg outside the reset/set protocol of str2num and str2bool")
	}
	for _, name := range []string{"str2numFunc", "str2boolFunc"} {
		fn := find(name)
		if fn == nil {
			continue
		}
		resets := callsTo(fn, reset)
		sets := callsTo(fn, set)
		construct := "pkg/evaluator." + name
		// reset dominates every return and every other call
		okReset := len(resets) == 1 && resets[0].Block() == fn.Blocks[0]
		if okReset {
			for _, ins := range fn.Blocks[0].Instrs {
				if ins == resets[0].(ssa.Instruction) {
					break
				}
				if _, isCall := ins.(*ssa.Call); isCall {
					okReset = false
				}
			}
		}
		r.Check(okReset, construct+"#reset-first", p.Rel(fn.Pos()), "err/errmsg are reset before the conversion on every path", name+" must call resetGlobalErr first, unconditionally: a successful conversion has to clear an earlier error")
		// set only on failure edge: dominated by true edge of `err != nil`
		okSet := len(sets) == 1
		if okSet {
			okSet = false
			s := sets[0]
			for d := s.Block(); d != nil; d = d.Idom() {
				idom := d.Idom()
				if idom == nil || len(idom.Instrs) == 0 {
					continue
				}
				if ifi, ok := idom.Instrs[len(idom.Instrs)-1].(*ssa.If); ok {
					if bo, ok := ifi.Cond.(*ssa.BinOp); ok && isErrorType(bo.X.Type()) {
						if k, ok := bo.Y.(*ssa.Const); ok && k.IsNil() {
							edge := 0
							if bo.Op.String() == "==" {
								edge = 1
							}
							if edgeDominates(idom, edge, s.Block()) {
								okSet = true
							}
						}
					}
				}
			}
		}
		r.Check(okSet, construct+"#set-on-failure", p.Rel(fn.Pos()), "err/errmsg are set exactly on the failure edge of the conversion", name+" must call setGlobalErr exactly once, on the edge where the strconv error is non-nil")
	}
	// resetGlobalErr rebinds err=false, setGlobalErr err=true, and both rebind errmsg — on every path, whatever helper does it
	for fn, want := range map[*ssa.Function]string{reset: "false", set: "true"} {
		ups := errUpdates(fn, nil, 0)
		errOK, msgOK, bad := false, false, ""
		for _, u := range ups {
			switch {
			case u.name == "err" && u.flag == want && u.uncond:
				errOK = true
			case u.name == "err":
				bad = "err is rebound to " + u.flag + " or only on some paths"
			case u.name == "errmsg" && u.uncond:
				msgOK = true
			case u.name == "errmsg":
				bad = "errmsg is rebound only on some paths"
			}
		}
		r.Check(errOK && msgOK && bad == "", "pkg/evaluator."+fn.Name()+"#unconditional", p.Rel(fn.Pos()), "rebinds err="+want+" and errmsg on every path",
			fn.Name()+" must rebind err to "+want+" and errmsg on every path that returns ("+bad+"): a conversion would leave the error state of an earlier one behind")
	}
	// test bookkeeping in evalFunccall: total++ on every path through the `test` branch, failures appended
	if ef := find("(*Evaluator).evalFunccall"); ef != nil {
		incs, appends := 0, 0
		var efBlocks []*ssa.BasicBlock
		for _, h := range regionFns(ef, 2, dispatcherNames) { // the bookkeeping may live in a helper of evalFunccall
			efBlocks = append(efBlocks, h.Blocks...)
		}
		for _, b := range efBlocks {
			for _, ins := range b.Instrs {
				st, ok := ins.(*ssa.Store)
				if !ok {
					continue
				}
				fa, ok := st.Addr.(*ssa.FieldAddr)
				if !ok {
					continue
				}
				_, name := fieldAddrInfo(fa)
				if name == "total" {
					if bo, ok := st.Val.(*ssa.BinOp); ok && bo.Op.String() == "+" {
						incs++
					}
				}
				if name == "errors" && growsFromOld(st.Val) {
					appends++
				}
			}
		}
		r.Check(incs == 1 && appends == 1, "pkg/evaluator.(*Evaluator).evalFunccall#test-bookkeeping", p.Rel(ef.Pos()), "each test call is counted once and a failure is recorded once", fmt.Sprintf("evalFunccall must increment TestInfo.total once and append a failed test once (found %d increments, %d appends)", incs, appends))
	}
}
