package check

import (
	"fmt"
	"go/ast"
	"go/token"
	"go/types"
	"os"
	"path/filepath"
	"sort"
	"strings"

	"golang.org/x/tools/go/packages"
	"golang.org/x/tools/go/ssa"
	"golang.org/x/tools/go/ssa/ssautil"
)

// Program is one load configuration of the repository: parsed, type-checked
// and (where possible) lowered to SSA.
type Program struct {
	Name   string
	Dir    string
	Tags   string
	Fset   *token.FileSet
	Pkgs   []*packages.Package // root packages, sorted by path
	ByPath map[string]*packages.Package
	SSA    *ssa.Program
	SSAPkg map[string]*ssa.Package
	// SoftErrors counts type errors that were tolerated (tinygo: missing function body).
	SoftErrors int
	// Renamed lists the functions that are analysed under the name recorded for them at the pinned tree.
	Renamed []string
}

// ModulePath of the root module under analysis.
const ModulePath = "evylang.dev/evy"

func loadEnv() []string {
	env := []string{}
	for _, kv := range os.Environ() {
		if strings.HasPrefix(kv, "GOWORK=") || strings.HasPrefix(kv, "GOFLAGS=") ||
			strings.HasPrefix(kv, "GOPROXY=") || strings.HasPrefix(kv, "GOSUMDB=") ||
			strings.HasPrefix(kv, "GOTOOLCHAIN=") {
			continue
		}
		env = append(env, kv)
	}
	env = append(env, "GOWORK=off", "GOFLAGS=-mod=mod", "GOPROXY=off", "GOSUMDB=off", "GOTOOLCHAIN=local")
	return env
}

// Load loads the given patterns of the module rooted at dir from the working
// tree. withSSA builds go/ssa for the root packages. softMissingBody tolerates
// "missing function body" type errors (tinygo configuration of pkg/wasm).
func Load(name, dir, tags string, patterns []string, withSSA, softMissingBody bool) (*Program, error) {
	p, err := loadWith(name, dir, tags, patterns, withSSA, softMissingBody, nil)
	if err != nil {
		return nil, err
	}
	// functions that were renamed since the pinned tree are analysed under their recorded names (renames.go)
	if base := loadAnchors()[name]; base != nil {
		if ren := renamedFuncs(p, base); len(ren) > 0 {
			if overlay, oerr := renameOverlay(p, ren); oerr == nil {
				if p2, err2 := loadWith(name, dir, tags, patterns, withSSA, softMissingBody, overlay); err2 == nil {
					for obj, old := range ren {
						name := obj.Name()
						if fn, ok := obj.(*types.Func); ok {
							name = funcDisplayName(fn)
						}
						p2.Renamed = append(p2.Renamed, name+" is analysed under its recorded name "+old)
					}
					sort.Strings(p2.Renamed)
					return p2, nil
				}
			}
		}
	}
	return p, nil
}

func loadWith(name, dir, tags string, patterns []string, withSSA, softMissingBody bool, overlay map[string][]byte) (*Program, error) {
	fset := token.NewFileSet()
	cfg := &packages.Config{
		Mode: packages.NeedName | packages.NeedFiles | packages.NeedCompiledGoFiles | packages.NeedImports |
			packages.NeedTypes | packages.NeedSyntax | packages.NeedTypesInfo |
			packages.NeedTypesSizes | packages.NeedModule,
		Dir:     dir,
		Fset:    fset,
		Env:     loadEnv(),
		Tests:   false,
		Overlay: overlay,
	}
	if tags != "" {
		cfg.BuildFlags = []string{"-tags=" + tags}
	}
	pkgs, err := packages.Load(cfg, patterns...)
	if err != nil {
		return nil, fmt.Errorf("load %s: %w", name, err)
	}
	if len(pkgs) == 0 {
		return nil, fmt.Errorf("load %s: no packages matched %v in %s", name, patterns, dir)
	}
	p := &Program{Name: name, Dir: dir, Tags: tags, Fset: fset, ByPath: map[string]*packages.Package{}, SSAPkg: map[string]*ssa.Package{}}
	var hard []string
	packages.Visit(pkgs, nil, func(pkg *packages.Package) {
		for _, e := range pkg.Errors {
			if softMissingBody && strings.Contains(e.Msg, "missing function body") {
				p.SoftErrors++
				continue
			}
			hard = append(hard, fmt.Sprintf("%s: %s", e.Pos, e.Msg))
		}
	})
	if len(hard) > 0 {
		sort.Strings(hard)
		if len(hard) > 10 {
			hard = hard[:10]
		}
		return nil, fmt.Errorf("load %s: type/parse errors:\n  %s", name, strings.Join(hard, "\n  "))
	}
	sort.Slice(pkgs, func(i, j int) bool { return pkgs[i].PkgPath < pkgs[j].PkgPath })
	p.Pkgs = pkgs
	for _, pkg := range pkgs {
		p.ByPath[pkg.PkgPath] = pkg
		if pkg.Types == nil || pkg.TypesInfo == nil || len(pkg.Syntax) == 0 {
			return nil, fmt.Errorf("load %s: package %s has no syntax/types", name, pkg.PkgPath)
		}
	}
	if withSSA {
		prog, spkgs := ssautil.Packages(pkgs, ssa.InstantiateGenerics)
		prog.Build()
		p.SSA = prog
		for i, sp := range spkgs {
			if sp == nil {
				return nil, fmt.Errorf("load %s: no SSA for %s", name, pkgs[i].PkgPath)
			}
			p.SSAPkg[pkgs[i].PkgPath] = sp
		}
		// dependencies too (by path)
		for _, sp := range prog.AllPackages() {
			if _, ok := p.SSAPkg[sp.Pkg.Path()]; !ok {
				p.SSAPkg[sp.Pkg.Path()] = sp
			}
		}
	}
	return p, nil
}

// Pkg returns the root package with the module-relative path rel ("" = main).
func (p *Program) Pkg(rel string) *packages.Package {
	path := ModulePath
	if rel != "" {
		path += "/" + rel
	}
	return p.ByPath[path]
}

// Rel returns a repo-relative file:line for pos.
func (p *Program) Rel(pos token.Pos) string {
	if !pos.IsValid() {
		return "?"
	}
	position := p.Fset.Position(pos)
	f := position.Filename
	if r, err := filepath.Rel(p.Dir, f); err == nil && !strings.HasPrefix(r, "..") {
		f = r
	}
	if p.Name == "learn" {
		f = "learn/" + f
	}
	return fmt.Sprintf("%s:%d", f, position.Line)
}

// FuncDecl is a source function with its type object.
type FuncDecl struct {
	Pkg  *packages.Package
	Decl *ast.FuncDecl
	Obj  *types.Func
	File *ast.File
}

// Name returns "Recv.Name" or "Name".
func (f *FuncDecl) Name() string { return funcDisplayName(f.Obj) }

// QName returns "pkg/rel.Recv.Name".
func (f *FuncDecl) QName() string {
	return strings.TrimPrefix(strings.TrimPrefix(f.Pkg.PkgPath, ModulePath), "/") + "." + f.Name()
}

func funcDisplayName(fn *types.Func) string {
	sig, _ := fn.Type().(*types.Signature)
	if sig != nil && sig.Recv() != nil {
		t := sig.Recv().Type()
		ptr := ""
		if pt, ok := t.(*types.Pointer); ok {
			t = pt.Elem()
			ptr = "*"
		}
		if nt, ok := t.(*types.Named); ok {
			return "(" + ptr + nt.Obj().Name() + ")." + fn.Name()
		}
	}
	return fn.Name()
}

// Funcs returns all function declarations (with bodies) of pkg in non-test
// files, in source order.
func Funcs(pkg *packages.Package) []*FuncDecl {
	var out []*FuncDecl
	for _, file := range pkg.Syntax {
		name := pkg.Fset.Position(file.Pos()).Filename
		if strings.HasSuffix(name, "_test.go") {
			continue
		}
		for _, d := range file.Decls {
			fd, ok := d.(*ast.FuncDecl)
			if !ok || fd.Body == nil {
				continue
			}
			obj, _ := pkg.TypesInfo.Defs[fd.Name].(*types.Func)
			if obj == nil {
				continue
			}
			out = append(out, &FuncDecl{Pkg: pkg, Decl: fd, Obj: obj, File: file})
		}
	}
	return out
}

// FindFunc finds a function by display name ("(*parser).parseFunc", "Parse") in pkg.
func FindFunc(pkg *packages.Package, name string) *FuncDecl {
	if pkg == nil {
		return nil
	}
	for _, f := range Funcs(pkg) {
		if f.Name() == name {
			return f
		}
	}
	return nil
}

// SSAFunc returns the ssa.Function for a source function object.
func (p *Program) SSAFunc(obj *types.Func) *ssa.Function {
	if p.SSA == nil || obj == nil {
		return nil
	}
	return p.SSA.FuncValue(obj)
}
