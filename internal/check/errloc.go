package check

import (
	"fmt"
	"go/token"

	"golang.org/x/tools/go/ssa"
)

// R-ERRLOC: a diagnostic about a token is located at that token.
//
// appendError locates a message at the current token. A parser function that saves the current token, steps past it
// and then finds something wrong with the saved token (a number literal that does not convert, say) must report it
// with appendErrorForToken and the saved token; with appendError the message points at whatever follows — the
// next operator, the end of the line — and an editor highlights the wrong place. So: no call of appendError whose
// message is computed from a token loaded from p.cur before an advance() that dominates the call.
var ruleErrLoc = &Rule{
	ID:    "R-ERRLOC",
	Doc:   "no parser function reports through appendError (which locates at the current token) a message computed from a token it saved before stepping past it: such diagnostics go through appendErrorForToken with the saved token",
	Floor: 20,
	Run:   runErrLoc,
}

func runErrLoc(c *Ctx, r *Reporter) {
	p, pkg := parserPkg(c, r)
	if pkg == nil {
		return
	}
	appendErr := FindFunc(pkg, "(*parser).appendError")
	adv := FindFunc(pkg, "(*parser).advance")
	if appendErr == nil || adv == nil {
		r.Undecided("(*parser).appendError or (*parser).advance not found")
		return
	}
	aeSSA, advSSA := p.SSAFunc(appendErr.Obj), p.SSAFunc(adv.Obj)
	// functions that advance on every path (one level: a direct call of advance in the entry block) count as advancing calls too
	advancing := map[*ssa.Function]bool{advSSA: true}
	for _, fn := range ssaFuncsOf(p, pkg) {
		if len(fn.Blocks) == 0 {
			continue
		}
		for _, ins := range fn.Blocks[0].Instrs {
			if call, ok := ins.(*ssa.Call); ok && call.Call.StaticCallee() == advSSA {
				advancing[fn] = true
			}
		}
	}
	isCurLoad := func(v ssa.Value) bool {
		u, ok := v.(*ssa.UnOp)
		if !ok || u.Op != token.MUL {
			return false
		}
		fa, ok := u.X.(*ssa.FieldAddr)
		if !ok {
			return false
		}
		owner, name := fieldAddrInfo(fa)
		return owner != nil && owner.Obj().Name() == "parser" && name == "cur"
	}
	n := 0
	for _, fn := range ssaFuncsOf(p, pkg) {
		var advs []*ssa.Call
		for _, b := range fn.Blocks {
			for _, ins := range b.Instrs {
				if call, ok := ins.(*ssa.Call); ok && advancing[call.Call.StaticCallee()] && call.Call.StaticCallee() != nil {
					advs = append(advs, call)
				}
			}
		}
		k := 0
		for _, b := range fn.Blocks {
			for _, ins := range b.Instrs {
				call, ok := ins.(*ssa.Call)
				if !ok || call.Call.StaticCallee() != aeSSA || len(call.Call.Args) < 2 {
					continue
				}
				n++
				k++
				construct := fmt.Sprintf("%s#appendError[%d]", ssaQName(fn), k)
				// tokens saved before an advance that dominates this call
				var stale ssa.Value
				seen := map[ssa.Value]bool{}
				var dep func(v ssa.Value, depth int)
				dep = func(v ssa.Value, depth int) {
					if v == nil || seen[v] || depth > 10 || stale != nil {
						return
					}
					seen[v] = true
					if isCurLoad(v) {
						ld := v.(ssa.Instruction)
						for _, a := range advs {
							if instrDominates(ld, a) && instrDominates(a, call) {
								stale = v
								return
							}
						}
						return
					}
					if ins, ok := v.(ssa.Instruction); ok {
						for _, op := range ins.Operands(nil) {
							if *op != nil {
								dep(*op, depth+1)
							}
						}
					}
				}
				dep(call.Call.Args[1], 0)
				if stale == nil {
					r.Ok(construct, p.Rel(instrPos(call)), "the message does not depend on a token that was already stepped past")
				} else {
					r.Viol(construct, p.Rel(instrPos(call)), "this message is computed from the token saved at "+p.Rel(instrPos(stale.(ssa.Instruction)))+
						", but appendError locates it at the current token, which is already past it: the diagnostic points at the wrong place (use appendErrorForToken with the saved token)")
				}
			}
		}
	}
	if n == 0 {
		r.Undecided("no call of appendError found")
	}
}
