package check

import (
	"go/ast"
	"go/types"
	"sort"
	"strings"

	"golang.org/x/tools/go/packages"
)

// R-FIELDCOV: every source-bearing field of every AST node type is consumed
// by a consumer of the tree (formatter, evaluator, compiler). A field that a
// consumer never reads is source text (or a child expression) that the
// consumer drops for every program that uses it.

type fieldCovSpec struct {
	which string
	rel   string // package of the consumer
	// roots selects the root functions of the consumer.
	roots func(f *FuncDecl) bool
	// childOnly restricts the obligations to fields that hold child nodes.
	childOnly bool
	// handledOnly restricts the obligations to node types with a case in this dispatcher.
	dispatcher string
	// exempt: "Type.Field" -> reviewed reason.
	exempt map[string]string
	floor  int
}

var fieldCovSpecs = map[string]fieldCovSpec{
	"format": {
		which: "format", rel: "pkg/parser",
		roots: func(f *FuncDecl) bool {
			n := recvNamed(f.Obj)
			return n != nil && n.Obj().Name() == "formatting"
		},
		exempt: map[string]string{
			"Program.EventHandlers":         "index of the handler statements that are also in Statements",
			"Program.CalledBuiltinFuncs":    "derived from the calls in Statements",
			"FuncDefStmt.VariadicParamType": "derived from VariadicParam.T, which is printed",
			"FuncCall.FuncDef":              "resolved reference to the callee, not source text of the call",
			"ReturnStmt.T":                  "inferred type, not written in the source",
			"BinaryExpression.T":            "inferred type, not written in the source",
			"IndexExpression.T":             "inferred type, not written in the source",
			"SliceExpression.T":             "inferred type, not written in the source",
			"DotExpression.T":               "inferred type, not written in the source",
			"ArrayLiteral.T":                "inferred type, not written in the source",
			"MapLiteral.T":                  "inferred type, not written in the source",
			"MapLiteral.Order":              "the keys are printed in the order of the recorded layout items (R-LAYOUTKEY), which the parser appends in the same order",
		},
		floor: 30,
	},
	"eval": {
		which: "eval", rel: "pkg/evaluator", childOnly: true,
		roots:  func(f *FuncDecl) bool { return true },
		exempt: map[string]string{},
		floor:  25,
	},
	"Compile": {
		which: "Compile", rel: "pkg/bytecode", childOnly: true, dispatcher: "(*Compiler).Compile",
		roots:  func(f *FuncDecl) bool { return true },
		exempt: map[string]string{},
		floor:  10,
	},
}

func fieldCovRule(which string) *Rule {
	spec := fieldCovSpecs[which]
	return &Rule{
		ID:    "R-FIELDCOV/" + which,
		Doc:   "every source-bearing field of every AST node type is read by the " + which + " consumer (functions of " + spec.rel + " and the parser methods they call): a field never read is text or a child dropped for every program",
		Floor: spec.floor,
		Run:   func(c *Ctx, r *Reporter) { runFieldCov(c, r, spec) },
	}
}

// holdsNode reports whether t (through pointers, slices, arrays, maps) is or contains a parser.Node implementer.
func holdsNode(t types.Type, iface *types.Interface, depth int) bool {
	if depth > 4 || t == nil {
		return false
	}
	if types.Identical(t.Underlying(), iface) {
		return true
	}
	switch u := t.(type) {
	case *types.Pointer:
		if n, ok := u.Elem().(*types.Named); ok {
			if _, isStruct := n.Underlying().(*types.Struct); isStruct {
				return types.Implements(u, iface) || types.Implements(n, iface)
			}
		}
		return holdsNode(u.Elem(), iface, depth+1)
	case *types.Slice:
		return holdsNode(u.Elem(), iface, depth+1)
	case *types.Array:
		return holdsNode(u.Elem(), iface, depth+1)
	case *types.Map:
		return holdsNode(u.Elem(), iface, depth+1)
	case *types.Named:
		if _, isStruct := u.Underlying().(*types.Struct); isStruct {
			return types.Implements(u, iface) || types.Implements(types.NewPointer(u), iface)
		}
	}
	return false
}

// fieldReads collects "Type.Field" for every field selection in body (each step of an embedded path).
func fieldReads(info *types.Info, body ast.Node, into map[string]bool) {
	ast.Inspect(body, func(n ast.Node) bool {
		sel, ok := n.(*ast.SelectorExpr)
		if !ok {
			return true
		}
		s := info.Selections[sel]
		if s == nil {
			return true
		}
		// walk the implicit path: every step is a field of the current struct
		t := s.Recv()
		idx := s.Index()
		if s.Kind() != types.FieldVal {
			idx = idx[:len(idx)-1] // embedded fields on the way to a method
		}
		for _, i := range idx {
			named := namedOf(t)
			var st *types.Struct
			if named != nil {
				st, _ = named.Underlying().(*types.Struct)
			} else if p, ok := t.(*types.Pointer); ok {
				st, _ = p.Elem().Underlying().(*types.Struct)
			} else {
				st, _ = t.Underlying().(*types.Struct)
			}
			if st == nil || i >= st.NumFields() {
				break
			}
			f := st.Field(i)
			if named != nil {
				into[named.Obj().Name()+"."+f.Name()] = true
			}
			t = f.Type()
		}
		return true
	})
}

func runFieldCov(c *Ctx, r *Reporter, spec fieldCovSpec) {
	p, err := c.Default()
	if err != nil {
		r.Undecided("%v", err)
		return
	}
	nodes, iface := parserNodeTypes(p)
	if len(nodes) < 20 {
		r.Undecided("only %d parser.Node implementations found", len(nodes))
		return
	}
	pkg := p.Pkg(spec.rel)
	parserPkg := p.Pkg("pkg/parser")
	if pkg == nil || parserPkg == nil {
		r.Undecided("package %s not loaded", spec.rel)
		return
	}
	// function index over consumer and parser package
	decls := map[*types.Func]*FuncDecl{}
	declPkg := map[*types.Func]*packages.Package{}
	for _, pk := range []*packages.Package{pkg, parserPkg} {
		for _, f := range Funcs(pk) {
			decls[f.Obj] = f
			declPkg[f.Obj] = pk
		}
	}
	// reachable set from the roots through static callees
	seen := map[*types.Func]bool{}
	var work []*types.Func
	for _, f := range Funcs(pkg) {
		if spec.roots(f) {
			seen[f.Obj] = true
			work = append(work, f.Obj)
		}
	}
	if len(work) == 0 {
		r.Undecided("no root functions of the %s consumer found", spec.which)
		return
	}
	reads := map[string]bool{}
	for len(work) > 0 {
		fo := work[len(work)-1]
		work = work[:len(work)-1]
		fd := decls[fo]
		if fd == nil || fd.Decl.Body == nil {
			continue
		}
		info := declPkg[fo].TypesInfo
		fieldReads(info, fd.Decl.Body, reads)
		ast.Inspect(fd.Decl.Body, func(n ast.Node) bool {
			// `case *A, *B: … n.M()`: the clause variable keeps the interface type, the call is M of A or of B
			if cc, ok := n.(*ast.CaseClause); ok && len(cc.List) > 1 {
				if bound := info.Implicits[cc]; bound != nil {
					for _, st := range cc.Body {
						ast.Inspect(st, func(m ast.Node) bool {
							call, ok := m.(*ast.CallExpr)
							if !ok {
								return true
							}
							sel, ok := call.Fun.(*ast.SelectorExpr)
							if !ok {
								return true
							}
							if id, ok := ast.Unparen(sel.X).(*ast.Ident); !ok || info.Uses[id] != bound {
								return true
							}
							for _, te := range cc.List {
								t := info.TypeOf(te)
								if t == nil {
									continue
								}
								if msel := types.NewMethodSet(t).Lookup(declPkg[fo].Types, sel.Sel.Name); msel != nil {
									if cf, ok := msel.Obj().(*types.Func); ok {
										cf = cf.Origin()
										if _, known := decls[cf]; known && !seen[cf] {
											seen[cf] = true
											work = append(work, cf)
										}
									}
								}
							}
							return true
						})
					}
				}
			}
			call, ok := n.(*ast.CallExpr)
			if !ok {
				return true
			}
			if cf := calleeFunc(info, call); cf != nil {
				cf = cf.Origin()
				if _, known := decls[cf]; known && !seen[cf] {
					seen[cf] = true
					work = append(work, cf)
				}
			}
			return true
		})
	}
	// node kinds handled by the dispatcher (compiler): the others are rejected (R-EXHAUST)
	var handled map[*types.TypeName]*ast.CaseClause
	if spec.dispatcher != "" {
		fn := FindFunc(pkg, spec.dispatcher)
		if fn == nil {
			r.Undecided("dispatcher %s not found", spec.dispatcher)
			return
		}
		info := pkg.TypesInfo
		_, ts := nodeDispatcher(pkg, fn, iface)
		if ts == nil {
			r.Undecided("%s has no type switch over parser.Node", spec.dispatcher)
			return
		}
		handled, _ = typeSwitchCases(info, ts)
	}
	sort.Slice(nodes, func(i, j int) bool { return nodes[i].Obj().Name() < nodes[j].Obj().Name() })
	for _, n := range nodes {
		st, ok := n.Underlying().(*types.Struct)
		if !ok {
			continue
		}
		if handled != nil {
			if _, has := handled[n.Obj()]; !has {
				// reachable only as a child of a handled node (ConditionalBlock, BlockStatement, Decl, Var, StepRange)
				// when some handled node's read fields lead to it; otherwise rejected by the dispatcher
				if !anyFieldRead(reads, n.Obj().Name(), st) {
					continue
				}
			}
		}
		for i := 0; i < st.NumFields(); i++ {
			f := st.Field(i)
			if !f.Exported() && !f.Embedded() {
				continue
			}
			child := holdsNode(f.Type(), iface, 0)
			if spec.childOnly && !child {
				continue
			}
			if handled != nil && child {
				// a field that can only hold a node kind the dispatcher rejects needs no consumer
				if en := elemNamed(f.Type()); en != nil {
					if est, ok := en.Underlying().(*types.Struct); ok {
						if _, has := handled[en.Obj()]; !has && !anyFieldRead(reads, en.Obj().Name(), est) {
							continue
						}
					}
				}
			}
			key := n.Obj().Name() + "." + f.Name()
			construct := "pkg/parser." + key + "#read-by:" + spec.which
			pos := p.Rel(f.Pos())
			if reason := spec.exempt[key]; reason != "" {
				if reads[key] {
					r.Ok(construct, pos, "read by the consumer (exemption not needed)")
				} else {
					r.Exempt(construct, pos, reason)
				}
				continue
			}
			kind := "source text"
			if child {
				kind = "child node"
			}
			r.Check(reads[key], construct, pos,
				"the "+kind+" field is read by the "+spec.which+" consumer",
				"field "+key+" ("+kind+", "+strings.TrimPrefix(f.Type().String(), ModulePath+"/")+") is never read by the "+spec.which+" consumer: this part of every program that uses it is dropped")
		}
	}
}

func anyFieldRead(reads map[string]bool, typ string, st *types.Struct) bool {
	for i := 0; i < st.NumFields(); i++ {
		if reads[typ+"."+st.Field(i).Name()] {
			return true
		}
	}
	return false
}

// elemNamed returns the concrete named struct type held by t through pointers, slices and maps, or nil for interfaces.
func elemNamed(t types.Type) *types.Named {
	for i := 0; i < 5; i++ {
		switch u := t.(type) {
		case *types.Pointer:
			t = u.Elem()
		case *types.Slice:
			t = u.Elem()
		case *types.Array:
			t = u.Elem()
		case *types.Map:
			t = u.Elem()
		case *types.Named:
			if _, ok := u.Underlying().(*types.Struct); ok {
				return u
			}
			return nil
		default:
			return nil
		}
	}
	return nil
}
