package check

import (
	"fmt"
	"go/token"
	"go/types"
	"sort"
	"strings"

	"golang.org/x/tools/go/ssa"
)

// R-IDXPOST: the postcondition of the index normalisers, by abstract interpretation.
//
// R-CONTAINERIDX trusts normalizeIndex(idx, length, kind) to return, whenever its error is nil, an index r with
// 0 ≤ r ≤ length-1 (index expressions) or 0 ≤ r ≤ length (slice bounds), and normalizeSliceIndices to return
// 0 ≤ start ≤ end ≤ length. This rule proves it from the code: a forward dataflow analysis over the function's SSA
// control-flow graph in the domain of conjunctions of linear inequalities over the integer parameters and opaque
// integer values (a small polyhedra domain: guards add inequalities, merge points keep what both sides entail,
// entailment by Fourier–Motzkin elimination), partitioned on the kind parameter (index / slice). No loops are
// expected; a back edge makes the rule undecided. The only assumption is length ≥ 0 (it is always a len()).

func idxPostRule(rel string) *Rule {
	return &Rule{
		ID: "R-IDXPOST/" + rel,
		Doc: "normalizeIndex and normalizeSliceIndices of " + rel + " return, on every path with a nil error, 0 ≤ r ≤ length-1 (index), 0 ≤ r ≤ length (slice bound) and " +
			"0 ≤ start ≤ end ≤ length: proved by a polyhedral forward analysis of the function body, partitioned on the index kind",
		Floor: 4,
		Run:   func(c *Ctx, r *Reporter) { runIdxPost(c, r, rel) },
	}
}

// lin is the linear form Σ c[s]·s + k.
type lin struct {
	c map[string]int64
	k int64
}

func linConst(k int64) lin { return lin{c: map[string]int64{}, k: k} }
func linSym(s string) lin  { return lin{c: map[string]int64{s: 1}} }
func (a lin) add(b lin, sign int64) lin {
	out := lin{c: map[string]int64{}, k: a.k + sign*b.k}
	for s, v := range a.c {
		out.c[s] = v
	}
	for s, v := range b.c {
		out.c[s] += sign * v
		if out.c[s] == 0 {
			delete(out.c, s)
		}
	}
	return out
}
func (a lin) scale(f int64) lin {
	out := lin{c: map[string]int64{}, k: a.k * f}
	for s, v := range a.c {
		if v*f != 0 {
			out.c[s] = v * f
		}
	}
	return out
}
func (a lin) String() string {
	var syms []string
	for s := range a.c {
		syms = append(syms, s)
	}
	sort.Strings(syms)
	var parts []string
	for _, s := range syms {
		parts = append(parts, fmt.Sprintf("%+d·%s", a.c[s], s))
	}
	parts = append(parts, fmt.Sprintf("%+d", a.k))
	return strings.Join(parts, " ")
}

// a constraint is a lin meaning lin ≤ 0.
type poly struct {
	cs     []lin
	bottom bool
}

func gcd64(a, b int64) int64 {
	if a < 0 {
		a = -a
	}
	if b < 0 {
		b = -b
	}
	for b != 0 {
		a, b = b, a%b
	}
	return a
}

// infeasible decides (over the rationals) whether the conjunction cs has no solution, by Fourier–Motzkin elimination.
func infeasible(cs []lin) bool {
	work := append([]lin{}, cs...)
	for iter := 0; iter < 12; iter++ {
		// constant constraints
		var rest []lin
		for _, c := range work {
			if len(c.c) == 0 {
				if c.k > 0 {
					return true
				}
				continue
			}
			rest = append(rest, c)
		}
		work = rest
		if len(work) == 0 {
			return false
		}
		// pick a variable
		var v string
		for s := range work[0].c {
			if v == "" || s < v {
				v = s
			}
		}
		var pos, neg, none []lin
		for _, c := range work {
			switch {
			case c.c[v] > 0:
				pos = append(pos, c)
			case c.c[v] < 0:
				neg = append(neg, c)
			default:
				none = append(none, c)
			}
		}
		next := none
		for _, p := range pos {
			for _, n := range neg {
				// p: a·v + P ≤ 0 (a>0), n: -b·v + N ≤ 0 (b>0)  ⇒  b·P + a·N ≤ 0
				a, b := p.c[v], -n.c[v]
				comb := p.scale(b).add(n.scale(a), 1)
				delete(comb.c, v)
				g := int64(0)
				for _, x := range comb.c {
					g = gcd64(g, x)
				}
				if g > 1 {
					for s := range comb.c {
						comb.c[s] /= g
					}
					// ceil(k/g) keeps integer soundness only if all values are integers; use rational floor to stay sound: k/g rounded down
					if comb.k >= 0 {
						comb.k = (comb.k + g - 1) / g
					} else {
						comb.k = -((-comb.k) / g)
					}
				}
				next = append(next, comb)
			}
		}
		if len(next) > 400 {
			return false // give up: not proved
		}
		work = next
	}
	return false
}

// entails: cs ⊨ g ≤ 0 over the integers (sound: proves cs ∧ g ≥ 1 infeasible over the rationals).
func entails(cs []lin, g lin) bool {
	neg := g.scale(-1)
	neg.k++ // -g + 1 ≤ 0  ⟺  g ≥ 1
	return infeasible(append(append([]lin{}, cs...), neg))
}

func joinPoly(a, b poly) poly {
	if a.bottom {
		return b
	}
	if b.bottom {
		return a
	}
	var out []lin
	for _, c := range a.cs {
		if entails(b.cs, c) {
			out = append(out, c)
		}
	}
	for _, c := range b.cs {
		if entails(a.cs, c) {
			out = append(out, c)
		}
	}
	return poly{cs: out}
}

type idxAnalysis struct {
	fn       *ssa.Function
	kind     ssa.Value  // the kind parameter (may be nil)
	kindType types.Type // the type of the kind parameter of the anchored normaliser
	sliceVal string     // constant of sliceExpression
	assume   string     // "slice", "index" or ""
	syms     map[ssa.Value]string
	norm     map[*ssa.Function]bool // the normaliser functions (postcondition assumed at call sites, proved separately)
	lenOf    map[string]string      // symbol of a normaliser result -> symbol/expr key of the length it was called with

	// helpers of the package that return an int or (int, error) are interpreted in place, once per call site
	prefix  string              // makes the symbols of one inlined instance unique
	stack   []*ssa.Function     // the functions being interpreted (no recursion)
	root    *idxAnalysis        // the analysis of the anchored function (nil: this one)
	inlined int                 // root: number of instances so far
	convs   []lin               // root: the float→int conversions met, as linear forms
	pending map[*ssa.Call][]lin // what holds when the error result of this inlined call is nil
	notes   map[string]bool     // root: helpers interpreted in place
	subst   map[ssa.Value]lin   // inlined instance: parameter → the argument's linear form
}

func (a *idxAnalysis) top() *idxAnalysis {
	if a.root != nil {
		return a.root
	}
	return a
}

// inlinable: a function of the same package with a body that returns an int, or an int and an error.
func (a *idxAnalysis) inlinable(f *ssa.Function) bool {
	if f == nil || len(f.Blocks) == 0 || f.Pkg != a.fn.Pkg || a.norm[f] || len(a.stack) >= 3 || f == a.fn {
		return false
	}
	for _, g := range a.stack {
		if g == f {
			return false
		}
	}
	res := f.Signature.Results()
	switch res.Len() {
	case 1:
		return isIntType(res.At(0).Type())
	case 2:
		return isIntType(res.At(0).Type()) && res.At(1).Type().String() == "error"
	}
	return false
}

// inline interprets the call in the state cur and returns the state behind it (single int result) or records what holds
// when its error result is nil (int and error). The text is non-empty when the callee cannot be interpreted.
func (a *idxAnalysis) inline(call *ssa.Call, cur []lin) ([]lin, string) {
	f := call.Call.StaticCallee()
	top := a.top()
	top.inlined++
	sub := &idxAnalysis{fn: f, sliceVal: a.sliceVal, syms: map[ssa.Value]string{}, norm: a.norm, root: top, subst: map[ssa.Value]lin{},
		prefix: fmt.Sprintf("%s@%d.", f.Name(), top.inlined), stack: append(append([]*ssa.Function{}, a.stack...), a.fn)}
	if top.notes == nil {
		top.notes = map[string]bool{}
	}
	top.notes[f.Name()] = true
	initial := append([]lin{}, cur...)
	for i, prm := range f.Params {
		if i >= len(call.Call.Args) {
			break
		}
		arg := call.Call.Args[i]
		if isIntValue(prm) && isIntValue(arg) {
			sub.subst[prm] = a.linOf(arg, 0) // the parameter is the argument: the helper's results are then stated over the caller's values
		}
		if a.kind != nil && types.Identical(prm.Type(), a.kind.Type()) || a.kind == nil && a.kindType != nil && types.Identical(prm.Type(), a.kindType) {
			sub.kind = prm
			switch x := arg.(type) {
			case *ssa.Const:
				if constKey(x) == a.sliceVal {
					sub.assume = "slice"
				} else {
					sub.assume = "index"
				}
			default:
				if arg == a.kind {
					sub.assume = a.assume
				}
			}
		}
	}
	sub.kindType = a.kindType
	if a.kind != nil {
		sub.kindType = a.kind.Type()
	}
	rets, bad := sub.run(initial)
	if bad != "" {
		return nil, f.Name() + ": " + bad
	}
	two := f.Signature.Results().Len() == 2
	var res ssa.Value = call
	if two {
		res = nil
		if refs := call.Referrers(); refs != nil {
			for _, r := range *refs {
				if ex, ok := r.(*ssa.Extract); ok && ex.Index == 0 {
					res = ex
				}
			}
		}
	}
	joined := poly{bottom: true}
	var keys []*ssa.Return
	for ret := range rets {
		keys = append(keys, ret)
	}
	sort.Slice(keys, func(i, j int) bool { return keys[i].Block().Index < keys[j].Block().Index })
	for _, ret := range keys {
		st := rets[ret]
		if two && (len(ret.Results) != 2 || !mayBeNilError(ret.Results[1], ret.Block(), 0)) {
			continue // an error is returned: the caller's success edge does not come from here
		}
		cs := append([]lin{}, st.cs...)
		if res != nil {
			rs, rv := linSym(a.sym(res)), sub.linOf(ret.Results[0], 0)
			cs = append(cs, rs.add(rv, -1), rv.add(rs, -1))
		}
		if infeasible(cs) {
			continue
		}
		joined = joinPoly(joined, poly{cs: cs})
	}
	if joined.bottom {
		if two {
			a.pending[call] = []lin{linConst(1)} // no successful return: the success edge is dead
			return cur, ""
		}
		return []lin{linConst(1)}, ""
	}
	if two {
		a.pending[call] = joined.cs
		return cur, ""
	}
	return joined.cs, ""
}

func (a *idxAnalysis) sym(v ssa.Value) string {
	if s, ok := a.syms[v]; ok {
		return s
	}
	s := fmt.Sprintf("%s%s#%d", a.prefix, v.Name(), len(a.syms))
	if p, ok := v.(*ssa.Parameter); ok {
		s = a.prefix + p.Name()
	}
	a.syms[v] = s
	return s
}

// linOf returns the linear form of an integer SSA value.
func (a *idxAnalysis) linOf(v ssa.Value, depth int) lin {
	if depth > 10 {
		return linSym(a.sym(v))
	}
	if l, ok := a.subst[v]; ok {
		return l
	}
	switch x := v.(type) {
	case *ssa.Const:
		if n, ok := intConst(x); ok {
			return linConst(int64(n))
		}
	case *ssa.BinOp:
		switch x.Op {
		case token.ADD:
			return a.linOf(x.X, depth+1).add(a.linOf(x.Y, depth+1), 1)
		case token.SUB:
			return a.linOf(x.X, depth+1).add(a.linOf(x.Y, depth+1), -1)
		case token.MUL:
			if n, ok := intConst(x.Y); ok {
				return a.linOf(x.X, depth+1).scale(int64(n))
			}
			if n, ok := intConst(x.X); ok {
				return a.linOf(x.Y, depth+1).scale(int64(n))
			}
		}
	case *ssa.UnOp:
		if x.Op == token.SUB {
			return a.linOf(x.X, depth+1).scale(-1)
		}
	}
	return linSym(a.sym(v))
}

func isIntValue(v ssa.Value) bool {
	b, ok := v.Type().Underlying().(*types.Basic)
	return ok && b.Info()&types.IsInteger != 0
}

var depthGuard int

// guard returns the constraints that hold on the given edge of a condition (nil: nothing known), and whether the edge is infeasible under the kind assumption.
func (a *idxAnalysis) guard(cond ssa.Value, edge bool) (cs []lin, dead bool) {
	for {
		if u, ok := cond.(*ssa.UnOp); ok && u.Op == token.NOT {
			cond, edge = u.X, !edge
			continue
		}
		break
	}
	bo, ok := cond.(*ssa.BinOp)
	if !ok {
		// `a || b` / `a && b` as the condition of a switch case: a phi of constants and one computed operand, tested
		// once. What follows from its truth is the conjunction of the comparisons that follow from it.
		if _, isPhi := cond.(*ssa.Phi); isPhi && depthGuard < 3 {
			depthGuard++
			defer func() { depthGuard-- }()
			for _, f := range valueConds(cond, edge) {
				if _, isCmp := f.Cond.(*ssa.BinOp); !isCmp {
					continue
				}
				g, d := a.guard(f.Cond, f.Truth)
				if d {
					return nil, true
				}
				cs = append(cs, g...)
			}
			return cs, false
		}
		return nil, false
	}
	// the kind parameter against a constant
	if a.kind != nil && (bo.X == a.kind || bo.Y == a.kind) && (bo.Op == token.EQL || bo.Op == token.NEQ) {
		other := bo.Y
		if bo.Y == a.kind {
			other = bo.X
		}
		if k, ok := other.(*ssa.Const); ok && a.assume != "" {
			isSliceConst := constKey(k) == a.sliceVal
			holds := (a.assume == "slice") == isSliceConst // kind == k ?
			if bo.Op == token.NEQ {
				holds = !holds
			}
			if !isSliceConst {
				return nil, false // compared with another kind constant: unknown under the two-way partition
			}
			return nil, holds != edge
		}
		return nil, false
	}
	if !isIntValue(bo.X) || !isIntValue(bo.Y) {
		return nil, false
	}
	l, r := a.linOf(bo.X, 0), a.linOf(bo.Y, 0)
	op := bo.Op
	if !edge {
		switch op {
		case token.LSS:
			op = token.GEQ
		case token.LEQ:
			op = token.GTR
		case token.GTR:
			op = token.LEQ
		case token.GEQ:
			op = token.LSS
		case token.EQL:
			op = token.NEQ
		case token.NEQ:
			op = token.EQL
		}
	}
	switch op {
	case token.LSS: // l < r  ⟺  l - r + 1 ≤ 0
		c := l.add(r, -1)
		c.k++
		return []lin{c}, false
	case token.LEQ:
		return []lin{l.add(r, -1)}, false
	case token.GTR:
		c := r.add(l, -1)
		c.k++
		return []lin{c}, false
	case token.GEQ:
		return []lin{r.add(l, -1)}, false
	case token.EQL:
		return []lin{l.add(r, -1), r.add(l, -1)}, false
	}
	return nil, false
}

// run returns, per success return, the state that holds there, or an error text.
func (a *idxAnalysis) run(initial []lin) (map[*ssa.Return]poly, string) {
	fn := a.fn
	// reverse postorder; reject back edges
	order := []*ssa.BasicBlock{}
	state := map[*ssa.BasicBlock]int{}
	var dfs func(b *ssa.BasicBlock) string
	dfs = func(b *ssa.BasicBlock) string {
		state[b] = 1
		for _, s := range b.Succs {
			switch state[s] {
			case 1:
				return fmt.Sprintf("loop through block %d", s.Index)
			case 0:
				if e := dfs(s); e != "" {
					return e
				}
			}
		}
		state[b] = 2
		order = append(order, b)
		return ""
	}
	if e := dfs(fn.Blocks[0]); e != "" {
		return nil, e
	}
	in := map[*ssa.BasicBlock]poly{}
	for _, b := range fn.Blocks {
		in[b] = poly{bottom: true}
	}
	in[fn.Blocks[0]] = poly{cs: initial}
	out := map[*ssa.Return]poly{}
	for i := len(order) - 1; i >= 0; i-- {
		b := order[i]
		st := in[b]
		if st.bottom {
			continue
		}
		cur := append([]lin{}, st.cs...)
		// facts introduced by instructions of the block: results of the normalisers
		for _, ins := range b.Instrs {
			if cv, ok := ins.(*ssa.Convert); ok && isIntValue(cv) && !isIntValue(cv.X) {
				a.top().convs = append(a.top().convs, a.linOf(cv, 0))
			}
			if call, ok := ins.(*ssa.Call); ok && a.inlinable(call.Call.StaticCallee()) {
				if a.pending == nil {
					a.pending = map[*ssa.Call][]lin{}
				}
				next, bad := a.inline(call, cur)
				if bad != "" {
					return nil, bad
				}
				cur = next
				continue
			}
			ex, ok := ins.(*ssa.Extract)
			if !ok || ex.Index != 0 {
				continue
			}
			call, ok := ex.Tuple.(*ssa.Call)
			if !ok || !a.norm[call.Call.StaticCallee()] || len(call.Call.Args) < 3 {
				continue
			}
			r := linSym(a.sym(ex))
			length := a.linOf(call.Call.Args[1], 0)
			cur = append(cur, r.scale(-1)) // 0 ≤ r
			up := r.add(length, -1)        // r ≤ length
			if k, ok := call.Call.Args[2].(*ssa.Const); !ok || constKey(k) != a.sliceVal {
				up.k++ // r ≤ length-1 for an index expression (or an unknown kind: the stronger claim is not assumed)
				if !ok {
					up.k--
				}
			}
			cur = append(cur, up)
		}
		last := b.Instrs[len(b.Instrs)-1]
		push := func(s *ssa.BasicBlock, cs []lin) {
			// phis of s take the value of the edge b→s
			for _, ins := range s.Instrs {
				phi, ok := ins.(*ssa.Phi)
				if !ok {
					break
				}
				if !isIntValue(phi) {
					continue
				}
				for j, p := range s.Preds {
					if p == b && j < len(phi.Edges) {
						ps := linSym(a.sym(phi))
						e := a.linOf(phi.Edges[j], 0)
						cs = append(cs, ps.add(e, -1), e.add(ps, -1))
					}
				}
			}
			if infeasible(cs) {
				return
			}
			in[s] = joinPoly(in[s], poly{cs: cs})
		}
		switch x := last.(type) {
		case *ssa.Return:
			// `return helper(…)`: what holds when the helper's error is nil holds when this function's is
			if n := len(x.Results); n >= 2 {
				if ex, ok := x.Results[n-1].(*ssa.Extract); ok {
					if call, ok := ex.Tuple.(*ssa.Call); ok && a.pending[call] != nil {
						cur = append(cur, a.pending[call]...)
					}
				}
			}
			out[x] = poly{cs: cur}
		case *ssa.If:
			for idx, s := range b.Succs {
				g, dead := a.guard(x.Cond, idx == 0)
				if dead {
					continue
				}
				// the edge on which the error of an interpreted helper is nil
				if bo, ok := x.Cond.(*ssa.BinOp); ok && (bo.Op == token.NEQ || bo.Op == token.EQL) {
					if k, ok := bo.Y.(*ssa.Const); ok && k.IsNil() {
						if ex, ok := bo.X.(*ssa.Extract); ok {
							if call, ok := ex.Tuple.(*ssa.Call); ok && a.pending[call] != nil && (bo.Op == token.EQL) == (idx == 0) {
								g = append(g, a.pending[call]...)
							}
						}
					}
				}
				push(s, append(append([]lin{}, cur...), g...))
			}
		case *ssa.Jump:
			push(b.Succs[0], append([]lin{}, cur...))
		}
	}
	return out, ""
}

func runIdxPost(c *Ctx, r *Reporter, rel string) {
	p, err := c.Default()
	if err != nil {
		r.Undecided("%v", err)
		return
	}
	pkg := p.Pkg(rel)
	if pkg == nil {
		r.Undecided("%s not loaded", rel)
		return
	}
	niFd, nsFd := FindFunc(pkg, "normalizeIndex"), FindFunc(pkg, "normalizeSliceIndices")
	if niFd == nil || nsFd == nil {
		r.Undecided("normalizeIndex / normalizeSliceIndices not found in %s", rel)
		return
	}
	ni, ns := p.SSAFunc(niFd.Obj), p.SSAFunc(nsFd.Obj)
	sliceConst, ok := pkg.Types.Scope().Lookup("sliceExpression").(*types.Const)
	if !ok {
		r.Undecided("constant sliceExpression not found in %s", rel)
		return
	}
	sliceVal := sliceConst.Val().ExactString()
	norm := map[*ssa.Function]bool{ni: true}
	intParam := func(fn *ssa.Function) *ssa.Parameter {
		for _, prm := range fn.Params {
			if b, ok := prm.Type().(*types.Basic); ok && b.Kind() == types.Int {
				return prm
			}
		}
		return nil
	}
	// normalizeIndex, partitioned on the kind
	length := intParam(ni)
	var kind *ssa.Parameter
	for _, prm := range ni.Params {
		if n := namedOf(prm.Type()); n != nil && n.Obj() == sliceConst.Type().(*types.Named).Obj() {
			kind = prm
		}
	}
	if length == nil || kind == nil {
		r.Undecided("normalizeIndex of %s: length or kind parameter not recognised", rel)
		return
	}
	// the user's index as an integer: the float→int conversion in the function (or in a helper interpreted in place)
	for _, part := range []string{"index", "slice"} {
		a := &idxAnalysis{fn: ni, kind: kind, sliceVal: sliceVal, assume: part, syms: map[ssa.Value]string{}, norm: map[*ssa.Function]bool{}}
		L := linSym(a.sym(length))
		rets, bad := a.run([]lin{L.scale(-1)}) // length ≥ 0
		if bad != "" {
			r.Undecided("normalizeIndex of %s: %s", rel, bad)
			return
		}
		n := 0
		var keys []*ssa.Return
		for ret := range rets {
			keys = append(keys, ret)
		}
		sort.Slice(keys, func(i, j int) bool { return keys[i].Block().Index < keys[j].Block().Index })
		for _, ret := range keys {
			st := rets[ret]
			if len(ret.Results) != 2 {
				continue
			}
			if !mayBeNilError(ret.Results[1], ret.Block(), 0) {
				continue // error return
			}
			n++
			res := a.linOf(ret.Results[0], 0)
			upper := res.add(L, -1) // r - length ≤ 0
			bound := "length"
			if part == "index" {
				upper.k++ // r - length + 1 ≤ 0
				bound = "length-1"
			}
			lowOK := entails(st.cs, res.scale(-1))
			upOK := entails(st.cs, upper)
			construct := fmt.Sprintf("%s.normalizeIndex#post:%s:return[%d]", rel, part, n)
			why := ""
			if !lowOK {
				why = "0 ≤ r is not entailed"
			}
			if !upOK {
				if why != "" {
					why += " and "
				}
				why += "r ≤ " + bound + " is not entailed"
			}
			// the mapping law: a non-negative index is returned as it is, a negative one counts from the end (r = length + i)
			if len(a.convs) != 1 {
				r.Undecided("normalizeIndex of %s (%s): %d conversions of the index to an integer found, expected one", rel, part, len(a.convs))
			} else {
				iv := a.convs[0]
				same := entails(st.cs, res.add(iv, -1)) && entails(st.cs, iv.add(res, -1))
				fromEnd := entails(st.cs, res.add(iv.add(L, 1), -1)) && entails(st.cs, iv.add(L, 1).add(res, -1))
				nonNeg := entails(st.cs, iv.scale(-1))
				negc := iv
				negc = negc.add(linConst(1), 1) // i + 1 ≤ 0
				neg := entails(st.cs, negc)
				okMap := (same && nonNeg) || (fromEnd && neg)
				r.Check(okMap, fmt.Sprintf("%s.normalizeIndex#mapping:%s:return[%d]", rel, part, n), p.Rel(instrPos(ret)),
					"the returned position is i for i ≥ 0 and length+i for i < 0",
					"at this return the position "+res.String()+" is neither the index itself on a path where it is known to be ≥ 0 nor length+index on a path where it is known to be < 0: "+
						"`a[-1]` would not be the last element, or a non-negative index would be shifted")
			}
			r.Check(lowOK && upOK, construct, p.Rel(instrPos(ret)), "0 ≤ r ≤ "+bound+" holds at this successful return for "+part+" expressions",
				"for "+part+" expressions the successful return of "+res.String()+" is not within bounds ("+why+" by the guards on the way): some index or slice bound "+
					"(typically -length-1, or length for an index) slips through and the caller indexes outside the storage (Go run-time panic)")
		}
		if n == 0 {
			r.Undecided("normalizeIndex of %s has no successful return (%s)", rel, part)
		}
	}
	// normalizeSliceIndices: 0 ≤ start ≤ end ≤ length, given the postcondition of normalizeIndex
	{
		length := intParam(ns)
		if length == nil {
			r.Undecided("normalizeSliceIndices of %s: length parameter not recognised", rel)
			return
		}
		a := &idxAnalysis{fn: ns, sliceVal: sliceVal, syms: map[ssa.Value]string{}, norm: norm}
		L := linSym(a.sym(length))
		rets, bad := a.run([]lin{L.scale(-1)})
		if bad != "" {
			r.Undecided("normalizeSliceIndices of %s: %s", rel, bad)
			return
		}
		n := 0
		var keys []*ssa.Return
		for ret := range rets {
			keys = append(keys, ret)
		}
		sort.Slice(keys, func(i, j int) bool { return keys[i].Block().Index < keys[j].Block().Index })
		for _, ret := range keys {
			st := rets[ret]
			if len(ret.Results) != 3 {
				continue
			}
			if !mayBeNilError(ret.Results[2], ret.Block(), 0) {
				continue
			}
			n++
			s0, e0 := a.linOf(ret.Results[0], 0), a.linOf(ret.Results[1], 0)
			ok1 := entails(st.cs, s0.scale(-1))   // 0 ≤ start
			ok2 := entails(st.cs, s0.add(e0, -1)) // start ≤ end
			ok3 := entails(st.cs, e0.add(L, -1))  // end ≤ length
			var missing []string
			if !ok1 {
				missing = append(missing, "0 ≤ start")
			}
			if !ok2 {
				missing = append(missing, "start ≤ end")
			}
			if !ok3 {
				missing = append(missing, "end ≤ length")
			}
			r.Check(ok1 && ok2 && ok3, fmt.Sprintf("%s.normalizeSliceIndices#post:return[%d]", rel, n), p.Rel(instrPos(ret)), "0 ≤ start ≤ end ≤ length holds at this successful return",
				"the successful return of normalizeSliceIndices does not establish "+strings.Join(missing, ", ")+": a slice expression can reach Go's slicing with bounds out of order or out of range (run-time panic)")
		}
		if n == 0 {
			r.Undecided("normalizeSliceIndices of %s has no successful return", rel)
		}
	}
}
