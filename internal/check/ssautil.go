package check

import (
	"go/constant"
	"go/token"
	"go/types"

	"golang.org/x/tools/go/packages"
	"golang.org/x/tools/go/ssa"
)

// ssaFuncsOf returns the SSA functions (with nested closures) of all source functions in pkg.
func ssaFuncsOf(p *Program, pkg *packages.Package) []*ssa.Function {
	var out []*ssa.Function
	for _, fd := range Funcs(pkg) {
		if sf := p.SSAFunc(fd.Obj); sf != nil {
			out = append(out, withAnon(sf)...)
		}
	}
	return out
}

// fieldInfo returns the struct's named type and the field name for a FieldAddr or Field.
func fieldAddrInfo(fa *ssa.FieldAddr) (*types.Named, string) {
	t := fa.X.Type()
	if pt, ok := t.Underlying().(*types.Pointer); ok {
		named := namedOf(pt.Elem())
		if st, ok := pt.Elem().Underlying().(*types.Struct); ok {
			return named, st.Field(fa.Field).Name()
		}
	}
	return nil, ""
}

func fieldValInfo(f *ssa.Field) (*types.Named, string) {
	named := namedOf(f.X.Type())
	if st, ok := f.X.Type().Underlying().(*types.Struct); ok {
		return named, st.Field(f.Field).Name()
	}
	return nil, ""
}

// instrDominates: a dominates b (same function).
func instrDominates(a, b ssa.Instruction) bool {
	ba, bb := a.Block(), b.Block()
	if ba == bb {
		for _, ins := range ba.Instrs {
			if ins == a {
				return true
			}
			if ins == b {
				return false
			}
		}
		return false
	}
	return ba.Dominates(bb)
}

// callsTo returns the call instructions in fn whose static callee is target.
func callsTo(fn *ssa.Function, target *ssa.Function) []ssa.CallInstruction {
	var out []ssa.CallInstruction
	for _, b := range fn.Blocks {
		for _, ins := range b.Instrs {
			if ci, ok := ins.(ssa.CallInstruction); ok {
				if ci.Common().StaticCallee() == target {
					out = append(out, ci)
				}
			}
		}
	}
	return out
}

// allocOrigin strips trivial wrappers (ChangeType, MakeInterface, Phi with one distinct edge) and returns the underlying value.
func stripValue(v ssa.Value) ssa.Value {
	for {
		switch x := v.(type) {
		case *ssa.ChangeType:
			v = x.X
		case *ssa.MakeInterface:
			v = x.X
		case *ssa.ChangeInterface:
			v = x.X
		default:
			return v
		}
	}
}

// isFreshSlice reports whether slice value v provably originates from a make /
// slice literal / append chain rooted in one, within the current function (or
// from a module function all of whose results are fresh).
func isFreshSlice(v ssa.Value, depth int) bool {
	return freshSlice(v, map[ssa.Value]bool{}, depth)
}

func freshSlice(v ssa.Value, inProgress map[ssa.Value]bool, depth int) bool {
	if depth > 16 {
		return false
	}
	switch x := stripValue(v).(type) {
	case *ssa.MakeSlice:
		return true
	case *ssa.Slice:
		// slice of a fresh local array (slice literal) or reslice of a fresh slice
		if a, ok := x.X.(*ssa.Alloc); ok {
			if _, isArr := a.Type().Underlying().(*types.Pointer).Elem().Underlying().(*types.Array); isArr {
				return true
			}
		}
		return false
	case *ssa.Call:
		if bi, ok := x.Call.Value.(*ssa.Builtin); ok && bi.Name() == "append" {
			return freshSlice(x.Call.Args[0], inProgress, depth+1)
		}
		return calleeResultFresh(x, 0, inProgress, depth+1)
	case *ssa.Extract:
		if call, ok := x.Tuple.(*ssa.Call); ok {
			return calleeResultFresh(call, x.Index, inProgress, depth+1)
		}
		return false
	case *ssa.Phi:
		if inProgress[x] {
			return true
		}
		inProgress[x] = true
		for _, e := range x.Edges {
			if !freshSlice(e, inProgress, depth+1) {
				return false
			}
		}
		return true
	case *ssa.UnOp:
		if x.Op != token.MUL {
			return false
		}
		// load from a local variable: every store into it must be fresh
		if a, ok := x.X.(*ssa.Alloc); ok {
			return allocFresh(a, inProgress, depth+1)
		}
		// *c.Elements where c is the result of a module function that hands out a container of its own on every
		// return (left.Copy()): the storage belongs to that new container
		if ld, ok := x.X.(*ssa.UnOp); ok && ld.Op == token.MUL {
			if fa, ok := ld.X.(*ssa.FieldAddr); ok {
				if call, ok := fa.X.(*ssa.Call); ok {
					callee := call.Call.StaticCallee()
					if callee == nil || len(callee.Blocks) == 0 || !inModule(callee) || inProgress[callee] {
						return false
					}
					_, field := fieldAddrInfo(fa)
					rets := returnsOf(callee)
					for _, ret := range rets {
						if len(ret.Results) != 1 {
							return false
						}
						ra, ok := ret.Results[0].(*ssa.Alloc)
						if !ok {
							return false
						}
						fv := storedFieldValue(ra, field)
						ea, ok := fv.(*ssa.Alloc)
						if !ok || !allocFresh(ea, inProgress, depth+1) {
							return false
						}
					}
					return len(rets) > 0
				}
			}
		}
		return false
	case *ssa.Const:
		return x.IsNil() // nil slice: append allocates
	}
	return false
}

// calleeResultFresh: the call's static callee is a module function whose idx-th result is fresh on every return.
func calleeResultFresh(call *ssa.Call, idx int, inProgress map[ssa.Value]bool, depth int) bool {
	callee := call.Call.StaticCallee()
	if callee == nil || len(callee.Blocks) == 0 || !inModule(callee) {
		return false
	}
	if inProgress[callee] {
		return true
	}
	inProgress[callee] = true
	n := 0
	for _, ret := range returnsOf(callee) {
		if idx >= len(ret.Results) {
			return false
		}
		res := ret.Results[idx]
		if k, ok := res.(*ssa.Const); ok && k.IsNil() {
			continue
		}
		n++
		if !freshSlice(res, inProgress, depth+1) {
			return false
		}
	}
	return n > 0
}

func allocStoresFresh(a *ssa.Alloc, depth int) bool {
	return allocFresh(a, map[ssa.Value]bool{}, depth)
}

func allocFresh(a *ssa.Alloc, inProgress map[ssa.Value]bool, depth int) bool {
	if inProgress[a] {
		return true // coinductive: a cycle of appends onto itself stays fresh
	}
	inProgress[a] = true
	refs := a.Referrers()
	if refs == nil {
		return false
	}
	stores := 0
	for _, r := range *refs {
		if st, ok := r.(*ssa.Store); ok && st.Addr == a {
			stores++
			if !freshSlice(st.Val, inProgress, depth+1) {
				return false
			}
		}
	}
	return stores > 0
}

// returnsOf lists the Return instructions of fn.
func returnsOf(fn *ssa.Function) []*ssa.Return {
	var out []*ssa.Return
	for _, b := range fn.Blocks {
		if len(b.Instrs) == 0 {
			continue
		}
		if r, ok := b.Instrs[len(b.Instrs)-1].(*ssa.Return); ok {
			out = append(out, r)
		}
	}
	return out
}

// storedFieldValue finds, for a freshly allocated struct (Alloc), the value stored to the named field.
func storedFieldValue(a *ssa.Alloc, field string) ssa.Value {
	refs := a.Referrers()
	if refs == nil {
		return nil
	}
	for _, r := range *refs {
		fa, ok := r.(*ssa.FieldAddr)
		if !ok {
			continue
		}
		if _, name := fieldAddrInfo(fa); name != field {
			continue
		}
		for _, r2 := range *fa.Referrers() {
			if st, ok := r2.(*ssa.Store); ok && st.Addr == fa {
				return st.Val
			}
		}
	}
	return nil
}

// reachesBlock: is there a CFG path from a to b (a != b allowed; a==b returns true).
func reachesBlock(a, b *ssa.BasicBlock) bool {
	if a == b {
		return true
	}
	seen := map[*ssa.BasicBlock]bool{}
	stack := []*ssa.BasicBlock{a}
	for len(stack) > 0 {
		cur := stack[len(stack)-1]
		stack = stack[:len(stack)-1]
		if seen[cur] {
			continue
		}
		seen[cur] = true
		for _, s := range cur.Succs {
			if s == b {
				return true
			}
			stack = append(stack, s)
		}
	}
	return false
}

// resultValues resolves the idx-th operand of a Return to the values it may
// carry, looking through the result spill slots that go/ssa introduces in
// functions with defer statements (`*t0 = v; rundefers; t7 = *t0; return t7`).
func resultValues(ret *ssa.Return, idx int) []ssa.Value {
	if idx >= len(ret.Results) {
		return nil
	}
	v := ret.Results[idx]
	u, ok := v.(*ssa.UnOp)
	if !ok || u.Op != token.MUL {
		return []ssa.Value{v}
	}
	a, ok := u.X.(*ssa.Alloc)
	if !ok || a.Heap {
		return []ssa.Value{v}
	}
	// latest store to a in the same block before the load
	blk := u.Block()
	var last ssa.Value
	for _, ins := range blk.Instrs {
		if ins == ssa.Instruction(u) {
			break
		}
		if st, ok := ins.(*ssa.Store); ok && st.Addr == ssa.Value(a) {
			last = st.Val
		}
	}
	if last != nil {
		return []ssa.Value{last}
	}
	var out []ssa.Value
	for _, ref := range *a.Referrers() {
		if st, ok := ref.(*ssa.Store); ok && st.Addr == ssa.Value(a) {
			out = append(out, st.Val)
		}
	}
	if len(out) == 0 {
		return []ssa.Value{v}
	}
	return out
}

// feedsReturn reports whether v is (directly, through a phi, or through a
// result spill slot) an operand of a Return.
func feedsReturn(v ssa.Value, depth int) bool {
	if depth > 4 {
		return false
	}
	refs := v.Referrers()
	if refs == nil {
		return false
	}
	for _, ref := range *refs {
		switch x := ref.(type) {
		case *ssa.Return:
			return true
		case *ssa.Phi:
			if feedsReturn(x, depth+1) {
				return true
			}
		case *ssa.Store:
			if a, ok := x.Addr.(*ssa.Alloc); ok && !a.Heap && x.Val == v {
				for _, r2 := range *a.Referrers() {
					if u, ok := r2.(*ssa.UnOp); ok && feedsReturn(u, depth+1) {
						return true
					}
				}
			}
		case *ssa.MakeInterface:
			if feedsReturn(x, depth+1) {
				return true
			}
		}
	}
	return false
}

// edgeDominates: every path to `use` takes the idx-th outgoing edge of block b
// (the edge target has b as its only predecessor and dominates use).
func edgeDominates(b *ssa.BasicBlock, idx int, use *ssa.BasicBlock) bool {
	if idx >= len(b.Succs) {
		return false
	}
	s := b.Succs[idx]
	if len(s.Preds) != 1 {
		return false
	}
	return s == use || s.Dominates(use)
}

// regionFns returns fn and the functions of its own package that it can reach through static calls within `depth`
// steps, excluding `stop` (dispatchers such as eval, Compile or format, whose bodies are everybody's). It is how the
// rules follow a clause into a helper that was extracted from the anchored function.
func regionFns(fn *ssa.Function, depth int, stop map[string]bool) []*ssa.Function {
	if fn == nil {
		return nil
	}
	seen := map[*ssa.Function]bool{}
	var out []*ssa.Function
	var visit func(f *ssa.Function, d int)
	visit = func(f *ssa.Function, d int) {
		if f == nil || seen[f] || f.Blocks == nil {
			return
		}
		seen[f] = true
		out = append(out, f)
		for _, an := range f.AnonFuncs {
			visit(an, d)
		}
		if d == 0 {
			return
		}
		for _, b := range f.Blocks {
			for _, ins := range b.Instrs {
				ci, ok := ins.(ssa.CallInstruction)
				if !ok {
					continue
				}
				sc := ci.Common().StaticCallee()
				if sc == nil || sc.Pkg == nil || fn.Pkg == nil || sc.Pkg != fn.Pkg || stop[sc.Name()] {
					continue
				}
				visit(sc, d-1)
			}
		}
	}
	visit(fn, depth)
	return out
}

// dispatcherNames: functions whose bodies dispatch over all node kinds; a region never extends into them.
var dispatcherNames = map[string]bool{"eval": true, "Compile": true, "format": true, "Run": true, "parseStatement": true, "parseExpr": true, "wrapAny": true}

// condFact: a condition value and the truth it has whenever control is at some block.
type condFact struct {
	Cond  ssa.Value
	Truth bool
}

// impliedConds returns the branch conditions known at block b: the tests of the dominating conditional jumps whose one
// edge dominates b. It looks through negations and through go/ssa's lowering of `a && b` / `a || b` (also as the
// condition of a switch case), where the test is made on a phi of constants and one computed operand: on the edge on
// which such a phi has the value no constant gives it, the computed operand has that value and everything known at
// the block that computed it holds as well.
func impliedConds(b *ssa.BasicBlock) []condFact {
	cw := newCondWalker()
	cw.at(b, 0)
	return cw.out
}

// valueConds returns what follows from the boolean value v having the given truth (v itself, resolved through
// negations and the phi lowering of && and ||, together with what is known where its operands were computed).
func valueConds(v ssa.Value, truth bool) []condFact {
	cw := newCondWalker()
	cw.expand(v, truth, 0)
	return cw.out
}

type condWalker struct {
	out  []condFact
	seen map[*ssa.BasicBlock]bool
}

func newCondWalker() *condWalker { return &condWalker{seen: map[*ssa.BasicBlock]bool{}} }

func (cw *condWalker) expand(v ssa.Value, truth bool, depth int) {
	if depth > 8 {
		return
	}
	switch x := v.(type) {
	case *ssa.UnOp:
		if x.Op == token.NOT {
			cw.expand(x.X, !truth, depth+1)
			return
		}
	case *ssa.Phi:
		var rest []int
		for j, e := range x.Edges {
			if k, ok := e.(*ssa.Const); ok && k.Value != nil && k.Value.Kind() == constant.Bool {
				if constant.BoolVal(k.Value) == truth {
					return // a constant edge can give this value: nothing follows
				}
				continue
			}
			rest = append(rest, j)
		}
		if len(rest) == 1 && rest[0] < len(x.Block().Preds) {
			cw.expand(x.Edges[rest[0]], truth, depth+1)
			cw.at(x.Block().Preds[rest[0]], depth+1)
		}
		return
	}
	cw.out = append(cw.out, condFact{v, truth})
}

func (cw *condWalker) at(b *ssa.BasicBlock, depth int) {
	if cw.seen[b] || depth > 8 {
		return
	}
	cw.seen[b] = true
	for d := b; d != nil; d = d.Idom() {
		id := d.Idom()
		if id == nil || len(id.Instrs) == 0 {
			continue
		}
		ifi, ok := id.Instrs[len(id.Instrs)-1].(*ssa.If)
		if !ok {
			continue
		}
		switch {
		case edgeDominates(id, 0, b):
			cw.expand(ifi.Cond, true, depth)
		case edgeDominates(id, 1, b):
			cw.expand(ifi.Cond, false, depth)
		}
	}
}

// predicateFacts: what is known about the parameters of the boolean function h whenever it returns `truth` — the facts
// common to all its returns that can produce that value. The facts are stated over h's own values (parameters, calls
// on them); the caller maps parameters to arguments.
func predicateFacts(h *ssa.Function, truth bool) []condFact {
	if h == nil || len(h.Blocks) == 0 || h.Signature.Results().Len() != 1 {
		return nil
	}
	if b, ok := h.Signature.Results().At(0).Type().Underlying().(*types.Basic); !ok || b.Kind() != types.Bool {
		return nil
	}
	var common []condFact
	first := true
	for _, ret := range returnsOf(h) {
		rv := ret.Results[0]
		if k, ok := rv.(*ssa.Const); ok && k.Value != nil && k.Value.Kind() == constant.Bool && constant.BoolVal(k.Value) != truth {
			continue
		}
		facts := append(impliedConds(ret.Block()), valueConds(rv, truth)...)
		if first {
			common, first = facts, false
			continue
		}
		var keep []condFact
		for _, c := range common {
			for _, f := range facts {
				if sameCondFact(c, f) {
					keep = append(keep, c)
					break
				}
			}
		}
		common = keep
	}
	return common
}

// sameCondFact: the same truth of the same condition — the same value, or the same comparison of the same operands.
func sameCondFact(a, b condFact) bool {
	if a.Truth != b.Truth {
		return false
	}
	if a.Cond == b.Cond {
		return true
	}
	x, ok1 := a.Cond.(*ssa.BinOp)
	y, ok2 := b.Cond.(*ssa.BinOp)
	if ok1 && ok2 && x.Op == y.Op && x.X == y.X {
		kx, okx := x.Y.(*ssa.Const)
		ky, oky := y.Y.(*ssa.Const)
		return okx && oky && constKey(kx) == constKey(ky)
	}
	return false
}

// predicateNilEdge: cond is a call of a boolean helper of the package that is handed v; it returns the successor index
// (0 true, 1 false) of the edge on which the helper's result implies v == nil, or -1.
func predicateNilEdge(cond ssa.Value, same func(arg ssa.Value) bool) int {
	neg := false
	for {
		if u, ok := cond.(*ssa.UnOp); ok && u.Op == token.NOT {
			cond, neg = u.X, !neg
			continue
		}
		break
	}
	call, ok := cond.(*ssa.Call)
	if !ok || call.Call.StaticCallee() == nil || len(call.Call.StaticCallee().Blocks) == 0 {
		return -1
	}
	h := call.Call.StaticCallee()
	for _, truth := range []bool{true, false} {
		for _, f := range predicateFacts(h, truth) {
			bo, ok := f.Cond.(*ssa.BinOp)
			if !ok || (bo.Op != token.NEQ && bo.Op != token.EQL) {
				continue
			}
			k, ok := bo.Y.(*ssa.Const)
			if !ok || !k.IsNil() || f.Truth != (bo.Op == token.EQL) {
				continue
			}
			for i, prm := range h.Params {
				if bo.X == ssa.Value(prm) && i < len(call.Call.Args) && same(call.Call.Args[i]) {
					edge := 1
					if truth != neg {
						edge = 0
					}
					return edge
				}
			}
		}
	}
	return -1
}
