package check

import (
	"fmt"
	"go/token"
	"go/types"
	"strconv"
	"strings"

	"golang.org/x/tools/go/ssa"
)

// R-LISTUSE: a list of parsed expressions is consumed whole.
//
// Wherever the parser holds a []Node of parsed source expressions (the result
// of parseExprList, a []Node parameter), every path to a return
//   - hands the whole list on (stores it in a node, passes it to a function,
//     ranges over it), or
//   - records an error, or
//   - has established that the list is no longer than the elements it picked
//     by constant index (len(nodes) > 1 false, switch len(nodes) case 2, ...).
// Otherwise source expressions that were parsed and accepted are dropped from
// the tree: the program is accepted with text that means nothing, and the
// formatter deletes it.

var ruleListUse = &Rule{
	ID: "R-LISTUSE",
	Doc: "a []Node of parsed expressions (result of parseExprList, []Node parameters) is on every path handed on whole, or an error is recorded, or its length is " +
		"established to be no more than the elements picked by constant index: accepted expressions are never silently dropped",
	Floor: 3,
	Run:   runListUse,
}

type luFacts struct {
	eq map[string]string          // key -> constant it equals
	ne map[string]map[string]bool // key -> constants it differs from
	lo map[string]int             // len keys: lower bound
	hi map[string]int             // len keys: upper bound (absent = unbounded)
}

func (f *luFacts) clone() *luFacts {
	g := &luFacts{eq: map[string]string{}, ne: map[string]map[string]bool{}, lo: map[string]int{}, hi: map[string]int{}}
	for k, v := range f.eq {
		g.eq[k] = v
	}
	for k, v := range f.ne {
		m := map[string]bool{}
		for c := range v {
			m[c] = true
		}
		g.ne[k] = m
	}
	for k, v := range f.lo {
		g.lo[k] = v
	}
	for k, v := range f.hi {
		g.hi[k] = v
	}
	return g
}

type listUse struct {
	p        *Program
	mutable  map[string]bool // "Type.field" stored outside constructors somewhere in the package
	errFuncs map[*ssa.Function]bool
}

// key returns a canonical name for v: loads of immutable fields of the same base and len() of the same slice coincide.
func (lu *listUse) key(v ssa.Value, depth int) string {
	if depth > 6 {
		return fmt.Sprintf("%p", v)
	}
	switch x := v.(type) {
	case *ssa.UnOp:
		if x.Op == token.MUL {
			if fa, ok := x.X.(*ssa.FieldAddr); ok {
				named, field := fieldAddrInfo(fa)
				if named != nil && !lu.mutable[named.Obj().Name()+"."+field] {
					return "load(" + lu.key(fa.X, depth+1) + "." + field + ")"
				}
			}
		}
	case *ssa.Call:
		if b, ok := x.Call.Value.(*ssa.Builtin); ok && b.Name() == "len" && len(x.Call.Args) == 1 {
			return "len(" + lu.key(x.Call.Args[0], depth+1) + ")"
		}
	case *ssa.ChangeType:
		return lu.key(x.X, depth+1)
	}
	return fmt.Sprintf("%p", v)
}

func intConst(v ssa.Value) (int, bool) {
	k, ok := v.(*ssa.Const)
	if !ok || k.Value == nil {
		return 0, false
	}
	n, err := strconv.Atoi(k.Value.ExactString())
	if err != nil {
		return 0, false
	}
	return n, true
}

// assume adds the fact "cond is val" to f; it returns false when that contradicts f.
func (lu *listUse) assume(f *luFacts, cond ssa.Value, val bool) bool {
	for {
		if u, ok := cond.(*ssa.UnOp); ok && u.Op == token.NOT {
			cond = u.X
			val = !val
			continue
		}
		break
	}
	b, ok := cond.(*ssa.BinOp)
	if !ok {
		return true
	}
	x, y, op := b.X, b.Y, b.Op
	if _, isConst := x.(*ssa.Const); isConst {
		// c op v  ==  v op' c
		x, y = y, x
		switch op {
		case token.LSS:
			op = token.GTR
		case token.GTR:
			op = token.LSS
		case token.LEQ:
			op = token.GEQ
		case token.GEQ:
			op = token.LEQ
		}
	}
	kc, ok := y.(*ssa.Const)
	if !ok {
		return true
	}
	k := lu.key(x, 0)
	if !val {
		switch op {
		case token.EQL:
			op = token.NEQ
		case token.NEQ:
			op = token.EQL
		case token.LSS:
			op = token.GEQ
		case token.GEQ:
			op = token.LSS
		case token.GTR:
			op = token.LEQ
		case token.LEQ:
			op = token.GTR
		}
	}
	c := constKey(kc)
	n, isInt := intConst(kc)
	switch op {
	case token.EQL:
		if e, ok := f.eq[k]; ok && e != c {
			return false
		}
		if f.ne[k][c] {
			return false
		}
		f.eq[k] = c
		if isInt {
			if lo, ok := f.lo[k]; ok && n < lo {
				return false
			}
			if hi, ok := f.hi[k]; ok && n > hi {
				return false
			}
			f.lo[k], f.hi[k] = n, n
		}
	case token.NEQ:
		if e, ok := f.eq[k]; ok && e == c {
			return false
		}
		if f.ne[k] == nil {
			f.ne[k] = map[string]bool{}
		}
		f.ne[k][c] = true
	case token.LSS, token.LEQ:
		if !isInt {
			return true
		}
		if op == token.LSS {
			n--
		}
		if lo, ok := f.lo[k]; ok && n < lo {
			return false
		}
		if hi, ok := f.hi[k]; !ok || n < hi {
			f.hi[k] = n
		}
	case token.GTR, token.GEQ:
		if !isInt {
			return true
		}
		if op == token.GTR {
			n++
		}
		if hi, ok := f.hi[k]; ok && n > hi {
			return false
		}
		if lo, ok := f.lo[k]; !ok || n > lo {
			f.lo[k] = n
		}
	}
	return true
}

func runListUse(c *Ctx, r *Reporter) {
	p, pkg := parserPkg(c, r)
	if pkg == nil {
		return
	}
	_, iface := parserNodeTypes(p)
	if iface == nil {
		r.Undecided("parser.Node not found")
		return
	}
	isNodeSlice := func(t types.Type) bool {
		s, ok := t.Underlying().(*types.Slice)
		return ok && types.Identical(s.Elem().Underlying(), iface)
	}
	lu := &listUse{p: p, mutable: map[string]bool{}, errFuncs: map[*ssa.Function]bool{}}
	fns := ssaFuncsOf(p, pkg)
	for _, fn := range fns {
		for _, b := range fn.Blocks {
			for _, ins := range b.Instrs {
				st, ok := ins.(*ssa.Store)
				if !ok {
					continue
				}
				fa, ok := st.Addr.(*ssa.FieldAddr)
				if !ok {
					continue
				}
				if _, fresh := fa.X.(*ssa.Alloc); fresh {
					continue
				}
				if named, field := fieldAddrInfo(fa); named != nil {
					lu.mutable[named.Obj().Name()+"."+field] = true
				}
			}
		}
	}
	// functions that always record an error: appendError / appendErrorForToken and wrappers that call one on every path
	for _, fn := range fns {
		if fn.Name() == "appendErrorForToken" {
			lu.errFuncs[fn] = true
		}
	}
	if len(lu.errFuncs) == 0 {
		r.Undecided("appendErrorForToken not found")
		return
	}
	for changed := true; changed; {
		changed = false
		for _, fn := range fns {
			if lu.errFuncs[fn] || len(fn.Blocks) == 0 {
				continue
			}
			// a call to an error function dominates every return
			ok := false
			for _, b := range fn.Blocks {
				for _, ins := range b.Instrs {
					if call, isCall := ins.(*ssa.Call); isCall && lu.errFuncs[call.Call.StaticCallee()] {
						dom := true
						for _, ret := range returnsOf(fn) {
							if !b.Dominates(ret.Block()) {
								dom = false
							}
						}
						if dom && len(returnsOf(fn)) > 0 {
							ok = true
						}
					}
				}
			}
			if ok {
				lu.errFuncs[fn] = true
				changed = true
			}
		}
	}
	n := 0
	for _, fn := range fns {
		// sources: []Node parameters and results of calls
		type source struct {
			v     ssa.Value
			start ssa.Instruction // nil: function entry
			what  string
		}
		var sources []source
		for _, prm := range fn.Params {
			if isNodeSlice(prm.Type()) {
				sources = append(sources, source{v: prm, what: "parameter " + prm.Name()})
			}
		}
		for _, b := range fn.Blocks {
			for _, ins := range b.Instrs {
				if call, ok := ins.(*ssa.Call); ok && isNodeSlice(call.Type()) {
					if sc := call.Call.StaticCallee(); sc != nil && sc.Pkg != nil && sc.Pkg.Pkg == pkg.Types {
						sources = append(sources, source{v: call, start: call, what: "result of " + sc.Name()})
					}
				}
			}
		}
		for _, src := range sources {
			n++
			construct := fmt.Sprintf("%s#list[%d]:%s", ssaQName(fn), n, strings.ReplaceAll(src.what, " ", "-"))
			pos := fn.Pos()
			if src.start != nil {
				pos = instrPos(src.start)
			}
			why := lu.check(fn, src.v, src.start)
			r.Check(why == "", construct, p.Rel(pos), "the parsed list is handed on whole, or an error is recorded, or its length is bounded by the elements used, on every path",
				"the "+src.what+" is partly dropped: "+why+" — expressions that were parsed and accepted vanish from the tree (the program means less than its text, and the formatter deletes them)")
		}
	}
}

// check explores every path from start (or the entry) to a return and reports the first path on which elements of list are dropped.
func (lu *listUse) check(fn *ssa.Function, list ssa.Value, start ssa.Instruction) string {
	lenKey := "len(" + lu.key(list, 1) + ")"
	// classify the uses of the list value
	whole := map[ssa.Instruction]bool{}
	picks := map[ssa.Instruction]int{} // IndexAddr with a constant index -> index+1
	var classify func(v ssa.Value, depth int)
	classify = func(v ssa.Value, depth int) {
		refs := v.Referrers()
		if refs == nil || depth > 3 {
			return
		}
		for _, ref := range *refs {
			switch x := ref.(type) {
			case *ssa.DebugRef:
			case *ssa.IndexAddr:
				if k, ok := intConst(x.Index); ok {
					picks[x] = k + 1
				} else {
					whole[x] = true
				}
			case *ssa.Call:
				if b, ok := x.Call.Value.(*ssa.Builtin); ok && b.Name() == "len" {
					// the bound of an iteration over the list (i < len(list), range list): every element is visited
					if lr := x.Referrers(); lr != nil {
						for _, u := range *lr {
							if bo, ok := u.(*ssa.BinOp); ok {
								_, cx := bo.X.(*ssa.Const)
								_, cy := bo.Y.(*ssa.Const)
								if !cx && !cy {
									whole[x] = true
								}
							}
						}
					}
					continue
				}
				whole[x] = true
			case *ssa.Phi:
				whole[x] = true // merged with another list: treated as handed on
			case *ssa.Slice:
				// nodes[1:] : a reslice hands the rest on only if the result is itself consumed whole; keep it simple: not a consumption
			default:
				whole[ref] = true
			}
		}
	}
	classify(list, 0)
	steps := 0
	problem := ""
	onPath := map[*ssa.BasicBlock]bool{}
	var visit func(b *ssa.BasicBlock, from int, f *luFacts, consumed bool, k int)
	visit = func(b *ssa.BasicBlock, from int, f *luFacts, consumed bool, k int) {
		if problem != "" {
			return
		}
		steps++
		if steps > 200000 {
			problem = "path budget exceeded"
			return
		}
		if from == 0 {
			if onPath[b] {
				return // around a loop: nothing new to learn
			}
			onPath[b] = true
			defer delete(onPath, b)
		}
		for i := from; i < len(b.Instrs); i++ {
			ins := b.Instrs[i]
			if whole[ins] {
				consumed = true
			}
			if n, ok := picks[ins]; ok && n > k {
				k = n
			}
			switch x := ins.(type) {
			case *ssa.Call:
				if lu.errFuncs[x.Call.StaticCallee()] {
					consumed = true // an error is recorded: the program is rejected
				}
			case *ssa.Return:
				if consumed {
					return
				}
				if hi, ok := f.hi[lenKey]; ok && hi <= k {
					return
				}
				bound := "unbounded"
				if hi, ok := f.hi[lenKey]; ok {
					bound = "≤ " + strconv.Itoa(hi)
				}
				problem = fmt.Sprintf("a path to the return at %s uses %d element(s) by constant index while the length is %s, without handing the list on or recording an error", lu.p.Rel(instrPos(x)), k, bound)
				return
			case *ssa.Panic:
				return
			case *ssa.If:
				for idx, s := range b.Succs {
					g := f.clone()
					if !lu.assume(g, x.Cond, idx == 0) {
						continue
					}
					visit(s, 0, g, consumed, k)
				}
				return
			case *ssa.Jump:
				visit(b.Succs[0], 0, f, consumed, k)
				return
			}
		}
	}
	f0 := &luFacts{eq: map[string]string{}, ne: map[string]map[string]bool{}, lo: map[string]int{}, hi: map[string]int{}}
	if start == nil {
		visit(fn.Blocks[0], 0, f0, false, 0)
	} else {
		b := start.Block()
		idx := 0
		for i, ins := range b.Instrs {
			if ins == start {
				idx = i + 1
			}
		}
		onPath[b] = true
		visit(b, idx, f0, false, 0)
	}
	return problem
}

// R-ASSIGNTARGET: an index step of an assignment target is never applied to a string.
//
// Strings are immutable in Evy: `s[0] = "x"` is rejected by the parser, and the evaluator's index assignment has no
// case for a string container (it ends the run with an internal type error). The parser therefore tests the type of
// the node it is about to index at every step of the target chain, not only for the variable the chain starts with:
// each call that builds an index expression on the loop-carried node is dominated by the edge on which that same
// node's type was compared with string and found different.
var ruleAssignTarget = &Rule{
	ID: "R-ASSIGNTARGET",
	Doc: "in parseAssignmentTarget every index step is applied to the node whose type was just compared with string (and found different): a string reached through an " +
		"earlier index or field step (`names[0][0] = \"x\"`) is rejected like a string variable",
	Floor: 1,
	Run:   runAssignTarget,
}

func runAssignTarget(c *Ctx, r *Reporter) {
	p, pkg := parserPkg(c, r)
	if pkg == nil {
		return
	}
	fd := FindFunc(pkg, "(*parser).parseAssignmentTarget")
	if fd == nil {
		r.Undecided("(*parser).parseAssignmentTarget not found")
		return
	}
	sf := p.SSAFunc(fd.Obj)
	n := 0
	// the loop over the suffixes of the target may live in a helper of parseAssignmentTarget
	var blocks []*ssa.BasicBlock
	for _, h := range regionFns(sf, 2, map[string]bool{"parseIndexOrSliceExpr": true, "parseDotExpr": true, "parseExpr": true, "parseTopLevelExpr": true}) {
		if h.Pkg == sf.Pkg {
			blocks = append(blocks, h.Blocks...)
		}
	}
	for _, b := range blocks {
		for _, ins := range b.Instrs {
			call, ok := ins.(*ssa.Call)
			if !ok || call.Call.StaticCallee() == nil || call.Call.StaticCallee().Name() != "parseIndexOrSliceExpr" || len(call.Call.Args) < 2 {
				continue
			}
			n++
			target := call.Call.Args[1]
			guarded := false
			for d := b; d != nil; d = d.Idom() {
				id := d.Idom()
				if id == nil || len(id.Instrs) == 0 {
					continue
				}
				ifi, ok := id.Instrs[len(id.Instrs)-1].(*ssa.If)
				if !ok {
					continue
				}
				bo, ok := ifi.Cond.(*ssa.BinOp)
				if !ok || (bo.Op != token.EQL && bo.Op != token.NEQ) {
					continue
				}
				isStringType := func(v ssa.Value) bool {
					u, ok := v.(*ssa.UnOp)
					if !ok {
						return false
					}
					g, ok := u.X.(*ssa.Global)
					return ok && g.Name() == "STRING_TYPE"
				}
				typeOfTarget := func(v ssa.Value) bool {
					cl, ok := v.(*ssa.Call)
					return ok && cl.Call.IsInvoke() && cl.Call.Method.Name() == "Type" && cl.Call.Value == target
				}
				if !(typeOfTarget(bo.X) && isStringType(bo.Y)) && !(typeOfTarget(bo.Y) && isStringType(bo.X)) {
					continue
				}
				edge := 1
				if bo.Op == token.NEQ {
					edge = 0
				}
				if edgeDominates(id, edge, b) {
					guarded = true
				}
			}
			r.Check(guarded, fmt.Sprintf("%s#index-step[%d]", fd.QName(), n), p.Rel(instrPos(call)),
				"the node that is indexed was compared with the string type on the way, and is not a string",
				"an index step of an assignment target is applied to a node whose own type was not tested against string on this path (the test looks at another node, e.g. only at the "+
					"variable the chain starts with): `names[0][0] = \"x\"` is accepted and ends the run with an internal type error instead of the documented parse error")
		}
	}
	if n == 0 {
		r.Undecided("parseAssignmentTarget builds no index expression")
	}
}
