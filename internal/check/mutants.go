package check

import (
	"fmt"
	"io"
	"os"
	"os/exec"
	"path/filepath"
	"sort"
	"strings"
	"sync"
)

// Mutant is a scripted edit that breaks exactly one rule instance while still
// compiling. It is applied to a scratch copy of the CURRENT working tree.
type Mutant struct {
	ID       string
	Props    []string // properties whose check must fire
	Rule     string   // rule that must name the construct
	File     string   // repo-relative
	Find     string   // must occur exactly once, otherwise the mutant is skipped
	Replace  string
	Find2    string // optional second edit in the same file (a cooperating site, e.g. a declaration the first edit needs)
	Replace2 string
	Expect   string // substring of the violated construct
	Describe string
}

// Mutants is the self-test table (thorough tier).
var Mutants = []Mutant{
	// C01
	{ID: "prec-percent-sum", Props: []string{"C01"}, Rule: "R-PREC", File: "pkg/parser/expression.go", Find: "lexer.PERCENT:  productPrec,", Replace: "lexer.PERCENT:  sumPrec,", Expect: "precedence:%", Describe: "% gets the binding power of +"},
	{ID: "prec-right-assoc", Props: []string{"C01"}, Rule: "R-PREC", File: "pkg/parser/expression.go", Find: "prec < precedences[p.cur.Type]", Replace: "prec <= precedences[p.cur.Type]", Expect: "left-assoc", Describe: "Pratt loop uses <="},
	{ID: "evalorder-right-first", Props: []string{"C01"}, Rule: "R-EVALORDER", File: "pkg/evaluator/evaluator.go",
		Find:    "\tleft, err := e.eval(expr.Left)\n\tif err != nil {\n\t\treturn nil, err\n\t}\n\tindex, err := e.eval(expr.Index)\n\tif err != nil {\n\t\treturn nil, err\n\t}\n\tvar val value",
		Replace: "\tindex, err := e.eval(expr.Index)\n\tif err != nil {\n\t\treturn nil, err\n\t}\n\tleft, err := e.eval(expr.Left)\n\tif err != nil {\n\t\treturn nil, err\n\t}\n\tvar val value",
		Expect:  "evalIndexExpr#order:Left<Index", Describe: "index evaluated before the indexed value"},
	{ID: "shortcircuit-or-false", Props: []string{"C01"}, Rule: "R-EVALORDER", File: "pkg/evaluator/evaluator.go", Find: "return l.V // short-circuit OR when left is true", Replace: "return false", Expect: "canShortCircuit#OP_OR", Describe: "or never short-circuits"},
	{ID: "dispatch-string-minus", Props: []string{"C01"}, Rule: "R-DISPATCH", File: "pkg/parser/expression.go", Find: "\tcase OP_MINUS, OP_SLASH, OP_PERCENT:\n\t\tif leftType != NUM_TYPE {", Replace: "\tcase OP_MINUS, OP_SLASH, OP_PERCENT:\n\t\tif leftType != NUM_TYPE && leftType != STRING_TYPE {", Expect: "admits:string", Describe: "parser lets - / % through for strings"},
	{ID: "maplit-go-order", Props: []string{"C01", "C08"}, Rule: "R-MAPRANGE", File: "pkg/evaluator/evaluator.go", Find: "\tfor _, key := range m.Order {\n\t\tval, err := e.eval(m.Pairs[key])", Replace: "\tfor key, node := range m.Pairs {\n\t\tval, err := e.eval(node)", Expect: "evalMapLiteral#maprange", Describe: "map literal values evaluated in Go map order"},
	{ID: "opsem-eval-minus-swapped", Props: []string{"C01"}, Rule: "R-OPSEM", File: "pkg/evaluator/evaluator.go", Find: "return &numVal{V: left.V - right.V}, nil", Replace: "return &numVal{V: right.V - left.V}, nil", Expect: "evalBinaryNumExpr#case:-", Describe: "subtraction with swapped operands"},
	{ID: "opsem-eval-string-lteq", Props: []string{"C01"}, Rule: "R-OPSEM", File: "pkg/evaluator/evaluator.go", Find: "return &boolVal{left.V <= right.V}, nil", Replace: "return &boolVal{left.V < right.V}, nil", Expect: "evalBinaryStringExpr#case:<=", Describe: "string <= computed as <"},
	{ID: "opsem-eval-noteq", Props: []string{"C01"}, Rule: "R-OPSEM", File: "pkg/evaluator/evaluator.go", Find: "return &boolVal{V: !left.Equals(right)}, nil", Replace: "return &boolVal{V: !right.Equals(right)}, nil", Expect: "evalBinaryExpr#case:!=", Describe: "!= compares the right operand with itself"},
	{ID: "opsem-vm-popstrings-order", Props: []string{"C16"}, Rule: "R-OPSEM", File: "pkg/bytecode/vm.go", Find: "\tright := vm.popStringVal()\n\tleft := vm.popStringVal()\n\treturn string(right), string(left)", Replace: "\tleft := vm.popStringVal()\n\tright := vm.popStringVal()\n\treturn string(right), string(left)", Expect: "compileStringBinaryExpression#case:+", Describe: "popBinaryStrings pops left first: concatenation and comparisons of strings are mirrored on the VM"},
	{ID: "opsem-compiler-lteq-table", Props: []string{"C16"}, Rule: "R-OPSEM", File: "pkg/bytecode/compiler.go", Find: "\tcase parser.OP_LTEQ:\n\t\treturn c.emit(OpNumLessThanEqual)", Replace: "\tcase parser.OP_LTEQ:\n\t\treturn c.emit(OpNumLessThan)", Expect: "compileNumBinaryExpression#case:<=", Describe: "<= on nums translated to the < opcode"},
	{ID: "opsem-vm-modulo-operands", Props: []string{"C16"}, Rule: "R-OPSEM", File: "pkg/bytecode/vm.go", Find: "err = vm.push(numVal(math.Mod(left, right)))", Replace: "err = vm.push(numVal(math.Mod(right, left)))", Expect: "case:%", Describe: "VM modulo with swapped operands"},
	{ID: "eq-array-no-length-test", Props: []string{"C01"}, Rule: "R-EQDEEP", File: "pkg/evaluator/value.go", Find: "\tif len(*a.Elements) != len(*a2.Elements) {\n\t\treturn false\n\t}\n\telements2 := *a2.Elements", Replace: "\tif len(*a.Elements) > len(*a2.Elements) {\n\t\treturn false\n\t}\n\telements2 := *a2.Elements", Expect: "(*arrayVal).Equals#lengths", Describe: "[1 2] == [1 2 3] is true"},
	{ID: "eq-array-first-element", Props: []string{"C01"}, Rule: "R-EQDEEP", File: "pkg/evaluator/value.go", Find: "\t\te2 := elements2[i]\n\t\tif !e.Equals(e2) {\n\t\t\treturn false\n\t\t}\n\t}\n\treturn true\n}", Replace: "\t\te2 := elements2[len(elements2)-1-i]\n\t\tif !e.Equals(e2) {\n\t\t\treturn false\n\t\t}\n\t}\n\treturn true\n}", Expect: "(*arrayVal).Equals#same-index", Describe: "array equality pairs element i with element n-1-i"},
	{ID: "eq-any-ignores-type", Props: []string{"C01"}, Rule: "R-EQDEEP", File: "pkg/evaluator/value.go", Find: "return a.T.Equals(a2.T) && a.V.Equals(a2.V)", Replace: "return a.V.Equals(a2.V)", Expect: "(*anyVal).Equals#type-and-value", Describe: "an any compares by value only"},
	{ID: "eq-vm-array-true-early", Props: []string{"C16"}, Rule: "R-EQDEEP", File: "pkg/bytecode/value.go", Find: "\t\tif !e.Equals(e2) {\n\t\t\treturn false\n\t\t}\n\t}\n\treturn true\n}", Replace: "\t\tif e.Equals(e2) {\n\t\t\treturn true\n\t\t}\n\t}\n\treturn len(a.Elements) == 0\n}", Expect: "(arrayVal).Equals#", Describe: "VM arrays are equal when one pair of elements is"},
	{ID: "index-close-advance-in-helper", Props: []string{"C01"}, Rule: "R-WSSCLOSE", File: "pkg/parser/expression.go",
		Find:     "\tif !p.validateIndex(tok, leftType, index.Type()) {\n\t\treturn nil\n\t}\n\tp.advanceWSS() // advance past ]",
		Replace:  "\tif !p.validateIndex(tok, leftType, index.Type()) {\n\t\treturn nil\n\t}\n\tp.passRBracket()",
		Find2:    "func (p *parser) parseSlice(",
		Replace2: "func (p *parser) passRBracket() {\n\tp.advance()\n}\n\nfunc (p *parser) parseSlice(",
		Expect:   "parseIndexOrSliceExpr#close", Describe: "the closing ] is passed by a helper that uses advance(): `[a[0] [1]]` becomes one expression"},
	{ID: "literal-elements-wrapped-only-when-widened", Props: []string{"C02", "C04"}, Rule: "R-ACCEPTWRAP", File: "pkg/parser/expression.go",
		Find:    "\tfor i, e := range elements {\n\t\telements[i] = wrapAny(e, sub)\n\t}",
		Replace: "\tif !sub.Equals(types[0]) {\n\t\tfor i, e := range elements {\n\t\t\telements[i] = wrapAny(e, sub)\n\t\t}\n\t}",
		Expect:  "parseArrayLiteral#combineTypes[1]:applied-to-every-element", Describe: "`[[\"a\" 1] [2]]`: the second element keeps bare nums under the static type [][]any"},
	// C02 / C13
	{ID: "normalizeIndex-no-roundtrip", Props: []string{"C02"}, Rule: "R-F2I/pkg/evaluator", File: "pkg/evaluator/value.go", Find: "\tif index.V != float64(i) {\n\t\treturn 0, fmt.Errorf(\"%w: %v\", ErrIndexValue, index.V)\n\t}\n", Replace: "", Expect: "normalizeIndex#f2i", Describe: "round-trip test dropped"},
	{ID: "builtin-assert-mismatch", Props: []string{"C02", "C13"}, Rule: "R-BUILTINSIG", File: "pkg/evaluator/builtin.go", Find: "\tsep := args[1].(*stringVal)\n\ts := join(*arr.Elements, sep.V)", Replace: "\tsep := args[1].(*anyVal).V.(*stringVal)\n\ts := join(*arr.Elements, sep.V)", Expect: "builtin:join", Describe: "join asserts its separator to be an any"},
	{ID: "repeat-no-negative-check", Props: []string{"C02"}, Rule: "R-F2I/pkg/evaluator", File: "pkg/evaluator/evaluator.go", Find: "\t\tif repetitions < 0 {\n\t\t\treturn nil, fmt.Errorf(\"%w: negative count: %s\", ErrBadRepetition, right)\n\t\t}\n\t\tif n := len(*left.Elements)", Replace: "\t\tif n := len(*left.Elements)", Expect: "evalBinaryArrayExpr#alloc", Describe: "negative repetition count reaches make"},
	{ID: "rand-nan", Props: []string{"C02", "C13"}, Rule: "R-F2I/pkg/evaluator", File: "pkg/evaluator/builtin.go", Find: "if !(upper >= 1 && upper <= 2147483647) {", Replace: "if upper < 1 || upper > 2147483647 {", Expect: "randFunc#f2i", Describe: "rand guard lets NaN through"},
	{ID: "hsl-nan", Props: []string{"C13"}, Rule: "R-NANGUARD", File: "pkg/evaluator/builtin.go", Find: "if !(hue >= 0 && hue <= 360) {", Replace: "if hue < 0 || hue > 360 {", Expect: "hslFunc#range-check", Describe: "hsl guard lets NaN through"},
	{ID: "str2bool-no-reset", Props: []string{"C13"}, Rule: "R-ERRPROTO", File: "pkg/evaluator/builtin.go", Find: "func str2boolFunc(scope *scope, args []value) (value, error) {\n\tresetGlobalErr(scope)\n", Replace: "func str2boolFunc(scope *scope, args []value) (value, error) {\n", Expect: "str2boolFunc#reset-first", Describe: "str2bool does not reset err"},
	{ID: "eval-missing-case", Props: []string{"C02"}, Rule: "R-EXHAUST/eval", File: "pkg/evaluator/evaluator.go", Find: "\tcase *parser.TypeAssertion:\n\t\treturn e.evalTypeAssertion(node)\n", Replace: "", Expect: "eval#case:TypeAssertion", Describe: "eval loses the TypeAssertion case"},
	// C03 / C04
	{ID: "nilret-assign-value", Props: []string{"C03"}, Rule: "R-NILRET", File: "pkg/parser/parser.go", Find: "\tvalue := p.parseTopLevelExpr()\n\tif value == nil {\n\t\tp.advancePastNL()\n\t\treturn nil\n\t}\n\tif !target.Type().accepts", Replace: "\tvalue := p.parseTopLevelExpr()\n\tif !target.Type().accepts", Expect: "parseAssignmentStatement#use-of", Describe: "nil value dereferenced in assignment"},
	{ID: "funcsig-nil", Props: []string{"C03"}, Rule: "R-NILRET", File: "pkg/parser/parser.go", Find: "\t\tif fd == nil {\n\t\t\tcontinue // previous error\n\t\t}\n", Replace: "", Expect: "parseFuncSignatures#use-of", Describe: "nil signature dereferenced"},
	{ID: "scopetype-param", Props: []string{"C03"}, Rule: "R-SCOPETYPE", File: "pkg/parser/parser.go", Find: "\t\tif param.Type() == nil {\n\t\t\tcontinue // previous error: invalid type\n\t\t}\n\t\tp.validateVarDecl(param, param.token, true /* allowUnderscore */)\n\t\tp.scope.set(param.Name, param)", Replace: "\t\tp.validateVarDecl(param, param.token, true /* allowUnderscore */)\n\t\tp.scope.set(param.Name, param)", Expect: "addParamsToScope#scope.set", Describe: "parameter with nil type enters the scope"},
	{ID: "fixed-slice", Props: []string{"C03", "C04"}, Rule: "R-FIXED", File: "pkg/parser/expression.go", Find: "T: fixedType(left.Type().infer())}", Replace: "T: left.Type().infer()}", Expect: "parseSlice#new-SliceExpression", Describe: "slice expression keeps a convertible type"},
	{ID: "fixed-decl", Props: []string{"C04"}, Rule: "R-FIXED", File: "pkg/parser/parser.go", Find: "\tdecl.Var.T = fixedType(v)\n", Replace: "\tdecl.Var.T = v\n", Expect: "parseTypedDecl#new-Var", Describe: "declared variable keeps a convertible type"},
	{ID: "accept-no-wrap", Props: []string{"C04", "C02"}, Rule: "R-ACCEPTWRAP", File: "pkg/parser/parser.go", Find: "\t} else {\n\t\tvalue = wrapAny(value, target.Type())\n\t}\n\tp.assertEOL()", Replace: "\t}\n\tp.assertEOL()", Expect: "parseAssignmentStatement#accepts", Describe: "assignment does not wrap the accepted value"},
	{ID: "maplit-type-go-order", Props: []string{"C04", "C08"}, Rule: "R-MAPRANGE", File: "pkg/parser/expression.go", Find: "\tfor _, key := range mapLit.Order {\n\t\ttypes = append(types, mapLit.Pairs[key].Type())\n\t}", Replace: "\tfor _, n := range mapLit.Pairs {\n\t\ttypes = append(types, n.Type())\n\t}", Expect: "parseMapLiteral#maprange", Describe: "map literal type inferred in Go map order"},
	{ID: "exprlist-continue-on-error", Props: []string{"C03"}, Rule: "R-PROGRESS", File: "pkg/parser/expression.go", Find: "\t\tn := p.parseExprWSS()\n\t\tif n == nil {\n\t\t\treturn nil // previous error\n\t\t}\n\t\tlist = append(list, n)", Replace: "\t\tn := p.parseExprWSS()\n\t\tif n == nil {\n\t\t\tcontinue // previous error\n\t\t}\n\t\tlist = append(list, n)", Expect: "parseExprList#loop[1]:progress", Describe: "argument list keeps going after an error without consuming anything"},
	{ID: "arraylit-no-eof-test", Props: []string{"C03"}, Rule: "R-PROGRESS", File: "pkg/parser/expression.go", Find: "\tfor tt != lexer.RBRACKET && tt != lexer.EOF {\n\t\telTok := p.cur", Replace: "\tfor tt != lexer.RBRACKET {\n\t\telTok := p.cur", Expect: "parseArrayLiteral#loop[1]:eof-exit", Describe: "unterminated array literal spins at the end of the input"},
	{ID: "comment-runs-past-end", Props: []string{"C03"}, Rule: "R-PROGRESS", File: "pkg/lexer/lexer.go", Find: "return r != 0 && r != '\\n' })", Replace: "return r != '\\n' })", Expect: "readWhile#loop[1]:eof-exit", Describe: "a comment on the last line without newline never ends"},
	{ID: "assign-target-dot-no-progress", Props: []string{"C03"}, Rule: "R-PROGRESS", File: "pkg/parser/parser.go", Find: "\t\t} else if p.cur.TokenType() == lexer.DOT {\n\t\t\tn = p.parseDotExpr(n)\n\t\t}\n\t\ttt = p.cur.TokenType()", Replace: "\t\t} else if p.cur.TokenType() == lexer.DOT {\n\t\t\tif n.Type().Name != MAP {\n\t\t\t\tp.appendErrorForToken(\"field access expects map type\", tok)\n\t\t\t\tcontinue\n\t\t\t}\n\t\t\tn = p.parseDotExpr(n)\n\t\t}\n\t\ttt = p.cur.TokenType()", Expect: "parseAssignmentTarget#loop[1]:progress", Describe: "a loop behind a call that always advances (never seen from the function entry) spins on `n.x = 1` with n a num"},
	{ID: "unknown-func-no-skip", Props: []string{"C03"}, Rule: "R-PROGRESS", File: "pkg/parser/parser.go", Find: "\t\tp.appendError(fmt.Sprintf(\"unknown function %q\", p.cur.Literal))\n\t\tp.advancePastNL()\n\t\treturn nil", Replace: "\t\tp.appendError(fmt.Sprintf(\"unknown function %q\", p.cur.Literal))\n\t\treturn nil", Expect: "#loop[1]:progress", Describe: "an unknown function name is reported for ever"},
	{ID: "pos-reset-in-statement", Props: []string{"C03"}, Rule: "R-PROGRESS", File: "pkg/parser/parser.go", Find: "\tp.appendError(\"unexpected input \" + p.cur.Format())\n\tp.advancePastNL()\n\treturn nil", Replace: "\tp.appendError(\"unexpected input \" + p.cur.Format())\n\tp.advanceTo(p.pos)\n\tp.advancePastNL()\n\treturn nil", Expect: "parseStatement#reposition", Describe: "the position is reset from inside the statement loop"},
	{ID: "range-extra-args-dropped", Props: []string{"C05", "C04", "C06"}, Rule: "R-LISTUSE", File: "pkg/parser/parser.go", Find: "\tif len(nodes) > 1 && t.Name != NUM {\n\t\tp.appendError(\"range with more than one argument must be num, found \" + t.String())\n\t\treturn nil\n\t}\n", Replace: "", Expect: "parseForStatement#list", Describe: "extra operands after a string/array/map range are accepted and dropped"},
	{ID: "slice-type-not-inferred", Props: []string{"C03", "C04"}, Rule: "R-CONCRETE", File: "pkg/parser/expression.go", Find: "T: fixedType(left.Type().infer())}", Replace: "T: fixedType(left.Type())}", Expect: "parseSlice#fixed-is-concrete", Describe: "[[]][:1] keeps the open type of the empty literal and is fixed"},
	{ID: "unary-operand-type", Props: []string{"C03"}, Rule: "R-CONCRETE", File: "pkg/parser/ast.go", Find: "\tif u.Op == OP_BANG {\n\t\treturn BOOL_TYPE\n\t}\n\treturn NUM_TYPE // OP_MINUS", Replace: "\treturn u.Right.Type()", Expect: "(*UnaryExpression).Type#returns-own-type", Describe: "-[] carries the untyped empty array type into wrapAny"},
	{ID: "matches-wildcard-first", Props: []string{"C04", "C05"}, Rule: "R-TYPEREL", File: "pkg/parser/type.go", Find: "\t\tcase left.Name != right.Name:\n\t\t\treturn false\n\t\tcase left == EMPTY_ARRAY, left == EMPTY_MAP, right == EMPTY_ARRAY, right == EMPTY_MAP:\n\t\t\treturn true\n", Replace: "\t\tcase left == EMPTY_ARRAY, left == EMPTY_MAP, right == EMPTY_ARRAY, right == EMPTY_MAP:\n\t\t\treturn true\n\t\tcase left.Name != right.Name:\n\t\t\treturn false\n", Expect: "matches#wildcard", Describe: "an empty literal matches operands of any kind"},
	{ID: "infer-stops-early", Props: []string{"C04"}, Rule: "R-TYPEREL", File: "pkg/parser/type.go", Find: "\tt2 := *t\n\tt2.Sub = t.Sub.infer()\n\treturn &t2", Replace: "\tif t.Sub != EMPTY_ARRAY && t.Sub != EMPTY_MAP {\n\t\treturn t\n\t}\n\tt2 := *t\n\tt2.Sub = t.Sub.infer()\n\treturn &t2", Expect: "infer#returns-receiver-only-for-basic-types", Describe: "infer looks one level down only"},
	{ID: "decl-builtin-global-only-toplevel", Props: []string{"C02", "C04", "C05"}, Rule: "R-DECLCHECK", File: "pkg/parser/parser.go",
		Find:    "\tif _, ok := p.builtins.Globals[v.Name]; ok {\n\t\tmsg := fmt.Sprintf(\"redeclaration of builtin variable %q\", v.Name)\n\t\tp.appendErrorForToken(msg, tok)\n\t\treturn false\n\t}\n\tif p.scope.inLocalScope(v.Name) { // already declared in current scope\n\t\tmsg := fmt.Sprintf(\"redeclaration of %q\", v.Name)\n",
		Replace: "\tif p.scope.inLocalScope(v.Name) { // already declared in current scope\n\t\tmsg := fmt.Sprintf(\"redeclaration of %q\", v.Name)\n\t\tif _, ok := p.builtins.Globals[v.Name]; ok {\n\t\t\tmsg = fmt.Sprintf(\"redeclaration of builtin variable %q\", v.Name)\n\t\t}\n",
		Expect:  "validateVarDecl#validator:builtin-global", Describe: "err can be shadowed with another type inside a function"},
	{ID: "decl-set-ignores-validator", Props: []string{"C02", "C04", "C05"}, Rule: "R-DECLCHECK", File: "pkg/parser/parser.go",
		Find:    "\tif decl.Type() != nil && p.validateVarDecl(decl.Var, decl.token, false /* allowUnderscore */) {\n\t\tp.scope.set(decl.Var.Name, decl.Var)\n\t\tp.assertEOL()\n\t}",
		Replace: "\tif decl.Type() != nil {\n\t\tp.validateVarDecl(decl.Var, decl.token, false /* allowUnderscore */)\n\t\tp.scope.set(decl.Var.Name, decl.Var)\n\t\tp.assertEOL()\n\t}",
		Expect:  "parseTypedDeclStatement#set-validated", Describe: "a rejected typed declaration still replaces the variable in the scope"},
	{ID: "decl-event-param-unvalidated", Props: []string{"C02", "C04", "C05"}, Rule: "R-DECLCHECK", File: "pkg/parser/parser.go",
		Find:    "\t\tp.validateVarDecl(param, param.token, true /* allowUnderscore */)\n\t\texptectedType := expectedParams[i].Type()",
		Replace: "\t\texptectedType := expectedParams[i].Type()",
		Expect:  "addEventParamsToScope#set-validated", Describe: "handler parameters are not validated"},
	{ID: "accepts-any-fast-path-nil", Props: []string{"C03"}, Rule: "R-NILRET", File: "pkg/parser/type.go", Find: "func (t *Type) accepts(t2 *Type) bool {\n\tleft, right := t, t2\n", Replace: "func (t *Type) accepts(t2 *Type) bool {\n\tif t == ANY_TYPE {\n\t\treturn t2.Name != NONE\n\t}\n\tleft, right := t, t2\n", Expect: "parseReturnStatement#use-of-field", Describe: "accepts dereferences the nil type of a return statement whose value failed to parse"},
	{ID: "rune-cache-extended", Props: []string{"C11"}, Rule: "R-RUNES/pkg/evaluator", File: "pkg/evaluator/evaluator.go", Find: "\t\treturn &stringVal{V: left.V + right.V}, nil", Replace: "\t\tresult := &stringVal{V: left.V + right.V}\n\t\tif left.runeSlice != nil {\n\t\t\tresult.runeSlice = append(left.runeSlice, right.runes()...)\n\t\t}\n\t\treturn result, nil", Expect: "#rune-cache", Describe: "concatenation extends the left operand's cached rune view: two results share a backing array"},
	{ID: "scope-underscore-prefix", Props: []string{"C05"}, Rule: "R-DECLCHECK", File: "pkg/parser/scope.go", Find: "\tif name != \"_\" {\n\t\ts.vars[name] = v\n\t}", Replace: "\tif len(name) > 0 && name[0] != '_' {\n\t\ts.vars[name] = v\n\t}", Expect: "(*scope).set#only-underscore-is-anonymous", Describe: "every identifier starting with an underscore is invisible to the static scope"},
	{ID: "numlit-error-at-next-token", Props: []string{"C03"}, Rule: "R-ERRLOC", File: "pkg/parser/expression.go", Find: "p.appendErrorForToken(err.Error(), tok)", Replace: "p.appendError(err.Error())", Expect: "parseLiteral#appendError", Describe: "`x := 1.2.3 + 4` is reported at the + instead of at the number"},
	{ID: "loopvar-in-scope-before-range", Props: []string{"C05", "C10"}, Rule: "R-DECLCHECK", File: "pkg/parser/parser.go", Find: "\t\tp.advance() // advance past loopVarName\n\t\tp.assertToken(lexer.DECLARE)", Replace: "\t\tp.scope.set(loopVar.Name, loopVar)\n\t\tp.advance() // advance past loopVarName\n\t\tp.assertToken(lexer.DECLARE)", Expect: "parseForStatement#loopvar-after-range", Describe: "`for x := range x` refers to the loop variable itself"},
	{ID: "for-counts-as-terminating", Props: []string{"C05", "C02"}, Rule: "R-TERMCONJ", File: "pkg/parser/ast.go", Find: "func (*ForStmt) alwaysTerminates() bool {\n\treturn false\n}", Replace: "func (f *ForStmt) alwaysTerminates() bool {\n\treturn f.Block.alwaysTerminates()\n}", Expect: "(*ForStmt).alwaysTerminates#kind", Describe: "a for loop whose body returns counts as terminating although it may run zero times"},
	{ID: "missing-return-only-nonempty", Props: []string{"C05", "C02"}, Rule: "R-TERMCONJ", File: "pkg/parser/parser.go", Find: "\tif fd.ReturnType != NONE_TYPE && !block.alwaysTerminates() {\n\t\tp.appendError(\"missing return\")", Replace: "\tif fd.ReturnType != NONE_TYPE && !block.alwaysTerminates() && len(block.Statements) > 1 {\n\t\tp.appendError(\"missing return\")", Expect: "parseFunc#missing-return", Describe: "a one-statement function body without return is accepted"},
	{ID: "wss-recorded-before-validation-return", Props: []string{"C06"}, Rule: "R-WSSKEEP", File: "pkg/parser/expression.go", Find: "\tp.validateBinaryType(binaryExp)\n\tif p.isWSS() {\n\t\tp.formatting.recordWSS(binaryExp)\n\t}\n", Replace: "\tif p.isWSS() && binaryExp.T != nil {\n\t\tp.formatting.recordWSS(binaryExp)\n\t}\n\tp.validateBinaryType(binaryExp)\n", Expect: "parseBinaryExpr#records-wss", Describe: "an untyped binary expression in a list is not recorded as white-space sensitive"},
	{ID: "accepts-any-takes-none", Props: []string{"C04", "C05"}, Rule: "R-TYPEREL", File: "pkg/parser/type.go", Find: "case left.Name == ANY && right.Name != NONE && (left == t || !rightFixed):", Replace: "case left.Name == ANY && (left == t || !rightFixed):", Expect: "accepts#any-never-none", Describe: "`a:any` `a = noret` is accepted"},
	{ID: "repetition-type-from-count", Props: []string{"C04"}, Rule: "R-TYPEREL", File: "pkg/parser/expression.go", Find: "if expType != nil && expType.Name == ARRAY && binaryExp.Op == OP_PLUS {", Replace: "if expType != nil && expType.Name == ARRAY {", Expect: "parseBinaryExpr#result-type-from-right-operand", Describe: "`[] * 3` gets the static type num"},
	{ID: "combine-empty-of-other-kind", Props: []string{"C04"}, Rule: "R-TYPEREL", File: "pkg/parser/type.go", Find: "\t\tif (t.Name == ARRAY || t.Name == MAP) && t.Name == combinedT.Name {\n\t\t\tswitch {\n\t\t\tcase t == EMPTY_ARRAY, t == EMPTY_MAP: // do nothing", Replace: "\t\tif t == EMPTY_ARRAY || t == EMPTY_MAP {\n\t\t\tcontinue\n\t\t}\n\t\tif (t.Name == ARRAY || t.Name == MAP) && t.Name == combinedT.Name {\n\t\t\tswitch {\n\t\t\tcase t == EMPTY_ARRAY, t == EMPTY_MAP: // do nothing", Expect: "combineTypes#wildcard", Describe: "`[[1] {}]` gets the type [][]num"},
	{ID: "wrapany-group-only-for-empty", Props: []string{"C03"}, Rule: "R-FIXED", File: "pkg/parser/ast.go", Find: "\tif group, ok := val.(*GroupExpression); ok { // parenthesised literal, e.g. ([1 2])\n\t\tgroup.Expr = wrapAny(group.Expr, targetType)\n\t\treturn group\n\t}\n", Replace: "", Expect: "wrapAny#gives-up-only-for-non-groups", Describe: "`x:[]any` `x = ([1 2])` panics in the parser"},
	{ID: "unused-check-only-before-end", Props: []string{"C05"}, Rule: "R-BLOCKKEEP", File: "pkg/parser/parser.go", Find: "\t\tp.appendErrorForToken(\"at least one statement is required here\", block.token)\n\t}\n\tp.validateScope()\n", Replace: "\t\tp.appendErrorForToken(\"at least one statement is required here\", block.token)\n\t}\n\tif p.cur.TokenType() == lexer.END {\n\t\tp.validateScope()\n\t}\n", Expect: "parseBlockWithEndTokens#validates-scope-on-every-path", Describe: "unused variables in an if branch that is followed by else are accepted"},
	{ID: "blank-after-return-dropped", Props: []string{"C06", "C05"}, Rule: "R-BLOCKKEEP", File: "pkg/parser/parser.go", Find: "\t\t\t\tp.appendErrorForToken(\"unreachable code\", tok)\n\t\t\t\tcontinue\n\t\t\t}\n\t\t}", Replace: "\t\t\t\tp.appendErrorForToken(\"unreachable code\", tok)\n\t\t\t}\n\t\t\tcontinue\n\t\t}", Expect: "parseBlockWithEndTokens#keeps-or-diagnoses", Describe: "comment lines behind the last return of a block are parsed and dropped"},
	// C05 / C06
	{ID: "break-no-eol", Props: []string{"C05", "C06"}, Rule: "R-EOLSTATE", File: "pkg/parser/parser.go", Find: "\tp.advance() // advance past BREAK token\n\tp.assertEOL()\n", Replace: "\tp.advance() // advance past BREAK token\n", Expect: "parseBreakStatement#skip", Describe: "text after break is skipped"},
	{ID: "if-end-no-eol", Props: []string{"C05", "C06"}, Rule: "R-EOLSTATE", File: "pkg/parser/parser.go", Find: "\tp.assertEnd()\n\tp.advance()\n\tp.assertEOL()\n\tp.recordComment(ifStmt)", Replace: "\tp.assertEnd()\n\tp.advance()\n\tp.recordComment(ifStmt)", Expect: "parseIfStatement#skip", Describe: "text after the end of an if is skipped"},
	{ID: "return-comment-lost", Props: []string{"C06"}, Rule: "R-EOLSTATE", File: "pkg/parser/parser.go", Find: "\tp.recordComment(ret)\n\tp.advancePastNL()\n\treturn ret", Replace: "\tp.advancePastNL()\n\treturn ret", Expect: "parseReturnStatement#skip", Describe: "comment after return is not recorded"},
	{ID: "run-evals-after-parse-error", Props: []string{"C05"}, Rule: "R-PARSEGATE", File: "pkg/evaluator/evaluator.go", Find: "\tprog, err := parser.Parse(input, builtins)\n\tif err != nil {\n\t\treturn err\n\t}\n\treturn e.Eval(prog)", Replace: "\tprog, err := parser.Parse(input, builtins)\n\tif err != nil && prog == nil {\n\t\treturn err\n\t}\n\treturn e.Eval(prog)", Expect: "Run#gate", Describe: "Run evaluates although Parse failed"},
	{ID: "exit-zero", Props: []string{"C05"}, Rule: "R-PARSEGATE", File: "main.go", Find: "\tfmt.Fprintln(os.Stderr, err.Error())\n\tos.Exit(1)", Replace: "\tfmt.Fprintln(os.Stderr, err.Error())\n\tos.Exit(0)", Expect: "handleEvyErr#status", Describe: "errors exit with status 0"},
	{ID: "format-missing-case", Props: []string{"C06"}, Rule: "R-EXHAUST/format", File: "pkg/parser/format.go", Find: "\tcase *DotExpression:\n", Replace: "\tcase *dotExpressionGone:\n", Expect: "", Describe: "placeholder: replaced below"},
	{ID: "arraylit-layout-late", Props: []string{"C06"}, Rule: "R-LAYOUTKEY", File: "pkg/parser/expression.go", Find: "\tp.formatting.recordMultiline(arrayLit, multi)\n\tif len(elements) == 0 {\n\t\treturn arrayLit\n\t}", Replace: "\tif len(elements) == 0 {\n\t\treturn arrayLit\n\t}\n\tp.formatting.recordMultiline(arrayLit, multi)", Expect: "parseArrayLiteral#new-ArrayLiteral", Describe: "empty array literal returned before its layout is recorded"},
	{ID: "format-drops-step", Props: []string{"C06"}, Rule: "R-FIELDCOV/format", File: "pkg/parser/format.go", Find: "\tf.format(n.Stop)\n\tif n.Step != nil {\n\t\tf.write(\" \")\n\t\tf.format(n.Step)\n\t}\n", Replace: "\tf.format(n.Stop)\n", Expect: "StepRange.Step#read-by:format", Describe: "the formatter drops the step of a range"},
	{ID: "compile-drops-else", Props: []string{"C16"}, Rule: "R-FIELDCOV/Compile", File: "pkg/bytecode/compiler.go", Find: "\tif stmt.Else != nil {\n\t\tif err := c.Compile(stmt.Else); err != nil {\n\t\t\treturn err\n\t\t}\n\t}\n", Replace: "", Expect: "IfStmt.Else#read-by:Compile", Describe: "the compiler drops else blocks"},
	{ID: "typed-decl-colon-unchecked", Props: []string{"C06"}, Rule: "R-BLINDADV", File: "pkg/parser/parser.go", Find: "\tp.advance() // advance past IDENT\n\tp.assertToken(lexer.COLON)\n\tp.advance() // advance past `:`", Replace: "\tp.advance() // advance past IDENT\n\tp.advance() // advance past `:`", Expect: "parseTypedDecl#advance", Describe: "`func f a=num` is accepted and formatted as a:num"},
	{ID: "loopvar-declare-unchecked", Props: []string{"C06"}, Rule: "R-BLINDADV", File: "pkg/parser/parser.go", Find: "\t\tp.advance() // advance past loopVarName\n\t\tp.assertToken(lexer.DECLARE)\n\t\tp.advance() // advance past :=", Replace: "\t\tp.advance() // advance past loopVarName\n\t\tp.advance() // advance past :=", Expect: "parseForStatement#advance", Describe: "`for i = range 3` is accepted and formatted with :="},
	// C07
	{ID: "indent-unbalanced", Props: []string{"C07"}, Rule: "R-INDENTPAIR", File: "pkg/parser/format.go", Find: "\t\tf.writeLn()\n\t}\n\n\tf.indentLevel--\n}", Replace: "\t\tf.writeLn()\n\t}\n}", Expect: "writeStmts#indent-balance", Describe: "writeStmts forgets to decrease the indentation"},
	{ID: "formatter-state-leak", Props: []string{"C07"}, Rule: "R-INDENTPAIR", File: "pkg/parser/format.go", Find: "\tindentLevel int\n}", Replace: "\tindentLevel int\n\tlastBlank   bool\n}",
		Find2: "\tf.indentLevel++\n\tempty := false\n", Replace2: "\tf.indentLevel++\n\tf.lastBlank = false\n\tempty := false\n", Expect: "writeStmts#state-restored:lastBlank", Describe: "the nested statement list resets a formatter state field and does not put back the enclosing list's value"},
	{ID: "comment-trimright", Props: []string{"C07"}, Rule: "R-INDENTPAIR", File: "pkg/parser/format.go", Find: "f.write(strings.TrimSpace(c))", Replace: "f.write(strings.TrimRight(c, \" \"))", Expect: "writeComment#trimmed", Describe: "comments keep trailing tabs"},
	{ID: "steprange-cached-per-statement", Props: []string{"C10"}, Rule: "R-FRESH", File: "pkg/evaluator/evaluator.go", Find: "\tsRange := &stepRange{\n\t\tcur:  start,\n\t\tstop: stop,\n\t\tstep: step,\n\t}\n", Replace: "\tsRange := stepRangeCache[r]\n\tif sRange == nil {\n\t\tsRange = &stepRange{}\n\t\tstepRangeCache[r] = sRange\n\t}\n\tsRange.cur, sRange.stop, sRange.step = start, stop, step\n",
		Find2: "func (e *Evaluator) newStepRange(", Replace2: "var stepRangeCache = map[*parser.StepRange]*stepRange{}\n\nfunc (e *Evaluator) newStepRange(",
		Expect: "newStepRange#ranger-fresh", Describe: "one cached stepRange per for statement: recursion through the loop shares the state"},
	{ID: "for-blank-body-fast-path", Props: []string{"C14"}, Rule: "R-YIELD", File: "pkg/evaluator/evaluator.go", Find: "\tfor r.next(e.scope, loopVarName) {\n\t\tval, err := e.evalLoopBlock(f.Block)", Replace: "\tif len(f.Block.Statements) == 0 {\n\t\tfor r.next(e.scope, loopVarName) {\n\t\t}\n\t\treturn &noneVal{}, nil\n\t}\n\tfor r.next(e.scope, loopVarName) {\n\t\tval, err := e.evalLoopBlock(f.Block)", Expect: "evalFor#loop", Describe: "a for loop with an empty body steps its range without stop test or yield"},
	{ID: "resolve-remembers-outer", Props: []string{"C16", "C17"}, Rule: "R-SLOTMAX", File: "pkg/bytecode/symbol.go", Find: "\treturn s.outer.Resolve(name)\n}", Replace: "\tobj, ok = s.outer.Resolve(name)\n\tif ok {\n\t\ts.store[name] = obj\n\t}\n\treturn obj, ok\n}", Expect: "Resolve#symbol-store-write", Describe: "Resolve caches outer symbols in the inner table: a later Define in the block returns the outer slot"},
	{ID: "vm-stack-smaller-than-bound", Props: []string{"C17"}, Rule: "R-VMSTACK", File: "pkg/bytecode/vm.go", Find: "stack:        make([]value, StackSize),", Replace: "stack:        make([]value, StackSize/2),", Expect: "push#bounded-store", Describe: "the stack is allocated smaller than the bound push tests"},
	{ID: "frontmatter-remembers-plaintext", Props: []string{"C20"}, Rule: "R-CRYPTO", File: "learn/pkg/learn/questionfm.go", Find: "\t\ttext, err = Decrypt(privateKey, f.SealedAnswer)\n\t\tif err != nil {\n\t\t\treturn Answer{}, err\n\t\t}\n", Replace: "\t\tif f.GenerateQuestions != \"\" {\n\t\t\ttext = f.GenerateQuestions\n\t\t} else {\n\t\t\ttext, err = Decrypt(privateKey, f.SealedAnswer)\n\t\t\tif err != nil {\n\t\t\t\treturn Answer{}, err\n\t\t\t}\n\t\t\tf.GenerateQuestions = text\n\t\t}\n", Expect: "getAnswer#frontmatter-write", Describe: "getAnswer remembers the decrypted text on the front matter (abusing an existing field so that the mutant compiles)"},
	{ID: "svg-file-closed-by-defer-in-run", Props: []string{"C19"}, Rule: "R-EXITDEFER", File: "main.go", Find: "\trt := cli.NewPlatform(c.platformOptions()...)\n\tif c.RandSeed != 0 {", Replace: "\trt := cli.NewPlatform(c.platformOptions()...)\n\tdefer os.Stdout.Sync() //nolint:errcheck\n\tif c.RandSeed != 0 {", Expect: "Run#exit-call", Describe: "work deferred in (*runCmd).Run is skipped when handleEvyErr exits"},
	{ID: "svg-pending-list-reused", Props: []string{"C19"}, Rule: "R-SVG", File: "pkg/cli/svg/runtime.go", Find: "\trt.SVG.Elements = append(rt.SVG.Elements, el)\n\trt.elements = nil", Replace: "\trt.SVG.Elements = append(rt.SVG.Elements, el)\n\trt.elements = rt.elements[:0]", Expect: "Push#pending-list", Describe: "Push keeps the backing array that the group it just built holds"},
	{ID: "str2bool-library-parser", Props: []string{"C13"}, Rule: "R-BUILTINSIG", File: "pkg/evaluator/builtin.go", Find: "\tb, err := parseBool(s.V)\n", Replace: "\tb, err := strconv.ParseBool(s.V)\n", Expect: "builtin:str2bool#documented-spellings", Describe: "str2bool accepts t, T, f, F without setting err"},
	{ID: "builtin-runs-after-stop-in-argument", Props: []string{"C14"}, Rule: "R-YIELD", File: "pkg/evaluator/evaluator.go", Find: "\t\tif e.Stopped {\n\t\t\t// An argument such as `read` or `sleep` has handed control to\n\t\t\t// the platform, which asked to stop in the meantime.\n\t\t\treturn nil, ErrStopped\n\t\t}\n", Replace: "", Expect: "evalFunccall#builtin-call", Describe: "`print (read)` prints after Stop was pressed during read"},
	{ID: "marked-beyond-choices-unseen", Props: []string{"C20"}, Rule: "R-CRYPTO", File: "learn/pkg/learn/question.go", Find: "\treturn m.verifyMarkedExist(correctByIndex, len(outputs))\n", Replace: "\treturn nil\n", Expect: "verifyChoiceMatch#marked-set-examined-whole", Describe: "`answer: a, z` on a three-choice question is accepted"},
	{ID: "stack-steprange-state-size", Props: []string{"C17", "C16"}, Rule: "R-STACKEFFECT", File: "pkg/bytecode/compiler.go", Find: "rangeOp, rangeStateSize = OpStepRange, 3", Replace: "rangeOp, rangeStateSize = OpStepRange, 2", Expect: "Compile#case:ForStmt", Describe: "a numeric for loop leaves one value of its range state on the stack"},
	{ID: "stack-vm-not-forgets-push", Props: []string{"C17", "C16"}, Rule: "R-STACKEFFECT", File: "pkg/bytecode/vm.go", Find: "\t\t\tval := vm.popBoolVal()\n\t\t\terr = vm.push(!val)", Replace: "\t\t\tval := vm.popBoolVal()\n\t\t\tvm.stack[vm.sp] = !val", Expect: "Compile#case:UnaryExpression", Describe: "OpNot stores its result without moving the stack pointer"},
	{ID: "stack-condition-popped-before-compiled", Props: []string{"C17"}, Rule: "R-STACKEFFECT", File: "pkg/bytecode/compiler.go", Find: "\tif err := c.Compile(block.Condition); err != nil {\n\t\treturn 0, err\n\t}\n\tjumpOnFalsePos, err := c.emitPos(OpJumpOnFalse, JumpPlaceholder)\n\tif err != nil {\n\t\treturn 0, err\n\t}\n", Replace: "\tjumpOnFalsePos, err := c.emitPos(OpJumpOnFalse, JumpPlaceholder)\n\tif err != nil {\n\t\treturn 0, err\n\t}\n\tif err := c.Compile(block.Condition); err != nil {\n\t\treturn 0, err\n\t}\n", Expect: "underflow", Describe: "the conditional jump is emitted before its condition"},
	{ID: "stack-iterrange-value-without-guard", Props: []string{"C17"}, Rule: "R-STACKEFFECT", File: "pkg/bytecode/vm.go", Find: "if val != nil && hasLoopVar != 0 {", Replace: "if hasLoopVar != 0 {", Expect: "OpIterRange", Describe: "OpIterRange pushes the loop value also when the range is exhausted"},
	{ID: "stack-setindex-keeps-value", Props: []string{"C17", "C16"}, Rule: "R-STACKEFFECT", File: "pkg/bytecode/compiler.go", Find: "\t\tif err := c.Compile(target.Index); err != nil {\n\t\t\treturn err\n\t\t}\n\t\treturn c.emit(OpSetIndex)", Replace: "\t\tif err := c.Compile(target.Index); err != nil {\n\t\t\treturn err\n\t\t}\n\t\tif err := c.Compile(target.Index); err != nil {\n\t\t\treturn err\n\t\t}\n\t\treturn c.emit(OpSetIndex)", Expect: "Compile#case:AssignmentStmt", Describe: "an index assignment translates its index twice and leaves a value behind"},
	{ID: "stack-while-break-target", Props: []string{"C17"}, Rule: "R-STACKEFFECT", File: "pkg/bytecode/compiler.go", Find: "\t// Prepare end position of while block, jump to end if condition is false\n\tjumpOnFalsePos, err := c.emitPos(OpJumpOnFalse, JumpPlaceholder)", Replace: "\tif err := c.emit(OpTrue); err != nil {\n\t\treturn err\n\t}\n\tif err := c.emit(OpDrop, 1); err != nil {\n\t\treturn err\n\t}\n\tif err := c.Compile(stmt.Condition); err != nil {\n\t\treturn err\n\t}\n\tjumpOnFalsePos, err := c.emitPos(OpJumpOnFalse, JumpPlaceholder)", Expect: "jump-height", Describe: "the while loop evaluates its condition twice and keeps the first result: the back jump arrives one value higher each iteration"},
	{ID: "scope-update-stops-at-first-scope", Props: []string{"C10", "C09"}, Rule: "R-SCOPECHAIN", File: "pkg/evaluator/scope.go", Find: "\tif s.outer == nil {\n\t\treturn false\n\t}\n\treturn s.outer.update(name, val)", Replace: "\tif s.outer == nil {\n\t\treturn false\n\t}\n\tif s.outer.outer == nil {\n\t\ts.outer.values[name] = val\n\t\treturn true\n\t}\n\treturn s.outer.update(name, val)", Expect: "(*scope).update#", Describe: "an assignment that reaches the global scope creates the variable there instead of failing"},
	{ID: "assignment-binds-locally", Props: []string{"C10", "C09"}, Rule: "R-SCOPECHAIN", File: "pkg/evaluator/evaluator.go", Find: "\t\tif !e.scope.update(n.Name, val) {\n\t\t\treturn newErr(n, fmt.Errorf(\"%w: %s\", ErrVarNotSet, n.Name))\n\t\t}\n\t\treturn nil", Replace: "\t\tif _, ok := e.scope.get(n.Name); !ok {\n\t\t\treturn newErr(n, fmt.Errorf(\"%w: %s\", ErrVarNotSet, n.Name))\n\t\t}\n\t\te.scope.set(n.Name, val)\n\t\treturn nil", Expect: "evalAssignment#binds-through:update", Describe: "an assignment inside a block creates a new variable in the block"},
	{ID: "loopvar-zeroed-before-operands", Props: []string{"C02", "C10"}, Rule: "R-LOOPVARINIT", File: "pkg/evaluator/evaluator.go", Find: "\tr, err := e.newRange(f)\n\tif err != nil {\n\t\treturn nil, err\n\t}\n\tloopVarName := \"_\"\n\tif f.LoopVar != nil {\n\t\tloopVarName = f.LoopVar.Name\n\t}", Replace: "\tloopVarName := \"_\"\n\tif f.LoopVar != nil {\n\t\tloopVarName = f.LoopVar.Name\n\t\te.scope.set(loopVarName, zero(f.LoopVar.Type()))\n\t}\n\tr, err := e.newRange(f)\n\tif err != nil {\n\t\treturn nil, err\n\t}", Expect: "evalFor#loopvar-created-after-operands", Describe: "`for x := range x` ranges over the loop variable's zero value"},
	{ID: "svg-clear-default-moved-out", Props: []string{"C19"}, Rule: "R-SVG", File: "pkg/cli/svg/runtime.go", Find: "\tif color == \"\" {\n\t\tcolor = \"white\"\n\t}\n\trect := Rect{", Replace: "\trect := Rect{", Expect: "svg.Clear#own-colour", Describe: "`clear \"\"` paints the canvas black"},
	{ID: "svg-styled-test-ignores-dash", Props: []string{"C19"}, Rule: "R-SVG", File: "pkg/cli/svg/runtime.go", Find: "\tif rt.attr != defaultAttr {\n\t\tel.(attrSetter).setAttr(rt.nonDefaultAttr())\n\t}", Replace: "\tif rt.attr.Fill != defaultAttr.Fill || rt.attr.Stroke != defaultAttr.Stroke || rt.attr.StrokeWidth != defaultAttr.StrokeWidth || rt.attr.StrokeLinecap != defaultAttr.StrokeLinecap {\n\t\tel.(attrSetter).setAttr(rt.nonDefaultAttr())\n\t}", Expect: "svg.Push#styled-test-covers-the-pen", Describe: "a pen that is only dashed draws solid lines"},
	{ID: "svg-file-not-truncated", Props: []string{"C19"}, Rule: "R-OUTFILE", File: "main.go", Find: "\t\tf, err := os.Create(c.SVGOut)\n", Replace: "\t\tf, err := os.OpenFile(c.SVGOut, os.O_WRONLY|os.O_CREATE, 0o644)\n", Expect: "writeSVG#output-file", Describe: "a smaller drawing written over a larger one keeps the old tail"},
	{ID: "envelope-without-payload", Props: []string{"C20"}, Rule: "R-CRYPTO", File: "learn/pkg/learn/encrypt.go", Find: "\taesCiphertext := ciphertext[rsaLen+3:]\n", Replace: "\taesCiphertext := ciphertext[rsaLen+3:]\n\tif len(aesCiphertext) == 0 {\n\t\treturn []byte{}, nil\n\t}\n", Expect: "hybridDecrypt#success-through-Open", Describe: "a sealed value cut off behind the wrapped key unseals to the empty answer with any key"},
	{ID: "constants-pooled-by-text", Props: []string{"C16", "C17"}, Rule: "R-CONSTPOOL", File: "pkg/bytecode/compiler.go", Find: "\tc.constants = append(c.constants, obj)\n\treturn len(c.constants) - 1", Replace: "\tfor i, k := range c.constants {\n\t\tif k.String() == obj.String() {\n\t\t\treturn i\n\t\t}\n\t}\n\tc.constants = append(c.constants, obj)\n\treturn len(c.constants) - 1", Expect: "addConstant#index-denotes-argument", Describe: "the number 1 and the string \"1\" share a constant"},
	{ID: "test-message-always-a-format", Props: []string{"C13"}, Rule: "R-BUILTINSIG", File: "pkg/evaluator/builtin.go", Find: "\tif len(args) > 3 {\n\t\tmsg = sprintf(msg, args[3:])\n\t}", Replace: "\tmsg = sprintf(msg, args[3:])", Expect: "message-is-a-format-only-with-operands", Describe: "`test 1 2 \"100% full\"` reports 100%!f(MISSING)ull"},
	{ID: "isident-through-the-lexer", Props: []string{"C13"}, Rule: "R-IDENTKEY", File: "pkg/lexer/lexer.go", Find: "\tif s == \"\" {\n\t\treturn false\n\t}\n\tfor i, r := range s {\n\t\tif !isLetter(r) && (i == 0 || !isDigit(r)) {\n\t\t\treturn false\n\t\t}\n\t}\n\treturn true", Replace: "\ttok := New(s).Next()\n\treturn tok.Type == IDENT && tok.Literal == s", Expect: "IsIdent#keyword-safe", Describe: "repr quotes keyword keys"},
	{ID: "blank-line-after-first-of-run", Props: []string{"C07"}, Rule: "R-BLANKBEFORE", File: "pkg/parser/multiline.go", Find: "\t\t\tbeforeCommentIdx := accums[i+1].idx - 1\n\t\t\tindices[beforeCommentIdx] = true", Replace: "\t\t\tindices[accum.idx] = true", Expect: "nlAfter#marked-index", Describe: "the blank line before a func's doc comment is inserted after the first statement of the preceding run"},
	// C08
	{ID: "printf-composite-as-pointer", Props: []string{"C08"}, Rule: "R-ADDRPRINT", File: "pkg/evaluator/value.go", Find: "\t\treturn unwrapBasicvalue(v.V)\n\tdefault:\n\t\treturn v.String()\n\t}\n", Replace: "\t\treturn unwrapBasicvalue(v.V)\n\t}\n\treturn val\n", Expect: "sprintf#fmt-dynamic-args", Describe: "printf \"%d\" [1 2] prints a heap address"},
	{ID: "mapstring-go-order", Props: []string{"C08", "C12"}, Rule: "R-MAPRANGE", File: "pkg/evaluator/value.go", Find: "func (m *mapVal) String() string {\n\tpairs := make([]string, 0, len(m.Pairs))\n\tfor _, key := range *m.Order {\n\t\tpairs = append(pairs, key+\":\"+m.Pairs[key].String())", Replace: "func (m *mapVal) String() string {\n\tpairs := make([]string, 0, len(m.Pairs))\n\tfor key, v := range m.Pairs {\n\t\tpairs = append(pairs, key+\":\"+v.String())", Expect: "(*mapVal).String#maprange", Describe: "maps print in Go map order"},
	{ID: "rand-reseed", Props: []string{"C08"}, Rule: "R-TIMESOURCE", File: "pkg/evaluator/builtin.go", Find: "func rand1Func(_ *scope, _ []value) (value, error) {\n", Replace: "func rand1Func(_ *scope, _ []value) (value, error) {\n\t_ = time.Now()\n", Expect: "rand1Func→time.Now", Describe: "rand1 reads the clock"},
	{ID: "error-prints-scope-address", Props: []string{"C08"}, Rule: "R-ADDRPRINT", File: "pkg/evaluator/evaluator.go", Find: "fmt.Errorf(\"%w: step cannot be 0, infinite loop\", ErrRangevalue)", Replace: "fmt.Errorf(\"%w: step cannot be 0, infinite loop in %v\", ErrRangevalue, e.scope)", Expect: "#fmt[", Describe: "a panic text contains the address of the enclosing scope"},
	// C09
	{ID: "steprange-reuse-num", Props: []string{"C09"}, Rule: "R-IMMUT", File: "pkg/evaluator/builtin.go", Find: "\tscope.update(\"err\", &boolVal{V: isErr})", Replace: "\tif v, ok := scope.get(\"err\"); ok {\n\t\tv.(*boolVal).V = isErr\n\t}", Expect: "globalErr#store:boolVal.V", Describe: "err is overwritten in place"},
	{ID: "slice-alias", Props: []string{"C09"}, Rule: "R-FRESH", File: "pkg/evaluator/value.go", Find: "\telements := make([]value, endIdx-startIdx)\n\tfor i := startIdx; i < endIdx; i++ {\n\t\tv := (*a.Elements)[i]\n\t\telements[i-startIdx] = copyOrRef(v)\n\t}\n\treturn &arrayVal{Elements: &elements}, nil", Replace: "\telements := (*a.Elements)[startIdx:endIdx]\n\treturn &arrayVal{Elements: &elements}, nil", Expect: "(*arrayVal).Slice#new-arrayVal", Describe: "slicing aliases the array"},
	{ID: "repeat-shallow", Props: []string{"C09"}, Rule: "R-FRESH", File: "pkg/evaluator/evaluator.go", Find: "newElements = append(newElements, *(deepCopy(left).(*arrayVal).Elements)...)", Replace: "newElements = append(newElements, *left.Elements...)", Expect: "evalBinaryArrayExpr#append", Describe: "repetition shares nested composites"},
	// C10
	{ID: "funcscope-dynamic", Props: []string{"C10", "C15"}, Rule: "R-SCOPEPAIR/evaluator", File: "pkg/evaluator/evaluator.go", Find: "\te.scope = newInnerScope(e.global)\n", Replace: "\te.scope = newInnerScope(e.scope)\n", Expect: "pushFuncScope#parent", Describe: "function bodies see the caller's locals"},
	{ID: "for-no-defer-pop", Props: []string{"C10"}, Rule: "R-SCOPEPAIR/evaluator", File: "pkg/evaluator/evaluator.go", Find: "func (e *Evaluator) evalFor(f *parser.ForStmt) (value, error) {\n\te.pushScope()\n\tdefer e.popScope()\n", Replace: "func (e *Evaluator) evalFor(f *parser.ForStmt) (value, error) {\n\te.pushScope()\n", Expect: "evalFor#push", Describe: "for loop scope is never popped"},
	{ID: "while-keeps-break", Props: []string{"C10"}, Rule: "R-SIGNAL", File: "pkg/evaluator/evaluator.go", Find: "\tif isBreak(val) {\n\t\tval = nil\n\t}\n\treturn val, err", Replace: "\treturn val, err", Expect: "evalWhile#loop-signals:break", Describe: "break leaves the enclosing loop too"},
	{ID: "maprange-live-order", Props: []string{"C10", "C12"}, Rule: "R-FRESH", File: "pkg/evaluator/evaluator.go", Find: "\t\torder := make([]string, len(*v.Order))\n\t\tcopy(order, *v.Order)\n\t\tmapRange := &mapRange{mapVal: v, cur: 0, order: order}", Replace: "\t\tmapRange := &mapRange{mapVal: v, cur: 0, order: *v.Order}", Expect: "newRange#new-mapRange", Describe: "map iteration uses the live key order"},
	{ID: "for-scope-per-loop", Props: []string{"C10"}, Rule: "R-SCOPEPAIR/evaluator", File: "pkg/evaluator/evaluator.go", Find: "\t\tval, err := e.evalLoopBlock(f.Block)", Replace: "\t\tval, err := e.eval(f.Block)", Expect: "evalFor#eval-block", Describe: "loop body shares one scope across iterations"},
	// C11
	{ID: "string-index-bytes", Props: []string{"C11", "C13"}, Rule: "R-RUNES/pkg/evaluator", File: "pkg/evaluator/value.go", Find: "\trunes := s.runes()\n\ti, err := normalizeIndex(idx, len(runes), indexExpression)\n\tif err != nil {\n\t\treturn nil, err\n\t}\n\treturn &stringVal{V: string(runes[i])}, nil", Replace: "\ti, err := normalizeIndex(idx, len(s.V), indexExpression)\n\tif err != nil {\n\t\treturn nil, err\n\t}\n\treturn &stringVal{V: string(s.V[i])}, nil", Expect: "(*stringVal).Index#bytestring", Describe: "strings indexed by byte"},
	{ID: "index-byte-offset", Props: []string{"C11", "C13"}, Rule: "R-RUNES/pkg/evaluator", File: "pkg/evaluator/builtin.go", Find: "\treturn &numVal{V: float64(utf8.RuneCountInString(s[:idx]))}, nil", Replace: "\treturn &numVal{V: float64(idx)}, nil", Expect: "indexFunc#bytestring", Describe: "index returns a byte offset"},
	{ID: "index-lower-bound-off-by-one", Props: []string{"C11"}, Rule: "R-IDXPOST/pkg/evaluator", File: "pkg/evaluator/value.go", Find: "\tif i < -length || i > limit {\n\t\treturn 0, fmt.Errorf(\"%w: %d\", ErrBounds, i)", Replace: "\tif i < -length-1 || i > limit {\n\t\treturn 0, fmt.Errorf(\"%w: %d\", ErrBounds, i)", Expect: "normalizeIndex#post", Describe: "-n-1 is accepted and becomes position -1"},
	{ID: "index-from-end-shifted", Props: []string{"C11"}, Rule: "R-IDXPOST/pkg/evaluator", File: "pkg/evaluator/value.go", Find: "\t\treturn length + i, nil // -1 references len-1 i.e. last element", Replace: "\t\treturn length + i + 1, nil", Expect: "normalizeIndex#", Describe: "negative indexes are shifted by one"},
	{ID: "vm-index-upper-bound", Props: []string{"C17"}, Rule: "R-IDXPOST/pkg/bytecode", File: "pkg/bytecode/value.go", Find: "\tif i < -length || i > limit {", Replace: "\tif i < -length || i > limit+1 {", Expect: "normalizeIndex#post", Describe: "the VM accepts an index equal to the length"},
	{ID: "slice-order-unchecked", Props: []string{"C11"}, Rule: "R-IDXPOST/pkg/evaluator", File: "pkg/evaluator/value.go", Find: "\tif startIdx > endIdx {", Replace: "\tif startIdx > endIdx+1 {", Expect: "normalizeSliceIndices#post", Describe: "a[3:2] reaches Go's slicing"},
	// C12
	{ID: "del-direct", Props: []string{"C12"}, Rule: "R-MAPENC", File: "pkg/evaluator/builtin.go", Find: "\tm.Delete(keyStr.V)\n", Replace: "\tdelete(m.Pairs, keyStr.V)\n", Expect: "delFunc", Describe: "del removes the key from the Go map only"},
	{ID: "setkey-always-append", Props: []string{"C12"}, Rule: "R-MAPENC", File: "pkg/evaluator/value.go", Find: "\tif _, ok := m.Pairs[key]; !ok {\n\t\t*m.Order = append(*m.Order, key)\n\t}\n\tm.Pairs[key] = val", Replace: "\t*m.Order = append(*m.Order, key)\n\tm.Pairs[key] = val", Expect: "SetKey#body:order", Describe: "overwriting a key duplicates it in the order"},
	{ID: "equals-order", Props: []string{"C12"}, Rule: "R-MAPENC", File: "pkg/evaluator/value.go", Find: "\tif len(m.Pairs) != len(m2.Pairs) {\n\t\treturn false\n\t}\n\tfor key, val := range m.Pairs {", Replace: "\tif len(m.Pairs) != len(m2.Pairs) || len(*m.Order) != len(*m2.Order) {\n\t\treturn false\n\t}\n\tfor key, val := range m.Pairs {", Expect: "(*mapVal).Equals#reads:Order", Describe: "map equality looks at the order"},
	// C14
	{ID: "eval-test-errors-before-stopped", Props: []string{"C14"}, Rule: "R-YIELD", File: "pkg/evaluator/evaluator.go",
		Find:     "\tif err != nil {\n\t\treturn err\n\t}\n\tif len(e.TestInfo.errors) != 0 {\n\t\treturn TestErrors(e.TestInfo.errors)\n\t}\n\treturn err",
		Replace:  "\tvar terr error\n\tif len(e.TestInfo.errors) != 0 {\n\t\tterr = TestErrors(e.TestInfo.errors)\n\t}\n\treturn cmp.Or(terr, err)",
		Find2:    "import (\n\t\"errors\"",
		Replace2: "import (\n\t\"cmp\"\n\t\"errors\"",
		Expect:   "Eval#call[1]:eval", Describe: "a stopped run with an earlier failed test returns the test failures, not ErrStopped"},
	{ID: "builtin-call-in-helper-unguarded", Props: []string{"C14"}, Rule: "R-YIELD", File: "pkg/evaluator/evaluator.go",
		Find:     "\t\tif e.Stopped {\n\t\t\t// An argument such as `read` or `sleep` has handed control to\n\t\t\t// the platform, which asked to stop in the meantime.\n\t\t\treturn nil, ErrStopped\n\t\t}\n\t\tval, err := builtin.Func(e.scope, args)",
		Replace:  "\t\tval, err := e.runBuiltin(builtin, args)",
		Find2:    "func (e *Evaluator) evalFunccall(",
		Replace2: "func (e *Evaluator) runBuiltin(b builtin, args []value) (value, error) {\n\treturn b.Func(e.scope, args)\n}\n\nfunc (e *Evaluator) evalFunccall(",
		Expect:   "runBuiltin#builtin-call", Describe: "the built-in call moves into a helper and the stop test after the arguments is gone"},
	{ID: "eval-no-yield", Props: []string{"C14"}, Rule: "R-YIELD", File: "pkg/evaluator/evaluator.go", Find: "\t\treturn nil, ErrStopped\n\t}\n\te.yield()\n", Replace: "\t\treturn nil, ErrStopped\n\t}\n", Expect: "eval#yield", Describe: "eval never yields"},
	{ID: "for-swallows-error", Props: []string{"C14"}, Rule: "R-YIELD", File: "pkg/evaluator/evaluator.go", Find: "\t\tval, err := e.evalLoopBlock(f.Block)\n\t\tif err != nil {\n\t\t\treturn nil, err\n\t\t}", Replace: "\t\tval, err := e.evalLoopBlock(f.Block)\n\t\tif err != nil {\n\t\t\tbreak\n\t\t}", Expect: "evalFor#call", Describe: "a stop inside a for body is swallowed"},
	// C15
	{ID: "handler-no-funcscope", Props: []string{"C15", "C10"}, Rule: "R-SCOPEPAIR/evaluator", File: "pkg/evaluator/evaluator.go", Find: "\trestoreScope := e.pushFuncScope()\n\tdefer restoreScope()\n\targs := ev.Params", Replace: "\targs := ev.Params", Expect: "HandleEvent#eval-block:Body", Describe: "handlers run in the interrupted scope"},
	{ID: "handler-shifted-payload", Props: []string{"C15"}, Rule: "R-EVENTS", File: "pkg/evaluator/evaluator.go", Find: "\tfor i, param := range eh.Params {\n\t\targ, err := valueFromAny(param.Type(), args[i])", Replace: "\tj := 0\n\tfor _, param := range eh.Params {\n\t\tif param.Name == \"_\" {\n\t\t\tcontinue\n\t\t}\n\t\targ, err := valueFromAny(param.Type(), args[j])\n\t\tj++", Expect: "HandleEvent#slot-i-to-param-i", Describe: "payload shifted after an anonymous parameter"},
	// C16 / C17
	{ID: "compile-silent-default", Props: []string{"C16", "C17"}, Rule: "R-EXHAUST/Compile", File: "pkg/bytecode/compiler.go", Find: "\tdefault:\n\t\treturn fmt.Errorf(\"%w: %T\", ErrUnsupportedExpression, node)\n\t}\n\treturn nil\n}", Replace: "\t}\n\treturn nil\n}", Expect: "Compile#nomatch", Describe: "unsupported nodes are dropped silently"},
	{ID: "compiler-loses-gteq", Props: []string{"C16"}, Rule: "R-DISPATCH", File: "pkg/bytecode/compiler.go", Find: "\tcase parser.OP_GTEQ:\n\t\treturn c.emit(OpStringGreaterThanEqual)\n\tdefault:\n\t\treturn fmt.Errorf(\"%w %s\", ErrUnknownOperator, expr.Op)\n\t}", Replace: "\t}\n\treturn nil", Expect: "compileStringBinaryExpression#operators", Describe: "string >= compiles to nothing"},
	{ID: "vm-concat-alias", Props: []string{"C16"}, Rule: "R-VMVALUES", File: "pkg/bytecode/vm.go", Find: "\t\t\tconcatenated := arrayVal{Elements: []value{}}\n\t\t\tconcatenated.Elements = append(concatenated.Elements, left.Elements...)\n\t\t\tconcatenated.Elements = append(concatenated.Elements, right.Elements...)", Replace: "\t\t\tconcatenated := arrayVal{Elements: append(left.Elements, right.Elements...)}", Expect: "(*VM).Run#new-arrayVal", Describe: "VM concatenation aliases its left operand"},
	{ID: "decl-define-first", Props: []string{"C16"}, Rule: "R-VMVALUES", File: "pkg/bytecode/compiler.go", Find: "\tif err := c.Compile(decl.Value); err != nil {\n\t\treturn err\n\t}\n\tsymbol := c.symbolTable.Define(decl.Var.Name)\n\treturn c.emitSetVar(symbol)", Replace: "\tsymbol := c.symbolTable.Define(decl.Var.Name)\n\tif err := c.Compile(decl.Value); err != nil {\n\t\treturn err\n\t}\n\treturn c.emitSetVar(symbol)", Expect: "compileDecl#value-before-define", Describe: "variable defined before its initialiser is compiled"},
	{ID: "opcode-no-vm-case", Props: []string{"C17"}, Rule: "R-OPTABLE", File: "pkg/bytecode/vm.go", Find: "\t\tcase OpNone:\n\t\t\terr = vm.push(noneVal{})\n", Replace: "", Expect: "Opcode:OpNone#vmcase", Describe: "OpNone has no VM case"},
	{ID: "getlocal-no-advance", Props: []string{"C17"}, Rule: "R-OPTABLE", File: "pkg/bytecode/vm.go", Find: "\t\t\tidx := ReadUint16(vm.instructions[ip+1:])\n\t\t\tip += 2\n\t\t\terr = vm.push(vm.stack[idx])", Replace: "\t\t\tidx := ReadUint16(vm.instructions[ip+1:])\n\t\t\terr = vm.push(vm.stack[idx])", Expect: "Opcode:OpGetLocal#ipadvance", Describe: "OpGetLocal does not skip its operand"},
	{ID: "while-jump-unpatched", Props: []string{"C17"}, Rule: "R-JUMPPATCH", File: "pkg/bytecode/compiler.go", Find: "\tafterBlockPos := len(c.instructions)\n\tif err := c.instructions.changeOperand(jumpOnFalsePos, afterBlockPos); err != nil {\n\t\treturn err\n\t}\n\t// rewrite the JumpPlaceholder in the break statements", Replace: "\tafterBlockPos := len(c.instructions)\n\t_ = jumpOnFalsePos\n\t// rewrite the JumpPlaceholder in the break statements", Expect: "compileWhileStatement#jump", Describe: "while exit jump keeps its placeholder"},
	{ID: "operand-unchecked", Props: []string{"C17"}, Rule: "R-NARROW", File: "pkg/bytecode/instructions.go", Find: "\tif operand < 0 || operand > math.MaxUint16 {\n\t\treturn fmt.Errorf(\"%w: %d\", ErrOperandRange, operand)\n\t}\n", Replace: "\t_ = math.MaxUint16\n", Expect: "changeOperand#narrow", Describe: "jump targets wrap at 64 KiB"},
	{ID: "breaks-aliased", Props: []string{"C17"}, Rule: "R-VMVALUES", File: "pkg/bytecode/compiler.go", Find: "\toutOfScopeBreaks := c.breaks\n\tc.breaks = []int{}", Replace: "\toutOfScopeBreaks := c.breaks\n\tc.breaks = c.breaks[:0]", Expect: "compileWhileStatement#fresh-breaks", Describe: "inner break list aliases the outer one"},
	{ID: "pop-adds-indexes", Props: []string{"C16", "C17"}, Rule: "R-SLOTMAX", File: "pkg/bytecode/symbol.go", Find: "max(s.outer.nestedMaxIndex, s.nestedMaxIndex, s.index)", Replace: "max(s.outer.nestedMaxIndex, s.nestedMaxIndex+s.index)", Expect: "Pop#absolute-indexes", Describe: "absolute slot indexes are added: local count grows quadratically with nesting"},
	// C18
	{ID: "txtar-member-formatted-in-place", Props: []string{"C06", "C07"}, Rule: "R-NOINPLACE", File: "main.go", Find: "archive.Files[i].Data = []byte(out)", Replace: "archive.Files[i].Data = append(file.Data[:0], out...)", Expect: "fmtTxtarFile#no-in-place-append", Describe: "a formatted txtar member that grew overwrites the source of the next member in the shared buffer"},
	{ID: "txtar-last-verdict-wins", Props: []string{"C18"}, Rule: "R-ATOMICWRITE", File: "main.go",
		Find:    "\tarchive := txtar.Parse(b)\n\tfor i, file := range archive.Files {\n\t\tif filepath.Ext(file.Name) != \".evy\" {\n\t\t\tcontinue\n\t\t}\n\t\tout, err := format(file.Data, c.Check)\n\t\tif err != nil {\n\t\t\treturn err\n\t\t}\n\t\tarchive.Files[i].Data = []byte(out)\n\t}\n",
		Replace: "\tarchive := txtar.Parse(b)\n\tvar last error\n\tfor i, file := range archive.Files {\n\t\tif filepath.Ext(file.Name) != \".evy\" {\n\t\t\tcontinue\n\t\t}\n\t\tout, err := format(file.Data, c.Check)\n\t\tlast = err\n\t\tarchive.Files[i].Data = []byte(out)\n\t}\n\tif last != nil {\n\t\treturn last\n\t}\n",
		Expect:  "W8:verdict-kept", Describe: "only the last member of the archive decides the exit status of fmt --check"},
	{ID: "write-in-place", Props: []string{"C18"}, Rule: "R-ATOMICWRITE", File: "main.go", Find: "\tif c.Write {\n\t\treturn writeAtomically([]byte(formatted), filename)\n\t}", Replace: "\tif c.Write {\n\t\treturn os.WriteFile(filename, []byte(formatted), 0o644)\n\t}", Expect: "os.WriteFile", Describe: "the target is truncated and rewritten in place"},
	{ID: "temp-elsewhere", Props: []string{"C18"}, Rule: "R-ATOMICWRITE", File: "main.go", Find: "os.CreateTemp(filepath.Dir(filename), \"evy\")", Replace: "os.CreateTemp(os.TempDir(), \"evy\")", Expect: "W2:same-directory", Describe: "temp file in the system temp directory"},
	{ID: "close-error-ignored", Props: []string{"C18"}, Rule: "R-ATOMICWRITE", File: "main.go", Find: "\tif err := tempFile.Close(); err != nil {\n\t\treturn fmt.Errorf(\"%s: %w\", filename, err)\n\t}", Replace: "\ttempFile.Close() //nolint:errcheck", Expect: "W3:Close-ok-before-Rename", Describe: "Close error ignored before rename"},
	{ID: "no-chmod", Props: []string{"C18"}, Rule: "R-ATOMICWRITE", File: "main.go", Find: "\tinfo, err := os.Stat(filename)\n\tif err != nil {\n\t\treturn fmt.Errorf(\"%s: %w\", filename, err)\n\t}\n\tif err := tempFile.Chmod(info.Mode().Perm()); err != nil {\n\t\treturn fmt.Errorf(\"%s: %w\", filename, err)\n\t}\n", Replace: "", Expect: "W4:permission-bits", Describe: "file mode becomes 0600"},
	{ID: "write-despite-format-error", Props: []string{"C18"}, Rule: "R-ATOMICWRITE", File: "main.go", Find: "\tformatted, err := format(b, c.Check)\n\tif err != nil {\n\t\treturn fmt.Errorf(\"%s: %w\", filename, err)\n\t}\n\tif c.Write {", Replace: "\tformatted, err := format(b, c.Check)\n\tif err != nil && !c.Write {\n\t\treturn fmt.Errorf(\"%s: %w\", filename, err)\n\t}\n\tif c.Write {", Expect: "fmtEvyFile#W5:write", Describe: "an unparsable file is overwritten"},
	{ID: "stat-error-ignored", Props: []string{"C18"}, Rule: "R-ATOMICWRITE", File: "main.go", Find: "\tinfo, err := os.Stat(filename)\n\tif err != nil {\n\t\treturn fmt.Errorf(\"%s: %w\", filename, err)\n\t}\n\tif err := tempFile.Chmod(info.Mode().Perm()); err != nil {\n\t\treturn fmt.Errorf(\"%s: %w\", filename, err)\n\t}\n", Replace: "\tif info, err := os.Stat(filename); err == nil {\n\t\tif err := tempFile.Chmod(info.Mode().Perm()); err != nil {\n\t\t\treturn fmt.Errorf(\"%s: %w\", filename, err)\n\t\t}\n\t}\n", Expect: "W4:permission-bits", Describe: "a failing Stat lets the rename go ahead with mode 0600"},
	// C19
	{ID: "linecap-no-push", Props: []string{"C19"}, Rule: "R-SVG", File: "pkg/cli/svg/runtime.go", Find: "func (rt *GraphicsPlatform) Linecap(str string) {\n\trt.Push()\n", Replace: "func (rt *GraphicsPlatform) Linecap(str string) {\n", Expect: "svg.Linecap#push-first", Describe: "linecap changes the pen of shapes already drawn"},
	{ID: "line-y-transformx", Props: []string{"C19"}, Rule: "R-SVG", File: "pkg/cli/svg/runtime.go", Find: "func (rt *GraphicsPlatform) Line(x, y float64) {\n\tx = rt.transformX(x)\n\ty = rt.transformY(y)", Replace: "func (rt *GraphicsPlatform) Line(x, y float64) {\n\tx = rt.transformX(x)\n\ty = rt.transformX(y)", Expect: "svg.Line#coord:y", Describe: "line end points are not flipped"},
	{ID: "circle-no-append", Props: []string{"C19"}, Rule: "R-SVG", File: "pkg/cli/svg/runtime.go", Find: "\tcircle := Circle{CX: rt.x, CY: rt.y, R: radius}\n\trt.elements = append(rt.elements, &circle)", Replace: "\tcircle := Circle{CX: rt.x, CY: rt.y, R: radius}\n\tif radius > 0 {\n\t\trt.elements = append(rt.elements, &circle)\n\t}", Expect: "svg.Circle#append-once", Describe: "circle 0 draws nothing"},
	{ID: "rect-y-not-min", Props: []string{"C19"}, Rule: "R-SVG", File: "pkg/cli/svg/runtime.go", Find: "\t\tY:      min(y, rt.y),", Replace: "\t\tY:      max(y, rt.y),", Expect: "svg.Rect#xy-symmetry", Describe: "rect with negative height misplaced"},
	{ID: "text-innerxml", Props: []string{"C19"}, Rule: "R-SVG", File: "pkg/cli/svg/svg.go", Find: "`xml:\",chardata\"`", Replace: "`xml:\",innerxml\"`", Expect: "svg.Text.Value#xml-tag", Describe: "text is written as raw XML"},
	{ID: "gridn-unchecked", Props: []string{"C19"}, Rule: "R-SVG", File: "pkg/evaluator/builtin.go", Find: "\t\tif !(unit.V > 0) {\n\t\t\treturn nil, fmt.Errorf(`%w: \"gridn\" unit must be greater than 0, found %v`, ErrBadArguments, unit.V)\n\t\t}\n", Replace: "", Expect: "gridn→svg.Gridn#step>0", Describe: "gridn 0 loops forever"},
	{ID: "push-ignores-own-attr", Props: []string{"C19"}, Rule: "R-SVG", File: "pkg/cli/svg/runtime.go", Find: "if len(rt.elements) == 1 && !(rt.attr != defaultAttr && hasOwnAttr(rt.elements[0])) {", Replace: "if len(rt.elements) == 1 {", Expect: "svg.Push#own-attr", Describe: "pen colour overwrites clear's colour"},
	// C20
	{ID: "open-error-ignored", Props: []string{"C20"}, Rule: "R-CRYPTO", File: "learn/pkg/learn/encrypt.go", Find: "\tplaintext, err := gcm.Open(nil, zeroNonce, aesCiphertext, nil)\n\tif err != nil {\n\t\treturn nil, err\n\t}\n\treturn plaintext, nil", Replace: "\tplaintext, _ := gcm.Open(nil, zeroNonce, aesCiphertext, nil)\n\treturn plaintext, nil", Expect: "hybridDecrypt#error", Describe: "authentication failure ignored"},
	{ID: "envelope-length-unchecked", Props: []string{"C20"}, Rule: "R-CRYPTO", File: "learn/pkg/learn/encrypt.go", Find: "\tif len(ciphertext) < rsaLen+3 {\n\t\treturn nil, ErrSealedTooShort\n\t}\n", Replace: "", Expect: "hybridDecrypt#slice", Describe: "truncated sealed value crashes"},
	{ID: "verify-one-sided", Props: []string{"C20"}, Rule: "R-CRYPTO", File: "learn/pkg/learn/question.go", Find: "\t\tif !correctByIndex[i] && generated == output {\n", Replace: "\t\tif correctByIndex[i] && generated == output {\n", Expect: "verifyChoiceMatch#both-conditions", Describe: "unmarked matching choices are accepted"},
}

func init() {
	// the format dispatcher mutant needs a compiling edit: remove the case by merging it into a dead type switch arm
	for i := range Mutants {
		if Mutants[i].ID == "format-missing-case" {
			Mutants[i].Find = "\tcase *DotExpression:\n\t\tf.format(n.Left)\n\t\tf.writes(\".\", n.Key)\n"
			Mutants[i].Replace = ""
			Mutants[i].Expect = "format#case:DotExpression"
			Mutants[i].Describe = "the formatter loses the DotExpression case"
		}
	}
}

// MutantResult of one mutant run.
type MutantResult struct {
	ID       string `json:"id"`
	Rule     string `json:"rule"`
	Status   string `json:"status"` // fired | missed | skipped | broken
	Detail   string `json:"detail,omitempty"`
	Describe string `json:"mutant"`
}

func copyTree(src, dst string) error {
	skip := map[string]bool{".git": true, "frontend": true, "node_modules": true, "bin": true, "out": true, "e2e": true, "firebase": true, "examples": true}
	return filepath.Walk(src, func(path string, info os.FileInfo, err error) error {
		if err != nil {
			return err
		}
		rel, _ := filepath.Rel(src, path)
		if rel == "." {
			return os.MkdirAll(dst, 0o755)
		}
		top := strings.Split(rel, string(filepath.Separator))[0]
		if info.IsDir() {
			if skip[info.Name()] && (rel == info.Name()) || skip[top] {
				return filepath.SkipDir
			}
			if info.Name() == "testdata" {
				return filepath.SkipDir
			}
			return os.MkdirAll(filepath.Join(dst, rel), 0o755)
		}
		if !info.Mode().IsRegular() {
			return nil
		}
		ext := filepath.Ext(path)
		if ext != ".go" && ext != ".md" && ext != ".mod" && ext != ".sum" && ext != ".evy" && ext != ".txt" && ext != ".tmpl" && ext != ".html" && ext != ".css" && ext != ".js" {
			if !strings.Contains(rel, "learn") {
				return nil
			}
		}
		in, err := os.Open(path)
		if err != nil {
			return err
		}
		defer in.Close() //nolint:errcheck
		out, err := os.Create(filepath.Join(dst, rel))
		if err != nil {
			return err
		}
		defer out.Close() //nolint:errcheck
		_, err = io.Copy(out, in)
		return err
	})
}

// RunMutants applies every mutant of the property to a scratch copy of the
// current tree and requires the named rule to report the expected construct.
func RunMutants(c *Ctx, prop string) []MutantResult {
	var todo []Mutant
	for _, m := range Mutants {
		for _, p := range m.Props {
			if p == prop {
				todo = append(todo, m)
			}
		}
	}
	results := make([]MutantResult, len(todo))
	self, err := os.Executable()
	if err != nil {
		return []MutantResult{{ID: "*", Status: "broken", Detail: err.Error()}}
	}
	var wg sync.WaitGroup
	sem := make(chan struct{}, 6)
	for i, m := range todo {
		wg.Add(1)
		go func(i int, m Mutant) {
			defer wg.Done()
			sem <- struct{}{}
			defer func() { <-sem }()
			res := MutantResult{ID: m.ID, Rule: m.Rule, Describe: m.Describe}
			defer func() { results[i] = res }()
			src, err := os.ReadFile(filepath.Join(c.Repo, m.File))
			if err != nil {
				res.Status, res.Detail = "skipped", "file not found: "+m.File
				return
			}
			if strings.Count(string(src), m.Find) != 1 {
				res.Status, res.Detail = "skipped", fmt.Sprintf("anchor occurs %d times in %s (the code changed; the mutant no longer applies)", strings.Count(string(src), m.Find), m.File)
				return
			}
			dir, err := os.MkdirTemp("", "evymut-")
			if err != nil {
				res.Status, res.Detail = "broken", err.Error()
				return
			}
			defer os.RemoveAll(dir) //nolint:errcheck
			if err := copyTree(c.Repo, dir); err != nil {
				res.Status, res.Detail = "broken", "copy: "+err.Error()
				return
			}
			mutated := strings.Replace(string(src), m.Find, m.Replace, 1)
			if m.Find2 != "" {
				if strings.Count(mutated, m.Find2) != 1 {
					res.Status, res.Detail = "skipped", "second anchor does not occur exactly once in "+m.File
					return
				}
				mutated = strings.Replace(mutated, m.Find2, m.Replace2, 1)
			}
			if err := os.WriteFile(filepath.Join(dir, m.File), []byte(mutated), 0o644); err != nil {
				res.Status, res.Detail = "broken", err.Error()
				return
			}
			cmd := exec.Command(self, "-property", prop, "-tier", "quick", "-no-evidence", "-repo", dir, "-verif", c.VerifDir)
			cmd.Env = append(os.Environ(), "EVYCHECK_NO_MUTANTS=1")
			out, _ := cmd.CombinedOutput()
			text := string(out)
			if strings.Contains(text, "type/parse errors") {
				res.Status, res.Detail = "skipped", "the mutant does not compile on this tree"
				return
			}
			fired := false
			for _, line := range strings.Split(text, "\n") {
				if strings.Contains(line, ": "+m.Rule+": ") && strings.Contains(line, m.Expect) && !strings.HasPrefix(line, "EXEMPT") && !strings.HasPrefix(line, "KNOWN") {
					fired = true
					res.Detail = strings.TrimSpace(strings.ReplaceAll(line, dir+"/", ""))
					if len(res.Detail) > 260 {
						res.Detail = res.Detail[:260] + "…"
					}
				}
			}
			if fired && strings.Contains(text, "VIOLATION property="+prop) {
				res.Status = "fired"
			} else {
				res.Status = "missed"
				tail := strings.Split(strings.TrimSpace(text), "\n")
				if len(tail) > 3 {
					tail = tail[len(tail)-3:]
				}
				res.Detail = "expected " + m.Rule + " to report " + m.Expect + "; got: " + strings.Join(tail, " | ")
			}
		}(i, m)
	}
	wg.Wait()
	sort.Slice(results, func(i, j int) bool { return results[i].ID < results[j].ID })
	return results
}

// CopyTreeForDebug exposes copyTree.
func CopyTreeForDebug(src, dst string) error { return copyTree(src, dst) }
