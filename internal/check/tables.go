package check

import (
	"go/ast"
	"go/constant"
	"go/token"
	"go/types"
	"strings"

	"golang.org/x/tools/go/packages"
)

// kv is one entry of a map composite literal.
type kv struct {
	Key   ast.Expr
	Value ast.Expr
}

// pkgVarInit returns the initialiser expression of the package-level variable name.
func pkgVarInit(pkg *packages.Package, name string) ast.Expr {
	for _, file := range pkg.Syntax {
		if strings.HasSuffix(pkg.Fset.Position(file.Pos()).Filename, "_test.go") {
			continue
		}
		for _, d := range file.Decls {
			gd, ok := d.(*ast.GenDecl)
			if !ok || gd.Tok != token.VAR {
				continue
			}
			for _, spec := range gd.Specs {
				vs := spec.(*ast.ValueSpec)
				for i, n := range vs.Names {
					if n.Name == name && i < len(vs.Values) {
						return vs.Values[i]
					}
				}
			}
		}
	}
	return nil
}

// mapLitEntries returns the entries of a map composite literal expression.
func mapLitEntries(e ast.Expr) []kv {
	cl, ok := ast.Unparen(e).(*ast.CompositeLit)
	if !ok {
		return nil
	}
	var out []kv
	for _, el := range cl.Elts {
		if p, ok := el.(*ast.KeyValueExpr); ok {
			out = append(out, kv{Key: p.Key, Value: p.Value})
		}
	}
	return out
}

// constOf returns the constant object an expression refers to (ident or pkg.ident), or nil.
func constOf(info *types.Info, e ast.Expr) *types.Const {
	switch x := ast.Unparen(e).(type) {
	case *ast.Ident:
		c, _ := info.Uses[x].(*types.Const)
		return c
	case *ast.SelectorExpr:
		c, _ := info.Uses[x.Sel].(*types.Const)
		return c
	}
	return nil
}

// constInt returns the integer constant value of e.
func constInt(info *types.Info, e ast.Expr) (int64, bool) {
	tv, ok := info.Types[e]
	if !ok || tv.Value == nil {
		return 0, false
	}
	if tv.Value.Kind() != constant.Int {
		return 0, false
	}
	return constant.Int64Val(tv.Value)
}

// constsOfType lists the package-level constants of pkg whose type is the named type typeName.
func constsOfType(pkg *types.Package, typeName string) []*types.Const {
	var out []*types.Const
	scope := pkg.Scope()
	for _, name := range scope.Names() {
		c, ok := scope.Lookup(name).(*types.Const)
		if !ok {
			continue
		}
		if n, ok := c.Type().(*types.Named); ok && n.Obj().Name() == typeName && n.Obj().Pkg() == pkg {
			out = append(out, c)
		}
	}
	return out
}

// caseConsts returns the constants named in the case labels of a switch body,
// and whether it has a default clause.
func caseConsts(info *types.Info, body *ast.BlockStmt) (map[*types.Const]*ast.CaseClause, *ast.CaseClause) {
	out := map[*types.Const]*ast.CaseClause{}
	var def *ast.CaseClause
	for _, st := range body.List {
		cc, ok := st.(*ast.CaseClause)
		if !ok {
			continue
		}
		if cc.List == nil {
			def = cc
		}
		for _, e := range cc.List {
			if c := constOf(info, e); c != nil {
				out[c] = cc
			}
		}
	}
	return out, def
}

// findSwitchOn finds the first expression switch in body whose tag satisfies pred.
func findSwitches(body ast.Node, pred func(*ast.SwitchStmt) bool) []*ast.SwitchStmt {
	var out []*ast.SwitchStmt
	ast.Inspect(body, func(n ast.Node) bool {
		if s, ok := n.(*ast.SwitchStmt); ok && pred(s) {
			out = append(out, s)
		}
		return true
	})
	return out
}

// typeSwitchOn finds type switches in body whose subject expression has the given type.
func typeSwitches(info *types.Info, body ast.Node, pred func(subject ast.Expr) bool) []*ast.TypeSwitchStmt {
	var out []*ast.TypeSwitchStmt
	ast.Inspect(body, func(n ast.Node) bool {
		ts, ok := n.(*ast.TypeSwitchStmt)
		if !ok {
			return true
		}
		var subj ast.Expr
		switch a := ts.Assign.(type) {
		case *ast.AssignStmt:
			if ta, ok := a.Rhs[0].(*ast.TypeAssertExpr); ok {
				subj = ta.X
			}
		case *ast.ExprStmt:
			if ta, ok := a.X.(*ast.TypeAssertExpr); ok {
				subj = ta.X
			}
		}
		if subj != nil && pred(subj) {
			out = append(out, ts)
		}
		return true
	})
	return out
}

// typeSwitchCases returns the named types (through pointers) of the case labels and the default clause.
func typeSwitchCases(info *types.Info, ts *ast.TypeSwitchStmt) (map[*types.TypeName]*ast.CaseClause, *ast.CaseClause) {
	out := map[*types.TypeName]*ast.CaseClause{}
	var def *ast.CaseClause
	for _, st := range ts.Body.List {
		cc := st.(*ast.CaseClause)
		if cc.List == nil {
			def = cc
			continue
		}
		for _, e := range cc.List {
			t := info.TypeOf(e)
			if n := namedOf(t); n != nil {
				out[n.Obj()] = cc
			}
		}
	}
	return out, def
}

// returnsNonNilError reports whether the statement list ends in a return
// whose last result is syntactically not nil, or in a panic.
func endsInErrorReturn(info *types.Info, list []ast.Stmt) bool {
	if len(list) == 0 {
		return false
	}
	switch last := list[len(list)-1].(type) {
	case *ast.ReturnStmt:
		if len(last.Results) == 0 {
			return false
		}
		res := ast.Unparen(last.Results[len(last.Results)-1])
		if id, ok := res.(*ast.Ident); ok && id.Name == "nil" {
			if _, isNil := info.Uses[id].(*types.Nil); isNil {
				return false
			}
		}
		// the result must have error type
		if t := info.TypeOf(res); t != nil {
			if isErrorType(t) {
				return true
			}
		}
		return false
	case *ast.ExprStmt:
		if call, ok := last.X.(*ast.CallExpr); ok && isBuiltinCall(info, call, "panic") {
			return true
		}
	}
	return false
}

func isErrorType(t types.Type) bool {
	if t == nil {
		return false
	}
	errIface := types.Universe.Lookup("error").Type().Underlying().(*types.Interface)
	return types.Implements(t, errIface) || types.Identical(t, types.Universe.Lookup("error").Type())
}

// nodeDispatcher returns the function that holds the type switch over parser.Node with the most cases: fn itself, or —
// when the dispatch was moved out of it (eval → checkpoint + evalNode) — a function of the same package that fn calls
// directly with a Node argument.
func nodeDispatcher(pkg *packages.Package, fn *FuncDecl, iface *types.Interface) (*FuncDecl, *ast.TypeSwitchStmt) {
	if fn == nil || fn.Decl.Body == nil {
		return fn, nil
	}
	info := pkg.TypesInfo
	best := func(body ast.Node) *ast.TypeSwitchStmt {
		var ts *ast.TypeSwitchStmt
		for _, cand := range typeSwitches(info, body, func(subj ast.Expr) bool {
			t := info.TypeOf(subj)
			return t != nil && types.Identical(t.Underlying(), iface)
		}) {
			if ts == nil || len(cand.Body.List) > len(ts.Body.List) {
				ts = cand
			}
		}
		return ts
	}
	if ts := best(fn.Decl.Body); ts != nil {
		return fn, ts
	}
	var outFn *FuncDecl
	var outTS *ast.TypeSwitchStmt
	ast.Inspect(fn.Decl.Body, func(n ast.Node) bool {
		call, ok := n.(*ast.CallExpr)
		if !ok {
			return true
		}
		cf := calleeFunc(info, call)
		if cf == nil || cf.Pkg() != pkg.Types {
			return true
		}
		for _, d2 := range Funcs(pkg) {
			if d2.Obj == cf && d2.Decl.Body != nil {
				if ts := best(d2.Decl.Body); ts != nil && (outTS == nil || len(ts.Body.List) > len(outTS.Body.List)) {
					outFn, outTS = d2, ts
				}
			}
		}
		return true
	})
	if outFn != nil {
		return outFn, outTS
	}
	return fn, nil
}
