package check

import (
	"fmt"
	"os"
	"sort"

	"golang.org/x/tools/go/ssa"
)

// R-BLINDADV: the parser never steps over a token it has not looked at.
//
// Every call of an advance primitive skips the current token. On every path to such a call the token being skipped
// has been examined since the previous advance: the function (or a non-advancing helper such as assertToken, isAtEOL)
// read p.cur, or read p.peek before the previous advance, or the caller had looked at it (entry credit, the minimum
// over all call sites). A token skipped blind is source text that is accepted whatever it says — `func f a=num` was
// formatted as `a:num` — and the formatter then rewrites or deletes it.

var ruleBlindAdv = &Rule{
	ID: "R-BLINDADV",
	Doc: "on every path to a call of advance/advanceWSS the token that is skipped has been examined since the previous advance (a read of p.cur, of p.peek one token " +
		"earlier, an assertToken, or by the caller): no token is accepted unseen",
	Floor: 40,
	Run:   runBlindAdv,
}

// blindAdvExempt: reviewed single constructs.
var blindAdvExempt = map[string]string{
	"pkg/parser.(*parser).parseEmptyStmt#advance[3]": "the token after a COMMENT: the lexer ends a comment only at a newline or at the end of the input (readComment reads while r != 0 && r != '\\n'), " +
		"so the skipped token is NL, or EOF where advancing is a no-op; after an illegal NUL inside a comment an error is already recorded",
}

func runBlindAdv(c *Ctx, r *Reporter) {
	a := newProgAnalysis(c, r)
	if a == nil {
		return
	}
	p := a.p
	pkg := p.Pkg("pkg/parser")
	var fns []*ssa.Function
	for _, fn := range a.fns {
		top := fn
		for top.Parent() != nil {
			top = top.Parent()
		}
		if top.Pkg != nil && top.Pkg.Pkg == pkg.Types {
			fns = append(fns, fn)
		}
	}
	// primitives that skip exactly the current token
	skip := map[*ssa.Function]bool{}
	var pastNL *ssa.Function
	for _, fn := range fns {
		switch fn.Name() {
		case "advanceWSS", "advance":
			if a.prim[fn] || a.mayAdv[fn] && !a.noprog[fn] {
				skip[fn] = true
			}
		case "advancePastNL":
			pastNL = fn
		}
	}
	if len(skip) == 0 {
		r.Undecided("advance primitives not found")
		return
	}
	readsField := func(ins ssa.Instruction, field string) bool {
		fa, ok := ins.(*ssa.FieldAddr)
		if !ok {
			return false
		}
		named, f := fieldAddrInfo(fa)
		return named != nil && named.Obj().Name() == "parser" && f == field
	}
	// non-advancing helpers that read cur / peek (transitively)
	readsCur, readsPeek := map[*ssa.Function]bool{}, map[*ssa.Function]bool{}
	for _, fn := range fns {
		for _, b := range fn.Blocks {
			for _, ins := range b.Instrs {
				if readsField(ins, "cur") {
					readsCur[fn] = true
				}
				if readsField(ins, "peek") {
					readsPeek[fn] = true
				}
			}
		}
	}
	for changed := true; changed; {
		changed = false
		for _, fn := range fns {
			for _, b := range fn.Blocks {
				for _, ins := range b.Instrs {
					if ci, ok := ins.(ssa.CallInstruction); ok {
						if sc := ci.Common().StaticCallee(); sc != nil && !a.mayAdv[sc] {
							if readsCur[sc] && !readsCur[fn] {
								readsCur[fn], changed = true, true
							}
							if readsPeek[sc] && !readsPeek[fn] {
								readsPeek[fn], changed = true, true
							}
						}
					}
				}
			}
		}
	}
	entry := map[*ssa.Function]int{}
	for _, fn := range fns {
		entry[fn] = 2
	}
	// roots: functions without in-package callers start with no knowledge
	called := map[*ssa.Function]bool{}
	for _, fn := range fns {
		for _, b := range fn.Blocks {
			for _, ins := range b.Instrs {
				if ci, ok := ins.(ssa.CallInstruction); ok {
					if sc := ci.Common().StaticCallee(); sc != nil {
						called[sc] = true
					}
				}
			}
		}
	}
	for _, fn := range fns {
		if !called[fn] {
			entry[fn] = 0
		}
	}
	type site struct {
		fn    *ssa.Function
		call  *ssa.Call
		state int
	}
	var sites []site
	analyse := func(fn *ssa.Function, record bool) map[*ssa.Function]int {
		callCredit := map[*ssa.Function]int{}
		if len(fn.Blocks) == 0 {
			return callCredit
		}
		type edgeKey struct{ from, to *ssa.BasicBlock }
		edge := map[edgeKey]int{}
		const top = 3
		// transfer runs the instructions of b from state st; rec: record sites and call credits
		transfer := func(b *ssa.BasicBlock, st int, rec bool) int {
			for _, ins := range b.Instrs {
				if readsField(ins, "cur") && st < 1 {
					st = 1
				}
				if readsField(ins, "peek") && st < 2 {
					st = 2
				}
				call, ok := ins.(*ssa.Call)
				if !ok {
					continue
				}
				sc := call.Call.StaticCallee()
				if sc == nil || !a.inScope[sc] {
					continue
				}
				switch {
				case skip[sc]:
					if rec && record {
						sites = append(sites, site{fn, call, st})
					}
					if st > 0 {
						st--
					}
				case sc == pastNL:
					st = 0
				case a.mayAdv[sc]:
					if rec {
						if cur, ok := callCredit[sc]; !ok || st < cur {
							callCredit[sc] = st
						}
					}
					st = 0
				default:
					if rec {
						if cur, ok := callCredit[sc]; !ok || st < cur {
							callCredit[sc] = st
						}
					}
					if readsCur[sc] && st < 1 {
						st = 1
					}
					if readsPeek[sc] && st < 2 {
						st = 2
					}
				}
			}
			return st
		}
		inState := func(b *ssa.BasicBlock, keep func(pred *ssa.BasicBlock, i int) bool) int {
			if b == fn.Blocks[0] {
				return entry[fn]
			}
			st := top
			for i, pr := range b.Preds {
				if keep != nil && !keep(pr, i) {
					continue
				}
				if e, ok := edge[edgeKey{pr, b}]; ok && e < st {
					st = e
				}
			}
			return st
		}
		// iterate to a fixpoint over edge states (states only decrease)
		for round := 0; round < 50; round++ {
			changed := false
			for _, b := range fn.Blocks {
				st := inState(b, nil)
				if st == top {
					continue
				}
				outAll := transfer(b, st, false)
				for si, s := range b.Succs {
					out := outAll
					// `case a && b:` is lowered to a phi of (false, b): the true edge is reached only through the predecessors whose phi operand is not the constant false (and vice versa)
					if ifi, ok := b.Instrs[len(b.Instrs)-1].(*ssa.If); ok {
						if phi, ok := ifi.Cond.(*ssa.Phi); ok && phi.Block() == b {
							f := inState(b, func(pr *ssa.BasicBlock, i int) bool {
								if i >= len(phi.Edges) {
									return true
								}
								k, isConst := phi.Edges[i].(*ssa.Const)
								if !isConst || k.Value == nil {
									return true
								}
								isTrue := k.Value.ExactString() == "true"
								return isTrue == (si == 0)
							})
							if f != top {
								out = transfer(b, f, false)
							} else {
								continue // edge not reachable with this phi value
							}
						}
					}
					k := edgeKey{b, s}
					if old, ok := edge[k]; !ok || out < old {
						edge[k] = out
						changed = true
					}
				}
			}
			if !changed {
				break
			}
		}
		// final pass: record sites and call credits with the converged in-states
		for _, b := range fn.Blocks {
			st := inState(b, nil)
			if st == top {
				continue
			}
			transfer(b, st, true)
		}
		return callCredit
	}
	for iter := 0; iter < 30; iter++ {
		changed := false
		for _, fn := range fns {
			for callee, credit := range analyse(fn, false) {
				if credit < entry[callee] {
					entry[callee] = credit
					changed = true
				}
			}
		}
		if !changed {
			break
		}
	}
	if os.Getenv("EVYCHECK_BLIND_DEBUG") != "" {
		for _, fn := range fns {
			fmt.Fprintf(os.Stderr, "blind: entry %-50s %d\n", ssaQName(fn), entry[fn])
		}
	}
	for _, fn := range fns {
		analyse(fn, true)
	}
	sort.Slice(sites, func(i, j int) bool {
		if sites[i].fn != sites[j].fn {
			return ssaQName(sites[i].fn) < ssaQName(sites[j].fn)
		}
		return sites[i].call.Pos() < sites[j].call.Pos()
	})
	count := map[*ssa.Function]int{}
	for _, s := range sites {
		if skip[s.fn] {
			continue // advance calling advanceWSS
		}
		count[s.fn]++
		construct := fmt.Sprintf("%s#advance[%d]", ssaQName(s.fn), count[s.fn])
		if why, ok := blindAdvExempt[construct]; ok && s.state == 0 {
			r.Exempt(construct, p.Rel(instrPos(s.call)), why)
			continue
		}
		r.Check(s.state > 0, construct, p.Rel(instrPos(s.call)), "the skipped token was examined before",
			"a path reaches this advance without the current token having been looked at since the previous advance (no read of p.cur, no assertToken, no earlier look at p.peek, and not by every caller): "+
				"whatever stands there is accepted and dropped, so the formatter rewrites or deletes source text")
	}
}
