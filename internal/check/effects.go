package check

import (
	"go/types"
	"strconv"
	"strings"

	"golang.org/x/tools/go/callgraph"
	"golang.org/x/tools/go/callgraph/cha"
	"golang.org/x/tools/go/ssa"
)

func unquote(s string) (string, error) { return strconv.Unquote(s) }

// CallGraph returns (and caches) the CHA call graph of the default program.
func (c *Ctx) CallGraph(p *Program) *callgraph.Graph {
	key := "cha:" + p.Name
	if g, ok := c.cache[key]; ok {
		return g.(*callgraph.Graph)
	}
	g := cha.CallGraph(p.SSA)
	c.cache[key] = g
	return g
}

// pureExternal lists packages of the standard library whose functions have no
// observable, order-dependent effect (they compute values from arguments).
var pureExternalPkgs = map[string]bool{
	"strings": true, "strconv": true, "math": true, "sort": true, "slices": true, "maps": true,
	"unicode": true, "unicode/utf8": true, "errors": true, "bytes": true, "path/filepath": true,
	"regexp": true, "cmp": true, "path": true, "math/bits": true, "reflect": true, "encoding/base64": true,
	"encoding/binary": true, "unsafe": true, "sync": true, "sync/atomic": true, "runtime": true, "internal/abi": true,
	"time": true, // time.Duration arithmetic; time.Now is handled by R-TIMESOURCE
}

var pureFmt = map[string]bool{"Sprintf": true, "Sprint": true, "Sprintln": true, "Errorf": true, "Sscanf": true, "Sscan": true}

// externalIsSink classifies a function outside the analysed module.
func externalIsSink(fn *ssa.Function) (bool, string) {
	pkg := ""
	if fn.Pkg != nil {
		pkg = fn.Pkg.Pkg.Path()
	} else if obj := fn.Object(); obj != nil && obj.Pkg() != nil {
		pkg = obj.Pkg().Path()
	}
	if pkg == "fmt" {
		if pureFmt[fn.Name()] {
			return false, ""
		}
		// methods of fmt internals reached through Sprintf are not visited (we stop at the boundary).
		return true, "fmt." + fn.Name() + " writes output"
	}
	if pureExternalPkgs[pkg] {
		return false, ""
	}
	if pkg == "" {
		return false, "" // synthetic wrappers without package; their callees are visited
	}
	return true, "call into " + pkg + "." + fn.Name()
}

// sinkInfo holds, per function of the analysed module, why it is an order
// sink ("" when it is not).
type sinkInfo struct {
	why map[*ssa.Function]string
}

// designated order sinks of this repository, by (package, display name).
var designatedSinks = []struct{ pkg, name, why string }{
	{"pkg/parser", "(*parser).appendErrorForToken", "appends to the parser's error list"},
	{"pkg/evaluator", "(*Evaluator).eval", "evaluates an Evy node (arbitrary side effects)"},
}

// sinkInterfaces: an invoke on a method of these interfaces is an observable effect.
var sinkInterfaces = []struct{ pkg, name string }{
	{ModulePath + "/pkg/evaluator", "Platform"},
	{ModulePath + "/pkg/evaluator", "GraphicsPlatform"},
	{ModulePath + "/pkg/evaluator", "Yielder"},
	{"io", "Writer"},
	{"io", "StringWriter"},
}

func inModule(fn *ssa.Function) bool {
	top := fn
	for top.Parent() != nil {
		top = top.Parent()
	}
	if top.Pkg == nil {
		// method wrappers / bound methods: attribute by object package
		if obj := top.Object(); obj != nil && obj.Pkg() != nil {
			return strings.HasPrefix(obj.Pkg().Path(), ModulePath)
		}
		return false
	}
	return strings.HasPrefix(top.Pkg.Pkg.Path(), ModulePath)
}

// localSink inspects fn's own instructions.
func localSink(fn *ssa.Function) string {
	for _, b := range fn.Blocks {
		for _, ins := range b.Instrs {
			switch x := ins.(type) {
			case *ssa.Go:
				return "starts a goroutine"
			case *ssa.Send:
				return "channel send"
			case ssa.CallInstruction:
				com := x.Common()
				if com.IsInvoke() {
					recv := com.Value.Type()
					for _, si := range sinkInterfaces {
						if isNamed(recv, si.pkg, si.name) {
							return "calls " + si.name + "." + com.Method.Name()
						}
					}
					// embedded: GraphicsPlatform embedded in Platform; method sets of Platform include it
				}
				if bi, ok := com.Value.(*ssa.Builtin); ok && (bi.Name() == "print" || bi.Name() == "println") {
					return "print builtin"
				}
			case *ssa.Store:
				if nonLocalAddr(x.Addr) && growsFromOld(x.Val) {
					return "appends/concatenates into non-local state (" + x.Addr.String() + ")"
				}
			}
		}
	}
	return ""
}

// nonLocalAddr reports whether addr may denote memory that outlives the function.
func nonLocalAddr(addr ssa.Value) bool {
	switch a := addr.(type) {
	case *ssa.Alloc:
		return a.Heap && escapesViaReturnOrStore(a)
	case *ssa.FieldAddr:
		return nonLocalAddr(a.X) || isPointerParamLike(a.X)
	case *ssa.IndexAddr:
		return true
	case *ssa.Global:
		return true
	case *ssa.Parameter, *ssa.FreeVar:
		return true
	case *ssa.UnOp: // load of a pointer
		return true
	case *ssa.Phi, *ssa.Call, *ssa.Extract, *ssa.Lookup, *ssa.TypeAssert, *ssa.MakeInterface:
		return true
	}
	return true
}

func isPointerParamLike(v ssa.Value) bool {
	switch v.(type) {
	case *ssa.Parameter, *ssa.FreeVar, *ssa.UnOp, *ssa.Call, *ssa.Extract, *ssa.Phi, *ssa.TypeAssert:
		return true
	}
	return false
}

// escapesViaReturnOrStore: a heap Alloc of a local variable captured by a
// closure or whose address is stored/returned. Conservative: heap allocs of
// locals are only "non-local" when captured by a closure (MakeClosure binding).
func escapesViaReturnOrStore(a *ssa.Alloc) bool {
	refs := a.Referrers()
	if refs == nil {
		return false
	}
	for _, r := range *refs {
		switch r.(type) {
		case *ssa.MakeClosure:
			return true
		}
	}
	return false
}

// growsFromOld: value is append(...) or a string concatenation.
func growsFromOld(v ssa.Value) bool {
	switch x := v.(type) {
	case *ssa.Call:
		if bi, ok := x.Call.Value.(*ssa.Builtin); ok && bi.Name() == "append" {
			return true
		}
	case *ssa.BinOp:
		if b, ok := x.Type().Underlying().(*types.Basic); ok && b.Info()&types.IsString != 0 {
			return true
		}
	}
	return false
}

// Sinks computes which functions of the analysed module may (transitively)
// reach an order-dependent observable effect.
func (c *Ctx) Sinks(p *Program) *sinkInfo {
	key := "sinks:" + p.Name
	if s, ok := c.cache[key]; ok {
		return s.(*sinkInfo)
	}
	g := c.CallGraph(p)
	info := &sinkInfo{why: map[*ssa.Function]string{}}
	// seeds
	for fn, node := range g.Nodes {
		if fn == nil || node == nil {
			continue
		}
		if !inModule(fn) {
			continue
		}
		if why := localSink(fn); why != "" {
			info.why[fn] = why
		}
	}
	for _, d := range designatedSinks {
		pkg := p.Pkg(d.pkg)
		fd := FindFunc(pkg, d.name)
		if fd == nil {
			info.why[nil] = "designated sink " + d.pkg + "." + d.name + " not found"
			continue
		}
		if sf := p.SSAFunc(fd.Obj); sf != nil {
			info.why[sf] = d.why
		}
	}
	// external callees: sink by classification
	for fn, node := range g.Nodes {
		if fn == nil || !inModule(fn) {
			continue
		}
		if _, done := info.why[fn]; done {
			continue
		}
		for _, e := range node.Out {
			callee := e.Callee.Func
			if callee == nil || inModule(callee) {
				continue
			}
			if e.Site != nil && e.Site.Common().IsInvoke() {
				// invoke resolved by CHA to an external implementation (e.g. error.Error): ignore unless sink interface (handled in localSink)
				continue
			}
			if e.Site != nil && e.Site.Common().StaticCallee() == nil {
				// dynamic call of a func value resolved by signature only: external targets are ignored
				continue
			}
			if sink, why := externalIsSink(callee); sink {
				info.why[fn] = why
				break
			}
		}
	}
	// propagate backwards
	changed := true
	for changed {
		changed = false
		for fn, node := range g.Nodes {
			if fn == nil || !inModule(fn) {
				continue
			}
			if _, done := info.why[fn]; done {
				continue
			}
			for _, e := range node.Out {
				callee := e.Callee.Func
				if callee == nil || !inModule(callee) {
					continue
				}
				if e.Site != nil && !e.Site.Common().IsInvoke() && e.Site.Common().StaticCallee() == nil {
					// dynamic call through a func value: CHA matches by signature only.
					// Treat as sink only if some in-module target is a sink (kept: conservative).
				}
				if w, ok := info.why[callee]; ok {
					info.why[fn] = "calls " + ssaQName(callee) + " → " + w
					changed = true
					break
				}
			}
		}
	}
	c.cache[key] = info
	return info
}

// Why returns the reason fn is an order sink, or "".
func (s *sinkInfo) Why(fn *ssa.Function) string {
	if fn == nil {
		return ""
	}
	return s.why[fn]
}
