package check

import (
	"fmt"
	"go/ast"
	"go/constant"
	"go/token"
	"go/types"
	"os"
	"path/filepath"
	"regexp"
	"sort"
	"strings"

	"golang.org/x/tools/go/packages"
	"golang.org/x/tools/go/ssa"
)

// specSection returns the lines of docs/spec.md between the heading `## <title>` and the next `## ` heading.
func specSection(repo, title string) ([]string, error) {
	b, err := os.ReadFile(filepath.Join(repo, "docs", "spec.md"))
	if err != nil {
		return nil, err
	}
	var out []string
	in := false
	for _, line := range strings.Split(string(b), "\n") {
		if strings.HasPrefix(line, "## ") {
			if in {
				break
			}
			in = strings.TrimSpace(strings.TrimPrefix(line, "## ")) == title
			continue
		}
		if in {
			out = append(out, line)
		}
	}
	if len(out) == 0 {
		return nil, fmt.Errorf("docs/spec.md: section %q not found", title)
	}
	return out, nil
}

var backquoted = regexp.MustCompile("`([^`]+)`")

// tokenSymbols: lexer.TokenType constant -> printed symbol, from the tokenStrings table.
func tokenSymbols(lexPkg *packages.Package) map[*types.Const]string {
	out := map[*types.Const]string{}
	init := pkgVarInit(lexPkg, "tokenStrings")
	for _, e := range mapLitEntries(init) {
		k := constOf(lexPkg.TypesInfo, e.Key)
		cl, ok := e.Value.(*ast.CompositeLit)
		if k == nil || !ok {
			continue
		}
		for _, el := range cl.Elts {
			if kvp, ok := el.(*ast.KeyValueExpr); ok {
				if id, ok := kvp.Key.(*ast.Ident); ok && id.Name == "format" {
					if s, ok := constString(lexPkg.TypesInfo, kvp.Value); ok {
						out[k] = s
					}
				}
			}
		}
	}
	return out
}

// operatorSymbols: parser.Operator constant -> symbol, from operatorStrings.
func operatorSymbols(parserPkg *packages.Package) map[*types.Const]string {
	out := map[*types.Const]string{}
	for _, e := range mapLitEntries(pkgVarInit(parserPkg, "operatorStrings")) {
		k := constOf(parserPkg.TypesInfo, e.Key)
		if k == nil {
			continue
		}
		if s, ok := constString(parserPkg.TypesInfo, e.Value); ok {
			out[k] = s
		}
	}
	return out
}

// ---------------------------------------------------------------------------
// R-PREC

var rulePrec = &Rule{
	ID:    "R-PREC",
	Doc:   "the Pratt binding-power table agrees with the numbered precedence list of docs/spec.md: same level ⇒ equal power, higher level ⇒ strictly greater; every token accepted as a binary operator has an entry; index/dot bind tighter than unary, unary tighter than every binary operator; operators of equal power associate to the left (strict `<` in the Pratt loop)",
	Floor: 20,
	Run:   runPrec,
}

func runPrec(c *Ctx, r *Reporter) {
	p, pkg := parserPkg(c, r)
	if pkg == nil {
		return
	}
	lexPkg := p.Pkg("pkg/lexer")
	if lexPkg == nil {
		r.Undecided("pkg/lexer not loaded")
		return
	}
	lines, err := specSection(c.Repo, "Precedence")
	if err != nil {
		r.Undecided("%v", err)
		return
	}
	// binary sub-levels: lines of the nested numbered list
	sub := regexp.MustCompile(`^\s{2,}(\d+)\.\s`)
	type level struct {
		n    int
		syms []string
	}
	var levels []level
	for _, l := range lines {
		m := sub.FindStringSubmatch(l)
		if m == nil {
			continue
		}
		var syms []string
		for _, q := range backquoted.FindAllStringSubmatch(l, -1) {
			syms = append(syms, q[1])
		}
		n := 0
		fmt.Sscanf(m[1], "%d", &n)
		levels = append(levels, level{n, syms})
	}
	if len(levels) < 4 {
		r.Undecided("docs/spec.md: expected a nested numbered list of binary operator levels under ## Precedence, found %d levels", len(levels))
		return
	}
	symOf := tokenSymbols(lexPkg)
	tokOfSym := map[string]*types.Const{}
	for k, s := range symOf {
		if s != "" {
			tokOfSym[s] = k
		}
	}
	prec, precName, isPrecSource, precPos, perr := precTable(p, pkg, lexPkg)
	if perr != "" {
		r.Undecided("%s", perr)
		return
	}
	pos := p.Rel(precPos)
	specSyms := map[string]bool{}
	var maxBinary int64 = -1
	for i, lv := range levels {
		var want int64 = -1
		for _, s := range lv.syms {
			specSyms[s] = true
			construct := "precedence:" + s
			tok := tokOfSym[s]
			if tok == nil {
				r.Viol(construct, pos, "operator "+s+" of the specification's precedence list is not a lexer token")
				continue
			}
			v, ok := prec[tok]
			if !ok {
				r.Viol(construct, pos, "operator "+s+" ("+tok.Name()+") has no binding power in the Pratt table: it would never be parsed as a binary operator")
				continue
			}
			if v > maxBinary {
				maxBinary = v
			}
			okv := true
			why := ""
			if want == -1 {
				want = v
			} else if v != want {
				okv = false
				why = fmt.Sprintf("operators of specification level 3.%d must share one binding power, %s has %s", lv.n, s, precName[tok])
			}
			// strictly greater than every operator of later (lower) levels
			for _, lower := range levels[i+1:] {
				for _, s2 := range lower.syms {
					if t2 := tokOfSym[s2]; t2 != nil {
						if v2, ok := prec[t2]; ok && !(v > v2) {
							okv = false
							why = fmt.Sprintf("%s (level 3.%d, %s) must bind tighter than %s (level 3.%d, %s)", s, lv.n, precName[tok], s2, lower.n, precName[t2])
						}
					}
				}
			}
			r.Check(okv, construct, pos, fmt.Sprintf("level 3.%d ↔ %s", lv.n, precName[tok]), why)
		}
	}
	// every token accepted by isBinaryOp/isComparisonOp has an entry and appears in the spec list
	for _, fname := range []string{"isBinaryOp", "isComparisonOp"} {
		fd := FindFunc(pkg, fname)
		if fd == nil {
			r.Undecided("%s not found", fname)
			continue
		}
		ast.Inspect(fd.Decl.Body, func(n ast.Node) bool {
			be, ok := n.(*ast.BinaryExpr)
			if !ok || be.Op != token.EQL {
				return true
			}
			k := constOf(pkg.TypesInfo, be.Y)
			if k == nil {
				return true
			}
			_, has := prec[k]
			inSpec := specSyms[symOf[k]]
			r.Check(has && inSpec, "binary-op-token:"+k.Name(), p.Rel(be.Pos()), "has a binding power and a place in the specification's list",
				"token "+k.Name()+" is accepted as a binary operator but has no binding power / no level in the specification")
			return true
		})
	}
	// unary and index
	constVal := func(name string) (int64, bool) {
		obj, ok := pkg.Types.Scope().Lookup(name).(*types.Const)
		if !ok {
			return 0, false
		}
		return constant.Int64Val(obj.Val())
	}
	unary, ok1 := constVal("unaryPrec")
	index, ok2 := constVal("indexPrec")
	if !ok1 || !ok2 {
		r.Undecided("unaryPrec/indexPrec constants not found")
		return
	}
	r.Check(unary > maxBinary, "precedence:unary", pos, "unary operators bind tighter than every binary operator", "unaryPrec must exceed every binary operator's binding power")
	r.Check(index > unary, "precedence:index", pos, "indexing and dot bind tighter than unary operators", "indexPrec must exceed unaryPrec")
	for _, sym := range []string{"[", "."} {
		tok := tokOfSym[sym]
		v, ok := prec[tok]
		r.Check(tok != nil && ok && v == index, "precedence:"+sym, pos, "binds with indexPrec", "token "+sym+" must have binding power indexPrec")
	}
	// parseUnaryExpr parses its operand with unaryPrec; Pratt loop uses strict <
	if fd := FindFunc(pkg, "(*parser).parseUnaryExpr"); fd != nil {
		okU := false
		ast.Inspect(fd.Decl.Body, func(n ast.Node) bool {
			if call, ok := n.(*ast.CallExpr); ok {
				if callee := calleeFunc(pkg.TypesInfo, call); callee != nil && callee.Name() == "parseExpr" && len(call.Args) == 1 {
					if v, ok := constInt(pkg.TypesInfo, call.Args[0]); ok && v == unary {
						okU = true
					}
				}
			}
			return true
		})
		r.Check(okU, fd.QName()+"#operand-power", p.Rel(fd.Decl.Pos()), "the operand of a unary operator is parsed with unaryPrec", "parseUnaryExpr must parse its operand with parseExpr(unaryPrec)")
	} else {
		r.Undecided("parseUnaryExpr not found")
	}
	if fd := FindFunc(pkg, "(*parser).parseExpr"); fd != nil {
		sf := p.SSAFunc(fd.Obj)
		found, strict := false, false
		for _, b := range sf.Blocks {
			for _, ins := range b.Instrs {
				bo, ok := ins.(*ssa.BinOp)
				if !ok || (bo.Op != token.LSS && bo.Op != token.LEQ && bo.Op != token.GTR && bo.Op != token.GEQ) {
					continue
				}
				_, isParam := bo.X.(*ssa.Parameter)
				if isParam && isPrecSource(bo.Y) {
					found = true
					strict = bo.Op == token.LSS
				}
			}
		}
		r.Check(found && strict, fd.QName()+"#left-assoc", p.Rel(fd.Decl.Pos()), "the Pratt loop continues only for strictly greater binding power: equal operators associate to the left", "the Pratt loop must compare `prec < precedences[cur]` strictly; otherwise operators of equal precedence associate to the right")
	} else {
		r.Undecided("parseExpr not found")
	}
	if fd := FindFunc(pkg, "(*parser).parseBinaryExpr"); fd != nil {
		// the right operand is parsed with the operator's own binding power
		sf := p.SSAFunc(fd.Obj)
		okB := false
		for _, b := range sf.Blocks {
			for _, ins := range b.Instrs {
				if call, ok := ins.(*ssa.Call); ok && call.Call.StaticCallee() != nil && call.Call.StaticCallee().Name() == "parseExpr" {
					if isPrecSource(call.Call.Args[1]) {
						okB = true
					}
				}
			}
		}
		r.Check(okB, fd.QName()+"#right-power", p.Rel(fd.Decl.Pos()), "the right operand is parsed with the operator's own binding power", "parseBinaryExpr must parse the right operand with precedences[operator]")
	}
}

// precTable finds the source of binding powers that the Pratt loop of parseExpr consults — a package-level map
// indexed by the token type, or a function of the token type whose switch returns constants — and tabulates it.
func precTable(p *Program, pkg, lexPkg *packages.Package) (map[*types.Const]int64, map[*types.Const]string, func(ssa.Value) bool, token.Pos, string) {
	fd := FindFunc(pkg, "(*parser).parseExpr")
	if fd == nil {
		return nil, nil, nil, token.NoPos, "parseExpr not found"
	}
	sf := p.SSAFunc(fd.Obj)
	var global *ssa.Global
	var fn *ssa.Function
	for _, b := range sf.Blocks {
		for _, ins := range b.Instrs {
			bo, ok := ins.(*ssa.BinOp)
			if !ok || (bo.Op != token.LSS && bo.Op != token.LEQ && bo.Op != token.GTR && bo.Op != token.GEQ) {
				continue
			}
			if _, isParam := bo.X.(*ssa.Parameter); !isParam {
				continue
			}
			switch y := bo.Y.(type) {
			case *ssa.Lookup:
				if u, ok := y.X.(*ssa.UnOp); ok {
					if g, ok := u.X.(*ssa.Global); ok {
						global = g
					}
				}
			case *ssa.Call:
				if sc := y.Call.StaticCallee(); sc != nil && sc.Pkg != nil && sc.Pkg.Pkg == pkg.Types && len(sc.Params) == 1 {
					fn = sc
				}
			}
		}
	}
	prec := map[*types.Const]int64{}
	precName := map[*types.Const]string{}
	constName := func(v int64) string {
		for _, k := range constsOfType(pkg.Types, "precedence") {
			if n, ok := constant.Int64Val(k.Val()); ok && n == v {
				return k.Name()
			}
		}
		return fmt.Sprint(v)
	}
	switch {
	case global != nil:
		init := pkgVarInit(pkg, global.Name())
		if init == nil {
			return nil, nil, nil, token.NoPos, "initialiser of " + global.Name() + " not found"
		}
		for _, e := range mapLitEntries(init) {
			k := constOf(pkg.TypesInfo, e.Key)
			v, ok := constInt(pkg.TypesInfo, e.Value)
			if k == nil || !ok {
				return nil, nil, nil, token.NoPos, "binding-power table: non-constant entry " + types.ExprString(e.Key)
			}
			prec[k] = v
			precName[k] = types.ExprString(e.Value)
		}
		is := func(v ssa.Value) bool {
			lk, ok := v.(*ssa.Lookup)
			if !ok {
				return false
			}
			u, ok := lk.X.(*ssa.UnOp)
			return ok && u.X == ssa.Value(global)
		}
		return prec, precName, is, init.Pos(), ""
	case fn != nil:
		tokByVal := map[int64]*types.Const{}
		for _, k := range constsOfType(lexPkg.Types, "TokenType") {
			if n, ok := constant.Int64Val(k.Val()); ok {
				tokByVal[n] = k
			}
		}
		cases := constCases(fn, func(v ssa.Value) bool { return v == ssa.Value(fn.Params[0]) })
		for n, head := range cases {
			tok := tokByVal[n]
			if tok == nil {
				continue
			}
			var vals []int64
			for _, b := range regionOf(head) {
				if len(b.Instrs) == 0 {
					continue
				}
				if ret, ok := b.Instrs[len(b.Instrs)-1].(*ssa.Return); ok && len(ret.Results) == 1 {
					k, ok := ret.Results[0].(*ssa.Const)
					if !ok || k.Value == nil {
						return nil, nil, nil, token.NoPos, "binding-power function " + fn.Name() + " returns a computed value for " + tok.Name()
					}
					v, _ := constant.Int64Val(k.Value)
					vals = append(vals, v)
				}
			}
			if len(vals) != 1 {
				return nil, nil, nil, token.NoPos, fmt.Sprintf("binding-power function %s: %d returns in the case of %s", fn.Name(), len(vals), tok.Name())
			}
			if vals[0] > 0 { // the lowest power means: does not continue an expression
				prec[tok] = vals[0]
				precName[tok] = constName(vals[0])
			}
		}
		if len(prec) == 0 {
			return nil, nil, nil, token.NoPos, "binding-power function " + fn.Name() + ": no constant case recognised"
		}
		is := func(v ssa.Value) bool {
			call, ok := v.(*ssa.Call)
			return ok && call.Call.StaticCallee() == fn
		}
		return prec, precName, is, fn.Pos(), ""
	}
	return nil, nil, nil, token.NoPos, "parseExpr: the Pratt loop's comparison `prec < <binding power of the current token>` was not recognised"
}

// ---------------------------------------------------------------------------
// R-DISPATCH

var ruleDispatch = &Rule{
	ID:    "R-DISPATCH",
	Doc:   "the (operand kind × operator) sets implemented by the evaluator equal the operator table of docs/spec.md, the sets the parser's validateBinaryType admits equal the same table, and the bytecode compiler handles the same sets or rejects the rest with an error",
	Floor: 8,
	Run:   runDispatch,
}

type opKinds map[string]map[string]bool // kind -> symbol set

func (o opKinds) add(kind, sym string) {
	if o[kind] == nil {
		o[kind] = map[string]bool{}
	}
	o[kind][sym] = true
}

func setString(m map[string]bool) string {
	var s []string
	for k := range m {
		s = append(s, k)
	}
	sort.Strings(s)
	return strings.Join(s, " ")
}

func sameSet(a, b map[string]bool) bool {
	if len(a) != len(b) {
		return false
	}
	for k := range a {
		if !b[k] {
			return false
		}
	}
	return true
}

func runDispatch(c *Ctx, r *Reporter) {
	p, pkg := parserPkg(c, r)
	if pkg == nil {
		return
	}
	evalPkg, bcPkg := p.Pkg("pkg/evaluator"), p.Pkg("pkg/bytecode")
	lines, err := specSection(c.Repo, "Operators and Expressions")
	if err != nil {
		r.Undecided("%v", err)
		return
	}
	spec := opKinds{}
	for _, l := range lines {
		if !strings.HasPrefix(l, "|") || strings.Contains(l, "---") || strings.Contains(l, "Operator ") {
			continue
		}
		cells := strings.Split(strings.Trim(l, "|"), "|")
		if len(cells) < 3 {
			continue
		}
		var syms []string
		for _, q := range backquoted.FindAllStringSubmatch(cells[0], -1) {
			syms = append(syms, q[1])
		}
		operands := strings.TrimSpace(cells[1])
		kind := ""
		switch {
		case strings.Contains(operands, "all types"):
			kind = "all"
		case strings.HasPrefix(operands, "array"):
			kind = "array"
		case strings.Contains(operands, "`num`"):
			kind = "num"
		case strings.Contains(operands, "`string`"):
			kind = "string"
		case strings.Contains(operands, "`bool`"):
			kind = "bool"
		}
		if kind == "" || len(syms) == 0 {
			continue
		}
		for _, s := range syms {
			spec.add(kind, s)
		}
	}
	if len(spec) < 5 {
		r.Undecided("docs/spec.md: operator table not recognised (%d operand kinds)", len(spec))
		return
	}
	opSym := operatorSymbols(pkg)
	symByVal := map[string]string{}
	for k, sym := range opSym {
		symByVal[k.Val().ExactString()] = sym
	}
	// opsCompared: the operator symbols an SSA function and its helpers compare an Operator-typed value with
	opsCompared := func(fd *FuncDecl) map[string]bool {
		out := map[string]bool{}
		for _, fn := range regionFns(p.SSAFunc(fd.Obj), 2, anchoredOps) {
			for _, b := range fn.Blocks {
				for _, ins := range b.Instrs {
					bo, ok := ins.(*ssa.BinOp)
					if !ok || (bo.Op != token.EQL && bo.Op != token.NEQ) {
						continue
					}
					for _, side := range []ssa.Value{bo.X, bo.Y} {
						if k, ok := side.(*ssa.Const); ok && k.Value != nil && isNamed(k.Type(), pkg.PkgPath, "Operator") {
							if sym := symByVal[k.Value.ExactString()]; sym != "" {
								out[sym] = true
							}
						}
					}
				}
			}
		}
		return out
	}
	symsOfCases := func(pk *packages.Package, fname string) (map[string]bool, *ast.SwitchStmt, *FuncDecl) {
		fd := FindFunc(pk, fname)
		if fd == nil {
			r.Undecided("%s not found", fname)
			return nil, nil, nil
		}
		sws := findSwitches(fd.Decl.Body, func(s *ast.SwitchStmt) bool {
			return s.Tag != nil && isNamed(pk.TypesInfo.TypeOf(s.Tag), pkg.PkgPath, "Operator")
		})
		if len(sws) == 0 {
			// an if-chain, or a switch in a helper: every operator constant that the function (or a helper it
			// calls) compares an Operator value with
			return opsCompared(fd), nil, fd
		}
		cases, _ := caseConsts(pk.TypesInfo, sws[0].Body)
		out := map[string]bool{}
		for k := range cases {
			out[opSym[k]] = true
		}
		return out, sws[0], fd
	}
	// evaluator
	for kind, fname := range map[string]string{"num": "evalBinaryNumExpr", "string": "evalBinaryStringExpr", "bool": "evalBinaryBoolExpr", "array": "evalBinaryArrayExpr"} {
		got, _, fd := symsOfCases(evalPkg, fname)
		if fd == nil {
			continue
		}
		r.Check(sameSet(got, spec[kind]), fd.QName()+"#operators", p.Rel(fd.Decl.Pos()), "implements exactly the specification's "+kind+" operators: "+setString(got),
			fmt.Sprintf("evaluator implements {%s} for %s operands, the specification's table says {%s}", setString(got), kind, setString(spec[kind])))
	}
	// == and != handled for all types in evalBinaryExpr
	if fd := FindFunc(evalPkg, "(*Evaluator).evalBinaryExpr"); fd != nil {
		// the operators evalBinaryExpr answers itself: the comparison's matching edge returns (a comparison that only
		// feeds the short-circuit decision — an inlined canShortCircuit — goes on to the operand-kind dispatch)
		got := map[string]bool{}
		for _, fn := range regionFns(p.SSAFunc(fd.Obj), 2, anchoredOps) {
			for _, b := range fn.Blocks {
				for _, ins := range b.Instrs {
					bo, ok := ins.(*ssa.BinOp)
					if !ok || (bo.Op != token.EQL && bo.Op != token.NEQ) || bo.Referrers() == nil {
						continue
					}
					sym := ""
					for _, side := range []ssa.Value{bo.X, bo.Y} {
						if k, ok := side.(*ssa.Const); ok && k.Value != nil && isNamed(k.Type(), pkg.PkgPath, "Operator") {
							sym = symByVal[k.Value.ExactString()]
						}
					}
					if sym == "" {
						continue
					}
					answers := false
					for _, ref := range *bo.Referrers() {
						ifi, ok := ref.(*ssa.If)
						if !ok {
							answers = true // used as a value: not followed
							continue
						}
						edge := 0
						if bo.Op == token.NEQ {
							edge = 1
						}
						t := ifi.Block().Succs[edge]
						if len(t.Instrs) > 0 {
							if _, isRet := t.Instrs[len(t.Instrs)-1].(*ssa.Return); isRet {
								answers = true
							}
						}
					}
					if answers {
						got[sym] = true
					}
				}
			}
		}
		r.Check(sameSet(got, spec["all"]), fd.QName()+"#equality", p.Rel(fd.Decl.Pos()), "== and != are handled for all operand types", fmt.Sprintf("evalBinaryExpr handles {%s} generically, the specification says {%s}", setString(got), setString(spec["all"])))
	} else {
		r.Undecided("evalBinaryExpr not found")
	}
	// unary
	evalUnary := map[string]bool{}
	if fd := FindFunc(evalPkg, "(*Evaluator).evalUnaryExpr"); fd != nil {
		for sym := range opsCompared(fd) {
			evalUnary[sym] = true
		}
		r.Check(sameSet(evalUnary, map[string]bool{"-": true, "!": true}), fd.QName()+"#operators", p.Rel(fd.Decl.Pos()), "implements the unary operators - and !", "evalUnaryExpr must implement exactly - and !, found {"+setString(evalUnary)+"}")
	}
	// parser: validateBinaryType
	if fd := FindFunc(pkg, "(*parser).validateBinaryType"); fd != nil {
		var sws []*ast.SwitchStmt
		var swScope ast.Node
		for _, fn := range regionFns(p.SSAFunc(fd.Obj), 2, dispatcherNames) {
			if obj, ok := fn.Object().(*types.Func); ok {
				for _, d2 := range Funcs(pkg) {
					if d2.Obj == obj {
						found := findSwitches(d2.Decl.Body, func(s *ast.SwitchStmt) bool {
							return s.Tag != nil && isNamed(pkg.TypesInfo.TypeOf(s.Tag), pkg.PkgPath, "Operator")
						})
						if len(sws) == 0 && len(found) > 0 {
							swScope = d2.Decl.Body
						}
						sws = append(sws, found...)
					}
				}
			}
		}
		if len(sws) == 0 {
			// an if-chain over the operator: the admitted kinds are read off the paths that end in an error report —
			// on such a path the operator is pinned by its comparisons, and every kind the left operand's type was
			// found different from is one the operator admits
			admitted := opKinds{}
			nPaths := 0
			for _, fn := range regionFns(p.SSAFunc(fd.Obj), 2, dispatcherNames) {
				for _, pa := range errorPaths(fn) {
					var ops []string
					var kinds []string
					for _, f := range pa.facts {
						bo, ok := f.Cond.(*ssa.BinOp)
						if !ok {
							continue
						}
						equal := (bo.Op == token.EQL) == f.Truth
						if k, ok := bo.Y.(*ssa.Const); ok && k.Value != nil && isNamed(k.Type(), pkg.PkgPath, "Operator") {
							if equal {
								if sym := symByVal[k.Value.ExactString()]; sym != "" {
									ops = append(ops, sym)
								}
							}
							continue
						}
						// the left operand's type: expr.Left.Type(), possibly through its Name field
						isLeftType := func(v ssa.Value) bool {
							for i := 0; i < 4; i++ {
								switch x := v.(type) {
								case *ssa.UnOp:
									v = x.X
									continue
								case *ssa.FieldAddr:
									v = x.X
									continue
								case *ssa.Call:
									if x.Call.IsInvoke() {
										return mentionsField(x.Call.Value, "Left", 6)
									}
									if len(x.Call.Args) > 0 {
										return mentionsField(x.Call.Args[0], "Left", 6)
									}
								}
								break
							}
							return mentionsField(v, "Left", 6)
						}
						if equal || !isLeftType(bo.X) {
							continue
						}
						switch y := bo.Y.(type) {
						case *ssa.UnOp:
							if g, ok := y.X.(*ssa.Global); ok {
								switch g.Name() {
								case "NUM_TYPE":
									kinds = append(kinds, "num")
								case "STRING_TYPE":
									kinds = append(kinds, "string")
								case "BOOL_TYPE":
									kinds = append(kinds, "bool")
								}
							}
						case *ssa.Const:
							if namedOf(y.Type()) != nil && namedOf(y.Type()).Obj().Name() == "TypeName" {
								for _, cn := range constsOfType(pkg.Types, "TypeName") {
									if constant.Compare(cn.Val(), token.EQL, y.Value) && cn.Name() == "ARRAY" {
										kinds = append(kinds, "array")
									}
								}
							}
						}
					}
					if len(ops) == 1 && len(kinds) > 0 {
						nPaths++
						for _, k := range kinds {
							admitted.add(k, ops[0])
						}
					}
				}
			}
			if nPaths == 0 {
				r.Undecided("validateBinaryType: neither a switch over the operator nor error paths that pin the operator were found")
			} else {
				for _, kind := range []string{"num", "string", "bool", "array"} {
					r.Check(sameSet(admitted[kind], spec[kind]), fd.QName()+"#admits:"+kind, p.Rel(fd.Decl.Pos()), "admits exactly the specification's "+kind+" operators: "+setString(admitted[kind]),
						fmt.Sprintf("the parser admits {%s} for %s operands, the specification's table says {%s}", setString(admitted[kind]), kind, setString(spec[kind])))
				}
			}
		} else {
			admitted := opKinds{}
			undec := false
			for _, st := range sws[0].Body.List {
				cc := st.(*ast.CaseClause)
				var syms []string
				for _, e := range cc.List {
					if k := constOf(pkg.TypesInfo, e); k != nil {
						syms = append(syms, opSym[k])
					}
				}
				if len(cc.Body) == 0 {
					continue
				}
				ifs, ok := cc.Body[0].(*ast.IfStmt)
				if !ok {
					undec = true
					continue
				}
				kinds, ok := admittedKinds(pkg.TypesInfo, ifs.Cond, swScope)
				if !ok {
					undec = true
					continue
				}
				for _, s := range syms {
					for _, k := range kinds {
						admitted.add(k, s)
					}
				}
			}
			if undec {
				r.Undecided("validateBinaryType: an operator case does not start with `if leftType != K1 && leftType != K2 … { error }`; the admitted operand kinds cannot be extracted")
			} else {
				for _, kind := range []string{"num", "string", "bool", "array"} {
					r.Check(sameSet(admitted[kind], spec[kind]), fd.QName()+"#admits:"+kind, p.Rel(fd.Decl.Pos()), "admits exactly the specification's "+kind+" operators: "+setString(admitted[kind]),
						fmt.Sprintf("the parser admits {%s} for %s operands, the specification's table says {%s}", setString(admitted[kind]), kind, setString(spec[kind])))
				}
			}
		}
	} else {
		r.Undecided("validateBinaryType not found")
	}
	// compiler (sibling)
	if bcPkg != nil {
		for kind, fname := range map[string]string{"num": "(*Compiler).compileNumBinaryExpression", "string": "(*Compiler).compileStringBinaryExpression"} {
			got, sw, fd := symsOfCases(bcPkg, fname)
			if fd == nil {
				continue
			}
			loud := false
			if sw != nil {
				_, def := caseConsts(bcPkg.TypesInfo, sw.Body)
				loud = def != nil && endsInErrorReturn(bcPkg.TypesInfo, def.Body)
			}
			extra := map[string]bool{}
			for s := range got {
				if !spec[kind][s] {
					extra[s] = true
				}
			}
			missing := map[string]bool{}
			for s := range spec[kind] {
				if !got[s] {
					missing[s] = true
				}
			}
			okC := len(extra) == 0 && (len(missing) == 0 || loud)
			r.Check(okC, fd.QName()+"#operators", p.Rel(fd.Decl.Pos()), "compiles the evaluator's "+kind+" operators (others are rejected with an error)",
				fmt.Sprintf("compiler handles {%s} for %s operands, evaluator/specification {%s}; unhandled operators must end in an error, extra ones must not exist", setString(got), kind, setString(spec[kind])))
		}
		got, sw, fd := symsOfCases(bcPkg, "(*Compiler).compileUnaryExpression")
		if fd != nil {
			loud := false
			if sw != nil {
				_, def := caseConsts(bcPkg.TypesInfo, sw.Body)
				loud = def != nil && endsInErrorReturn(bcPkg.TypesInfo, def.Body)
			}
			missing := 0
			for s := range evalUnary {
				if !got[s] {
					missing++
				}
			}
			r.Check(missing == 0 || loud, fd.QName()+"#operators", p.Rel(fd.Decl.Pos()), "compiles the evaluator's unary operators", fmt.Sprintf("compiler handles unary {%s}, evaluator {%s}, and the no-match path is silent", setString(got), setString(evalUnary)))
		}
	}
}

// admittedKinds extracts K1..Kn from `leftType != K1 && leftType != K2 && leftType.Name != ARRAY`.
func admittedKinds(info *types.Info, cond ast.Expr, scope ast.Node) ([]string, bool) {
	var out []string
	// local booleans defined once as a comparison (isNum := leftType == NUM_TYPE) stand for it
	defs := map[types.Object]ast.Expr{}
	assigned := map[types.Object]int{}
	if scope != nil {
		ast.Inspect(scope, func(n ast.Node) bool {
			if as, ok := n.(*ast.AssignStmt); ok && len(as.Lhs) == len(as.Rhs) {
				for i, l := range as.Lhs {
					if id, ok := l.(*ast.Ident); ok {
						if obj := info.ObjectOf(id); obj != nil {
							assigned[obj]++
							defs[obj] = as.Rhs[i]
						}
					}
				}
			}
			return true
		})
	}
	var walk func(e ast.Expr) bool
	var walkNeg func(e ast.Expr, depth int) bool
	walkNeg = func(e ast.Expr, depth int) bool { // e is negated: it must be `x == K`, or a local that stands for that
		switch x := ast.Unparen(e).(type) {
		case *ast.BinaryExpr:
			if x.Op == token.EQL {
				return walk(&ast.BinaryExpr{X: x.X, Op: token.NEQ, Y: x.Y, OpPos: x.OpPos})
			}
		case *ast.Ident:
			if obj := info.ObjectOf(x); obj != nil && assigned[obj] == 1 && depth < 3 {
				return walkNeg(defs[obj], depth+1)
			}
		}
		return false
	}
	walk = func(e ast.Expr) bool {
		if ue, ok := ast.Unparen(e).(*ast.UnaryExpr); ok && ue.Op == token.NOT {
			return walkNeg(ue.X, 0)
		}
		be, ok := ast.Unparen(e).(*ast.BinaryExpr)
		if !ok {
			return false
		}
		if be.Op == token.LAND {
			return walk(be.X) && walk(be.Y)
		}
		if be.Op != token.NEQ {
			return false
		}
		switch types.ExprString(be.Y) {
		case "NUM_TYPE":
			out = append(out, "num")
		case "STRING_TYPE":
			out = append(out, "string")
		case "BOOL_TYPE":
			out = append(out, "bool")
		case "ARRAY":
			out = append(out, "array")
		default:
			return false
		}
		// the compared object must be the interned type / type-name constant of the parser package
		switch y := ast.Unparen(be.Y).(type) {
		case *ast.Ident:
			obj := info.Uses[y]
			return obj != nil && obj.Pkg() != nil && strings.HasSuffix(obj.Pkg().Path(), "pkg/parser")
		}
		return false
	}
	if !walk(cond) {
		return nil, false
	}
	return out, true
}

// ---------------------------------------------------------------------------
// R-EVALORDER / R-SHORTCIRCUIT

var ruleEvalOrder = &Rule{
	ID:    "R-EVALORDER",
	Doc:   "operands are evaluated left to right: in the evaluator function for each node kind the evaluation of grammar field i never follows that of field i+1; expression lists are evaluated by ascending index; the right operand of and/or is evaluated only on the edge where the short-circuit decision (canShortCircuit, or the same computed in place) is false, and that decision is ¬left for and, left for or, false otherwise; a conditional block evaluates its condition before its block and the block only on the true edge",
	Floor: 10,
	Run:   runEvalOrder,
}

func runEvalOrder(c *Ctx, r *Reporter) {
	ei := c.evalInfo(r)
	if ei == nil {
		return
	}
	p, pkg := ei.p, ei.pkg
	type spec struct {
		fn     string
		fields []string
	}
	specs := []spec{
		{"(*Evaluator).evalBinaryExpr", []string{"Left", "Right"}},
		{"(*Evaluator).evalIndexExpr", []string{"Left", "Index"}},
		{"(*Evaluator).evalAssignIndexExpr", []string{"Left", "Index"}},
		{"(*Evaluator).evalSliceExpr", []string{"Left", "Start", "End"}},
		{"(*Evaluator).newStepRange", []string{"Start", "Stop", "Step"}},
		{"(*Evaluator).evalConditionalBlock", []string{"Condition", "Block"}},
	}
	for _, s := range specs {
		fd := FindFunc(pkg, s.fn)
		if fd == nil {
			r.Undecided("%s not found", s.fn)
			continue
		}
		sf := p.SSAFunc(fd.Obj)
		// evaluation call per field; when the evaluations were moved into a helper, the helper that holds them all
		// is analysed in place of the anchored function
		collect := func(fn *ssa.Function) map[string]*ssa.Call {
			evalOf := map[string]*ssa.Call{}
			for _, b := range fn.Blocks {
				for _, ins := range b.Instrs {
					call, ok := ins.(*ssa.Call)
					if !ok {
						continue
					}
					sc := call.Call.StaticCallee()
					if sc == nil || !ei.reach[sc] {
						continue
					}
					for _, a := range call.Call.Args {
						if f := nodeFieldOf(a, 0); f != "" {
							if _, dup := evalOf[f]; !dup {
								evalOf[f] = call
							}
						}
					}
				}
			}
			return evalOf
		}
		evalOf := collect(sf)
		complete := func(m map[string]*ssa.Call) bool {
			for _, f := range s.fields {
				if m[f] == nil {
					return false
				}
			}
			return true
		}
		if !complete(evalOf) {
			for _, h := range regionFns(sf, 2, dispatcherNames) {
				if m := collect(h); complete(m) {
					evalOf = m
					break
				}
			}
		}
		// the operands may be put into a list literal and evaluated in a loop over it: the order of evaluation is then
		// the order of the literal, provided the loop ascends
		var litOrder []string
		if !complete(evalOf) {
			for _, h := range regionFns(sf, 2, dispatcherNames) {
				if lo := literalEvalOrder(h, ei.reach); len(lo) > 0 {
					litOrder = lo
					break
				}
			}
		}
		for i := 0; i+1 < len(s.fields); i++ {
			f1, f2 := s.fields[i], s.fields[i+1]
			c1, c2 := evalOf[f1], evalOf[f2]
			construct := fmt.Sprintf("%s#order:%s<%s", fd.QName(), f1, f2)
			if (c1 == nil || c2 == nil) && litOrder != nil {
				i1, i2 := -1, -1
				for k, f := range litOrder {
					if f == f1 && i1 < 0 {
						i1 = k
					}
					if f == f2 && i2 < 0 {
						i2 = k
					}
				}
				r.Check(i1 >= 0 && i2 >= 0 && i1 < i2, construct, p.Rel(fd.Decl.Pos()), f1+" is evaluated before "+f2+" (position in the list the evaluation loop ascends over)", fmt.Sprintf("%s evaluates %s before %s: operands must be evaluated left to right (side effects of operand expressions would be observed in the wrong order)", s.fn, f2, f1))
				continue
			}
			if c1 == nil || c2 == nil {
				r.Viol(construct, p.Rel(fd.Decl.Pos()), fmt.Sprintf("cannot find the evaluation of field %s and/or %s in %s", f1, f2, s.fn))
				continue
			}
			// c2 must never precede c1: no path from c2 to c1, and within one block c1 comes first
			okOrder := true
			if c1.Block() == c2.Block() {
				okOrder = instrDominates(c1, c2)
			} else if reachesBlock(c2.Block(), c1.Block()) {
				okOrder = false
			}
			// and c1 must be able to precede c2
			if okOrder && c1.Block() != c2.Block() && !reachesBlock(c1.Block(), c2.Block()) {
				okOrder = false
			}
			r.Check(okOrder, construct, p.Rel(instrPos(c1)), f1+" is evaluated before "+f2, fmt.Sprintf("%s evaluates %s before %s: operands must be evaluated left to right (side effects of operand expressions would be observed in the wrong order)", s.fn, f2, f1))
		}
	}
	// lists: evalExprList iterates by ascending index
	if fd := FindFunc(pkg, "(*Evaluator).evalExprList"); fd != nil {
		sf := p.SSAFunc(fd.Obj)
		okAsc := false
		for _, b := range sf.Blocks {
			for _, ins := range b.Instrs {
				call, ok := ins.(*ssa.Call)
				if !ok || call.Call.StaticCallee() != ei.eval {
					continue
				}
				// node argument is an element terms[i] with i an induction variable i = phi(-1 | 0, i+1)
				if idx := indexOfElementLoad(call.Call.Args[1]); idx != nil {
					okAsc = ascendingInduction(idx)
				}
			}
		}
		r.Check(okAsc, fd.QName()+"#ascending", p.Rel(fd.Decl.Pos()), "list elements are evaluated by ascending index", "evalExprList must evaluate terms[i] for i ascending by 1 (call arguments and array elements are evaluated left to right)")
	} else {
		r.Undecided("evalExprList not found")
	}
	// short circuit: the evaluation of the right operand is guarded by a boolean that is ¬left for `and`, left for `or`
	// and false for everything else — computed by a helper (canShortCircuit) or in place
	bin := FindFunc(pkg, "(*Evaluator).evalBinaryExpr")
	if bin == nil {
		r.Undecided("evalBinaryExpr not found")
		return
	}
	binSSA := p.SSAFunc(bin.Obj)
	var rightEval *ssa.Call
	for _, h := range regionFns(binSSA, 2, dispatcherNames) {
		for _, b := range h.Blocks {
			for _, ins := range b.Instrs {
				if call, ok := ins.(*ssa.Call); ok && call.Call.StaticCallee() == ei.eval && len(call.Call.Args) > 1 && nodeFieldOf(call.Call.Args[1], 0) == "Right" && rightEval == nil {
					rightEval = call
				}
			}
		}
	}
	type scAlt struct {
		val   ssa.Value
		facts []condFact
	}
	var alts []scAlt
	holderName := bin.QName()
	holderPos := p.Rel(bin.Decl.Pos())
	okSC := false
	if rightEval != nil {
		// the nearest test above the evaluation whose false edge leads to it and which is not an error test
		for d := rightEval.Block(); d != nil && !okSC; d = d.Idom() {
			id := d.Idom()
			if id == nil || len(id.Instrs) == 0 {
				continue
			}
			ifi, ok := id.Instrs[len(id.Instrs)-1].(*ssa.If)
			if !ok {
				continue
			}
			cond, edge := ifi.Cond, 1
			if u, ok := cond.(*ssa.UnOp); ok && u.Op == token.NOT {
				cond, edge = u.X, 0
			}
			if !edgeDominates(id, edge, rightEval.Block()) {
				continue
			}
			var flatten func(v ssa.Value, facts []condFact, depth int)
			flatten = func(v ssa.Value, facts []condFact, depth int) {
				if phi, ok := v.(*ssa.Phi); ok && depth < 4 {
					for k, e := range phi.Edges {
						if k < len(phi.Block().Preds) {
							flatten(e, impliedConds(phi.Block().Preds[k]), depth+1)
						}
					}
					return
				}
				alts = append(alts, scAlt{v, facts})
			}
			switch x := cond.(type) {
			case *ssa.Call:
				h := x.Call.StaticCallee()
				if h == nil || h.Pkg != binSSA.Pkg || len(h.Blocks) == 0 || len(x.Call.Args) != 2 {
					continue
				}
				// arguments: the operator and the evaluated left operand
				if !loadsField(x.Call.Args[0], "Op") {
					if _, isPrm := x.Call.Args[0].(*ssa.Parameter); !isPrm {
						continue
					}
				}
				// every path through the helper, with what it has learnt about the operator on the way (an operator can be
				// pinned by elimination over several tests, which no single dominating test shows)
				for _, pa := range shortCircuitPaths(h) {
					alts = append(alts, scAlt{pa.val, pa.facts})
				}
				holderName = ssaQName(h)
				holderPos = p.Rel(h.Pos())
				okSC = true
			case *ssa.Phi:
				flatten(x, nil, 0)
				okSC = true
			}
		}
	}
	r.Check(okSC, bin.QName()+"#short-circuit", p.Rel(bin.Decl.Pos()), "the right operand is evaluated only on the edge where the short-circuit decision is false", "evalBinaryExpr must evaluate expr.Right only on the edge where the short-circuit decision (canShortCircuit(expr.Op, left)) is false")
	want := map[string]string{"OP_AND": "not", "OP_OR": "id"}
	got := map[string]string{}
	okFalse := true
	for _, a := range alts {
		kind := "?"
		switch v := a.val.(type) {
		case *ssa.UnOp:
			if v.Op == token.NOT && loadsField(v.X, "V") {
				kind = "not"
			} else if loadsField(v, "V") {
				kind = "id"
			}
		case *ssa.Const:
			if v.Value != nil && v.Value.ExactString() == "false" {
				kind = "false"
			} else {
				kind = "const"
			}
		}
		op := ""
		for _, f := range a.facts {
			bo, ok := f.Cond.(*ssa.BinOp)
			if !ok || !((bo.Op == token.EQL && f.Truth) || (bo.Op == token.NEQ && !f.Truth)) {
				continue
			}
			k, ok := bo.Y.(*ssa.Const)
			if !ok || k.Value == nil || namedOf(k.Type()) == nil || namedOf(k.Type()).Obj().Name() != "Operator" {
				continue
			}
			for _, cn := range constsOfType(p.Pkg("pkg/parser").Types, "Operator") {
				if constant.Compare(cn.Val(), token.EQL, k.Value) {
					op = cn.Name()
				}
			}
		}
		switch {
		case op != "" && kind != "false":
			if prev, dup := got[op]; dup && prev != kind {
				got[op] = "?"
			} else {
				got[op] = kind
			}
		case op == "" && kind != "false":
			okFalse = false
		}
	}
	for _, op := range []string{"OP_AND", "OP_OR"} {
		r.Check(got[op] == want[op], holderName+"#"+op, holderPos, map[string]string{"OP_AND": "`and` skips its right operand exactly when the left is false", "OP_OR": "`or` skips its right operand exactly when the left is true"}[op],
			fmt.Sprintf("the short-circuit decision must be %s for %s (found: %q)", map[string]string{"not": "!left.V", "id": "left.V"}[want[op]], op, got[op]))
	}
	extraOps := []string{}
	for op := range got {
		if want[op] == "" {
			extraOps = append(extraOps, op)
		}
	}
	sort.Strings(extraOps)
	r.Check(len(extraOps) == 0, holderName+"#others", holderPos, "no other operator short-circuits", fmt.Sprintf("the short-circuit decision has cases for %v: only and/or may skip their right operand", extraOps))
	r.Check(okFalse && len(alts) > 0, holderName+"#default", holderPos, "every other path answers false (evaluate the right operand)", "the short-circuit decision can be true on a path that is neither the `and` nor the `or` entry")
	// conditional block: Block evaluated on the true edge of the condition's bool
	if fd := FindFunc(pkg, "(*Evaluator).evalConditionalBlock"); fd != nil {
		sf := p.SSAFunc(fd.Obj)
		var blockEval *ssa.Call
		for _, b := range sf.Blocks {
			for _, ins := range b.Instrs {
				if call, ok := ins.(*ssa.Call); ok && call.Call.StaticCallee() == ei.eval && argIsBlock(call) {
					blockEval = call
				}
			}
		}
		okCB := false
		if blockEval != nil {
			for d := blockEval.Block(); d != nil; d = d.Idom() {
				idom := d.Idom()
				if idom == nil || len(idom.Instrs) == 0 {
					continue
				}
				if ifi, ok := idom.Instrs[len(idom.Instrs)-1].(*ssa.If); ok && loadsField(ifi.Cond, "V") && edgeDominates(idom, 0, blockEval.Block()) {
					okCB = true
				}
			}
		}
		r.Check(okCB, fd.QName()+"#guard", p.Rel(fd.Decl.Pos()), "the block runs only when the condition evaluated to true", "evalConditionalBlock must evaluate the block only on the true edge of the condition's value")
	}
}

// nodeFieldOf: the value is (an interface made from) a load of field F of a node, or a GetF() call on it.
func nodeFieldOf(v ssa.Value, depth int) string {
	if depth > 3 {
		return ""
	}
	switch x := v.(type) {
	case *ssa.MakeInterface:
		return nodeFieldOf(x.X, depth+1)
	case *ssa.UnOp:
		if fa, ok := x.X.(*ssa.FieldAddr); ok {
			if named, name := fieldAddrInfo(fa); named != nil && named.Obj().Pkg() != nil && strings.HasSuffix(named.Obj().Pkg().Path(), "pkg/parser") {
				return name
			}
		}
	case *ssa.Call:
		if sc := x.Call.StaticCallee(); sc != nil && strings.HasPrefix(sc.Name(), "Get") && sc.Signature.Recv() != nil {
			return strings.TrimPrefix(sc.Name(), "Get")
		}
	}
	return ""
}

// indexOfElementLoad: v = load(IndexAddr(slice, idx)) → idx.
func indexOfElementLoad(v ssa.Value) ssa.Value {
	if u, ok := v.(*ssa.UnOp); ok {
		if ia, ok := u.X.(*ssa.IndexAddr); ok {
			return ia.Index
		}
	}
	return nil
}

// ascendingInduction: idx = phi + 1 where phi = [const, idx] (go/ssa's rangeindex loop) or phi itself with increment.
func ascendingInduction(idx ssa.Value) bool {
	bo, ok := idx.(*ssa.BinOp)
	if ok && bo.Op == token.ADD {
		if k, ok := bo.Y.(*ssa.Const); ok && k.Value != nil && k.Value.ExactString() == "1" {
			if phi, ok := bo.X.(*ssa.Phi); ok {
				for _, e := range phi.Edges {
					if e == idx {
						return true
					}
				}
			}
		}
		return false
	}
	if phi, ok := idx.(*ssa.Phi); ok {
		for _, e := range phi.Edges {
			if b2, ok := e.(*ssa.BinOp); ok && b2.Op == token.ADD && b2.X == ssa.Value(phi) {
				if k, ok := b2.Y.(*ssa.Const); ok && k.Value != nil && k.Value.ExactString() == "1" {
					return true
				}
			}
		}
	}
	return false
}

// ---------------------------------------------------------------------------
// R-WSSCLOSE

var ruleWSSClose = &Rule{
	ID:    "R-WSSCLOSE",
	Doc:   "inside a bracket/paren/brace context (pushWSS(false)) the parser advances past the closing delimiter with advanceWSS, never with advance (which swallows the whitespace that separates list elements in the enclosing whitespace-sensitive context): the last token-consuming step before an expression node is returned from such a context is advanceWSS, also where that step lives in a helper that asserts the delimiter and advances past it",
	Floor: 3,
	Run:   runWSSClose,
}

func runWSSClose(c *Ctx, r *Reporter) {
	a := newEOLAnalysis(c, r)
	if a == nil {
		return
	}
	p := a.p
	pushWSS, adv, advWSS := a.fn("(*parser).pushWSS"), a.fn("(*parser).advance"), a.fn("(*parser).advanceWSS")
	if pushWSS == nil || adv == nil || advWSS == nil {
		r.Undecided("pushWSS/advance/advanceWSS not found")
		return
	}
	// functions that open a whitespace-insensitive context
	nonWSS := map[*ssa.Function]bool{}
	for _, fn := range a.fns {
		for _, ci := range callsTo(fn, pushWSS) {
			if k, ok := ci.Common().Args[1].(*ssa.Const); ok && k.Value != nil && k.Value.ExactString() == "false" {
				nonWSS[fn] = true
			}
		}
	}
	// plus helpers called only from such functions
	callers := map[*ssa.Function]map[*ssa.Function]bool{}
	for _, fn := range a.fns {
		for _, b := range fn.Blocks {
			for _, ins := range b.Instrs {
				if ci, ok := ins.(ssa.CallInstruction); ok {
					if sc := ci.Common().StaticCallee(); sc != nil && a.byName[ssaDisplayName(sc)] == sc {
						if callers[sc] == nil {
							callers[sc] = map[*ssa.Function]bool{}
						}
						callers[sc][fn] = true
					}
				}
			}
		}
	}
	for changed := true; changed; {
		changed = false
		for _, fn := range a.fns {
			if nonWSS[fn] || len(callers[fn]) == 0 || !a.consumes[fn] {
				continue
			}
			all := true
			for cl := range callers[fn] {
				if !nonWSS[cl] {
					all = false
				}
			}
			if all {
				nonWSS[fn] = true
				changed = true
			}
		}
	}
	names := []string{}
	for fn := range nonWSS {
		names = append(names, ssaDisplayName(fn))
	}
	sort.Strings(names)
	for _, name := range names {
		fn := a.byName[name]
		if fn.Signature.Results().Len() != 1 {
			continue
		}
		if _, isIface := fn.Signature.Results().At(0).Type().Underlying().(*types.Interface); !isIface {
			continue // only expression parsers (return a Node)
		}
		n := 0
		for _, ret := range returnsOf(fn) {
			if returnsOnlyNil(ret) {
				continue
			}
			// a return that forwards another parser's result ends with that parser's own closing step
			forwards := false
			for _, v := range resultValues(ret, 0) {
				if call, ok := v.(*ssa.Call); ok && call.Call.StaticCallee() != nil && a.consumes[call.Call.StaticCallee()] {
					forwards = true
				}
			}
			if forwards {
				continue
			}
			n++
			bad := lastConsumingCalls(ret, a, adv)
			r.Check(len(bad) == 0, fmt.Sprintf("pkg/parser.%s#close[%d]", name, n), p.Rel(instrPos(ret)), "the closing delimiter is passed with advanceWSS",
				fmt.Sprintf("%s returns an expression after advancing past its last token with advance() inside a whitespace-insensitive context: whitespace after the closing delimiter is swallowed, so `x[0:1] -1` or `[a[:1] [2]]` are parsed as one expression", name))
		}
	}
}

// lastConsumingCalls: walking backwards from ret, the nearest token-consuming calls; returns those that are direct calls of `advance`.
func lastConsumingCalls(ret *ssa.Return, a *eolAnalysis, adv *ssa.Function) []ssa.Instruction {
	return lastConsumingCallsDepth(ret, a, adv, 0)
}

// closingHelper: a token-consuming helper that does not itself produce a node (no result, or a bool/error result).
func closingHelper(fn *ssa.Function) bool {
	if fn == nil || len(fn.Blocks) == 0 {
		return false
	}
	res := fn.Signature.Results()
	for i := 0; i < res.Len(); i++ {
		switch t := res.At(i).Type().Underlying().(type) {
		case *types.Basic:
			if t.Kind() != types.Bool {
				return false
			}
		default:
			return false
		}
	}
	return true
}

func lastConsumingCallsDepth(ret *ssa.Return, a *eolAnalysis, adv *ssa.Function, depth int) []ssa.Instruction {
	var bad []ssa.Instruction
	seen := map[*ssa.BasicBlock]bool{}
	var walk func(b *ssa.BasicBlock, from int)
	walk = func(b *ssa.BasicBlock, from int) {
		for i := from; i >= 0; i-- {
			call, ok := b.Instrs[i].(*ssa.Call)
			if !ok {
				continue
			}
			sc := call.Call.StaticCallee()
			if sc == nil || !a.consumes[sc] {
				continue
			}
			if sc == adv {
				bad = append(bad, call)
			} else if depth < 3 && closingHelper(sc) {
				// a helper that asserts the delimiter and advances past it (advancePastRBracket): its own last consuming step counts
				for _, hret := range returnsOf(sc) {
					if len(lastConsumingCallsDepth(hret, a, adv, depth+1)) > 0 {
						bad = append(bad, call)
						break
					}
				}
			}
			return
		}
		for _, pred := range b.Preds {
			if !seen[pred] {
				seen[pred] = true
				walk(pred, len(pred.Instrs)-1)
			}
		}
	}
	blk := ret.Block()
	seen[blk] = true
	walk(blk, len(blk.Instrs)-1)
	return bad
}

// anchoredOps: the per-kind operator functions that rules anchor on themselves; a region that follows extracted helpers
// stops at them (and at the dispatchers).
var anchoredOps = func() map[string]bool {
	m := map[string]bool{"evalBinaryNumExpr": true, "evalBinaryStringExpr": true, "evalBinaryBoolExpr": true, "evalBinaryArrayExpr": true, "canShortCircuit": true, "evalUnaryExpr": true,
		"compileNumBinaryExpression": true, "compileStringBinaryExpression": true, "compileUnaryExpression": true}
	for k := range dispatcherNames {
		m[k] = true
	}
	return m
}()

// literalEvalOrder: fn evaluates, in a loop with an ascending index, the elements of a list literal whose elements are
// node fields (for i, n := range []parser.Node{r.GetStart(), r.GetStop(), r.GetStep()} { e.evalNum(n) }); it returns
// the fields in the order of the literal.
func literalEvalOrder(fn *ssa.Function, reach map[*ssa.Function]bool) []string {
	for _, b := range fn.Blocks {
		for _, ins := range b.Instrs {
			call, ok := ins.(*ssa.Call)
			if !ok || call.Call.StaticCallee() == nil || !reach[call.Call.StaticCallee()] || !inCycle(b) {
				continue
			}
			for _, a := range call.Call.Args {
				u, ok := a.(*ssa.UnOp)
				if !ok {
					continue
				}
				ia, ok := u.X.(*ssa.IndexAddr)
				if !ok || !ascendingInduction(ia.Index) && !ascendingCounter(ia.Index) {
					continue
				}
				sl, ok := ia.X.(*ssa.Slice)
				if !ok {
					continue
				}
				al, ok := sl.X.(*ssa.Alloc)
				if !ok || sl.Low != nil || al.Referrers() == nil {
					continue
				}
				at := map[int64]string{}
				n := int64(0)
				for _, ref := range *al.Referrers() {
					ea, ok := ref.(*ssa.IndexAddr)
					if !ok || ea.Referrers() == nil {
						continue
					}
					k, ok := ea.Index.(*ssa.Const)
					if !ok {
						continue
					}
					for _, r2 := range *ea.Referrers() {
						if st, ok := r2.(*ssa.Store); ok {
							if f := nodeFieldOf(st.Val, 0); f != "" {
								at[k.Int64()] = f
								if k.Int64()+1 > n {
									n = k.Int64() + 1
								}
							}
						}
					}
				}
				var out []string
				for i := int64(0); i < n; i++ {
					if at[i] == "" {
						out = nil
						break
					}
					out = append(out, at[i])
				}
				if len(out) > 1 {
					return out
				}
			}
		}
	}
	return nil
}

// ascendingCounter: phi [const, phi+1] (a counting loop that tests before the body).
func ascendingCounter(idx ssa.Value) bool {
	phi, ok := idx.(*ssa.Phi)
	if !ok {
		return false
	}
	step := false
	for _, e := range phi.Edges {
		if _, isConst := e.(*ssa.Const); isConst {
			continue
		}
		bo, ok := e.(*ssa.BinOp)
		if !ok || bo.Op != token.ADD || bo.X != ssa.Value(phi) {
			return false
		}
		if k, ok := bo.Y.(*ssa.Const); !ok || k.Value == nil || k.Value.ExactString() != "1" {
			return false
		}
		step = true
	}
	return step
}

type scPath struct {
	val   ssa.Value
	facts []condFact
}

// errorPaths enumerates the paths of fn from its entry to a call that records a parse error (appendError…), with the
// outcomes of the equality comparisons met on the way.
func errorPaths(fn *ssa.Function) []scPath {
	return pathsTo(fn, func(ins ssa.Instruction) bool {
		call, ok := ins.(*ssa.Call)
		if !ok || call.Call.StaticCallee() == nil {
			return false
		}
		n := call.Call.StaticCallee().Name()
		return n == "appendError" || n == "appendErrorForToken"
	})
}

// shortCircuitPaths enumerates the paths through a small boolean helper: the value returned at the end of each and the
// outcomes of the comparisons with constants met on the way (contradictory combinations are dropped).
func shortCircuitPaths(h *ssa.Function) []scPath { return pathsTo(h, nil) }

// pathsTo enumerates paths from the entry of h to its returns (stop == nil) or to the first instruction stop accepts.
func pathsTo(h *ssa.Function, stop func(ssa.Instruction) bool) []scPath {
	var out []scPath
	budget := 20000
	contradicts := func(facts []condFact, nf condFact) bool {
		nb, ok := nf.Cond.(*ssa.BinOp)
		if !ok {
			return false
		}
		nk, ok := nb.Y.(*ssa.Const)
		if !ok {
			return false
		}
		neq := (nb.Op == token.EQL) == nf.Truth // the new fact says X == K
		for _, f := range facts {
			b, ok := f.Cond.(*ssa.BinOp)
			if !ok || b.X != nb.X {
				continue
			}
			k, ok := b.Y.(*ssa.Const)
			if !ok {
				continue
			}
			eq := (b.Op == token.EQL) == f.Truth
			same := constKey(k) == constKey(nk)
			switch {
			case eq && neq && !same, eq && !neq && same, !eq && neq && same:
				return true
			}
		}
		return false
	}
	onPath := map[*ssa.BasicBlock]bool{}
	var walk func(b, pred *ssa.BasicBlock, facts []condFact)
	walk = func(b, pred *ssa.BasicBlock, facts []condFact) {
		if budget <= 0 || onPath[b] || len(b.Instrs) == 0 {
			return
		}
		budget--
		onPath[b] = true
		defer delete(onPath, b)
		if stop != nil {
			for _, ins := range b.Instrs {
				if stop(ins) {
					out = append(out, scPath{nil, append([]condFact{}, facts...)})
					return
				}
			}
		}
		switch x := b.Instrs[len(b.Instrs)-1].(type) {
		case *ssa.Return:
			if len(x.Results) == 1 && stop == nil {
				v := x.Results[0]
				if phi, ok := v.(*ssa.Phi); ok && phi.Block() == b && pred != nil {
					for k, pb := range b.Preds {
						if pb == pred && k < len(phi.Edges) {
							v = phi.Edges[k]
						}
					}
				}
				out = append(out, scPath{v, append([]condFact{}, facts...)})
			}
		case *ssa.If:
			cond, flip := x.Cond, false
			for {
				if u, ok := cond.(*ssa.UnOp); ok && u.Op == token.NOT {
					cond, flip = u.X, !flip
					continue
				}
				break
			}
			bo, isCmp := cond.(*ssa.BinOp)
			withConst := isCmp && (bo.Op == token.EQL || bo.Op == token.NEQ)
			for i, sx := range b.Succs {
				nf := facts
				if isCmp && withConst {
					f := condFact{bo, (i == 0) != flip}
					if contradicts(facts, f) {
						continue
					}
					nf = append(append([]condFact{}, facts...), f)
				} else {
					// any other condition (a boolean value, an ordered comparison): its outcome on this path
					f := condFact{cond, (i == 0) != flip}
					clash := false
					for _, g := range facts {
						if g.Cond == cond && g.Truth != f.Truth {
							clash = true
						}
					}
					if clash {
						continue
					}
					nf = append(append([]condFact{}, facts...), f)
				}
				walk(sx, b, nf)
			}
		case *ssa.Jump:
			walk(b.Succs[0], b, facts)
		}
	}
	if len(h.Blocks) > 0 {
		walk(h.Blocks[0], nil, nil)
	}
	return out
}
