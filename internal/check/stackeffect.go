package check

import (
	"fmt"
	"go/ast"
	"go/constant"
	"go/token"
	"go/types"
	"sort"
	"strings"

	"golang.org/x/tools/go/packages"
)

// R-STACKEFFECT: the operand stack has one height at every instruction and is balanced.
//
// Two abstract interpretations over the source, no bytecode is produced or run.
//
// (V) From the dispatch switch of (*VM).Run the net stack effect of every opcode is derived: pops (through the pop
// helpers, whose own pop counts are summarised), pushes, `drop(n)`, loops whose trip count is the instruction's
// operand (OpArray, OpMap), with all paths that continue to the next instruction required to agree. The two range
// opcodes push their loop value only on the paths where the boolean they push last is true and the operand is not
// zero; that correlation is checked on the VM's text (the guard of the conditional push is `B && operand != 0`, the
// last push is boolVal(B)) and carried into (C) as a conditional effect.
//
// (C) Every function of the compiler is interpreted over symbolic stack heights — integer-linear expressions over
// len(…) symbols — forking on every branch (with the text of a condition remembered, so that a repeated
// `stmt.LoopVar != nil` takes the same side) and with local constants tracked (rangeOp, rangeStateSize,
// hasLoopVar). An emit applies the opcode's effect with the operand's value; a loop over a parser list adds the
// body's effect times the list's length; `x := len(c.instructions)` is a label that remembers the height; a
// placeholder jump remembers the height on its taken path, and changeOperand(jump, label) demands the two to be
// equal, as does a backward jump to a label; breaks are patched to a label whose height equals the height at
// which the loop body was translated. Recursion goes through Compile, whose effect is assumed by the class of the
// translated node (+1 for an expression, 0 for a statement) and proved for every case of its type switch under that
// assumption (induction over the syntax tree). The height never goes below the function's entry height.
//
// Together: for every program the compiler accepts, every instruction is reached with one height, no pop underflows
// the translated statement's base, and the program ends at its base height. What is assumed: the parser's trees are
// finite, a MapLiteral's Order and Pairs have the same length (proved as a lemma: the only two writers sit in one
// block behind the not-found edge of the duplicate test).
var ruleStackEffect = &Rule{
	ID: "R-STACKEFFECT",
	Doc: "the net stack effect of every opcode is derived from (*VM).Run, and every compiler function is interpreted over symbolic stack heights with it: each case of Compile leaves +1 for an " +
		"expression and 0 for a statement on every accepting path, a jump and its target agree on the height, breaks leave the loop at the height its body was entered with, no path goes below the entry height",
	Floor: 60,
	Run:   runStackEffect,
}

// ---------------------------------------------------------------------------
// linear expressions over symbols ("" = constant term)

type slin map[string]int

func slinConst(c int) slin { return slin{"": c} }

func (a slin) clone() slin {
	b := slin{}
	for k, v := range a {
		if v != 0 {
			b[k] = v
		}
	}
	return b
}

func (a slin) add(b slin, f int) slin {
	c := a.clone()
	for k, v := range b {
		c[k] += f * v
		if c[k] == 0 {
			delete(c, k)
		}
	}
	return c
}

func (a slin) mul(b slin) (slin, bool) { // product, defined when one side is constant
	if ca, ok := a.constOnly(); ok {
		return slin{}.add(b, ca), true
	}
	if cb, ok := b.constOnly(); ok {
		return slin{}.add(a, cb), true
	}
	return nil, false
}

func (a slin) constOnly() (int, bool) {
	for k, v := range a {
		if k != "" && v != 0 {
			return 0, false
		}
	}
	return a[""], true
}

func (a slin) eq(b slin) bool {
	d := a.add(b, -1)
	return len(d) == 0
}

func (a slin) nonNeg() bool { // every coefficient non-negative (symbols stand for lengths ≥ 0)
	for _, v := range a {
		if v < 0 {
			return false
		}
	}
	return true
}

func (a slin) String() string {
	var ks []string
	for k := range a {
		if k != "" && a[k] != 0 {
			ks = append(ks, k)
		}
	}
	sort.Strings(ks)
	var parts []string
	for _, k := range ks {
		if a[k] == 1 {
			parts = append(parts, k)
		} else {
			parts = append(parts, fmt.Sprintf("%d·%s", a[k], k))
		}
	}
	if a[""] != 0 || len(parts) == 0 {
		parts = append(parts, fmt.Sprint(a[""]))
	}
	return strings.Join(parts, " + ")
}

// ---------------------------------------------------------------------------
// (V) opcode effects

type opEffect struct {
	pops, pushes slin // over the symbol "N" (the instruction's operand)
	condPush     bool // additionally pushes one value iff the boolean pushed last is true and N != 0
	isJump       bool // unconditional transfer (OpJump): no fall-through
	pos          token.Pos
}

type vmTable struct {
	effects map[string]*opEffect // opcode constant name
	problem map[string]string
}

func deriveVMEffects(pkg *packages.Package) (*vmTable, string) {
	info := pkg.TypesInfo
	run := FindFunc(pkg, "(*VM).Run")
	if run == nil {
		return nil, "(*VM).Run not found"
	}
	// pop helper summaries: methods of VM that call pop (or another helper) in straight-line code
	popCount := map[*types.Func]int{}
	if f := FindFunc(pkg, "(*VM).pop"); f != nil {
		popCount[f.Obj] = 1
	} else {
		return nil, "(*VM).pop not found"
	}
	pushFn := FindFunc(pkg, "(*VM).push")
	dropFn := FindFunc(pkg, "(*VM).drop")
	if pushFn == nil {
		return nil, "(*VM).push not found"
	}
	for changed := true; changed; {
		changed = false
		for _, fd := range Funcs(pkg) {
			if _, done := popCount[fd.Obj]; done || fd.Decl.Recv == nil || fd == run || fd == pushFn || fd == dropFn {
				continue
			}
			if rn := recvNamed(fd.Obj); rn == nil || rn.Obj().Name() != "VM" {
				continue
			}
			n, ok := 0, true
			for _, st := range fd.Decl.Body.List {
				// only top-level statements count; a pop inside a branch or loop makes the helper unsuitable
				nested := 0
				ast.Inspect(st, func(nd ast.Node) bool {
					call, isCall := nd.(*ast.CallExpr)
					if !isCall {
						return true
					}
					if cf := calleeFunc(info, call); cf != nil {
						if k, has := popCount[cf]; has {
							nested += k
						}
					}
					return true
				})
				switch st.(type) {
				case *ast.AssignStmt, *ast.ExprStmt, *ast.ReturnStmt, *ast.DeclStmt:
					n += nested
				default:
					if nested > 0 {
						ok = false
					}
				}
			}
			if ok && n > 0 {
				popCount[fd.Obj] = n
				changed = true
			}
		}
	}
	// the dispatch switch: the one over Opcode with the most cases
	var sw *ast.SwitchStmt
	for _, s := range findSwitches(run.Decl.Body, func(s *ast.SwitchStmt) bool {
		return s.Tag != nil && namedOf(info.TypeOf(s.Tag)) != nil && namedOf(info.TypeOf(s.Tag)).Obj().Name() == "Opcode"
	}) {
		if sw == nil || len(s.Body.List) > len(sw.Body.List) {
			sw = s
		}
	}
	if sw == nil {
		return nil, "(*VM).Run: no switch over Opcode"
	}
	tbl := &vmTable{effects: map[string]*opEffect{}, problem: map[string]string{}}
	decls := map[*types.Func]*FuncDecl{}
	for _, fd := range Funcs(pkg) {
		decls[fd.Obj] = fd
	}
	for _, st := range sw.Body.List {
		cc, ok := st.(*ast.CaseClause)
		if !ok || cc.List == nil {
			continue
		}
		w := &vmWalker{info: info, popCount: popCount, decls: decls, push: pushFn.Obj, operand: map[types.Object]bool{}}
		if dropFn != nil {
			w.drop = dropFn.Obj
		}
		outs := w.block(cc.Body, vmPath{pops: slin{}, pushes: slin{}})
		eff := &opEffect{pos: cc.Pos()}
		first := true
		bad := w.problem
		for _, o := range outs {
			if o.terminal {
				continue
			}
			if first {
				eff.pops, eff.pushes, first = o.pops, o.pushes, false
				continue
			}
			if !o.pops.add(o.pushes, -1).eq(eff.pops.add(eff.pushes, -1)) {
				bad = fmt.Sprintf("paths through this case leave different stack heights (%s vs %s)", eff.pushes.add(eff.pops, -1), o.pushes.add(o.pops, -1))
			}
		}
		if first {
			eff.pops, eff.pushes = slin{}, slin{}
		}
		if w.condGuard != "" {
			if w.lastPushArg == "boolVal("+w.condGuard+")" {
				eff.condPush = true
			} else {
				bad = fmt.Sprintf("a value is pushed under the condition `%s && operand != 0`, but the boolean pushed last is %s: the compiler cannot know when the extra value is there", w.condGuard, w.lastPushArg)
			}
		}
		eff.isJump = w.setsIPUnconditionally
		for _, e := range cc.List {
			if k := constOf(info, e); k != nil {
				tbl.effects[k.Name()] = eff
				if bad != "" {
					tbl.problem[k.Name()] = bad
				}
			}
		}
	}
	return tbl, ""
}

type vmPath struct {
	pops, pushes slin
	terminal     bool // return: the VM stops
	left         bool // break: the case is left, the rest of its statements is skipped
}

type vmWalker struct {
	info                  *types.Info
	popCount              map[*types.Func]int
	decls                 map[*types.Func]*FuncDecl // functions of the package, for helpers whose effect depends on an argument
	inHelper              bool                      // a return is the helper's normal exit, not the end of the run
	depth                 int
	push, drop            *types.Func
	operand               map[types.Object]bool
	condGuard             string
	lastPushArg           string
	problem               string
	setsIPUnconditionally bool
}

func (w *vmWalker) operandSym(e ast.Expr) (slin, bool) {
	e = ast.Unparen(e)
	if call, ok := e.(*ast.CallExpr); ok && len(call.Args) == 1 {
		if _, conv := isConversion(w.info, call); conv {
			return w.operandSym(call.Args[0])
		}
	}
	if id, ok := e.(*ast.Ident); ok && w.operand[w.info.ObjectOf(id)] {
		return slin{"N": 1}, true
	}
	if v, ok := constInt(w.info, e); ok {
		return slinConst(int(v)), true
	}
	return nil, false
}

// calls applies the stack effect of every call inside n, in source order.
func (w *vmWalker) calls(n ast.Node, p vmPath) vmPath {
	if n == nil {
		return p
	}
	ast.Inspect(n, func(nd ast.Node) bool {
		if _, isLit := nd.(*ast.FuncLit); isLit {
			return false
		}
		call, ok := nd.(*ast.CallExpr)
		if !ok {
			return true
		}
		cf := calleeFunc(w.info, call)
		switch {
		case cf == nil:
		case cf == w.push:
			p.pushes = p.pushes.add(slinConst(1), 1)
			if len(call.Args) == 1 {
				w.lastPushArg = types.ExprString(call.Args[0])
			}
		case w.drop != nil && cf == w.drop:
			if len(call.Args) == 1 {
				if s, ok := w.operandSym(call.Args[0]); ok {
					p.pops = p.pops.add(s, 1)
				} else {
					w.problem = "drop(" + types.ExprString(call.Args[0]) + "): the number of dropped values is neither the operand nor a constant"
				}
			}
		default:
			if k, has := w.popCount[cf]; has {
				p.pops = p.pops.add(slinConst(k), 1)
			} else if po, pu, prm, ok := w.helperEffect(cf); ok {
				// a method of the VM whose stack effect depends on one int argument (popArrayElements(n))
				sub := slinConst(0)
				if prm >= 0 {
					var isOp bool
					if prm < len(call.Args) {
						sub, isOp = w.operandSym(call.Args[prm])
					}
					if !isOp {
						w.problem = cf.Name() + "(…): its stack effect depends on an argument that is neither the operand nor a constant"
						return true
					}
				}
				subst := func(e slin) slin {
					out := slin{}
					for k, c := range e {
						if k == "N" {
							out = out.add(sub, c)
						} else {
							out = out.add(slin{k: 1}, c)
						}
					}
					return out
				}
				p.pops, p.pushes = p.pops.add(subst(po), 1), p.pushes.add(subst(pu), 1)
			}
		}
		return true
	})
	return p
}

// helperEffect: the stack effect of a helper with a body that pops or pushes in a way the straight-line summary does
// not cover (a loop over an int parameter). The effect is stated over "N", the value of parameter prm (-1: none).
func (w *vmWalker) helperEffect(cf *types.Func) (pops, pushes slin, prm int, ok bool) {
	fd := w.decls[cf]
	if fd == nil || fd.Decl.Body == nil || w.depth >= 2 || cf == w.push || cf == w.drop {
		return nil, nil, -1, false
	}
	if rn := recvNamed(cf); rn == nil || rn.Obj().Name() != "VM" {
		return nil, nil, -1, false // only methods of the VM can touch its stack
	}
	hw := &vmWalker{info: w.info, popCount: w.popCount, decls: w.decls, push: w.push, drop: w.drop, operand: map[types.Object]bool{}, inHelper: true, depth: w.depth + 1}
	prm = -1
	idx := 0
	for _, f := range fd.Decl.Type.Params.List {
		for _, nm := range f.Names {
			if b, isBasic := w.info.TypeOf(f.Type).Underlying().(*types.Basic); isBasic && b.Info()&types.IsInteger != 0 {
				if prm >= 0 {
					return nil, nil, -1, false // two int parameters: which one counts is not modelled
				}
				prm = idx
				hw.operand[w.info.ObjectOf(nm)] = true
			}
			idx++
		}
	}
	outs := hw.block(fd.Decl.Body.List, vmPath{pops: slin{}, pushes: slin{}})
	if hw.problem != "" || hw.condGuard != "" {
		w.problem = cf.Name() + ": " + hw.problem
		return nil, nil, -1, false
	}
	first := true
	for _, o := range outs {
		if o.terminal {
			continue
		}
		if first {
			pops, pushes, first = o.pops, o.pushes, false
			continue
		}
		if !(o.pops.eq(pops) && o.pushes.eq(pushes)) {
			w.problem = cf.Name() + ": its paths have different stack effects"
			return nil, nil, -1, false
		}
	}
	if first || (len(pops) == 0 && len(pushes) == 0) {
		return nil, nil, -1, false
	}
	return pops, pushes, prm, true
}

func (w *vmWalker) block(stmts []ast.Stmt, p vmPath) []vmPath {
	paths := []vmPath{p}
	for _, st := range stmts {
		var next []vmPath
		for _, q := range paths {
			if q.terminal || q.left {
				next = append(next, q)
				continue
			}
			next = append(next, w.stmt(st, q)...)
		}
		paths = next
	}
	return paths
}

func isIPExpr(e ast.Expr) bool {
	id, ok := ast.Unparen(e).(*ast.Ident)
	return ok && id.Name == "ip"
}

func (w *vmWalker) stmt(st ast.Stmt, p vmPath) []vmPath {
	switch s := st.(type) {
	case *ast.AssignStmt:
		// operand variables: x := ReadUint16(...) / int(ReadUint16(...))
		if len(s.Lhs) == 1 && len(s.Rhs) == 1 {
			rhs := ast.Unparen(s.Rhs[0])
			if call, ok := rhs.(*ast.CallExpr); ok && len(call.Args) == 1 {
				if _, conv := isConversion(w.info, call); conv {
					rhs = ast.Unparen(call.Args[0])
				}
			}
			if call, ok := rhs.(*ast.CallExpr); ok {
				if cf := calleeFunc(w.info, call); cf != nil && cf.Name() == "ReadUint16" {
					if id, ok := s.Lhs[0].(*ast.Ident); ok {
						w.operand[w.info.ObjectOf(id)] = true
					}
				}
			}
			if isIPExpr(s.Lhs[0]) && s.Tok == token.ASSIGN {
				w.setsIPUnconditionally = true
			}
		}
		for _, l := range s.Lhs {
			if sel, ok := l.(*ast.SelectorExpr); ok && sel.Sel.Name == "sp" {
				w.problem = "the stack pointer is assigned directly in the dispatch loop"
			}
		}
		return []vmPath{w.calls(s, p)}
	case *ast.ExprStmt, *ast.DeclStmt, *ast.IncDecStmt:
		return []vmPath{w.calls(s, p)}
	case *ast.ReturnStmt:
		q := w.calls(s, p)
		if w.inHelper {
			q.left = true
		} else {
			q.terminal = true
		}
		return []vmPath{q}
	case *ast.BranchStmt:
		if s.Tok == token.BREAK {
			p.left = true // leaves the case (a break inside a loop of the case is handled by the loop)
		}
		return []vmPath{p}
	case *ast.BlockStmt:
		return w.block(s.List, p)
	case *ast.IfStmt:
		if s.Init != nil {
			p = w.calls(s.Init, p)
		}
		p = w.calls(s.Cond, p)
		// the conditional push of the range opcodes
		if be, ok := ast.Unparen(s.Cond).(*ast.BinaryExpr); ok && be.Op == token.LAND && s.Else == nil && len(s.Body.List) == 1 {
			if r, ok := ast.Unparen(be.Y).(*ast.BinaryExpr); ok && r.Op == token.NEQ {
				if _, isOperand := w.operandSym(r.X); isOperand {
					if v, isZero := constInt(w.info, r.Y); isZero && v == 0 {
						saved := w.lastPushArg
						inner := w.block(s.Body.List, vmPath{pops: slin{}, pushes: slin{}})
						if len(inner) == 1 && len(inner[0].pops) == 0 && inner[0].pushes.eq(slinConst(1)) {
							w.condGuard = types.ExprString(be.X)
							w.lastPushArg = saved
							return []vmPath{p}
						}
					}
				}
			}
		}
		wasJump := w.setsIPUnconditionally
		out := w.block(s.Body.List, p)
		if s.Else != nil {
			out = append(out, w.stmt(s.Else, p)...)
		} else {
			out = append(out, p)
		}
		w.setsIPUnconditionally = wasJump // an assignment of ip under a condition is a conditional jump
		return out
	case *ast.ForStmt, *ast.RangeStmt:
		var body *ast.BlockStmt
		var trip slin
		tripOK := false
		switch f := s.(type) {
		case *ast.ForStmt:
			body = f.Body
			// for i := X - 1; i >= 0; i--   |   for i := 0; i < X; i++
			if as, ok := f.Init.(*ast.AssignStmt); ok && len(as.Rhs) == 1 {
				if be, ok := ast.Unparen(as.Rhs[0]).(*ast.BinaryExpr); ok && be.Op == token.SUB {
					if one, ok := constInt(w.info, be.Y); ok && one == 1 {
						if c, ok := f.Cond.(*ast.BinaryExpr); ok && c.Op == token.GEQ {
							if z, ok := constInt(w.info, c.Y); ok && z == 0 {
								if inc, ok := f.Post.(*ast.IncDecStmt); ok && inc.Tok == token.DEC {
									trip, tripOK = w.operandSym(be.X)
								}
							}
						}
					}
				} else if c, ok := f.Cond.(*ast.BinaryExpr); ok && (c.Op == token.GTR || c.Op == token.GEQ) && !func() bool { z, isZ := constInt(w.info, as.Rhs[0]); return isZ && z == 0 }() {
					// for i := X; i > 0; i--   |   for i := X; i >= 1; i--
					if z, ok := constInt(w.info, c.Y); ok && ((c.Op == token.GTR && z == 0) || (c.Op == token.GEQ && z == 1)) {
						if inc, ok := f.Post.(*ast.IncDecStmt); ok && inc.Tok == token.DEC {
							trip, tripOK = w.operandSym(as.Rhs[0])
						}
					}
				} else if z, ok := constInt(w.info, as.Rhs[0]); ok && z == 0 {
					if c, ok := f.Cond.(*ast.BinaryExpr); ok && c.Op == token.LSS {
						if inc, ok := f.Post.(*ast.IncDecStmt); ok && inc.Tok == token.INC {
							trip, tripOK = w.operandSym(c.Y)
						}
					}
				}
			}
		case *ast.RangeStmt:
			body = f.Body
			trip, tripOK = w.operandSym(f.X)
		}
		inner := w.block(body.List, vmPath{pops: slin{}, pushes: slin{}})
		var eff *vmPath
		for i := range inner {
			if inner[i].terminal {
				continue
			}
			if inner[i].left && (len(inner[i].pops) != 0 || len(inner[i].pushes) != 0) {
				w.problem = "a loop of the case is left by break after a stack operation"
			}
			inner[i].left = false
			if eff != nil && !(eff.pops.eq(inner[i].pops) && eff.pushes.eq(inner[i].pushes)) {
				w.problem = "the paths through a loop body have different stack effects"
			}
			eff = &inner[i]
		}
		if eff == nil || (len(eff.pops) == 0 && len(eff.pushes) == 0) {
			return []vmPath{p}
		}
		if !tripOK {
			w.problem = "a loop with a stack effect whose trip count is not the instruction's operand"
			return []vmPath{p}
		}
		po, ok1 := eff.pops.mul(trip)
		pu, ok2 := eff.pushes.mul(trip)
		if !ok1 || !ok2 {
			w.problem = "a loop with a non-constant stack effect per iteration"
			return []vmPath{p}
		}
		p.pops, p.pushes = p.pops.add(po, 1), p.pushes.add(pu, 1)
		return []vmPath{p}
	case *ast.SwitchStmt:
		if s.Init != nil {
			p = w.calls(s.Init, p)
		}
		p = w.calls(s.Tag, p)
		var out []vmPath
		hasDefault := false
		for _, c := range s.Body.List {
			cc := c.(*ast.CaseClause)
			if cc.List == nil {
				hasDefault = true
			}
			out = append(out, w.block(cc.Body, p)...)
		}
		if !hasDefault {
			out = append(out, p)
		}
		return out
	case *ast.TypeSwitchStmt:
		if s.Init != nil {
			p = w.calls(s.Init, p)
		}
		p = w.calls(s.Assign, p)
		var out []vmPath
		hasDefault := false
		for _, c := range s.Body.List {
			cc := c.(*ast.CaseClause)
			if cc.List == nil {
				hasDefault = true
			}
			out = append(out, w.block(cc.Body, p)...)
		}
		if !hasDefault {
			out = append(out, p)
		}
		return out
	}
	return []vmPath{w.calls(st, p)}
}

// ---------------------------------------------------------------------------
// (C) the compiler

type jumpRec struct {
	h   slin // height on the taken path
	pos token.Pos
}

type ceState struct {
	h        slin
	pending  *slin                   // a range opcode's boolean is on top: extra value (0/1) present iff it is true
	env      map[types.Object]string // locals holding a constant: opcode name or integer
	labels   map[types.Object]slin
	jumps    map[types.Object][]jumpRec
	facts    map[string]bool
	bodyBase *slin                // height at which the loop body of this function was translated
	dead     bool                 // the path ends in a compile-time error (Compile rejects the node kind)
	indexed  map[string][]jumpRec // inside a counting loop over a list of jump positions: L -> what L[i] stands for
}

func (s *ceState) clone() *ceState {
	c := &ceState{h: s.h.clone(), env: map[types.Object]string{}, labels: map[types.Object]slin{}, jumps: map[types.Object][]jumpRec{}, facts: map[string]bool{}, bodyBase: s.bodyBase, pending: s.pending, dead: s.dead, indexed: s.indexed}
	for k, v := range s.env {
		c.env[k] = v
	}
	for k, v := range s.labels {
		c.labels[k] = v
	}
	for k, v := range s.jumps {
		c.jumps[k] = append([]jumpRec{}, v...)
	}
	for k, v := range s.facts {
		c.facts[k] = v
	}
	return c
}

type ceOutcome struct {
	h        slin
	ret      []jumpRec // jump positions handed to the caller (compileConditionalBlock)
	vals     []string  // the constants returned, by position ("" where the result is not a known constant)
	bodyBase *slin     // the height at which a loop body was translated on this path
}

// valsKey tells outcomes apart that the caller can tell apart: by the constants they return.
func (o ceOutcome) valsKey() string { return strings.Join(o.vals, "|") }

type ceInterp struct {
	p           *Program
	pkg         *packages.Package
	info        *types.Info
	vm          *vmTable
	r           *Reporter
	funcs       map[*types.Func]*FuncDecl
	summary     map[*types.Func][]ceOutcome
	inFlight    map[*types.Func]bool
	cur         *FuncDecl
	viol        map[string]string // construct -> message (first one wins)
	violPos     map[string]token.Pos
	nEmit       int
	nPatch      int
	parser      *types.Package
	exempt      map[string][2]string // construct -> {pos, reason}
	undec       map[string]string
	inlineDepth int
	inlined     map[*types.Func]bool
	restOK      func(ast.Expr) (string, bool)
	root        bool                   // interpreting a case of Compile: the entry height is the floor
	floors      map[*types.Func][]slin // per helper: the lowest heights it reaches, relative to its entry
}

func (ci *ceInterp) fail(key string, pos token.Pos, msg string) {
	k := ci.cur.QName() + "#" + key
	if _, dup := ci.viol[k]; !dup {
		ci.viol[k] = msg
		ci.violPos[k] = pos
	}
}

// unknown records a construct the interpretation cannot model: the rule is then undecided, not violated.
func (ci *ceInterp) unknown(key string, pos token.Pos, msg string) {
	k := ci.cur.QName() + "#" + key
	if _, dup := ci.undec[k]; !dup {
		ci.undec[k] = ci.p.Rel(pos) + ": " + msg
	}
}

// classOf: +1 for an expression node, 0 for a statement node.
func (ci *ceInterp) classOfNamed(n *types.Named) (int, bool) {
	if n == nil || n.Obj().Pkg() != ci.parser {
		return 0, false
	}
	name := n.Obj().Name()
	if strings.HasSuffix(name, "Stmt") || strings.HasSuffix(name, "Statement") || name == "Program" || name == "ConditionalBlock" || name == "Decl" {
		return 0, true
	}
	return 1, true
}

func (ci *ceInterp) classOfArg(e ast.Expr, stmtVars map[types.Object]bool) int {
	e = ast.Unparen(e)
	t := ci.info.TypeOf(e)
	if pt, ok := t.(*types.Pointer); ok {
		if c, ok := ci.classOfNamed(namedOf(pt.Elem())); ok {
			return c
		}
	}
	if id, ok := e.(*ast.Ident); ok && stmtVars[ci.info.ObjectOf(id)] {
		return 0
	}
	return 1
}

// value of an operand expression
func (ci *ceInterp) operandValue(e ast.Expr, st *ceState) (slin, bool) {
	e = ast.Unparen(e)
	if v, ok := constInt(ci.info, e); ok {
		return slinConst(int(v)), true
	}
	switch x := e.(type) {
	case *ast.Ident:
		if s, ok := st.env[ci.info.ObjectOf(x)]; ok {
			var n int
			if _, err := fmt.Sscanf(s, "%d", &n); err == nil {
				return slinConst(n), true
			}
		}
	case *ast.CallExpr:
		if isBuiltinCall(ci.info, x, "len") && len(x.Args) == 1 {
			return slin{"len(" + ci.lenKey(x.Args[0]) + ")": 1}, true
		}
	}
	return nil, false
}

// lenKey canonicalises the operand of len(): the two views of a map literal have one length.
func (ci *ceInterp) lenKey(e ast.Expr) string {
	if sel, ok := ast.Unparen(e).(*ast.SelectorExpr); ok {
		if pt, ok := ci.info.TypeOf(sel.X).(*types.Pointer); ok {
			if n := namedOf(pt.Elem()); n != nil && n.Obj().Name() == "MapLiteral" && (sel.Sel.Name == "Order" || sel.Sel.Name == "Pairs") {
				return types.ExprString(sel.X) + ".Pairs"
			}
		}
	}
	return types.ExprString(e)
}

func (ci *ceInterp) opcodeOf(e ast.Expr, st *ceState) string {
	e = ast.Unparen(e)
	if k := constOf(ci.info, e); k != nil {
		return k.Name()
	}
	if id, ok := e.(*ast.Ident); ok {
		return st.env[ci.info.ObjectOf(id)]
	}
	return ""
}

// applyEmit applies the effect of emitting op with the given operand expressions; returns the jump record if the
// instruction is a placeholder jump.
func (ci *ceInterp) applyEmit(call *ast.CallExpr, st *ceState) *jumpRec {
	ci.nEmit++
	if len(call.Args) == 0 {
		return nil
	}
	op := ci.opcodeOf(call.Args[0], st)
	if op == "" {
		ci.unknown("emit:unknown-opcode", call.Pos(), "the opcode of this emit is not a constant on this path: "+types.ExprString(call.Args[0]))
		return nil
	}
	eff := ci.vm.effects[op]
	if eff == nil {
		ci.fail("emit:"+op, call.Pos(), "opcode "+op+" has no case in (*VM).Run")
		return nil
	}
	if why := ci.vm.problem[op]; why != "" {
		ci.fail("emit:"+op, call.Pos(), "the stack effect of "+op+" cannot be derived from (*VM).Run: "+why)
		return nil
	}
	var operand slin
	hasOperand := false
	if len(call.Args) > 1 {
		operand, hasOperand = ci.operandValue(call.Args[1], st)
	}
	subst := func(l slin) (slin, bool) {
		out := slin{"": l[""]}
		if c := l["N"]; c != 0 {
			if !hasOperand {
				return nil, false
			}
			out = out.add(operand, c)
		}
		return out, true
	}
	pops, ok1 := subst(eff.pops)
	pushes, ok2 := subst(eff.pushes)
	if !ok1 || !ok2 {
		ci.unknown("emit:"+op+":operand", call.Pos(), "the stack effect of "+op+" depends on its operand, whose value is not known here: "+types.ExprString(call))
		return nil
	}
	if st.pending != nil && op != "OpJumpOnFalse" {
		ci.fail("range-bool-consumed", call.Pos(), "a range opcode leaves its loop value on the stack only when the boolean it pushed is true; the next instruction must be OpJumpOnFalse, found "+op)
		st.pending = nil
	}
	isPlaceholder := false
	if len(call.Args) > 1 {
		if k := constOf(ci.info, call.Args[1]); k != nil && k.Name() == "JumpPlaceholder" {
			isPlaceholder = true
		}
	}
	switch op {
	case "OpJumpOnFalse":
		st.h = st.h.add(pops, -1)
		ci.checkFloor(st, call.Pos(), op)
		taken := st.h.clone()
		if st.pending != nil {
			st.h = st.h.add(*st.pending, 1)
			st.pending = nil
		}
		if isPlaceholder {
			return &jumpRec{h: taken, pos: call.Pos()}
		}
		ci.checkJumpTarget(call, taken, st)
		return nil
	case "OpJump":
		if isPlaceholder {
			return &jumpRec{h: st.h.clone(), pos: call.Pos()}
		}
		ci.checkJumpTarget(call, st.h, st)
		return nil
	}
	st.h = st.h.add(pops, -1)
	ci.checkFloor(st, call.Pos(), op)
	st.h = st.h.add(pushes, 1)
	if eff.condPush {
		extra := slin{}
		if hasOperand {
			if c, isConst := operand.constOnly(); isConst && c != 0 {
				extra = slinConst(1)
			} else if !isConst {
				ci.unknown("emit:"+op+":operand", call.Pos(), "the operand of "+op+" (has a loop variable or not) is not a constant on this path")
			}
		}
		st.pending = &extra
	}
	return nil
}

func (ci *ceInterp) checkFloor(st *ceState, pos token.Pos, what string) {
	ci.floorAt(st.h, pos, what)
}

// floorAt: the height h (relative to the entry of the function being interpreted) is reached. In a case of Compile
// the entry height is the floor; in a helper the value is recorded and checked where the helper is called.
func (ci *ceInterp) floorAt(h slin, pos token.Pos, what string) {
	if h.nonNeg() {
		return
	}
	if ci.root {
		ci.fail("underflow", pos, fmt.Sprintf("%s pops below the height at which the translation of this node started (height %s relative to it): the operand stack would underflow into the locals or the enclosing expression's operands", what, h))
		return
	}
	for _, f := range ci.floors[ci.cur.Obj] {
		if f.eq(h) {
			return
		}
	}
	ci.floors[ci.cur.Obj] = append(ci.floors[ci.cur.Obj], h.clone())
}

func (ci *ceInterp) checkJumpTarget(call *ast.CallExpr, h slin, st *ceState) {
	ci.nPatch++
	if len(call.Args) < 2 {
		return
	}
	id, ok := ast.Unparen(call.Args[1]).(*ast.Ident)
	if !ok {
		ci.unknown("jump-target", call.Pos(), "the target of this jump is not a recorded instruction position")
		return
	}
	lh, ok := st.labels[ci.info.ObjectOf(id)]
	if !ok {
		ci.unknown("jump-target", call.Pos(), "the target "+id.Name+" of this jump is not a position taken from len(c.instructions)")
		return
	}
	if !lh.eq(h) {
		ci.fail("jump-height:"+id.Name, call.Pos(), fmt.Sprintf("this jump reaches %s with stack height %s, but the code at %s was emitted at height %s (heights relative to the statement's base): the instructions there run with a different stack than they were compiled for", id.Name, h, id.Name, lh))
	}
}

// restRejected: Compile rejects every node kind that can still reach this call.
func (ci *ceInterp) restRejected(arg ast.Expr) (string, bool) {
	if ci.restOK == nil {
		return "", false
	}
	return ci.restOK(arg)
}

func typeSwitchSubject(x *ast.TypeSwitchStmt) ast.Expr {
	var e ast.Expr
	switch a := x.Assign.(type) {
	case *ast.AssignStmt:
		if len(a.Rhs) == 1 {
			e = a.Rhs[0]
		}
	case *ast.ExprStmt:
		e = a.X
	}
	if ta, ok := ast.Unparen(e).(*ast.TypeAssertExpr); ok {
		return ta.X
	}
	return nil
}

// run interprets fd from height 0 and returns the outcomes of its accepting returns.
func (ci *ceInterp) run(fd *FuncDecl) []ceOutcome {
	if out, ok := ci.summary[fd.Obj]; ok {
		return out
	}
	if ci.inFlight[fd.Obj] {
		return nil
	}
	ci.inFlight[fd.Obj] = true
	saved, savedRoot := ci.cur, ci.root
	ci.cur, ci.root = fd, false
	st := &ceState{h: slin{}, env: map[types.Object]string{}, labels: map[types.Object]slin{}, jumps: map[types.Object][]jumpRec{}, facts: map[string]bool{}}
	var outs []ceOutcome
	finals := ci.block(fd.Decl.Body.List, []*ceState{st}, &outs, map[types.Object]bool{})
	for _, f := range finals { // falling off the end
		if !f.dead {
			outs = append(outs, ceOutcome{h: f.h, bodyBase: f.bodyBase})
		}
	}
	ci.cur, ci.root = saved, savedRoot
	delete(ci.inFlight, fd.Obj)
	ci.summary[fd.Obj] = outs
	return outs
}

func (ci *ceInterp) block(stmts []ast.Stmt, states []*ceState, outs *[]ceOutcome, stmtVars map[types.Object]bool) []*ceState {
	for _, s := range stmts {
		var next []*ceState
		for _, st := range states {
			next = append(next, ci.stmt(s, st, outs, stmtVars)...)
		}
		states = next
		if len(states) > 256 {
			ci.unknown("path-explosion", s.Pos(), "too many paths")
			return nil
		}
	}
	return states
}

// isErrNil: `err != nil`
func isErrNotNil(info *types.Info, e ast.Expr) bool {
	be, ok := ast.Unparen(e).(*ast.BinaryExpr)
	if !ok || be.Op != token.NEQ {
		return false
	}
	if id, ok := be.Y.(*ast.Ident); !ok || id.Name != "nil" {
		return false
	}
	return isErrorType(info.TypeOf(be.X))
}

// evalCalls applies the effects of the calls in an expression/statement; returns jump record and returned jumps of the last call.
func (ci *ceInterp) evalCalls(n ast.Node, st *ceState, stmtVars map[types.Object]bool) (last *jumpRec, rets []jumpRec, calleeOuts int) {
	calleeOuts = -1
	if n == nil {
		return
	}
	ast.Inspect(n, func(nd ast.Node) bool {
		if _, isLit := nd.(*ast.FuncLit); isLit {
			return false
		}
		call, ok := nd.(*ast.CallExpr)
		if !ok {
			return true
		}
		cf := calleeFunc(ci.info, call)
		if cf == nil || cf.Pkg() != ci.pkg.Types {
			return true
		}
		rn := recvNamed(cf)
		switch {
		case rn != nil && rn.Obj().Name() == "Compiler" && (cf.Name() == "emit" || cf.Name() == "emitPos"):
			// arguments first (addConstant etc. have no stack effect)
			last = ci.applyEmit(call, st)
			return false
		case rn != nil && rn.Obj().Name() == "Compiler" && cf.Name() == "Compile":
			if st.pending != nil {
				ci.fail("range-bool-consumed", call.Pos(), "a range opcode's boolean must be consumed by OpJumpOnFalse before anything else is translated")
				st.pending = nil
			}
			if len(call.Args) == 1 && st.facts["rest-of:"+types.ExprString(call.Args[0])] {
				// Compile(x) for the node kinds a preceding type switch over x did not handle
				if why, ok := ci.restRejected(call.Args[0]); ok {
					ci.exempt[ci.cur.QName()+"#rest-of:"+types.ExprString(call.Args[0])] = [2]string{ci.p.Rel(call.Pos()), why}
					st.dead = true
					return false
				}
			}
			if len(call.Args) == 1 {
				cls := ci.classOfArg(call.Args[0], stmtVars)
				if cls == 0 {
					if pt, ok := ci.info.TypeOf(call.Args[0]).(*types.Pointer); ok {
						if nn := namedOf(pt.Elem()); nn != nil && nn.Obj().Name() == "BlockStatement" {
							b := st.h.clone()
							st.bodyBase = &b
						}
					}
				}
				st.h = st.h.add(slinConst(cls), 1)
			}
			return false
		case rn != nil && rn.Obj().Name() == "Instructions" && cf.Name() == "changeOperand":
			ci.nPatch++
			if len(call.Args) == 2 {
				ci.patch(call, st)
			}
			return false
		case rn != nil && rn.Obj().Name() == "Compiler":
			callee := ci.funcs[cf]
			if callee == nil {
				return true
			}
			if st.pending != nil {
				ci.fail("range-bool-consumed", call.Pos(), "a range opcode's boolean must be consumed by OpJumpOnFalse before anything else is translated")
				st.pending = nil
			}
			// a helper that is handed recorded positions (labels, placeholder jumps) is interpreted in place, with its
			// parameters bound to them, so that patches inside the helper are checked against the caller's heights
			if ci.inlineDepth < 3 && callee.Decl.Type.Params != nil {
				bindL := map[types.Object]slin{}
				bindJ := map[types.Object][]jumpRec{}
				var params []*ast.Ident
				for _, f := range callee.Decl.Type.Params.List {
					params = append(params, f.Names...)
				}
				variadic := false
				if sig, ok := cf.Type().(*types.Signature); ok {
					variadic = sig.Variadic()
				}
				for i, a := range call.Args {
					// positions handed to a variadic parameter (patchJumps(target, a, b) / patchJumps(target, list...)):
					// the parameter is the list of all of them
					if variadic && len(params) > 0 && i >= len(params)-1 {
						pobj := ci.info.ObjectOf(params[len(params)-1])
						switch x := ast.Unparen(a).(type) {
						case *ast.Ident:
							if j, ok := st.jumps[ci.info.ObjectOf(x)]; ok {
								bindJ[pobj] = append(bindJ[pobj], j...)
							}
						case *ast.SelectorExpr:
							if x.Sel.Name == "breaks" && st.bodyBase != nil {
								bindJ[pobj] = append(bindJ[pobj], jumpRec{h: st.bodyBase.clone(), pos: a.Pos()})
							}
						}
						continue
					}
					if i >= len(params) {
						continue
					}
					if lc, ok := ast.Unparen(a).(*ast.CallExpr); ok && isBuiltinCall(ci.info, lc, "len") && len(lc.Args) == 1 {
						if sel, ok := ast.Unparen(lc.Args[0]).(*ast.SelectorExpr); ok && sel.Sel.Name == "instructions" {
							bindL[ci.info.ObjectOf(params[i])] = st.h.clone() // the position of the next instruction
						}
						continue
					}
					id, ok := ast.Unparen(a).(*ast.Ident)
					if !ok {
						continue
					}
					obj := ci.info.ObjectOf(id)
					if l, ok := st.labels[obj]; ok {
						bindL[ci.info.ObjectOf(params[i])] = l
					}
					if j, ok := st.jumps[obj]; ok {
						bindJ[ci.info.ObjectOf(params[i])] = j
					}
				}
				if len(bindL)+len(bindJ) > 0 {
					ci.inlined[cf] = true
					in := &ceState{h: st.h.clone(), env: map[types.Object]string{}, labels: bindL, jumps: bindJ, facts: map[string]bool{}, bodyBase: st.bodyBase}
					var outs []ceOutcome
					saved := ci.cur
					ci.cur = callee
					ci.inlineDepth++
					finals := ci.block(callee.Decl.Body.List, []*ceState{in}, &outs, map[types.Object]bool{})
					ci.inlineDepth--
					ci.cur = saved
					for _, f := range finals {
						if !f.dead {
							outs = append(outs, ceOutcome{h: f.h, bodyBase: f.bodyBase})
						}
					}
					if len(outs) > 0 {
						for _, o := range outs[1:] {
							if !o.h.eq(outs[0].h) {
								ci.fail("callee:"+cf.Name(), call.Pos(), fmt.Sprintf("%s leaves different stack heights on its accepting paths (%s and %s)", cf.Name(), outs[0].h, o.h))
							}
						}
						st.h = outs[0].h
						if outs[0].bodyBase != nil {
							st.bodyBase = outs[0].bodyBase // the helper translated the loop body
						}
					}
					return false
				}
			}
			outs := ci.run(callee)
			if len(outs) == 0 {
				for _, f := range ci.floors[cf] {
					ci.floorAt(st.h.add(f, 1), call.Pos(), cf.Name())
				}
				return false // no accepting path (or recursion): no effect known; helpers without emits fall here too
			}
			h0 := outs[0].h
			for _, o := range outs[1:] {
				if !o.h.eq(h0) {
					ci.fail("callee:"+cf.Name(), call.Pos(), fmt.Sprintf("%s leaves different stack heights on its accepting paths (%s and %s)", cf.Name(), h0, o.h))
				}
			}
			for _, f := range ci.floors[cf] {
				ci.floorAt(st.h.add(f, 1), call.Pos(), cf.Name())
			}
			calleeOuts = len(outs)
			for _, o := range outs {
				for _, j := range o.ret {
					rets = append(rets, jumpRec{h: st.h.add(j.h, 1), pos: j.pos})
				}
			}
			if outs[0].bodyBase != nil {
				b := st.h.add(*outs[0].bodyBase, 1)
				st.bodyBase = &b
			}
			st.h = st.h.add(h0, 1)
			if callee.Obj.Name() == "compileBlockStatement" {
				// handled through Compile's class; a direct call is a statement as well
			}
			return false
		}
		return true
	})
	return
}

func (ci *ceInterp) patch(call *ast.CallExpr, st *ceState) {
	// changeOperand(L[i], target) inside a counting loop over the list L
	if ix, ok := ast.Unparen(call.Args[0]).(*ast.IndexExpr); ok && st.indexed != nil {
		if js, ok := st.indexed[types.ExprString(ix.X)]; ok {
			if lid, ok := ast.Unparen(call.Args[1]).(*ast.Ident); ok {
				if lh, ok := st.labels[ci.info.ObjectOf(lid)]; ok {
					for _, j := range js {
						if !j.h.eq(lh) {
							ci.fail("jump-height:"+types.ExprString(ix.X)+"→"+lid.Name, call.Pos(), fmt.Sprintf("a jump recorded in %s is taken with stack height %s, but its target %s was emitted at height %s (relative to the statement's base): "+
								"the code behind the jump runs with a different stack than it was compiled for (a value is leaked or popped twice on that path)", types.ExprString(ix.X), j.h, lid.Name, lh))
						}
					}
					return
				}
			}
		}
	}
	pid, ok1 := ast.Unparen(call.Args[0]).(*ast.Ident)
	lid, ok2 := ast.Unparen(call.Args[1]).(*ast.Ident)
	if !ok1 || !ok2 {
		ci.unknown("patch", call.Pos(), "changeOperand is called with something other than a recorded jump position and a recorded target")
		return
	}
	lh, ok := st.labels[ci.info.ObjectOf(lid)]
	if !ok {
		ci.unknown("patch:"+lid.Name, call.Pos(), "the patch target "+lid.Name+" is not a position taken from len(c.instructions)")
		return
	}
	js, ok := st.jumps[ci.info.ObjectOf(pid)]
	if !ok {
		ci.unknown("patch:"+pid.Name, call.Pos(), "the patched position "+pid.Name+" is not the position of a placeholder jump emitted on this path")
		return
	}
	for _, j := range js {
		if !j.h.eq(lh) {
			ci.fail("jump-height:"+pid.Name+"→"+lid.Name, call.Pos(), fmt.Sprintf("the jump recorded in %s is taken with stack height %s, but its target %s was emitted at height %s (relative to the statement's base): "+
				"the code behind the jump runs with a different stack than it was compiled for (a value is leaked or popped twice on that path)", pid.Name, j.h, lid.Name, lh))
		}
	}
}

func (ci *ceInterp) stmt(s ast.Stmt, st *ceState, outs *[]ceOutcome, stmtVars map[types.Object]bool) []*ceState {
	switch x := s.(type) {
	case *ast.ReturnStmt:
		// error return?
		isErr := false
		if n := len(x.Results); n > 0 {
			last := ast.Unparen(x.Results[n-1])
			if id, ok := last.(*ast.Ident); ok && id.Name != "nil" && isErrorType(ci.info.TypeOf(id)) {
				isErr = true
			}
			if call, ok := last.(*ast.CallExpr); ok {
				if cf := calleeFunc(ci.info, call); cf != nil && cf.Pkg() != nil && cf.Pkg().Path() == "fmt" {
					isErr = true
				}
			}
		}
		if isErr {
			return nil
		}
		_, rets, _ := ci.evalCalls(x, st, stmtVars)
		if st.dead {
			return nil
		}
		o := ceOutcome{h: st.h, ret: rets, bodyBase: st.bodyBase}
		anyVal := false
		for _, re := range x.Results {
			v := ""
			if k := constOf(ci.info, re); k != nil && namedOf(k.Type()) != nil && namedOf(k.Type()).Obj().Name() == "Opcode" {
				v = k.Name()
			} else if n, ok := constInt(ci.info, re); ok {
				v = fmt.Sprint(n)
			} else if id, ok := ast.Unparen(re).(*ast.Ident); ok {
				v = st.env[ci.info.ObjectOf(id)]
			}
			if v != "" && !isErrorType(ci.info.TypeOf(re)) {
				anyVal = true
			}
			o.vals = append(o.vals, v)
		}
		if !anyVal {
			o.vals = nil
		}
		// `return jumpPos, nil`
		if len(x.Results) == 2 {
			if id, ok := ast.Unparen(x.Results[0]).(*ast.Ident); ok {
				o.ret = append(o.ret, st.jumps[ci.info.ObjectOf(id)]...)
			}
		}
		if st.pending != nil {
			ci.fail("range-bool-consumed", x.Pos(), "the function returns with a range opcode's boolean unconsumed")
		}
		*outs = append(*outs, o)
		return nil
	case *ast.IfStmt:
		if x.Init != nil {
			sts := ci.stmt(x.Init, st, outs, stmtVars)
			if len(sts) != 1 {
				return sts
			}
			st = sts[0]
		}
		if isErrNotNil(ci.info, x.Cond) {
			// the error branch: follow it only if it does not return (it always does here); then: discarded
			body := ci.block(x.Body.List, []*ceState{st.clone()}, &[]ceOutcome{}, stmtVars)
			_ = body
			if x.Else != nil {
				return ci.stmt(x.Else, st, outs, stmtVars)
			}
			return []*ceState{st}
		}
		key := types.ExprString(x.Cond)
		// `!ok` after `x, ok := Resolve(...)`: undefined variable is an error path when the body returns an error
		var res []*ceState
		follow := func(truth bool) {
			c := st.clone()
			c.facts[key] = truth
			if truth {
				res = append(res, ci.block(x.Body.List, []*ceState{c}, outs, stmtVars)...)
			} else if x.Else != nil {
				res = append(res, ci.stmt(x.Else, c, outs, stmtVars)...)
			} else {
				res = append(res, c)
			}
		}
		if known, ok := st.facts[key]; ok {
			follow(known)
		} else {
			follow(true)
			follow(false)
		}
		return res
	case *ast.BlockStmt:
		return ci.block(x.List, []*ceState{st}, outs, stmtVars)
	case *ast.SwitchStmt:
		if x.Init != nil {
			sts := ci.stmt(x.Init, st, outs, stmtVars)
			if len(sts) != 1 {
				return sts
			}
			st = sts[0]
		}
		var res []*ceState
		hasDefault := false
		for _, c := range x.Body.List {
			cc := c.(*ast.CaseClause)
			if cc.List == nil {
				hasDefault = true
			}
			res = append(res, ci.block(cc.Body, []*ceState{st.clone()}, outs, stmtVars)...)
		}
		if !hasDefault {
			res = append(res, st)
		}
		return res
	case *ast.TypeSwitchStmt:
		var res []*ceState
		hasDefault := false
		for _, c := range x.Body.List {
			cc := c.(*ast.CaseClause)
			if cc.List == nil {
				hasDefault = true
			}
			res = append(res, ci.block(cc.Body, []*ceState{st.clone()}, outs, stmtVars)...)
		}
		if !hasDefault {
			// the rest of the node kinds: remember which expression was switched on
			if tag := typeSwitchSubject(x); tag != nil {
				st.facts["rest-of:"+types.ExprString(tag)] = true
			}
			res = append(res, st)
		}
		return res
	case *ast.RangeStmt:
		return ci.rangeStmt(x, st, outs, stmtVars)
	case *ast.ForStmt:
		// for i := 0; i < len(L); i++ { … L[i] … } over a list of recorded jump positions (c.breaks, a local list):
		// the body is interpreted once with L[i] standing for every position in the list; it must not move the stack
		if list := countingLoopOver(ci.info, x); list != nil {
			var js []jumpRec
			known := false
			switch l := ast.Unparen(list).(type) {
			case *ast.SelectorExpr:
				if l.Sel.Name == "breaks" && st.bodyBase != nil {
					js, known = []jumpRec{{h: st.bodyBase.clone(), pos: x.Pos()}}, true
				}
			case *ast.Ident:
				js, known = st.jumps[ci.info.ObjectOf(l)]
			}
			if known {
				inner := st.clone()
				inner.indexed = map[string][]jumpRec{types.ExprString(list): js}
				res := ci.block(x.Body.List, []*ceState{inner}, outs, stmtVars)
				for _, r2 := range res {
					if !r2.h.eq(st.h) {
						ci.fail("loop-effect", x.Pos(), "a loop over recorded jump positions changes the stack height")
					}
				}
				return []*ceState{st}
			}
		}
		ci.unknown("loop", x.Pos(), "a for loop with a condition in the compiler: its trip count is not a list length")
		return []*ceState{st}
	case *ast.AssignStmt:
		return ci.assign(x, st, stmtVars)
	case *ast.DeclStmt:
		// var x T : nothing
		return []*ceState{st}
	case *ast.ExprStmt:
		ci.evalCalls(x, st, stmtVars)
		return []*ceState{st}
	case *ast.DeferStmt, *ast.GoStmt:
		ci.unknown("defer", x.Pos(), "deferred work in a compile function is not modelled")
		return []*ceState{st}
	}
	ci.evalCalls(s, st, stmtVars)
	return []*ceState{st}
}

func (ci *ceInterp) assign(x *ast.AssignStmt, st *ceState, stmtVars map[types.Object]bool) []*ceState {
	// a, b, err := c.helper(…) where the helper's accepting paths return different constants (an opcode and the number
	// of values it left on the stack): the caller goes on once per such path, with the constants bound
	if len(x.Rhs) == 1 && len(x.Lhs) > 1 {
		if call, ok := ast.Unparen(x.Rhs[0]).(*ast.CallExpr); ok {
			if cf := calleeFunc(ci.info, call); cf != nil && cf.Pkg() == ci.pkg.Types && cf.Name() != "emit" && cf.Name() != "emitPos" && cf.Name() != "Compile" {
				if rn := recvNamed(cf); rn != nil && rn.Obj().Name() == "Compiler" && ci.funcs[cf] != nil && st.pending == nil {
					outs := ci.run(ci.funcs[cf])
					distinct := map[string]bool{}
					for _, o := range outs {
						if o.vals != nil {
							distinct[o.valsKey()] = true
						}
					}
					if len(distinct) > 1 {
						var res []*ceState
						for _, o := range outs {
							c := st.clone()
							for _, f := range ci.floors[cf] {
								ci.floorAt(c.h.add(f, 1), call.Pos(), cf.Name())
							}
							c.h = c.h.add(o.h, 1)
							for i, l := range x.Lhs {
								if id, ok := l.(*ast.Ident); ok && i < len(o.vals) {
									obj := ci.info.ObjectOf(id)
									if o.vals[i] != "" {
										c.env[obj] = o.vals[i]
									} else {
										delete(c.env, obj)
									}
								}
							}
							res = append(res, c)
						}
						return res
					}
				}
			}
		}
	}
	// labels: v := len(c.instructions)
	if len(x.Lhs) == 1 && len(x.Rhs) == 1 {
		if call, ok := ast.Unparen(x.Rhs[0]).(*ast.CallExpr); ok && isBuiltinCall(ci.info, call, "len") && len(call.Args) == 1 {
			if sel, ok := ast.Unparen(call.Args[0]).(*ast.SelectorExpr); ok && sel.Sel.Name == "instructions" {
				if id, ok := x.Lhs[0].(*ast.Ident); ok {
					if st.pending != nil {
						ci.fail("range-bool-consumed", x.Pos(), "a position is recorded while a range opcode's boolean is unconsumed")
					}
					st.labels[ci.info.ObjectOf(id)] = st.h.clone()
					return []*ceState{st}
				}
			}
		}
	}
	// constants into locals: a, b = OpX, 2
	if len(x.Lhs) == len(x.Rhs) {
		for i, l := range x.Lhs {
			id, ok := l.(*ast.Ident)
			if !ok {
				continue
			}
			obj := ci.info.ObjectOf(id)
			if k := constOf(ci.info, x.Rhs[i]); k != nil && namedOf(k.Type()) != nil && namedOf(k.Type()).Obj().Name() == "Opcode" {
				st.env[obj] = k.Name()
			} else if v, ok := constInt(ci.info, x.Rhs[i]); ok {
				st.env[obj] = fmt.Sprint(v)
			} else if _, had := st.env[obj]; had {
				delete(st.env, obj)
			}
			// slices of jump positions: xs := []int{a}; xs = append(xs, b); saved := c.breaks
			switch r := ast.Unparen(x.Rhs[i]).(type) {
			case *ast.CompositeLit:
				var js []jumpRec
				for _, el := range r.Elts {
					if eid, ok := el.(*ast.Ident); ok {
						js = append(js, st.jumps[ci.info.ObjectOf(eid)]...)
					}
				}
				if len(js) > 0 {
					st.jumps[obj] = js
				}
			case *ast.CallExpr:
				if isBuiltinCall(ci.info, r, "append") && len(r.Args) == 2 {
					if base, ok := ast.Unparen(r.Args[0]).(*ast.Ident); ok {
						if el, ok := ast.Unparen(r.Args[1]).(*ast.Ident); ok {
							st.jumps[obj] = append(append([]jumpRec{}, st.jumps[ci.info.ObjectOf(base)]...), st.jumps[ci.info.ObjectOf(el)]...)
						}
					}
				}
			}
		}
	}
	last, rets, _ := ci.evalCalls(x, st, stmtVars)
	// pos, err := c.emitPos(OpJump…, JumpPlaceholder)  |  pos, err := c.compileConditionalBlock(…)
	if len(x.Lhs) >= 1 {
		if id, ok := x.Lhs[0].(*ast.Ident); ok {
			obj := ci.info.ObjectOf(id)
			if last != nil {
				st.jumps[obj] = []jumpRec{*last}
			} else if len(rets) > 0 {
				st.jumps[obj] = rets
			}
		}
	}
	return []*ceState{st}
}

func (ci *ceInterp) rangeStmt(x *ast.RangeStmt, st *ceState, outs *[]ceOutcome, stmtVars map[types.Object]bool) []*ceState {
	// range over recorded jumps: `for _, p := range jumpPositions` / `range c.breaks`
	var elemObj types.Object
	if id, ok := x.Value.(*ast.Ident); ok {
		elemObj = ci.info.ObjectOf(id)
	}
	inner := st.clone()
	switch src := ast.Unparen(x.X).(type) {
	case *ast.Ident:
		if js, ok := st.jumps[ci.info.ObjectOf(src)]; ok && elemObj != nil {
			inner.jumps[elemObj] = js
			res := ci.block(x.Body.List, []*ceState{inner}, outs, stmtVars)
			for _, r2 := range res {
				if !r2.h.eq(st.h) {
					ci.fail("loop-effect", x.Pos(), "a loop over recorded jump positions changes the stack height")
				}
			}
			return []*ceState{st}
		}
	case *ast.SelectorExpr:
		if src.Sel.Name == "breaks" && elemObj != nil {
			if st.bodyBase == nil {
				ci.unknown("breaks-base", x.Pos(), "the break list is patched, but no loop body was translated on this path")
				return []*ceState{st}
			}
			inner.jumps[elemObj] = []jumpRec{{h: st.bodyBase.clone(), pos: x.Pos()}}
			ci.block(x.Body.List, []*ceState{inner}, outs, stmtVars)
			return []*ceState{st}
		}
	}
	// a loop over a list of the syntax tree: effect of the body times the length of the list
	sv := map[types.Object]bool{}
	for k, v := range stmtVars {
		sv[k] = v
	}
	if sel, ok := ast.Unparen(x.X).(*ast.SelectorExpr); ok && sel.Sel.Name == "Statements" && elemObj != nil {
		sv[elemObj] = true
	}
	body := &ceState{h: slin{}, env: inner.env, labels: inner.labels, jumps: inner.jumps, facts: map[string]bool{}}
	for k, v := range st.facts {
		body.facts[k] = v
	}
	var loopOuts []ceOutcome
	res := ci.block(x.Body.List, []*ceState{body}, &loopOuts, sv)
	if len(loopOuts) > 0 {
		ci.unknown("loop-return", x.Pos(), "an accepting return inside a loop over the syntax tree is not modelled")
	}
	var eff slin
	for i, r2 := range res {
		if i == 0 {
			eff = r2.h
		} else if !r2.h.eq(eff) {
			ci.fail("loop-effect", x.Pos(), fmt.Sprintf("the paths through this loop body leave different stack heights (%s and %s)", eff, r2.h))
		}
		if !r2.h.nonNeg() {
			ci.fail("underflow", x.Pos(), "a loop body ends below the height it was entered with: the loop pops more with every iteration")
		}
	}
	if len(res) == 0 || len(eff) == 0 {
		return []*ceState{st}
	}
	trip := slin{"len(" + ci.lenKey(x.X) + ")": 1}
	total, ok := eff.mul(trip)
	if !ok {
		ci.fail("loop-effect", x.Pos(), "the stack effect of a loop iteration is not constant")
		return []*ceState{st}
	}
	st.h = st.h.add(total, 1)
	return []*ceState{st}
}

// ---------------------------------------------------------------------------

func runStackEffect(c *Ctx, r *Reporter) {
	p, pkg := bytecodePkg(c, r)
	if pkg == nil {
		return
	}
	pp := p.Pkg("pkg/parser")
	if pp == nil {
		r.Undecided("pkg/parser not loaded")
		return
	}
	vm, why := deriveVMEffects(pkg)
	if vm == nil {
		r.Undecided("%s", why)
		return
	}
	// (V) one obligation per opcode
	var ops []string
	for op := range vm.effects {
		ops = append(ops, op)
	}
	sort.Strings(ops)
	for _, op := range ops {
		e := vm.effects[op]
		construct := "pkg/bytecode.(*VM).Run#effect:" + op
		if why := vm.problem[op]; why != "" {
			r.Viol(construct, p.Rel(e.pos), "the stack effect of "+op+" is not the same on all paths: "+why)
			continue
		}
		desc := fmt.Sprintf("pops %s, pushes %s", e.pops, e.pushes)
		if e.condPush {
			desc += ", plus the loop value when the pushed boolean is true and the operand is not 0"
		}
		r.Ok(construct, p.Rel(e.pos), desc)
	}
	// every opcode constant has a derived effect
	for _, k := range constsOfType(pkg.Types, "Opcode") {
		if vm.effects[k.Name()] == nil {
			r.Viol("pkg/bytecode.(*VM).Run#effect:"+k.Name(), p.Rel(k.Pos()), "opcode "+k.Name()+" has no case in the dispatch switch of (*VM).Run")
		}
	}
	// lemma: MapLiteral.Order and .Pairs are extended together, behind the duplicate test
	mapLiteralLemma(p, pp, r)

	// (C)
	ci := &ceInterp{p: p, pkg: pkg, info: pkg.TypesInfo, vm: vm, r: r, funcs: map[*types.Func]*FuncDecl{}, summary: map[*types.Func][]ceOutcome{}, inFlight: map[*types.Func]bool{},
		viol: map[string]string{}, violPos: map[string]token.Pos{}, parser: pp.Types, floors: map[*types.Func][]slin{}, exempt: map[string][2]string{}, undec: map[string]string{}, inlined: map[*types.Func]bool{}}
	var compilerFuncs []*FuncDecl
	for _, fd := range Funcs(pkg) {
		ci.funcs[fd.Obj] = fd
		if rn := recvNamed(fd.Obj); rn != nil && rn.Obj().Name() == "Compiler" {
			compilerFuncs = append(compilerFuncs, fd)
		}
	}
	compile := FindFunc(pkg, "(*Compiler).Compile")
	if compile == nil {
		r.Undecided("(*Compiler).Compile not found")
		return
	}
	// each case of Compile's type switch under the induction hypothesis
	tss := typeSwitches(pkg.TypesInfo, compile.Decl.Body, func(ast.Expr) bool { return true })
	if len(tss) == 0 {
		r.Undecided("(*Compiler).Compile has no type switch")
		return
	}
	cases, _ := typeSwitchCases(pkg.TypesInfo, tss[0])
	var names []*types.TypeName
	for tn := range cases {
		names = append(names, tn)
	}
	sort.Slice(names, func(i, j int) bool { return names[i].Name() < names[j].Name() })
	ci.cur = compile
	// the rest of an assignment's target kinds: the parser builds a target from a variable, index steps and field
	// steps only (parseAssignmentTarget; slices are refused there), so what a type switch over Var and
	// IndexExpression leaves is a DotExpression — rejected by Compile as long as it has no case for it
	ci.restOK = func(arg ast.Expr) (string, bool) {
		sel, ok := ast.Unparen(arg).(*ast.SelectorExpr)
		if !ok || sel.Sel.Name != "Target" {
			return "", false
		}
		if pt, ok := ci.info.TypeOf(sel.X).(*types.Pointer); !ok || namedOf(pt.Elem()) == nil || namedOf(pt.Elem()).Obj().Name() != "AssignmentStmt" {
			return "", false
		}
		for tn := range cases {
			if tn.Name() == "DotExpression" {
				return "", false
			}
		}
		return "reached only for a target that is neither a variable nor an index expression, i.e. a field access (parseAssignmentTarget builds nothing else; slices are refused there): Compile has no case for DotExpression and rejects it, so this is a compile-time error path, not an accepting one", true
	}
	tail := stmtsAfter(compile.Decl.Body.List, tss[0])
	seenViol := map[string]bool{}
	for _, tn := range names {
		cc := cases[tn]
		want, ok := ci.classOfNamed(namedOf(tn.Type()))
		if !ok {
			continue
		}
		st := &ceState{h: slin{}, env: map[types.Object]string{}, labels: map[types.Object]slin{}, jumps: map[types.Object][]jumpRec{}, facts: map[string]bool{}}
		var outs []ceOutcome
		before := len(ci.viol)
		ci.cur, ci.root = compile, true
		finals := ci.block(cc.Body, []*ceState{st}, &outs, map[types.Object]bool{})
		finals = ci.block(tail, finals, &outs, map[types.Object]bool{})
		ci.root = false
		for _, f := range finals {
			outs = append(outs, ceOutcome{h: f.h})
		}
		construct := "pkg/bytecode.(*Compiler).Compile#case:" + tn.Name()
		bad := ""
		for _, o := range outs {
			if !o.h.eq(slinConst(want)) {
				bad = o.h.String()
			}
		}
		kind := map[int]string{0: "statement: leaves the stack as it found it", 1: "expression: leaves exactly one value"}[want]
		switch {
		case len(outs) == 0:
			r.Viol(construct, p.Rel(cc.Pos()), "no accepting path through the translation of "+tn.Name()+" could be followed")
		case bad != "":
			r.Viol(construct, p.Rel(cc.Pos()), fmt.Sprintf("the translation of %s changes the stack height by %s on an accepting path, but it is a%s (%+d): every enclosing expression or statement is compiled for that height, "+
				"so values leak onto the stack (overflow in loops, wrong operands) or are popped twice", tn.Name(), bad, map[int]string{0: " statement", 1: "n expression"}[want], want))
		case len(ci.viol) > before:
			// the details are reported under their own constructs
			var first string
			var ks []string
			for k := range ci.viol {
				ks = append(ks, k)
			}
			sort.Strings(ks)
			for _, k := range ks {
				if !seenViol[k] {
					if first == "" {
						first = k + ": " + ci.viol[k]
					}
					seenViol[k] = true
				}
			}
			r.Viol(construct, p.Rel(cc.Pos()), "the translation of "+tn.Name()+" is not stack-consistent: "+first)
		default:
			r.Ok(construct, p.Rel(cc.Pos()), kind+fmt.Sprintf(" on all %d accepting paths", len(outs)))
		}
	}
	// every compiler function is interpreted (helpers not reached from a case as well)
	for _, fd := range compilerFuncs {
		if fd.Obj == compile.Obj || fd.Obj.Name() == "emit" || fd.Obj.Name() == "emitPos" || ci.inlined[fd.Obj] {
			continue // the emitting primitive itself; helpers that were interpreted in place with their callers' positions
		}
		ci.run(fd)
	}
	var keys []string
	for k := range ci.viol {
		keys = append(keys, k)
	}
	sort.Strings(keys)
	for _, k := range keys {
		r.Viol(k, p.Rel(ci.violPos[k]), ci.viol[k])
	}
	var ukeys []string
	for k := range ci.undec {
		ukeys = append(ukeys, k)
	}
	sort.Strings(ukeys)
	for _, k := range ukeys {
		r.Undecided("%s: %s", k, ci.undec[k])
	}
	var ekeys []string
	for k := range ci.exempt {
		ekeys = append(ekeys, k)
	}
	sort.Strings(ekeys)
	for _, k := range ekeys {
		r.Exempt(k, ci.exempt[k][0], ci.exempt[k][1])
	}
	for _, fd := range compilerFuncs {
		if fd.Obj == compile.Obj {
			continue
		}
		outs := ci.summary[fd.Obj]
		if len(outs) == 0 {
			continue
		}
		hasViol := false
		for _, k := range keys {
			if strings.HasPrefix(k, fd.QName()+"#") {
				hasViol = true
			}
		}
		same := true
		first := map[string]slin{} // paths that return the same constants must agree; the caller tells the others apart
		for _, o := range outs {
			if h, ok := first[o.valsKey()]; ok {
				if !o.h.eq(h) {
					same = false
				}
			} else {
				first[o.valsKey()] = o.h
			}
		}
		switch {
		case !same:
			var hs []string
			for _, o := range outs {
				hs = append(hs, o.h.String())
			}
			r.Viol(fd.QName()+"#heights", p.Rel(fd.Decl.Pos()), "the accepting paths of this function leave different stack heights: "+strings.Join(hs, ", "))
		case !hasViol:
			r.Ok(fd.QName()+"#heights", p.Rel(fd.Decl.Pos()), fmt.Sprintf("net effect %s on all %d accepting paths; jumps, targets and floor consistent", outs[0].h, len(outs)))
		}
	}
	r.Note("stack-effect interpretation: %d emit sites applied, %d jump/patch checks", ci.nEmit, ci.nPatch)
	if ci.nEmit < 30 || ci.nPatch < 6 {
		r.Undecided("the interpretation of the compiler met only %d emits and %d jump/patch sites", ci.nEmit, ci.nPatch)
	}
}

func stmtsAfter(list []ast.Stmt, s ast.Stmt) []ast.Stmt {
	for i, x := range list {
		if x == s {
			return list[i+1:]
		}
	}
	return nil
}

// mapLiteralLemma: in pkg/parser the two writers of a MapLiteral's Pairs and Order sit in the same block.
func mapLiteralLemma(p *Program, pp *packages.Package, r *Reporter) {
	type site struct {
		fn  *FuncDecl
		blk *ast.BlockStmt
		pos token.Pos
	}
	var pairs, order []site
	for _, fd := range Funcs(pp) {
		var stack []*ast.BlockStmt
		var nodes []ast.Node
		ast.Inspect(fd.Decl.Body, func(n ast.Node) bool {
			if n == nil {
				if _, isBlock := nodes[len(nodes)-1].(*ast.BlockStmt); isBlock {
					stack = stack[:len(stack)-1]
				}
				nodes = nodes[:len(nodes)-1]
				return true
			}
			nodes = append(nodes, n)
			switch x := n.(type) {
			case *ast.BlockStmt:
				stack = append(stack, x)
			case *ast.AssignStmt:
				if len(stack) == 0 {
					return true
				}
				for _, l := range x.Lhs {
					l = ast.Unparen(l)
					if ix, ok := l.(*ast.IndexExpr); ok {
						l = ix.X
						if sel, ok := ast.Unparen(l).(*ast.SelectorExpr); ok && sel.Sel.Name == "Pairs" && isMapLiteralPtr(pp.TypesInfo, sel.X) {
							if x.Tok == token.ASSIGN && !isRangeKeyStore(pp.TypesInfo, fd, ix) {
								pairs = append(pairs, site{fd, stack[len(stack)-1], x.Pos()})
							}
						}
						continue
					}
					if sel, ok := l.(*ast.SelectorExpr); ok && sel.Sel.Name == "Order" && isMapLiteralPtr(pp.TypesInfo, sel.X) {
						order = append(order, site{fd, stack[len(stack)-1], x.Pos()})
					}
				}
			}
			return true
		})
	}
	good := len(pairs) >= 1 && len(order) == len(pairs)
	for i := range pairs {
		if i < len(order) && (pairs[i].blk != order[i].blk) {
			good = false
		}
	}
	pos := "pkg/parser"
	if len(order) > 0 {
		pos = p.Rel(order[0].pos)
	}
	r.Check(good, "pkg/parser.MapLiteral#order-and-pairs-grow-together", pos, "a map literal's key order and pairs are extended by the same statement block (one entry each), so they have one length",
		fmt.Sprintf("the parser extends MapLiteral.Pairs at %d sites and MapLiteral.Order at %d sites that are not pairwise in one block: the compiler pushes one key and value per Order entry and OpMap pops one per Pairs entry", len(pairs), len(order)))
}

func isMapLiteralPtr(info *types.Info, e ast.Expr) bool {
	pt, ok := info.TypeOf(e).(*types.Pointer)
	if !ok {
		return false
	}
	n := namedOf(pt.Elem())
	return n != nil && n.Obj().Name() == "MapLiteral"
}

// isRangeKeyStore: m.Pairs[key] = … inside `for key, … := range m.Pairs` rewrites an existing entry.
func isRangeKeyStore(info *types.Info, fd *FuncDecl, ix *ast.IndexExpr) bool {
	id, ok := ast.Unparen(ix.Index).(*ast.Ident)
	if !ok {
		return false
	}
	obj := info.ObjectOf(id)
	found := false
	ast.Inspect(fd.Decl.Body, func(n ast.Node) bool {
		if rs, ok := n.(*ast.RangeStmt); ok {
			if k, ok := rs.Key.(*ast.Ident); ok && info.ObjectOf(k) == obj {
				if sel, ok := ast.Unparen(rs.X).(*ast.SelectorExpr); ok && sel.Sel.Name == "Pairs" {
					found = true
				}
			}
		}
		return true
	})
	return found
}

var _ = constant.MakeBool

// countingLoopOver: `for i := 0; i < len(L); i++` — returns L.
func countingLoopOver(info *types.Info, f *ast.ForStmt) ast.Expr {
	as, ok := f.Init.(*ast.AssignStmt)
	if !ok || len(as.Lhs) != 1 || len(as.Rhs) != 1 {
		return nil
	}
	iv, ok := as.Lhs[0].(*ast.Ident)
	if z, isZ := constInt(info, as.Rhs[0]); !ok || !isZ || z != 0 {
		return nil
	}
	c, ok := f.Cond.(*ast.BinaryExpr)
	if !ok || c.Op != token.LSS {
		return nil
	}
	if id, ok := ast.Unparen(c.X).(*ast.Ident); !ok || info.ObjectOf(id) != info.ObjectOf(iv) {
		return nil
	}
	lc, ok := ast.Unparen(c.Y).(*ast.CallExpr)
	if !ok || !isBuiltinCall(info, lc, "len") || len(lc.Args) != 1 {
		return nil
	}
	if inc, ok := f.Post.(*ast.IncDecStmt); !ok || inc.Tok != token.INC {
		return nil
	}
	return lc.Args[0]
}
