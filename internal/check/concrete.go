package check

import (
	"fmt"
	"go/constant"
	"go/token"
	"go/types"
	"strings"

	"golang.org/x/tools/go/ssa"
)

// R-CONCRETE: a type that is fixed (made non-convertible) is concrete.
//
// fixedType marks the type of a variable or of a non-literal expression as not
// convertible any more. Such a type must not contain an untyped empty literal
// ([] or {} whose element type is still open): nothing can give it an element
// type later, the value is then neither assignable to a concrete composite nor
// convertible, and wrapAny ends in its "incompatible types" panic. So every
// argument of fixedType comes from a source that yields concrete types only:
// (*Type).infer, a declared type (parseType), the Sub of such a type, a type
// built from those, or a declaration handed in through parser.Builtins. The
// one exception is the untyped result of [] + [] and [] * n, which wrapAny
// converts operand-wise: an edge on which the value is known to be EMPTY_ARRAY.

var ruleConcrete = &Rule{
	ID: "R-CONCRETE",
	Doc: "every type passed to fixedType (variables, parameters, results and non-literal expressions) is concrete: it comes from (*Type).infer, a declared type, " +
		"the element type of one, or a built-in declaration — never the still-open type of an empty literal, which nothing could convert later (wrapAny panic)",
	Floor: 8,
	Run:   runConcrete,
}

func runConcrete(c *Ctx, r *Reporter) {
	p, pkg := parserPkg(c, r)
	if pkg == nil {
		return
	}
	fixedFn := FindFunc(pkg, "fixedType")
	inferFn := FindFunc(pkg, "(*Type).infer")
	parseTypeFn := FindFunc(pkg, "(*parser).parseType")
	if fixedFn == nil || inferFn == nil || parseTypeFn == nil {
		r.Undecided("fixedType, (*Type).infer or (*parser).parseType not found")
		return
	}
	fixedSSA, inferSSA, parseTypeSSA := p.SSAFunc(fixedFn.Obj), p.SSAFunc(inferFn.Obj), p.SSAFunc(parseTypeFn.Obj)
	allFns := ssaFuncsOf(p, pkg)
	inProgress := map[string]bool{}
	var concrete func(v ssa.Value, at *ssa.BasicBlock, depth int) (bool, string)
	concrete = func(v ssa.Value, at *ssa.BasicBlock, depth int) (bool, string) {
		if depth > 8 {
			return false, "a value that is derived too deeply to follow"
		}
		switch x := v.(type) {
		case *ssa.Call:
			sc := x.Call.StaticCallee()
			switch sc {
			case inferSSA, parseTypeSSA:
				return true, ""
			case fixedSSA:
				return concrete(x.Call.Args[0], x.Block(), depth+1)
			}
			if sc != nil && sc.Name() == "Type" && sc.Signature.Recv() != nil {
				// (*Var).Type(): the declared or inferred type of a variable — every store to Var.T in the package
				if n := namedOf(sc.Signature.Recv().Type()); n != nil && n.Obj().Name() == "Var" {
					if inProgress["Var.T"] {
						return true, ""
					}
					inProgress["Var.T"] = true
					defer delete(inProgress, "Var.T")
					found := 0
					for _, ofn := range allFns {
						for _, b := range ofn.Blocks {
							for _, ins := range b.Instrs {
								st, ok := ins.(*ssa.Store)
								if !ok {
									continue
								}
								fb, ok := st.Addr.(*ssa.FieldAddr)
								if !ok {
									continue
								}
								if n2, f2 := fieldAddrInfo(fb); n2 == nil || n2.Obj() != n.Obj() || f2 != "T" {
									continue
								}
								found++
								if ok, why := concrete(st.Val, at, depth+1); !ok {
									return false, "a variable type that can be " + why
								}
							}
						}
					}
					if found > 0 {
						return true, ""
					}
				}
			}
			if sc != nil {
				return false, "the result of " + sc.Name() + " (not known to be concrete)"
			}
			return false, "the result of " + x.Call.String()
		case *ssa.UnOp:
			if x.Op != token.MUL {
				break
			}
			if g, ok := x.X.(*ssa.Global); ok {
				if internedTypes[g.Name()] && g.Name() != "EMPTY_ARRAY" && g.Name() != "EMPTY_MAP" {
					return true, ""
				}
				return false, "the untyped " + g.Name()
			}
			if fa, ok := x.X.(*ssa.FieldAddr); ok {
				_, field := fieldAddrInfo(fa)
				if field == "Sub" {
					// element type of a concrete type
					return concrete(fa.X, at, depth+1)
				}
				if derivesFromBuiltinsParam(x, 8) {
					return true, ""
				}
				// a field of a node under construction: the values stored into it in this function
				var vals []ssa.Value
				fn := x.Parent()
				for _, b := range fn.Blocks {
					for _, ins := range b.Instrs {
						if st, ok := ins.(*ssa.Store); ok {
							if fb, ok := st.Addr.(*ssa.FieldAddr); ok && fb.X == fa.X && fb.Field == fa.Field && st.Val != ssa.Value(nil) {
								vals = append(vals, st.Val)
							}
						}
					}
				}
				if len(vals) == 0 {
					// a node built by another function: every store to this field of this node type in the package
					named, _ := fieldAddrInfo(fa)
					for _, ofn := range allFns {
						for _, b := range ofn.Blocks {
							for _, ins := range b.Instrs {
								if st, ok := ins.(*ssa.Store); ok {
									if fb, ok := st.Addr.(*ssa.FieldAddr); ok && fb.Field == fa.Field {
										if n2, _ := fieldAddrInfo(fb); n2 != nil && named != nil && n2.Obj() == named.Obj() {
											vals = append(vals, st.Val)
										}
									}
								}
							}
						}
					}
					if len(vals) == 0 {
						return false, "field " + field + " of a value built elsewhere"
					}
				}
				for _, sv := range vals {
					if k, isConst := sv.(*ssa.Const); isConst && k.IsNil() {
						continue
					}
					if c2, isCall := sv.(*ssa.Call); isCall && c2.Call.StaticCallee() == fixedSSA && len(c2.Call.Args) == 1 && c2.Call.Args[0] == ssa.Value(x) {
						continue // x.F = fixedType(x.F)
					}
					if ok, why := concrete(sv, at, depth+1); !ok {
						return false, why
					}
				}
				return true, ""
			}
			if derivesFromBuiltinsParam(x, 8) {
				return true, ""
			}
		case *ssa.Alloc:
			// &Type{Name: …, Sub: s}: concrete when s is
			if n := allocElemNamed(x); n != nil && n.Obj().Name() == "Type" {
				for _, st := range fieldStores(x, "Sub") {
					if ok, why := concrete(st.Val, at, depth+1); !ok {
						return false, why
					}
				}
				return true, ""
			}
		case *ssa.Phi:
			for i, e := range x.Edges {
				if ok, why := concrete(e, at, depth+1); !ok {
					// the exception: an edge taken only when the value is EMPTY_ARRAY itself
					if i < len(x.Block().Preds) && edgeKnownEmptyArray(x.Block().Preds[i], x.Block(), e) {
						continue
					}
					return false, why
				}
			}
			return true, ""
		case *ssa.Const:
			if x.IsNil() {
				return true, ""
			}
		case *ssa.Extract, *ssa.Lookup, *ssa.Next, *ssa.Field:
			if derivesFromBuiltinsParam(v, 8) {
				return true, ""
			}
		}
		return false, v.String()
	}
	// Type() methods of expression nodes: what they return is a node's own T field (fixed by the clause above at
	// construction), a basic type, the return type of the callee — never the type of an operand, which may be an
	// untyped empty literal. Literals and the parenthesised expression pass their own (convertible) type on: wrapAny
	// converts those node kinds.
	passOn := map[string]string{
		"ArrayLiteral": "literal", "MapLiteral": "literal", "GroupExpression": "wrapAny converts the parenthesised expression", "Any": "always any",
		"Decl": "the type of the declared variable",
	}
	nodes, _ := parserNodeTypes(p)
	m := 0
	for _, nd := range nodes {
		name := nd.Obj().Name()
		fd := FindFunc(pkg, "(*"+name+").Type")
		if fd == nil {
			continue
		}
		sf := p.SSAFunc(fd.Obj)
		if sf == nil {
			continue
		}
		m++
		construct := fmt.Sprintf("pkg/parser.(*%s).Type#returns-own-type", name)
		if strings.HasSuffix(name, "Stmt") || strings.HasSuffix(name, "Statement") || strings.HasSuffix(name, "Block") || name == "Program" || name == "StepRange" {
			m--
			continue // statements are never values
		}
		if why, ok := passOn[name]; ok {
			r.Ok(construct, p.Rel(fd.Decl.Pos()), "not in scope: "+why)
			continue
		}
		bad := ""
		for _, ret := range returnsOf(sf) {
			for _, rv := range resultValues(ret, 0) {
				okv := false
				switch x := rv.(type) {
				case *ssa.UnOp:
					if g, ok := x.X.(*ssa.Global); ok && internedTypes[g.Name()] {
						okv = true
					}
					if fa, ok := x.X.(*ssa.FieldAddr); ok {
						// a field of the receiver itself, or of the function definition a call refers to
						okv = fa.X == ssa.Value(sf.Params[0])
						if !okv {
							if u2, ok := fa.X.(*ssa.UnOp); ok {
								if fb, ok := u2.X.(*ssa.FieldAddr); ok && fb.X == ssa.Value(sf.Params[0]) {
									okv = true
								}
							}
						}
					}
				case *ssa.Const:
					okv = x.IsNil()
				case *ssa.Call:
					// delegation to an embedded/contained declaration (Decl → Var) is a field of the receiver too
					if sc := x.Call.StaticCallee(); sc != nil && sc.Signature.Recv() != nil {
						if nn := namedOf(sc.Signature.Recv().Type()); nn != nil && (nn.Obj().Name() == "Var" || nn.Obj().Name() == "Decl") {
							okv = true
						}
					}
				}
				if !okv {
					bad = rv.String()
				}
			}
		}
		r.Check(bad == "", construct, p.Rel(fd.Decl.Pos()), "returns the node's own type field, a basic type or the declared type of what it refers to",
			"(*"+name+").Type returns "+bad+": the type of an operand can be the still-open type of an empty literal ([] or {}), which then travels in a node kind that wrapAny cannot convert (panic \"untyped array\")")
	}
	if m < 8 {
		r.Undecided("only %d Type() methods of node kinds found", m)
	}
	n := 0
	for _, fd := range Funcs(pkg) {
		sf := p.SSAFunc(fd.Obj)
		if sf == nil || sf == fixedSSA {
			continue
		}
		for _, fn := range withAnon(sf) {
			for _, b := range fn.Blocks {
				for _, ins := range b.Instrs {
					call, ok := ins.(*ssa.Call)
					if !ok || call.Call.StaticCallee() != fixedSSA {
						continue
					}
					n++
					ok2, why := concrete(call.Call.Args[0], b, 0)
					r.Check(ok2, fmt.Sprintf("%s#fixed-is-concrete[%d]", fd.QName(), n), p.Rel(instrPos(call)),
						"the fixed type comes from infer(), a declared type, an element type of one, or a built-in declaration",
						"fixedType is applied to "+why+": the type of an empty literal ([] or {} nested anywhere) can be fixed while its element type is still open; "+
							"such a value is accepted nowhere and converted nowhere, and wrapAny panics with \"incompatible types\"")
				}
			}
		}
	}
}

// edgeKnownEmptyArray: the edge pred→b is taken only when v == EMPTY_ARRAY (pred, or its sole predecessor chain, ends in `if v == EMPTY_ARRAY` / `v != EMPTY_ARRAY`).
func edgeKnownEmptyArray(pred, b *ssa.BasicBlock, v ssa.Value) bool {
	cur, next := pred, b
	for i := 0; i < 3 && cur != nil; i++ {
		if len(cur.Instrs) > 0 {
			if ifi, ok := cur.Instrs[len(cur.Instrs)-1].(*ssa.If); ok {
				if bo, ok := ifi.Cond.(*ssa.BinOp); ok && (bo.Op == token.EQL || bo.Op == token.NEQ) {
					isEmpty := func(y ssa.Value) bool {
						u, ok := y.(*ssa.UnOp)
						if !ok {
							return false
						}
						g, ok := u.X.(*ssa.Global)
						return ok && g.Name() == "EMPTY_ARRAY"
					}
					if (bo.X == v && isEmpty(bo.Y)) || (bo.Y == v && isEmpty(bo.X)) {
						edge := 0
						if bo.Op == token.NEQ {
							edge = 1
						}
						return cur.Succs[edge] == next
					}
				}
				return false
			}
		}
		if len(cur.Preds) != 1 {
			return false
		}
		cur, next = cur.Preds[0], cur
	}
	return false
}

// R-TYPEREL: in the assignability and matching relations, the wildcard cases (an untyped empty literal, a generic
// built-in parameter) apply only between types of the same kind: `[]` is an array and matches arrays only.
var ruleTypeRel = &Rule{
	ID: "R-TYPEREL",
	Doc: "in (*Type).accepts and (*Type).matches every wildcard case (EMPTY_ARRAY, EMPTY_MAP, GENERIC_ARRAY, GENERIC_MAP) is reached only after the two type names " +
		"were found equal at that level: an empty literal or generic parameter never makes types of different kinds compatible",
	Floor: 4,
	Run:   runTypeRel,
}

func runTypeRel(c *Ctx, r *Reporter) {
	p, pkg := parserPkg(c, r)
	if pkg == nil {
		return
	}
	wild := map[string]bool{"EMPTY_ARRAY": true, "EMPTY_MAP": true, "GENERIC_ARRAY": true, "GENERIC_MAP": true}
	isNameLoad := func(v ssa.Value) bool {
		u, ok := v.(*ssa.UnOp)
		if !ok || u.Op != token.MUL {
			return false
		}
		fa, ok := u.X.(*ssa.FieldAddr)
		if !ok {
			return false
		}
		named, field := fieldAddrInfo(fa)
		return named != nil && named.Obj().Name() == "Type" && field == "Name"
	}
	for _, name := range []string{"(*Type).accepts", "(*Type).matches"} {
		fd := FindFunc(pkg, name)
		if fd == nil {
			r.Undecided("%s not found", name)
			continue
		}
		sf := p.SSAFunc(fd.Obj)
		// edges on which the names are known equal
		type edge struct {
			b   *ssa.BasicBlock
			idx int
		}
		var nameEq []edge
		for _, b := range sf.Blocks {
			if len(b.Instrs) == 0 {
				continue
			}
			ifi, ok := b.Instrs[len(b.Instrs)-1].(*ssa.If)
			if !ok {
				continue
			}
			bo, ok := ifi.Cond.(*ssa.BinOp)
			if !ok || !isNameLoad(bo.X) || !isNameLoad(bo.Y) {
				continue
			}
			switch bo.Op {
			case token.NEQ:
				nameEq = append(nameEq, edge{b, 1})
			case token.EQL:
				nameEq = append(nameEq, edge{b, 0})
			}
		}
		k := 0
		for _, b := range sf.Blocks {
			if len(b.Instrs) == 0 {
				continue
			}
			ifi, ok := b.Instrs[len(b.Instrs)-1].(*ssa.If)
			if !ok {
				continue
			}
			g := ""
			switch x := ifi.Cond.(type) {
			case *ssa.BinOp:
				if x.Op != token.EQL {
					continue
				}
				for _, side := range []ssa.Value{x.X, x.Y} {
					if u, ok := side.(*ssa.UnOp); ok {
						if gl, ok := u.X.(*ssa.Global); ok && wild[gl.Name()] {
							g = gl.Name()
						}
					}
				}
			case *ssa.Call:
				// a predicate of the package that compares its argument with the wildcards (isEmptyComposite(t))
				if f := x.Call.StaticCallee(); f != nil && f.Pkg == sf.Pkg && len(f.Blocks) > 0 {
					for _, fb := range f.Blocks {
						for _, ins := range fb.Instrs {
							if u, ok := ins.(*ssa.UnOp); ok {
								if gl, ok := u.X.(*ssa.Global); ok && wild[gl.Name()] && g == "" {
									g = gl.Name() + " (in " + f.Name() + ")"
								}
							}
						}
					}
				}
			}
			if g == "" {
				continue
			}
			k++
			dominated := false
			for _, e := range nameEq {
				if edgeDominates(e.b, e.idx, b) {
					dominated = true
				}
			}
			r.Check(dominated, fmt.Sprintf("%s#wildcard[%d]:%s", fd.QName(), k, g), p.Rel(instrPos(ifi)),
				"the wildcard is consulted only after the type names were found equal at this level",
				"the test against "+g+" is reachable without the type names having been compared: an empty literal (or generic parameter) then makes types of different kinds compatible "+
					"(`n + []`, `[] == {}`, `1 < []` are accepted and fail or crash at run time)")
		}
		if k == 0 {
			r.Undecided("%s has no wildcard case", name)
		}
	}
	// accepts: the "cannot be converted from here on" flag takes effect at the level where it is found: every decision
	// that reads the flag carried around the loop also incorporates right.Fixed of the current level
	if fd := FindFunc(pkg, "(*Type).accepts"); fd != nil {
		sf := p.SSAFunc(fd.Obj)
		var flags []*ssa.Phi
		for _, b := range sf.Blocks {
			if naturalLoop(b) == nil {
				continue
			}
			for _, ins := range b.Instrs {
				if phi, ok := ins.(*ssa.Phi); ok {
					if bt, ok := phi.Type().Underlying().(*types.Basic); ok && bt.Kind() == types.Bool {
						flags = append(flags, phi)
					}
				}
			}
		}
		if len(flags) == 0 {
			r.Undecided("(*Type).accepts carries no boolean flag around its loop (the fixedness of the right type)")
		}
		for fi, h := range flags {
			var incorporates func(v ssa.Value, depth int) bool
			incorporates = func(v ssa.Value, depth int) bool {
				if depth > 6 || v == ssa.Value(h) {
					return false
				}
				switch x := v.(type) {
				case *ssa.UnOp:
					if fa, ok := x.X.(*ssa.FieldAddr); ok {
						if _, field := fieldAddrInfo(fa); field == "Fixed" {
							if ph, ok := fa.X.(*ssa.Phi); ok && ph.Block() == h.Block() {
								return true
							}
						}
					}
					return incorporates(x.X, depth+1)
				case *ssa.BinOp:
					return incorporates(x.X, depth+1) || incorporates(x.Y, depth+1)
				case *ssa.Phi:
					if x.Block() == h.Block() {
						return false
					}
					for _, e := range x.Edges {
						if incorporates(e, depth+1) {
							return true
						}
					}
					if id := x.Block().Idom(); id != nil && len(id.Instrs) > 0 {
						if ifi, ok := id.Instrs[len(id.Instrs)-1].(*ssa.If); ok {
							return incorporates(ifi.Cond, depth+1)
						}
					}
				}
				return false
			}
			var dependsOnFlag func(v ssa.Value, depth int) bool
			dependsOnFlag = func(v ssa.Value, depth int) bool {
				if depth > 6 {
					return false
				}
				if v == ssa.Value(h) {
					return true
				}
				switch x := v.(type) {
				case *ssa.UnOp:
					return dependsOnFlag(x.X, depth+1)
				case *ssa.BinOp:
					return dependsOnFlag(x.X, depth+1) || dependsOnFlag(x.Y, depth+1)
				case *ssa.Phi:
					if x.Block() == h.Block() {
						return false
					}
					for _, e := range x.Edges {
						if dependsOnFlag(e, depth+1) {
							return true
						}
					}
					// `flag || right.Fixed`: the merged value depends on the flag through the test that short-circuits it
					if id := x.Block().Idom(); id != nil && len(id.Instrs) > 0 {
						if ifi, ok := id.Instrs[len(id.Instrs)-1].(*ssa.If); ok {
							return dependsOnFlag(ifi.Cond, depth+1)
						}
					}
				}
				return false
			}
			// the test of a short-circuit `flag || …` / `flag && …` is part of the flag's update, not a decision: one of its
			// edges feeds a constant into a boolean phi
			shortCircuit := func(ifi *ssa.If) bool {
				c := ifi.Cond
				for {
					if u, ok := c.(*ssa.UnOp); ok && u.Op == token.NOT {
						c = u.X
						continue
					}
					break
				}
				if c != ssa.Value(h) {
					return false
				}
				b := ifi.Block()
				for _, s := range b.Succs {
					for _, ins := range s.Instrs {
						phi, ok := ins.(*ssa.Phi)
						if !ok {
							break
						}
						for j, pr := range s.Preds {
							if pr == b && j < len(phi.Edges) {
								if _, isConst := phi.Edges[j].(*ssa.Const); isConst {
									return true
								}
							}
						}
					}
				}
				return false
			}
			n := 0
			for _, b := range sf.Blocks {
				if len(b.Instrs) == 0 {
					continue
				}
				ifi, ok := b.Instrs[len(b.Instrs)-1].(*ssa.If)
				if !ok || !dependsOnFlag(ifi.Cond, 0) || shortCircuit(ifi) {
					continue
				}
				n++
				r.Check(incorporates(ifi.Cond, 0), fmt.Sprintf("%s#fixed-flag-current-level[%d.%d]", fd.QName(), fi+1, n), p.Rel(fd.Decl.Pos()),
					"the decision reads the flag after right.Fixed of the current level was merged into it",
					"a decision in accepts reads the fixedness flag as it was carried over from the outer levels only, without right.Fixed of the current level: a composite variable inside a literal "+
						"(`x:[]any` `x = [a]`) is then converted like a constant one level too deep, and wrapAny panics on the variable")
			}
			if n == 0 {
				r.Note("accepts: flag %s is carried around the loop but never decides anything", h.Name())
			}
		}
	}
	// combineTypes: an empty literal contributes nothing — but only to a combined type of its own kind. Every path
	// from the true edge of a wildcard test (t == EMPTY_*, combinedT == EMPTY_*) that goes on combining (reaches the
	// loop header again or returns something other than `any`) has passed the edge on which the two names were equal.
	if fd := FindFunc(pkg, "combineTypes"); fd != nil {
		sf := p.SSAFunc(fd.Obj)
		// the combination of two types may have been moved into a helper: the function that consults the wildcards is
		// analysed; there a return of (nil|…, false) stands for "only any in common"
		loadsWild := func(f *ssa.Function) bool {
			for _, b := range f.Blocks {
				for _, ins := range b.Instrs {
					if u, ok := ins.(*ssa.UnOp); ok {
						if gl, ok := u.X.(*ssa.Global); ok && wild[gl.Name()] {
							return true
						}
					}
				}
			}
			return false
		}
		if !loadsWild(sf) {
			for _, h := range regionFns(sf, 2, map[string]bool{"Equals": true, "mergeFixed": true, "accepts": true, "matches": true, "infer": true}) {
				if h != sf && loadsWild(h) {
					sf = h
					break
				}
			}
		}
		nameEqAt := map[*ssa.BasicBlock]int{} // block -> successor index on which the names are equal
		for _, b := range sf.Blocks {
			if len(b.Instrs) == 0 {
				continue
			}
			ifi, ok := b.Instrs[len(b.Instrs)-1].(*ssa.If)
			if !ok {
				continue
			}
			bo, ok := ifi.Cond.(*ssa.BinOp)
			if !ok || !isNameLoad(bo.X) || !isNameLoad(bo.Y) {
				continue
			}
			switch bo.Op {
			case token.NEQ:
				nameEqAt[b] = 1
			case token.EQL:
				nameEqAt[b] = 0
			}
		}
		returnsAny := func(b *ssa.BasicBlock) bool {
			if len(b.Instrs) == 0 {
				return false
			}
			ret, ok := b.Instrs[len(b.Instrs)-1].(*ssa.Return)
			if ok && len(ret.Results) == 2 {
				k, isConst := ret.Results[1].(*ssa.Const)
				return isConst && k.Value != nil && k.Value.Kind() == constant.Bool && !constant.BoolVal(k.Value)
			}
			if !ok || len(ret.Results) != 1 {
				return false
			}
			u, ok := ret.Results[0].(*ssa.UnOp)
			if !ok {
				return false
			}
			g, ok := u.X.(*ssa.Global)
			return ok && g.Name() == "ANY_TYPE"
		}
		k := 0
		for _, b := range sf.Blocks {
			if len(b.Instrs) == 0 {
				continue
			}
			ifi, ok := b.Instrs[len(b.Instrs)-1].(*ssa.If)
			if !ok {
				continue
			}
			bo, ok := ifi.Cond.(*ssa.BinOp)
			if !ok || (bo.Op != token.EQL && bo.Op != token.NEQ) {
				continue
			}
			g := ""
			for _, side := range []ssa.Value{bo.X, bo.Y} {
				if u, ok := side.(*ssa.UnOp); ok {
					if gl, ok := u.X.(*ssa.Global); ok && wild[gl.Name()] {
						g = gl.Name()
					}
				}
			}
			if g == "" {
				continue
			}
			k++
			matchEdge := 0
			if bo.Op == token.NEQ {
				matchEdge = 1
			}
			// already behind a name-equality edge?
			safe := false
			for nb, idx := range nameEqAt {
				if edgeDominates(nb, idx, b) {
					safe = true
				}
			}
			// … also where the comparison of the names is one operand of a case condition (`case !(kindOK && t.Name == c.Name):`)
			for _, f := range impliedConds(b) {
				if nb, ok := f.Cond.(*ssa.BinOp); ok && isNameLoad(nb.X) && isNameLoad(nb.Y) && (nb.Op == token.EQL && f.Truth || nb.Op == token.NEQ && !f.Truth) {
					safe = true
				}
			}
			bad := ""
			if !safe {
				hdr := loopHeaderOf(b)
				seen := map[*ssa.BasicBlock]bool{}
				var walk func(x *ssa.BasicBlock)
				walk = func(x *ssa.BasicBlock) {
					if seen[x] || bad != "" {
						return
					}
					seen[x] = true
					if x == hdr {
						bad = "the loop goes on combining"
						return
					}
					if len(x.Instrs) > 0 {
						if _, isRet := x.Instrs[len(x.Instrs)-1].(*ssa.Return); isRet {
							if !returnsAny(x) {
								bad = "a type other than any is returned"
							}
							return
						}
					}
					if idx, ok := nameEqAt[x]; ok {
						walk(x.Succs[1-idx]) // only the edge on which the names differ stays unsafe
						return
					}
					for _, sx := range x.Succs {
						walk(sx)
					}
				}
				walk(b.Succs[matchEdge])
			}
			r.Check(bad == "", fmt.Sprintf("%s#wildcard[%d]:%s", fd.QName(), k, g), p.Rel(condPos(ifi.Cond)),
				"an empty literal is absorbed only by a combined type of its own kind",
				"behind the test against "+g+" "+bad+" without the two type names having been compared: `[[1] {}]` or `[{a:1} []]` then get the element type of the first element ([][]num, []{}num) instead of any, "+
					"and the other element is used as a value of a kind it does not have")
		}
		if k == 0 {
			r.Undecided("combineTypes has no wildcard case")
		}
	}
	// accepts: the dynamic type takes every value, but the none type (a call without result) is not a value: the
	// accepting return behind the `left.Name == ANY` test lies behind the edge `right.Name != NONE`
	if fd := FindFunc(pkg, "(*Type).accepts"); fd != nil {
		sf := p.SSAFunc(fd.Obj)
		constVal := func(name string) string {
			if k, ok := pkg.Types.Scope().Lookup(name).(*types.Const); ok {
				return k.Val().ExactString()
			}
			return "?"
		}
		anyV, noneV := constVal("ANY"), constVal("NONE")
		isNameConstTest := func(v ssa.Value, want string) (bool, token.Token) {
			bo, ok := v.(*ssa.BinOp)
			if !ok || (bo.Op != token.EQL && bo.Op != token.NEQ) {
				return false, 0
			}
			x, y := bo.X, bo.Y
			if _, isConst := x.(*ssa.Const); isConst {
				x, y = y, x
			}
			k, ok := y.(*ssa.Const)
			return ok && k.Value != nil && k.Value.ExactString() == want && isNameLoad(x), bo.Op
		}
		n := 0
		for _, b := range sf.Blocks {
			if len(b.Instrs) == 0 {
				continue
			}
			ifi, ok := b.Instrs[len(b.Instrs)-1].(*ssa.If)
			if !ok {
				continue
			}
			isAny, op := isNameConstTest(ifi.Cond, anyV)
			if !isAny {
				continue
			}
			anyEdge := 0
			if op == token.NEQ {
				anyEdge = 1
			}
			// accepting returns behind this edge
			for _, ret := range returnsOf(sf) {
				if !edgeDominates(b, anyEdge, ret.Block()) {
					continue
				}
				accepts := false
				for _, rv := range resultValues(ret, 0) {
					if k, ok := rv.(*ssa.Const); !ok || k.Value == nil || k.Value.ExactString() != "false" {
						accepts = true
					}
				}
				if !accepts {
					continue
				}
				n++
				excluded := false
				for d := ret.Block(); d != nil; d = d.Idom() {
					id := d.Idom()
					if id == nil || len(id.Instrs) == 0 {
						continue
					}
					if i2, ok := id.Instrs[len(id.Instrs)-1].(*ssa.If); ok {
						if isNone, op2 := isNameConstTest(i2.Cond, noneV); isNone {
							e := 0
							if op2 == token.EQL {
								e = 1
							}
							if edgeDominates(id, e, ret.Block()) {
								excluded = true
							}
						}
					}
				}
				r.Check(excluded, fmt.Sprintf("%s#any-never-none[%d]", fd.QName(), n), p.Rel(instrPos(ret)), "the dynamic type accepts every value, and a call without result is not a value",
					"the acceptance behind the `any` test is reachable for a right type none: `a:any` `a = noret` (a call without result) or a bare `return` in `func f:any` is accepted, and the evaluator stores or returns a value of no type")
			}
		}
		if n == 0 {
			// the case condition `a && b && (c || d)` may be lowered to a value: a phi that receives the constant false
			// from every failed conjunct, tested once. Then: the case body is the true successor of that test; search,
			// edge by edge and honouring the phi's constants, for a path from the true edge of the ANY test to the body
			// that does not take the `right.Name != NONE` edge.
			for _, b := range sf.Blocks {
				if len(b.Instrs) == 0 {
					continue
				}
				ifi, ok := b.Instrs[len(b.Instrs)-1].(*ssa.If)
				if !ok {
					continue
				}
				isAny, op := isNameConstTest(ifi.Cond, anyV)
				if !isAny {
					continue
				}
				anyEdge := 0
				if op == token.NEQ {
					anyEdge = 1
				}
				// the phi this test feeds
				var join *ssa.BasicBlock
				var phi *ssa.Phi
				for _, s2 := range b.Succs {
					for _, ins := range s2.Instrs {
						if ph, ok := ins.(*ssa.Phi); ok {
							if last, ok := s2.Instrs[len(s2.Instrs)-1].(*ssa.If); ok && last.Cond == ssa.Value(ph) {
								join, phi = s2, ph
							}
						}
					}
				}
				if join == nil {
					continue
				}
				n++
				type st struct{ b, from *ssa.BasicBlock }
				seen := map[st]bool{}
				reached := false
				var walk func(x, from *ssa.BasicBlock)
				walk = func(x, from *ssa.BasicBlock) {
					if seen[st{x, from}] || reached {
						return
					}
					seen[st{x, from}] = true
					if x == join {
						// value of the phi on this edge
						for i, pb := range join.Preds {
							if pb == from {
								if k, ok := phi.Edges[i].(*ssa.Const); ok && k.Value != nil && k.Value.ExactString() == "false" {
									return // the case is not taken on this edge
								}
							}
						}
						reached = true
						return
					}
					if len(x.Instrs) > 0 {
						if i2, ok := x.Instrs[len(x.Instrs)-1].(*ssa.If); ok {
							if isNone, op2 := isNameConstTest(i2.Cond, noneV); isNone {
								notNone := 0
								if op2 == token.EQL {
									notNone = 1
								}
								walk(x.Succs[1-notNone], x) // only the edge on which the right type IS none is of interest
								return
							}
						}
					}
					for _, sx := range x.Succs {
						walk(sx, x)
					}
				}
				walk(b.Succs[anyEdge], b)
				r.Check(!reached, fmt.Sprintf("%s#any-never-none[%d]", fd.QName(), n), p.Rel(condPos(ifi.Cond)), "the dynamic type accepts every value, and a call without result is not a value",
					"the acceptance behind the `any` test is reachable for a right type none: `a:any` `a = noret` (a call without result) or a bare `return` in `func f:any` is accepted, and the evaluator stores or returns a value of no type")
			}
		}
		if n == 0 {
			r.Undecided("(*Type).accepts has no accepting case behind a test of the left name against ANY")
		}
	}
	// parseBinaryExpr: the right operand's type reaches the node's type only for concatenation (the more specific of
	// two matching array types); for every other operator the result type is the left operand's or bool
	if fd := FindFunc(pkg, "(*parser).parseBinaryExpr"); fd != nil {
		sf := p.SSAFunc(fd.Obj)
		plusV := "?"
		if k, ok := pkg.Types.Scope().Lookup("OP_PLUS").(*types.Const); ok {
			plusV = k.Val().ExactString()
		}
		var dependsOnRight func(v ssa.Value, depth int, seen map[ssa.Value]bool) bool
		dependsOnRight = func(v ssa.Value, depth int, seen map[ssa.Value]bool) bool {
			if depth > 8 || seen[v] {
				return false
			}
			seen[v] = true
			if call, ok := v.(*ssa.Call); ok && call.Call.IsInvoke() && call.Call.Method.Name() == "Type" && loadsField(call.Call.Value, "Right") {
				return true
			}
			if ins, ok := v.(ssa.Instruction); ok {
				for _, op := range ins.Operands(nil) {
					if *op != nil && dependsOnRight(*op, depth+1, seen) {
						return true
					}
				}
			}
			return false
		}
		n := 0
		for _, b := range sf.Blocks {
			for _, ins := range b.Instrs {
				st, ok := ins.(*ssa.Store)
				if !ok {
					continue
				}
				fa, ok := st.Addr.(*ssa.FieldAddr)
				if !ok {
					continue
				}
				owner, fname := fieldAddrInfo(fa)
				if owner == nil || owner.Obj().Name() != "BinaryExpression" || fname != "T" || !dependsOnRight(st.Val, 0, map[ssa.Value]bool{}) {
					continue
				}
				n++
				guarded := false
				for d := b; d != nil; d = d.Idom() {
					id := d.Idom()
					if id == nil || len(id.Instrs) == 0 {
						continue
					}
					ifi, ok := id.Instrs[len(id.Instrs)-1].(*ssa.If)
					if !ok {
						continue
					}
					bo, ok := ifi.Cond.(*ssa.BinOp)
					if !ok || bo.Op != token.EQL {
						continue
					}
					if k, ok := bo.Y.(*ssa.Const); ok && k.Value != nil && k.Value.ExactString() == plusV && loadsField(bo.X, "Op") && edgeDominates(id, 0, b) {
						guarded = true
					}
				}
				r.Check(guarded, fmt.Sprintf("%s#result-type-from-right-operand[%d]", fd.QName(), n), p.Rel(instrPos(st)), "the right operand's type enters the node's type only for +",
					"the type of a binary expression is computed from its right operand on a path that is not confined to `+`: for `*` the right operand is the count, so `[] * 3` gets the static type num (declares a num, is accepted for n:num) while it evaluates to an array")
			}
		}
		r.Note("parseBinaryExpr: %d stores of the node type depend on the right operand's type", n)
	}
	// infer: a composite type is returned as it is only through the recursion into its element type
	if fd := FindFunc(pkg, "(*Type).infer"); fd != nil {
		sf := p.SSAFunc(fd.Obj)
		recv := sf.Params[0]
		n := 0
		for _, ret := range returnsOf(sf) {
			for _, rv := range resultValues(ret, 0) {
				if rv != ssa.Value(recv) {
					continue
				}
				n++
				// dominated by the edges on which the name is neither ARRAY nor MAP
				notComposite := 0
				for _, f := range impliedConds(ret.Block()) {
					bo, ok := f.Cond.(*ssa.BinOp)
					if !ok || !isNameLoad(bo.X) {
						continue
					}
					if _, isConst := bo.Y.(*ssa.Const); !isConst {
						continue
					}
					if (bo.Op == token.NEQ && f.Truth) || (bo.Op == token.EQL && !f.Truth) {
						notComposite++
					}
				}
				r.Check(notComposite >= 2, fmt.Sprintf("%s#returns-receiver-only-for-basic-types[%d]", fd.QName(), n), p.Rel(instrPos(ret)),
					"the receiver is returned unchanged only when it is neither an array nor a map",
					"infer returns its receiver unchanged on a path where it may be an array or a map: an empty literal nested deeper ([[[]]]) keeps its open type, "+
						"the declared variable gets the non-concrete type [][][] and is later accepted where a concrete type is required (wrapAny panic)")
			}
		}
		if n == 0 {
			r.Note("infer never returns its receiver")
		}
	}
}
