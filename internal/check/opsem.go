package check

import (
	"fmt"
	"go/ast"
	"go/constant"
	"go/token"
	"go/types"
	"golang.org/x/tools/go/packages"
	"sort"
	"strings"

	"golang.org/x/tools/go/ssa"
)

// R-OPSEM: every operator case computes the Go operation that the operator stands for, on (left, right) in this order.
//
// The specification gives every binary and unary operator its usual meaning (`+ - * / %` arithmetic, `< <= > >=`
// comparison, `and or` logical, `+` concatenation, `== !=` deep equality, unary `-` and `!`). R-DISPATCH decides WHICH
// operators each operand kind implements; this rule decides WHAT each case computes, structurally: from the SSA form of
// the case the value that is returned (evaluator) or pushed (VM) is normalised to a term over L and R and compared
// with the term the operator symbol stands for. For the VM the chain is followed end to end: the compiler's table maps
// the operator constant to an opcode, the opcode's case pops its operands (first pop = right operand, because the
// compiler translates Left before Right — also checked) and pushes the term.
//
// Terms are normalised modulo what cannot change the value: commutativity of float + and *, and mirrored comparisons
// (R > L ≡ L < R). String concatenation is not commutative.
var ruleOpSem = &Rule{
	ID: "R-OPSEM",
	Doc: "every operator case of the evaluator returns, and every operator opcode of the VM (reached through the compiler's operator→opcode table) pushes, the Go operation " +
		"the operator symbol stands for, applied to the left and the right operand in this order, wrapped in the value kind the specification's table gives as result",
	Floor: 35,
	Run:   runOpSem,
}

// expected term and result wrapper per operand kind and symbol
type opExpect struct{ term, wrap string }

func opSemExpected(kind, sym string) (opExpect, bool) {
	arith := map[string]string{"+": "(L + R)", "-": "(L - R)", "*": "(L * R)", "/": "(L / R)", "%": "mod(L,R)"}
	cmp := map[string]string{"<": "(L < R)", "<=": "(L <= R)", ">": "(L > R)", ">=": "(L >= R)"}
	switch kind {
	case "num":
		if t, ok := arith[sym]; ok {
			return opExpect{t, "numVal"}, true
		}
		if t, ok := cmp[sym]; ok {
			return opExpect{t, "boolVal"}, true
		}
	case "string":
		if sym == "+" {
			return opExpect{"(L + R)", "stringVal"}, true
		}
		if t, ok := cmp[sym]; ok {
			return opExpect{t, "boolVal"}, true
		}
	case "bool":
		switch sym {
		case "and":
			return opExpect{"(L && R)", "boolVal"}, true
		case "or":
			return opExpect{"(L || R)", "boolVal"}, true
		}
	case "all":
		switch sym {
		case "==":
			return opExpect{"eq(L,R)", "boolVal"}, true
		case "!=":
			return opExpect{"!eq(L,R)", "boolVal"}, true
		}
	case "unary-num":
		if sym == "-" {
			return opExpect{"-X", "numVal"}, true
		}
	case "unary-bool":
		if sym == "!" {
			return opExpect{"!X", "boolVal"}, true
		}
	}
	return opExpect{}, false
}

// opTermCtx says how leaves are named.
type opTermCtx struct {
	leaf  func(v ssa.Value) string // "" = not a leaf
	float bool                     // + and * commute
	// liveEdge, when set, tells which incoming edges of a block can be taken under the case being read (a case shared
	// by several constants tests the constant again inside): a phi with one live edge is that edge's value
	liveEdge func(from, to *ssa.BasicBlock) bool
}

func (t *opTermCtx) term(v ssa.Value, depth int) string {
	if depth == 0 {
		return "?"
	}
	if s := t.leaf(v); s != "" {
		return s
	}
	switch x := v.(type) {
	case *ssa.Convert:
		return t.term(x.X, depth-1)
	case *ssa.ChangeType:
		return t.term(x.X, depth-1)
	case *ssa.MakeInterface:
		return t.term(x.X, depth-1)
	case *ssa.BinOp:
		l, r := t.term(x.X, depth-1), t.term(x.Y, depth-1)
		op := x.Op.String()
		mirror := map[string]string{"<": ">", ">": "<", "<=": ">=", ">=": "<="}
		if m, ok := mirror[op]; ok && l == "R" && r == "L" {
			l, r, op = "L", "R", m
		}
		if t.float && (op == "+" || op == "*") && l == "R" && r == "L" {
			l, r = "L", "R"
		}
		return "(" + l + " " + op + " " + r + ")"
	case *ssa.UnOp:
		switch x.Op {
		case token.NOT:
			return "!" + t.term(x.X, depth-1)
		case token.SUB:
			return "-" + t.term(x.X, depth-1)
		}
	case *ssa.Call:
		if fn := x.Call.StaticCallee(); fn != nil && fn.Pkg != nil && fn.Pkg.Pkg.Path() == "math" && fn.Name() == "Mod" && len(x.Call.Args) == 2 {
			return "mod(" + t.term(x.Call.Args[0], depth-1) + "," + t.term(x.Call.Args[1], depth-1) + ")"
		}
		if x.Call.IsInvoke() && x.Call.Method.Name() == "Equals" && len(x.Call.Args) == 1 {
			return "eq(" + t.term(x.Call.Value, depth-1) + "," + t.term(x.Call.Args[0], depth-1) + ")"
		}
	case *ssa.Phi:
		if t.liveEdge != nil {
			var live []ssa.Value
			for i, pb := range x.Block().Preds {
				if i < len(x.Edges) && t.liveEdge(pb, x.Block()) {
					live = append(live, x.Edges[i])
				}
			}
			if len(live) == 1 {
				return t.term(live[0], depth-1)
			}
		}
		if s := t.shortCircuit(x, depth); s != "" {
			return s
		}
	}
	return "?"
}

// shortCircuit recognises the lowering of `a && b` and `a || b`.
func (t *opTermCtx) shortCircuit(phi *ssa.Phi, depth int) string {
	b := phi.Block()
	if len(phi.Edges) != 2 || len(b.Preds) != 2 {
		return ""
	}
	for i := 0; i < 2; i++ {
		p, q := b.Preds[i], b.Preds[1-i]
		k, ok := phi.Edges[i].(*ssa.Const)
		if !ok || k.Value == nil || k.Value.Kind() != constant.Bool || len(p.Instrs) == 0 {
			continue
		}
		ifi, ok := p.Instrs[len(p.Instrs)-1].(*ssa.If)
		if !ok || len(q.Preds) != 1 || q.Preds[0] != p {
			continue
		}
		cv := constant.BoolVal(k.Value)
		switch {
		case !cv && p.Succs[1] == b && p.Succs[0] == q:
			return "(" + t.term(ifi.Cond, depth-1) + " && " + t.term(phi.Edges[1-i], depth-1) + ")"
		case cv && p.Succs[0] == b && p.Succs[1] == q:
			return "(" + t.term(ifi.Cond, depth-1) + " || " + t.term(phi.Edges[1-i], depth-1) + ")"
		}
	}
	return ""
}

// constCases: blocks reached over the true edge of `tag == C` tests.
func constCases(fn *ssa.Function, isTag func(ssa.Value) bool) map[int64]*ssa.BasicBlock {
	out := map[int64]*ssa.BasicBlock{}
	for _, b := range fn.Blocks {
		if len(b.Instrs) == 0 {
			continue
		}
		ifi, ok := b.Instrs[len(b.Instrs)-1].(*ssa.If)
		if !ok {
			continue
		}
		bo, ok := ifi.Cond.(*ssa.BinOp)
		if !ok || bo.Op != token.EQL {
			continue
		}
		x, y := bo.X, bo.Y
		if _, ok := x.(*ssa.Const); ok {
			x, y = y, x
		}
		k, ok := y.(*ssa.Const)
		if !ok || k.Value == nil || k.Value.Kind() != constant.Int || !isTag(x) {
			continue
		}
		n, _ := constant.Int64Val(k.Value)
		if prev, seen := out[n]; seen && (prev == b || prev.Dominates(b)) {
			continue // a test of the same constant inside its own case (a case shared by several constants)
		}
		out[n] = b.Succs[0]
	}
	return out
}

// regionUnder: the blocks of the region of head that can be reached when the tag has the constant value k — tests of
// the tag against a constant inside the region are decided. It also returns the edges that are taken.
func regionUnder(head *ssa.BasicBlock, isTag func(ssa.Value) bool, k int64) ([]*ssa.BasicBlock, map[[2]*ssa.BasicBlock]bool) {
	in := map[*ssa.BasicBlock]bool{}
	for _, b := range regionOf(head) {
		in[b] = true
	}
	edges := map[[2]*ssa.BasicBlock]bool{}
	seen := map[*ssa.BasicBlock]bool{}
	var out []*ssa.BasicBlock
	var walk func(b *ssa.BasicBlock)
	walk = func(b *ssa.BasicBlock) {
		if seen[b] || !in[b] {
			return
		}
		seen[b] = true
		out = append(out, b)
		succs := b.Succs
		if len(b.Instrs) > 0 {
			if ifi, ok := b.Instrs[len(b.Instrs)-1].(*ssa.If); ok {
				if bo, ok := ifi.Cond.(*ssa.BinOp); ok && (bo.Op == token.EQL || bo.Op == token.NEQ) {
					x, y := bo.X, bo.Y
					if _, isConst := x.(*ssa.Const); isConst {
						x, y = y, x
					}
					if kc, ok := y.(*ssa.Const); ok && kc.Value != nil && kc.Value.Kind() == constant.Int && isTag(x) {
						n, _ := constant.Int64Val(kc.Value)
						taken := 1
						if (n == k) == (bo.Op == token.EQL) {
							taken = 0
						}
						succs = []*ssa.BasicBlock{b.Succs[taken]}
					}
				}
			}
		}
		for _, sx := range succs {
			edges[[2]*ssa.BasicBlock{b, sx}] = true
			walk(sx)
		}
	}
	walk(head)
	return out, edges
}

func regionOf(head *ssa.BasicBlock) []*ssa.BasicBlock {
	var out []*ssa.BasicBlock
	for _, b := range head.Parent().Blocks {
		if b == head || head.Dominates(b) {
			out = append(out, b)
		}
	}
	return out
}

// wrapperOf: the named value kind a returned/pushed value is wrapped in, and the payload.
func wrapperOf(v ssa.Value) (string, ssa.Value) {
	if mi, ok := v.(*ssa.MakeInterface); ok {
		v = mi.X
	}
	// evaluator: &numVal{V: x}
	if a, ok := v.(*ssa.Alloc); ok {
		if n := allocElemNamed(a); n != nil {
			if sv := storedFieldValue(a, "V"); sv != nil {
				return n.Obj().Name(), sv
			}
		}
		return "", nil
	}
	// VM: numVal(x)
	switch x := v.(type) {
	case *ssa.Convert:
		if n := namedOf(x.Type()); n != nil {
			return n.Obj().Name(), x.X
		}
	case *ssa.ChangeType:
		if n := namedOf(x.Type()); n != nil {
			return n.Obj().Name(), x.X
		}
	case *ssa.UnOp: // !val, -val on a named basic type
		if n := namedOf(x.Type()); n != nil {
			return n.Obj().Name(), x
		}
	}
	return "", nil
}

func runOpSem(c *Ctx, r *Reporter) {
	p, ppkg := parserPkg(c, r)
	if ppkg == nil {
		return
	}
	evalPkg, bcPkg := p.Pkg(evaluatorRel), p.Pkg(bytecodeRel)
	if evalPkg == nil || bcPkg == nil {
		r.Undecided("evaluator or bytecode package not loaded")
		return
	}
	symOf := map[int64]string{}
	for k, s := range operatorSymbols(ppkg) {
		if n, ok := constant.Int64Val(k.Val()); ok {
			symOf[n] = s
		}
	}
	if len(symOf) < 10 {
		r.Undecided("operatorStrings table not recognised")
		return
	}
	sortedKeys := func(m map[int64]*ssa.BasicBlock) []int64 {
		var ks []int64
		for k := range m {
			ks = append(ks, k)
		}
		sort.Slice(ks, func(i, j int) bool { return ks[i] < ks[j] })
		return ks
	}

	// ---------------- evaluator: binary num/string/bool
	for _, spec := range []struct{ kind, fname string }{{"num", "evalBinaryNumExpr"}, {"string", "evalBinaryStringExpr"}, {"bool", "evalBinaryBoolExpr"}} {
		fd := FindFunc(evalPkg, spec.fname)
		if fd == nil {
			r.Undecided("%s not found", spec.fname)
			continue
		}
		sf := p.SSAFunc(fd.Obj)
		if sf == nil || len(sf.Params) != 3 {
			r.Undecided("%s: unexpected signature", spec.fname)
			continue
		}
		tc := &opTermCtx{float: spec.kind == "num", leaf: func(v ssa.Value) string {
			u, ok := v.(*ssa.UnOp)
			if !ok || u.Op != token.MUL {
				return ""
			}
			fa, ok := u.X.(*ssa.FieldAddr)
			if !ok {
				return ""
			}
			if _, f := fieldAddrInfo(fa); f != "V" {
				return ""
			}
			switch fa.X {
			case ssa.Value(sf.Params[1]):
				return "L"
			case ssa.Value(sf.Params[2]):
				return "R"
			}
			return ""
		}}
		cases := constCases(sf, func(v ssa.Value) bool { return v == ssa.Value(sf.Params[0]) })
		for _, k := range sortedKeys(cases) {
			sym := symOf[k]
			construct := fmt.Sprintf("%s#case:%s", fd.QName(), sym)
			want, ok := opSemExpected(spec.kind, sym)
			if !ok {
				continue // R-DISPATCH reports operators outside the specification's table
			}
			checkOpReturns(p, r, construct, cases[k], tc, want)
		}
	}

	// ---------------- evaluator: == and != in evalBinaryExpr, unary operators
	if fd := FindFunc(evalPkg, "(*Evaluator).evalBinaryExpr"); fd != nil {
		sf := p.SSAFunc(fd.Obj)
		evalOf := func(v ssa.Value, field string) bool { // v = result 0 of e.eval(expr.<field>)
			ex, ok := v.(*ssa.Extract)
			if !ok || ex.Index != 0 {
				return false
			}
			call, ok := ex.Tuple.(*ssa.Call)
			if !ok || call.Call.StaticCallee() == nil || call.Call.StaticCallee().Name() != "eval" || len(call.Call.Args) < 2 {
				return false
			}
			return loadsField(call.Call.Args[1], field)
		}
		tc := &opTermCtx{leaf: func(v ssa.Value) string {
			if evalOf(v, "Left") {
				return "L"
			}
			if evalOf(v, "Right") {
				return "R"
			}
			if phi, ok := v.(*ssa.Phi); ok { // right := left; if !canShortCircuit { right = eval(Right) } — == and != never short-circuit (R-EVALORDER)
				hasR := false
				for _, e := range phi.Edges {
					switch {
					case evalOf(e, "Right"):
						hasR = true
					case evalOf(e, "Left"):
					default:
						return ""
					}
				}
				if hasR {
					return "R"
				}
			}
			return ""
		}}
		isOp := func(v ssa.Value) bool {
			if loadsField(v, "Op") {
				return true
			}
			prm, ok := v.(*ssa.Parameter)
			return ok && namedOf(prm.Type()) != nil && namedOf(prm.Type()).Obj().Name() == "Operator"
		}
		cases := constCases(sf, isOp)
		if len(cases) == 0 {
			// the application of the operator was moved into a helper: its value parameters are, in order, the left and
			// the right operand, provided the call site hands it two different values (== and != are symmetric, so the
			// order itself is immaterial here)
			for _, h := range regionFns(sf, 2, anchoredOps) {
				if h == sf {
					continue
				}
				hc := constCases(h, isOp)
				if len(hc) == 0 {
					continue
				}
				var vals []*ssa.Parameter
				for _, prm := range h.Params {
					if isNamed(prm.Type(), evalPkg.PkgPath, "value") {
						vals = append(vals, prm)
					}
				}
				if len(vals) != 2 {
					continue
				}
				distinct := true
				for _, f := range regionFns(sf, 2, anchoredOps) {
					for _, call := range callsTo(f, h) {
						var args []ssa.Value
						for i, prm := range h.Params {
							if (prm == vals[0] || prm == vals[1]) && i < len(call.Common().Args) {
								args = append(args, call.Common().Args[i])
							}
						}
						if len(args) != 2 || args[0] == args[1] {
							distinct = false
						}
					}
				}
				if !distinct {
					continue
				}
				cases = hc
				inner := tc.leaf
				tc.leaf = func(v ssa.Value) string {
					switch v {
					case ssa.Value(vals[0]):
						return "L"
					case ssa.Value(vals[1]):
						return "R"
					}
					return inner(v)
				}
				break
			}
		}
		for _, k := range sortedKeys(cases) {
			sym := symOf[k]
			want, ok := opSemExpected("all", sym)
			if !ok {
				continue
			}
			checkOpReturns(p, r, fmt.Sprintf("%s#case:%s", fd.QName(), sym), cases[k], tc, want)
		}
		for _, sym := range []string{"==", "!="} {
			found := false
			for k := range cases {
				if symOf[k] == sym {
					found = true
				}
			}
			if !found {
				r.Viol(fd.QName()+"#case:"+sym, p.Rel(fd.Decl.Pos()), "evalBinaryExpr has no case for "+sym+" (expected before the dispatch on the operand kind)")
			}
		}
	} else {
		r.Undecided("(*Evaluator).evalBinaryExpr not found")
	}
	if fd := FindFunc(evalPkg, "(*Evaluator).evalUnaryExpr"); fd != nil {
		sf := p.SSAFunc(fd.Obj)
		tc := &opTermCtx{leaf: func(v ssa.Value) string {
			u, ok := v.(*ssa.UnOp)
			if !ok || u.Op != token.MUL {
				return ""
			}
			fa, ok := u.X.(*ssa.FieldAddr)
			if !ok {
				return ""
			}
			if _, f := fieldAddrInfo(fa); f == "V" {
				return "X"
			}
			return ""
		}}
		cases := constCases(sf, func(v ssa.Value) bool { return loadsField(v, "Op") })
		seen := map[string]bool{}
		for _, k := range sortedKeys(cases) {
			sym := symOf[k]
			for _, kind := range []string{"unary-num", "unary-bool"} {
				if want, ok := opSemExpected(kind, sym); ok {
					seen[sym] = true
					checkOpReturns(p, r, fmt.Sprintf("%s#case:%s", fd.QName(), sym), cases[k], tc, want)
				}
			}
		}
		for _, sym := range []string{"-", "!"} {
			if !seen[sym] {
				r.Viol(fd.QName()+"#case:"+sym, p.Rel(fd.Decl.Pos()), "evalUnaryExpr has no case for unary "+sym)
			}
		}
	} else {
		r.Undecided("(*Evaluator).evalUnaryExpr not found")
	}

	// ---------------- VM
	runFd := FindFunc(bcPkg, "(*VM).Run")
	popFd := FindFunc(bcPkg, "(*VM).pop")
	pushFd := FindFunc(bcPkg, "(*VM).push")
	if runFd == nil || popFd == nil || pushFd == nil {
		r.Undecided("(*VM).Run, pop or push not found")
		return
	}
	runSSA, popSSA, pushSSA := p.SSAFunc(runFd.Obj), p.SSAFunc(popFd.Obj), p.SSAFunc(pushFd.Obj)
	// pop summaries: function -> per result the ordinal of the pop it returns (1-based), and the number of pops
	type popSum struct {
		n       int
		results []int
	}
	sums := map[*ssa.Function]*popSum{popSSA: {n: 1, results: []int{1}}}
	var summarise func(fn *ssa.Function, depth int) *popSum
	summarise = func(fn *ssa.Function, depth int) *popSum {
		if s, ok := sums[fn]; ok {
			return s
		}
		if depth == 0 || fn == nil || fn.Blocks == nil || fn.Signature.Recv() == nil || namedOf(fn.Signature.Recv().Type()) == nil || namedOf(fn.Signature.Recv().Type()).Obj().Name() != "VM" {
			return nil
		}
		sums[fn] = nil
		s := &popSum{}
		origin := map[ssa.Value]int{}
		for bi, b := range fn.Blocks {
			for _, ins := range b.Instrs {
				call, ok := ins.(*ssa.Call)
				if !ok {
					continue
				}
				cs := summarise(call.Call.StaticCallee(), depth-1)
				if cs == nil || cs.n == 0 {
					continue
				}
				if bi != 0 {
					return nil // pops outside the entry block: not a straight-line pop helper
				}
				if len(cs.results) == 1 {
					origin[call] = s.n + cs.results[0]
				}
				s.n += cs.n
			}
		}
		if s.n == 0 {
			sums[fn] = s
			return s
		}
		rets := returnsOf(fn)
		if len(rets) != 1 {
			return nil
		}
		for i := range rets[0].Results {
			v := rets[0].Results[i]
			for {
				switch x := v.(type) {
				case *ssa.Convert:
					v = x.X
					continue
				case *ssa.ChangeType:
					v = x.X
					continue
				case *ssa.Extract: // val, ok := elem.(numVal)
					if ta, ok := x.Tuple.(*ssa.TypeAssert); ok && x.Index == 0 {
						v = ta.X
						continue
					}
				case *ssa.TypeAssert:
					v = x.X
					continue
				}
				break
			}
			s.results = append(s.results, origin[v])
		}
		sums[fn] = s
		return s
	}
	opcodeName := map[int64]string{}
	for _, k := range constsOfType(bcPkg.Types, "Opcode") {
		if n, ok := constant.Int64Val(k.Val()); ok {
			opcodeName[n] = k.Name()
		}
	}
	isOpcodeTag := func(v ssa.Value) bool {
		n := namedOf(v.Type())
		_, isConst := v.(*ssa.Const)
		return n != nil && n.Obj().Name() == "Opcode" && !isConst
	}
	vmCases := constCases(runSSA, isOpcodeTag)
	if len(vmCases) < 20 {
		r.Undecided("(*VM).Run: dispatch over Opcode not recognised (%d cases)", len(vmCases))
		return
	}
	type vmTerm struct {
		term, wrap, pos string
		npop            int
	}
	vmTerms := map[string]*vmTerm{}
	for k, head := range vmCases {
		name := opcodeName[k]
		// pops in the case head, in order
		popOrd := map[ssa.Value]int{}
		n := 0
		var pushes []*ssa.Call
		straight := true
		blocksUnder, liveEdges := regionUnder(head, isOpcodeTag, k)
		for _, b := range blocksUnder {
			for _, ins := range b.Instrs {
				call, ok := ins.(*ssa.Call)
				if !ok {
					continue
				}
				callee := call.Call.StaticCallee()
				if callee == pushSSA {
					pushes = append(pushes, call)
					continue
				}
				s := summarise(callee, 4)
				if s == nil || s.n == 0 {
					continue
				}
				if b != head {
					straight = false
				}
				if len(s.results) == 1 {
					popOrd[call] = n + s.results[0]
				} else {
					for _, ref := range *call.Referrers() {
						if ex, ok := ref.(*ssa.Extract); ok && ex.Index < len(s.results) {
							popOrd[ex] = n + s.results[ex.Index]
						}
					}
				}
				n += s.n
			}
		}
		if !straight || len(pushes) != 1 || n == 0 || n > 2 {
			continue // not an operator-shaped case (jumps, containers, range state)
		}
		tc := &opTermCtx{float: true, liveEdge: func(from, to *ssa.BasicBlock) bool { return liveEdges[[2]*ssa.BasicBlock{from, to}] }, leaf: func(v ssa.Value) string {
			// conversions keep the identity of a popped operand
			for {
				switch x := v.(type) {
				case *ssa.Convert:
					v = x.X
					continue
				case *ssa.ChangeType:
					v = x.X
					continue
				}
				break
			}
			ord, ok := popOrd[v]
			if !ok {
				return ""
			}
			if n == 1 {
				return "X"
			}
			if ord == 1 {
				return "R" // the right operand was compiled last and is on top
			}
			return "L"
		}}
		arg := pushes[0].Call.Args[1]
		wrap, payload := wrapperOf(arg)
		if payload == nil {
			payload = arg
		}
		t := tc.term(payload, 8)
		if wrap == "stringVal" || strings.Contains(name, "String") {
			tc.float = false
			t = tc.term(payload, 8)
		}
		vmTerms[name] = &vmTerm{term: t, wrap: wrap, pos: p.Rel(instrPos(pushes[0])), npop: n}
	}

	// compiler tables: operator constant -> opcode
	type mapping struct{ kind, fname string }
	compilerMap := func(fname string) (map[string]string, *FuncDecl) {
		fd := FindFunc(bcPkg, fname)
		if fd == nil {
			r.Undecided("%s not found", fname)
			return nil, nil
		}
		sf := p.SSAFunc(fd.Obj)
		out := map[string]string{}
		cases := constCases(sf, func(v ssa.Value) bool { return loadsField(v, "Op") })
		for k, head := range cases {
			for _, b := range regionOf(head) {
				for _, ins := range b.Instrs {
					call, ok := ins.(*ssa.Call)
					if !ok || call.Call.StaticCallee() == nil || call.Call.StaticCallee().Name() != "emit" || len(call.Call.Args) < 2 {
						continue
					}
					if kc, ok := call.Call.Args[1].(*ssa.Const); ok && kc.Value != nil {
						if n, ok := constant.Int64Val(kc.Value); ok {
							out[symOf[k]] = opcodeName[n]
						}
					}
				}
			}
		}
		return out, fd
	}
	for _, m := range []mapping{{"num", "(*Compiler).compileNumBinaryExpression"}, {"string", "(*Compiler).compileStringBinaryExpression"}, {"all", "(*Compiler).compileBinaryExpression"}, {"unary", "(*Compiler).compileUnaryExpression"}} {
		table, fd := compilerMap(m.fname)
		if fd == nil {
			continue
		}
		var syms []string
		for s := range table {
			syms = append(syms, s)
		}
		sort.Strings(syms)
		for _, sym := range syms {
			kinds := []string{m.kind}
			if m.kind == "unary" {
				kinds = []string{"unary-num", "unary-bool"}
			}
			for _, kind := range kinds {
				want, ok := opSemExpected(kind, sym)
				if !ok {
					continue
				}
				opc := table[sym]
				construct := fmt.Sprintf("%s#case:%s→%s", fd.QName(), sym, opc)
				vt := vmTerms[opc]
				switch {
				case vt == nil:
					r.Viol(construct, p.Rel(fd.Decl.Pos()), fmt.Sprintf("the compiler translates %s (%s operands) to %s, whose VM case is not of the form pop operands, push one result", sym, kind, opc))
				case vt.term != want.term || vt.wrap != want.wrap:
					r.Viol(construct, vt.pos, fmt.Sprintf("the compiler translates %s (%s operands) to %s, but the VM pushes %s as %s where the operator stands for %s as %s (L = left operand, R = right operand; the first pop is the right operand)",
						sym, kind, opc, vt.term, orNone(vt.wrap), want.term, want.wrap))
				default:
					r.Ok(construct, vt.pos, fmt.Sprintf("%s pushes %s as %s", opc, vt.term, vt.wrap))
				}
			}
		}
		if len(table) == 0 {
			r.Undecided("%s: no operator→opcode case recognised", m.fname)
		}
	}
	// operand order in the compiler: Left is translated before Right
	if fd := FindFunc(bcPkg, "(*Compiler).compileBinaryExpression"); fd != nil {
		sf := p.SSAFunc(fd.Obj)
		var left, right []*ssa.Call
		for _, b := range sf.Blocks {
			for _, ins := range b.Instrs {
				call, ok := ins.(*ssa.Call)
				if !ok || call.Call.StaticCallee() == nil || call.Call.StaticCallee().Name() != "Compile" || len(call.Call.Args) < 2 {
					continue
				}
				if loadsField(call.Call.Args[1], "Left") {
					left = append(left, call)
				}
				if loadsField(call.Call.Args[1], "Right") {
					right = append(right, call)
				}
			}
		}
		ok := len(left) == 1 && len(right) == 1 && instrDominates(left[0], right[0])
		r.Check(ok, fd.QName()+"#operand-order", p.Rel(fd.Decl.Pos()), "the left operand is translated before the right one, so the first pop of a binary opcode is the right operand",
			"compileBinaryExpression does not translate Left exactly once before Right: the VM's binary opcodes take the first pop as the right operand")
	}
}

func orNone(s string) string {
	if s == "" {
		return "an unwrapped value"
	}
	return s
}

// checkOpReturns: every successful return in the region of the case returns want.term wrapped in want.wrap.
func checkOpReturns(p *Program, r *Reporter, construct string, head *ssa.BasicBlock, tc *opTermCtx, want opExpect) {
	n := 0
	for _, b := range regionOf(head) {
		if len(b.Instrs) == 0 {
			continue
		}
		ret, ok := b.Instrs[len(b.Instrs)-1].(*ssa.Return)
		if !ok || len(ret.Results) == 0 {
			continue
		}
		if len(ret.Results) > 1 {
			if k, ok := ret.Results[len(ret.Results)-1].(*ssa.Const); !ok || !k.IsNil() {
				continue // error return
			}
		}
		n++
		wrap, payload := wrapperOf(ret.Results[0])
		got := "?"
		if payload != nil {
			got = tc.term(payload, 8)
		}
		pos := p.Rel(instrPos(ret))
		if got == want.term && wrap == want.wrap {
			r.Ok(construct, pos, "returns "+got+" as "+wrap)
		} else {
			r.Viol(construct, pos, fmt.Sprintf("this case returns %s as %s, the operator stands for %s as %s (L = left operand, R = right operand)", got, orNone(wrap), want.term, want.wrap))
		}
	}
	if n == 0 {
		r.Viol(construct, p.Rel(head.Parent().Pos()), "this operator case has no successful return in its own region (it falls through to another case or to the error)")
	}
}

// R-VMSTACK: a push never writes beyond the operand stack.
//
// The VM turns a program that needs too much stack into ErrStackOverflow instead of crashing the host. That rests on
// two sites that must agree: the bound tested in push and the size the stack is allocated with. So: every store into
// vm.stack indexed by vm.sp in push is dominated by the false edge of `vm.sp >= B` where B is either a constant that
// every allocation of the stack uses as its length, or len(vm.stack) itself with no reallocation of the stack between
// the test and the store.
var ruleVMStack = &Rule{
	ID: "R-VMSTACK",
	Doc: "the write position of (*VM).push is tested against the size the operand stack is allocated with (the same constant in the test and in every allocation, or len(vm.stack) " +
		"with no reallocation between test and store) on every path to the store",
	Floor: 2,
	Run:   runVMStack,
}

func runVMStack(c *Ctx, r *Reporter) {
	p, pkg := bytecodePkg(c, r)
	if pkg == nil {
		return
	}
	pushFd := FindFunc(pkg, "(*VM).push")
	if pushFd == nil {
		r.Undecided("(*VM).push not found")
		return
	}
	isVMField := func(v ssa.Value, field string) bool {
		u, ok := v.(*ssa.UnOp)
		if !ok || u.Op != token.MUL {
			return false
		}
		fa, ok := u.X.(*ssa.FieldAddr)
		if !ok {
			return false
		}
		owner, name := fieldAddrInfo(fa)
		return owner != nil && owner.Obj().Name() == "VM" && name == field
	}
	// allocations of the stack
	allocLens := map[string]bool{}
	var reallocFns []*ssa.Function
	nAlloc := 0
	for _, fn := range ssaFuncsOf(p, pkg) {
		for _, b := range fn.Blocks {
			for _, ins := range b.Instrs {
				st, ok := ins.(*ssa.Store)
				if !ok {
					continue
				}
				fa, ok := st.Addr.(*ssa.FieldAddr)
				if !ok {
					continue
				}
				owner, name := fieldAddrInfo(fa)
				if owner == nil || owner.Obj().Name() != "VM" || name != "stack" {
					continue
				}
				nAlloc++
				construct := fmt.Sprintf("%s#stack-alloc[%d]", ssaQName(fn), nAlloc)
				if a, ok := fa.X.(*ssa.Alloc); !ok || !a.Heap {
					reallocFns = append(reallocFns, fn)
				}
				// make with a constant length is lowered to a slice of a new array
				if sl, ok := st.Val.(*ssa.Slice); ok && sl.Low == nil {
					if a, ok := sl.X.(*ssa.Alloc); ok {
						if at, ok := a.Type().Underlying().(*types.Pointer).Elem().Underlying().(*types.Array); ok {
							ls := fmt.Sprint(at.Len())
							if sl.High != nil {
								hk, isConst := sl.High.(*ssa.Const)
								if !isConst || hk.Value == nil {
									allocLens["?"] = true
									r.Ok(construct, p.Rel(instrPos(st)), "the operand stack is allocated with a computed length: push has to test against len(vm.stack)")
									continue
								}
								ls = hk.Value.ExactString()
							}
							allocLens[ls] = true
							r.Ok(construct, p.Rel(instrPos(st)), "the operand stack is allocated with the constant length "+ls)
							continue
						}
					}
				}
				ms, ok := st.Val.(*ssa.MakeSlice)
				if !ok {
					allocLens["?"] = true
					r.Ok(construct, p.Rel(instrPos(st)), "the operand stack is assigned a slice of unknown length: push has to test against len(vm.stack)")
					continue
				}
				if k, ok := ms.Len.(*ssa.Const); ok && k.Value != nil {
					allocLens[k.Value.ExactString()] = true
					r.Ok(construct, p.Rel(instrPos(st)), "the operand stack is allocated with the constant length "+k.Value.ExactString())
				} else {
					allocLens["?"] = true
					r.Ok(construct, p.Rel(instrPos(st)), "the operand stack is allocated with a computed length: push has to test against len(vm.stack)")
				}
			}
		}
	}
	if nAlloc == 0 {
		r.Undecided("no allocation of VM.stack found")
		return
	}
	sf := p.SSAFunc(pushFd.Obj)
	n := 0
	for _, b := range sf.Blocks {
		for _, ins := range b.Instrs {
			st, ok := ins.(*ssa.Store)
			if !ok {
				continue
			}
			ia, ok := st.Addr.(*ssa.IndexAddr)
			if !ok || !isVMField(ia.X, "stack") {
				continue
			}
			n++
			construct := fmt.Sprintf("%s#bounded-store[%d]", pushFd.QName(), n)
			pos := p.Rel(instrPos(st))
			if !isVMField(ia.Index, "sp") {
				r.Viol(construct, pos, "push stores at a position other than vm.sp")
				continue
			}
			good, why := false, "the store into vm.stack[vm.sp] is not dominated by the false edge of a test `vm.sp >= bound`"
			for d := b; d != nil; d = d.Idom() {
				id := d.Idom()
				if id == nil || len(id.Instrs) == 0 {
					continue
				}
				ifi, ok := id.Instrs[len(id.Instrs)-1].(*ssa.If)
				if !ok {
					continue
				}
				bo, ok := ifi.Cond.(*ssa.BinOp)
				if !ok || !isVMField(bo.X, "sp") {
					continue
				}
				inEdge := -1
				switch bo.Op {
				case token.GEQ:
					inEdge = 1
				case token.LSS:
					inEdge = 0
				}
				if inEdge < 0 || !edgeDominates(id, inEdge, b) {
					continue
				}
				switch y := bo.Y.(type) {
				case *ssa.Const:
					if y.Value != nil && len(allocLens) == 1 && allocLens[y.Value.ExactString()] {
						good = true
					} else {
						why = fmt.Sprintf("push tests vm.sp against %s, but the operand stack is not always allocated with exactly that length: a push below the tested bound can lie beyond the stack (host crash instead of ErrStackOverflow)", y.Value)
					}
				case *ssa.Call:
					if bi, ok := y.Call.Value.(*ssa.Builtin); ok && bi.Name() == "len" && len(y.Call.Args) == 1 && isVMField(y.Call.Args[0], "stack") {
						// no reallocation between the test and the store: no path from the test to the store passes a call of a function that stores vm.stack
						realloc := false
						for _, blk := range sf.Blocks {
							succ := id.Succs[inEdge] // only what lies behind the edge on which the position was found in range
							if !((succ == blk || succ.Dominates(blk)) && (blk == b || reachesBlock(blk, b))) {
								continue
							}
							for _, i2 := range blk.Instrs {
								if c2, ok := i2.(*ssa.Call); ok {
									for _, rf := range reallocFns {
										if c2.Call.StaticCallee() == rf {
											realloc = true
										}
									}
								}
							}
						}
						if !realloc {
							good = true
						} else {
							why = "push tests vm.sp against len(vm.stack), but the stack can be reallocated between the test and the store"
						}
					}
				}
			}
			r.Check(good, construct, pos, "the store position is below the allocated size of the stack on every path", why)
		}
	}
	if n == 0 {
		r.Undecided("(*VM).push does not store into vm.stack")
	}
}

// R-EXITDEFER: no deferred work is pending when the process exits.
//
// os.Exit does not run deferred calls. `evy run` ends through handleEvyErr, which exits with the status of the Evy
// error; anything that a function on the way has deferred — closing, flushing or renaming the SVG output — is
// silently dropped whenever the program ends with an error or with the exit builtin, which is exactly when "as much
// of the drawing as was produced" is promised. So in the command package no call that may reach os.Exit is reachable
// from a defer statement of the same function (the deferred call would still be pending).
var ruleExitDefer = &Rule{
	ID:    "R-EXITDEFER",
	Doc:   "in the command package no call that may reach os.Exit lies behind a defer statement of the same function: work deferred there (closing, flushing, renaming an output file) would be skipped by the exit",
	Floor: 1,
	Run:   runExitDefer,
}

func runExitDefer(c *Ctx, r *Reporter) {
	p, err := c.Default()
	if err != nil {
		r.Undecided("%v", err)
		return
	}
	pkg := p.Pkg("")
	if pkg == nil {
		r.Undecided("command package not loaded")
		return
	}
	fns := ssaFuncsOf(p, pkg)
	var all []*ssa.Function
	for _, fn := range fns {
		all = append(all, withAnon(fn)...)
	}
	mayExit := map[*ssa.Function]bool{}
	for changed := true; changed; {
		changed = false
		for _, fn := range all {
			if mayExit[fn] {
				continue
			}
			for _, b := range fn.Blocks {
				for _, ins := range b.Instrs {
					call, ok := ins.(*ssa.Call)
					if !ok {
						continue
					}
					sc := call.Call.StaticCallee()
					if sc == nil {
						continue
					}
					if (sc.Pkg != nil && sc.Pkg.Pkg.Path() == "os" && sc.Name() == "Exit") || mayExit[sc] {
						mayExit[fn] = true
						changed = true
					}
				}
			}
		}
	}
	nExit := 0
	for _, fn := range all {
		k := 0
		for _, b := range fn.Blocks {
			for i, ins := range b.Instrs {
				call, ok := ins.(*ssa.Call)
				if !ok {
					continue
				}
				sc := call.Call.StaticCallee()
				if sc == nil || !(mayExit[sc] || (sc.Pkg != nil && sc.Pkg.Pkg.Path() == "os" && sc.Name() == "Exit")) {
					continue
				}
				nExit++
				k++
				construct := fmt.Sprintf("%s#exit-call[%d]:%s", ssaQName(fn), k, sc.Name())
				var pending *ssa.Defer
				for _, b2 := range fn.Blocks {
					for j, i2 := range b2.Instrs {
						d, ok := i2.(*ssa.Defer)
						if !ok {
							continue
						}
						if (b2 == b && j < i) || (b2 != b && reachesBlock(b2, b)) {
							pending = d
						}
					}
				}
				if pending == nil {
					r.Ok(construct, p.Rel(instrPos(call)), "no deferred call can be pending here")
				} else {
					r.Viol(construct, p.Rel(instrPos(call)), fmt.Sprintf("%s may end the process through os.Exit while the call deferred at %s is still pending: deferred work (closing, flushing or renaming an output file) is skipped — "+
						"with --svg-out the drawing of a program that ends with an error or with `exit` would be lost", sc.Name(), p.Rel(instrPos(pending))))
				}
			}
		}
	}
	if nExit == 0 {
		r.Undecided("no call that may reach os.Exit found in the command package")
	}
}

// R-EQDEEP: structure of deep equality on arrays and of equality on basic values.
//
// `==` on arrays is element-wise: arrays of different length are unequal; element i of one array is compared with
// element i of the other (the same index value feeds both accesses); the first unequal pair answers false; true is
// answered only behind the loop. On basic values equality is the Go `==` of the two payloads, and an any is equal
// only if both its type and its value are.
var ruleEqDeep = &Rule{
	ID: "R-EQDEEP",
	Doc: "array equality compares the lengths (false when different), then element i with element i for every i (false on the first difference) and answers true only behind the loop; " +
		"equality of num/string/bool is == of the payloads; equality of an any needs equal type and equal value",
	Floor: 8,
	Run:   runEqDeep,
}

func runEqDeep(c *Ctx, r *Reporter) {
	p, err := c.Default()
	if err != nil {
		r.Undecided("%v", err)
		return
	}
	type site struct{ rel, fn string }
	for _, s := range []site{{evaluatorRel, "(*arrayVal).Equals"}, {bytecodeRel, "(arrayVal).Equals"}} {
		pkg := p.Pkg(s.rel)
		fd := FindFunc(pkg, s.fn)
		if fd == nil {
			r.Undecided("%s.%s not found", s.rel, s.fn)
			continue
		}
		sf := p.SSAFunc(fd.Obj)
		q := fd.QName()
		pos := p.Rel(fd.Decl.Pos())
		// element comparison inside the loop
		var elemEq *ssa.Call
		lenCmp := false
		for _, b := range sf.Blocks {
			for _, ins := range b.Instrs {
				switch x := ins.(type) {
				case *ssa.Call:
					if x.Call.IsInvoke() && x.Call.Method.Name() == "Equals" && inCycle(b) {
						elemEq = x
					}
				case *ssa.BinOp:
					if x.Op == token.NEQ || x.Op == token.EQL {
						l1, ok1 := x.X.(*ssa.Call)
						l2, ok2 := x.Y.(*ssa.Call)
						if ok1 && ok2 && isLenCall(l1) && isLenCall(l2) {
							for _, ref := range *x.Referrers() {
								if ifi, ok := ref.(*ssa.If); ok {
									edge := 0
									if x.Op == token.EQL {
										edge = 1
									}
									if onlyConstReturns(ifi.Block().Succs[edge], "false", map[*ssa.BasicBlock]bool{}) {
										lenCmp = true
									}
								}
							}
						}
					}
				}
			}
		}
		r.Check(lenCmp, q+"#lengths", pos, "arrays of different length are unequal", "array equality does not answer false for arrays of different length: a prefix would equal the longer array (or the index runs out of range)")
		if elemEq == nil {
			r.Viol(q+"#elementwise", pos, "array equality has no loop that compares the elements with Equals")
			continue
		}
		idxOf := func(v ssa.Value) (ssa.Value, ssa.Value) { // index value and slice of an element access
			for i := 0; i < 4; i++ {
				switch x := v.(type) {
				case *ssa.UnOp:
					v = x.X
					continue
				case *ssa.IndexAddr:
					return x.Index, x.X
				case *ssa.Index:
					return x.Index, x.X
				case *ssa.Extract: // range over a slice: element of the next() tuple — the index is the key extract
					if nx, ok := x.Tuple.(*ssa.Next); ok {
						_ = nx
					}
				}
				break
			}
			return nil, nil
		}
		i1, s1 := idxOf(elemEq.Call.Value)
		i2, s2 := idxOf(elemEq.Call.Args[0])
		sameIdx := i1 != nil && i1 == i2 && s1 != nil && s2 != nil && s1 != s2
		r.Check(sameIdx, q+"#same-index", p.Rel(instrPos(elemEq)), "element i is compared with element i of the other array", "the two elements handed to Equals are not taken from the two arrays at the same index: the comparison pairs the wrong elements")
		// unequal pair answers false
		falseOnDiff := false
		for _, ref := range *elemEq.Referrers() {
			switch x := ref.(type) {
			case *ssa.If:
				if onlyConstReturns(x.Block().Succs[1], "false", map[*ssa.BasicBlock]bool{}) {
					falseOnDiff = true
				}
			case *ssa.UnOp:
				if x.Op == token.NOT {
					for _, r2 := range *x.Referrers() {
						if ifi, ok := r2.(*ssa.If); ok && onlyConstReturns(ifi.Block().Succs[0], "false", map[*ssa.BasicBlock]bool{}) {
							falseOnDiff = true
						}
					}
				}
			}
		}
		r.Check(falseOnDiff, q+"#first-difference", p.Rel(instrPos(elemEq)), "the first unequal pair answers false", "an unequal pair of elements does not answer false at once: a later equal pair can make different arrays compare equal")
		// true only behind the loop
		hdr := loopHeaderOf(elemEq.Block())
		trueOK := hdr != nil
		nTrue := 0
		for _, ret := range returnsOf(sf) {
			for _, rv := range resultValues(ret, 0) {
				k, ok := rv.(*ssa.Const)
				if !ok {
					trueOK = false // a computed answer
					continue
				}
				if k.Value != nil && constant.BoolVal(k.Value) {
					nTrue++
					if hdr == nil || !hdr.Dominates(ret.Block()) || reachesBlock(ret.Block(), hdr) {
						trueOK = false
					}
				}
			}
		}
		r.Check(trueOK && nTrue > 0, q+"#true-behind-loop", pos, "true is answered only after every pair was compared", "array equality answers true before every pair of elements was compared (inside the loop or on a path around it)")
	}
	// basic values and any
	for _, s := range []struct{ rel, fn, want string }{
		{evaluatorRel, "(*numVal).Equals", "(L == R)"}, {evaluatorRel, "(*stringVal).Equals", "(L == R)"}, {evaluatorRel, "(*boolVal).Equals", "(L == R)"},
		{bytecodeRel, "(numVal).Equals", "(L == R)"}, {bytecodeRel, "(stringVal).Equals", "(L == R)"}, {bytecodeRel, "(boolVal).Equals", "(L == R)"},
	} {
		pkg := p.Pkg(s.rel)
		fd := FindFunc(pkg, s.fn)
		if fd == nil {
			r.Undecided("%s.%s not found", s.rel, s.fn)
			continue
		}
		sf := p.SSAFunc(fd.Obj)
		tc := &opTermCtx{leaf: func(v ssa.Value) string {
			// payload of the receiver / of the asserted argument
			for i := 0; i < 4; i++ {
				switch x := v.(type) {
				case *ssa.UnOp:
					if x.Op == token.MUL {
						v = x.X
						continue
					}
				case *ssa.FieldAddr:
					v = x.X
					continue
				case *ssa.Field:
					v = x.X
					continue
				case *ssa.Extract:
					if ta, ok := x.Tuple.(*ssa.TypeAssert); ok && x.Index == 0 && len(sf.Params) == 2 && ta.X == ssa.Value(sf.Params[1]) {
						return "R"
					}
				case *ssa.TypeAssert:
					if len(sf.Params) == 2 && x.X == ssa.Value(sf.Params[1]) {
						return "R"
					}
				case *ssa.Parameter:
					if len(sf.Params) > 0 && x == sf.Params[0] {
						return "L"
					}
				}
				break
			}
			return ""
		}}
		got := ""
		n := 0
		for _, ret := range returnsOf(sf) {
			for _, rv := range resultValues(ret, 0) {
				n++
				t := tc.term(rv, 6)
				if t == "(R == L)" {
					t = "(L == R)"
				}
				if got == "" || t != s.want {
					got = t
				}
			}
		}
		r.Check(n > 0 && got == s.want, fd.QName()+"#payload-equality", p.Rel(fd.Decl.Pos()), "returns "+s.want+" of the two payloads", fmt.Sprintf("%s returns %s, equality of basic values is %s of the receiver's and the argument's payload", s.fn, got, s.want))
	}
	if fd := FindFunc(p.Pkg(evaluatorRel), "(*anyVal).Equals"); fd != nil {
		sf := p.SSAFunc(fd.Obj)
		// both a.T.Equals(a2.T) and a.V.Equals(a2.V) are called, and the answer is their conjunction
		fields := map[string]bool{}
		for _, b := range sf.Blocks {
			for _, ins := range b.Instrs {
				call, ok := ins.(*ssa.Call)
				if !ok || len(call.Call.Args) == 0 {
					continue
				}
				name := ""
				if call.Call.IsInvoke() {
					name = call.Call.Method.Name()
				} else if sc := call.Call.StaticCallee(); sc != nil {
					name = sc.Name()
				}
				if name != "Equals" {
					continue
				}
				recv := call.Call.Value
				if !call.Call.IsInvoke() {
					recv = call.Call.Args[0]
				}
				if u, ok := recv.(*ssa.UnOp); ok {
					if fa, ok := u.X.(*ssa.FieldAddr); ok {
						_, f := fieldAddrInfo(fa)
						fields[f] = true
					}
				}
			}
		}
		conj := false
		for _, ret := range returnsOf(sf) {
			for _, rv := range resultValues(ret, 0) {
				if phi, ok := rv.(*ssa.Phi); ok {
					tc := &opTermCtx{leaf: func(v ssa.Value) string {
						if _, ok := v.(*ssa.Call); ok {
							return "E"
						}
						return ""
					}}
					if tc.shortCircuit(phi, 4) == "(E && E)" {
						conj = true
					}
				}
			}
		}
		r.Check(fields["T"] && fields["V"] && conj, fd.QName()+"#type-and-value", p.Rel(fd.Decl.Pos()), "an any equals another only if type and value are equal", "(*anyVal).Equals must answer a.T.Equals(a2.T) && a.V.Equals(a2.V): without the type (or the value) part, values of different types held in an any compare equal")
	} else {
		r.Undecided("(*anyVal).Equals not found")
	}
}

func isLenCall(c *ssa.Call) bool {
	bi, ok := c.Call.Value.(*ssa.Builtin)
	return ok && bi.Name() == "len"
}

// R-WSSKEEP: a binary expression parsed where white space separates list elements is printed without spaces.
//
// Inside `[a+b c]`, an argument list or a print statement, `a+b` is one element only because it contains no space.
// The parser marks every binary expression it builds in such a context (recordWSS on the edge where isWSS() holds, on
// every path that returns the node), and the formatter writes the space around the operator only for unmarked nodes,
// on both sides alike. A node that is not marked, or a space that is written regardless, turns one element into three.
var ruleWSSKeep = &Rule{
	ID: "R-WSSKEEP",
	Doc: "every binary expression built while white space separates elements is recorded (on every returning path behind the true edge of isWSS()), writeWSS writes its space only for unrecorded nodes, " +
		"and the formatter puts writeWSS on both sides of the operator and no other space",
	Floor: 3,
	Run:   runWSSKeep,
}

func runWSSKeep(c *Ctx, r *Reporter) {
	p, pkg := parserPkg(c, r)
	if pkg == nil {
		return
	}
	// (a) recording
	if fd := FindFunc(pkg, "(*parser).parseBinaryExpr"); fd != nil {
		sf := p.SSAFunc(fd.Obj)
		var rec *ssa.Call
		var node *ssa.Alloc
		for _, b := range sf.Blocks {
			for _, ins := range b.Instrs {
				switch x := ins.(type) {
				case *ssa.Call:
					if sc := x.Call.StaticCallee(); sc != nil && sc.Name() == "recordWSS" {
						rec = x
					}
				case *ssa.Alloc:
					if n := allocElemNamed(x); n != nil && n.Obj().Name() == "BinaryExpression" {
						node = x
					}
				}
			}
		}
		good, why := false, "parseBinaryExpr never records the node for the formatter"
		if rec != nil && node != nil {
			why = "the node is not recorded exactly on the edge where isWSS() holds"
			// recorded node is the node built here
			if len(rec.Call.Args) == 2 && rec.Call.Args[1] == ssa.Value(node) {
				for d := rec.Block(); d != nil; d = d.Idom() {
					id := d.Idom()
					if id == nil || len(id.Instrs) == 0 {
						continue
					}
					ifi, ok := id.Instrs[len(id.Instrs)-1].(*ssa.If)
					if !ok {
						continue
					}
					if call, ok := ifi.Cond.(*ssa.Call); ok && call.Call.StaticCallee() != nil && call.Call.StaticCallee().Name() == "isWSS" && edgeDominates(id, 0, rec.Block()) {
						// every return of the node passes this test: the test block dominates the returning blocks
						all := true
						for _, ret := range returnsOf(sf) {
							for _, rv := range resultValues(ret, 0) {
								if mi, ok := rv.(*ssa.MakeInterface); ok && mi.X == ssa.Value(node) && !id.Dominates(ret.Block()) {
									all = false
								}
							}
						}
						// and nothing between the test's true edge and the join skips the call: the call is in the edge's block
						if all && id.Succs[0] == rec.Block() {
							good = true
						} else {
							why = "a path returns the node without passing the isWSS() test and its recordWSS call"
						}
					}
				}
			}
		}
		r.Check(good, fd.QName()+"#records-wss", p.Rel(fd.Decl.Pos()), "the node is recorded on the edge where white space separates elements, on every returning path",
			why+": `[a+b c]` would be printed as `[a + b c]`, which is a list of four elements")
	} else {
		r.Undecided("(*parser).parseBinaryExpr not found")
	}
	// (b) writeWSS
	inlineWSS := false
	if fd := FindFunc(pkg, "(*formatting).writeWSS"); fd != nil {
		sf := p.SSAFunc(fd.Obj)
		nWrites := 0
		for _, b := range sf.Blocks {
			for _, ins := range b.Instrs {
				if call, ok := ins.(*ssa.Call); ok && call.Call.StaticCallee() != nil && call.Call.StaticCallee().Name() == "write" {
					nWrites++
				}
			}
		}
		// on every path to the write, the look-up of the node in the white-space table has come out false: the value
		// read is false, or the entry is absent (`if !f.wss[n]`, or `tight, recorded := f.wss[n]; if recorded && tight`)
		isWSSLookup := func(v ssa.Value) (isValue, isPresence bool) {
			if lk, ok := v.(*ssa.Lookup); ok && !lk.CommaOk && loadsField(lk.X, "wss") && len(sf.Params) == 2 && lk.Index == ssa.Value(sf.Params[1]) {
				return true, false
			}
			if ex, ok := v.(*ssa.Extract); ok {
				if lk, ok := ex.Tuple.(*ssa.Lookup); ok && lk.CommaOk && loadsField(lk.X, "wss") && len(sf.Params) == 2 && lk.Index == ssa.Value(sf.Params[1]) {
					return ex.Index == 0, ex.Index == 1
				}
			}
			return false, false
		}
		paths := pathsTo(sf, func(ins ssa.Instruction) bool {
			call, ok := ins.(*ssa.Call)
			return ok && call.Call.StaticCallee() != nil && call.Call.StaticCallee().Name() == "write"
		})
		good := len(paths) > 0
		for _, pa := range paths {
			unrecorded := false
			for _, f := range pa.facts {
				if isVal, isPres := isWSSLookup(f.Cond); (isVal || isPres) && !f.Truth {
					unrecorded = true
				}
			}
			if !unrecorded {
				good = false
			}
		}
		if !(good && nWrites == 1) && binaryOutputOK(p, pkg) {
			// the helper writes more than the space (the operator too, say): what counts is what is written for a
			// binary expression as a whole, which is checked path by path
			r.Ok(fd.QName()+"#space-only-if-unrecorded", p.Rel(fd.Decl.Pos()), "every path through the formatting of a binary expression writes `left op right` when the node is recorded and `left ␣ op ␣ right` when it is not")
		} else {
			r.Check(good && nWrites == 1, fd.QName()+"#space-only-if-unrecorded", p.Rel(fd.Decl.Pos()), "the space is written only for nodes that were not recorded", "writeWSS writes its space on a path where the node was recorded as white-space sensitive (or unconditionally)")
		}
	} else {
		inlineWSS = true // no helper: the guarded space must be found in the formatter's case itself, see (c)
	}
	if inlineWSS {
		r.Ok("pkg/parser.(*formatting).writeWSS#space-only-if-unrecorded", "pkg/parser/format.go", "no helper of that name: the guarded space is checked where it is written, in the formatter's case for binary expressions")
		r.Note("no writeWSS helper: the space around a binary operator is looked for in the formatter's case, guarded by the look-up in the white-space table")
	}
	// (c) the formatter's case: writeWSS, operator, writeWSS — and no literal space
	if fd := FindFunc(pkg, "(*formatting).format"); fd != nil {
		tss := typeSwitches(pkg.TypesInfo, fd.Decl.Body, func(ast.Expr) bool { return true })
		// the dispatch may continue in a function format hands the node on to (formatExpr)
		ast.Inspect(fd.Decl.Body, func(n ast.Node) bool {
			if call, ok := n.(*ast.CallExpr); ok {
				if cf := calleeFunc(pkg.TypesInfo, call); cf != nil && cf.Pkg() == pkg.Types && cf != fd.Obj {
					for _, d2 := range Funcs(pkg) {
						if d2.Obj == cf && d2.Decl.Body != nil && len(call.Args) == 1 {
							if t := pkg.TypesInfo.TypeOf(call.Args[0]); t != nil && types.IsInterface(t) {
								tss = append(tss, typeSwitches(pkg.TypesInfo, d2.Decl.Body, func(ast.Expr) bool { return true })...)
							}
						}
					}
				}
			}
			return true
		})
		found := false
		for _, ts := range tss {
			cases, _ := typeSwitchCases(pkg.TypesInfo, ts)
			for tn, cc := range cases {
				if tn.Name() != "BinaryExpression" {
					continue
				}
				found = true
				var seq []string
				sawInline := false
				_ = sawInline
				body := cc.Body
				// the case may hand the node to a helper of its own: `case *BinaryExpression: f.formatBinaryExpression(n)`
				if len(body) == 1 {
					if es, ok := body[0].(*ast.ExprStmt); ok {
						if call, ok := es.X.(*ast.CallExpr); ok {
							if cf := calleeFunc(pkg.TypesInfo, call); cf != nil && cf.Name() != "format" {
								for _, d2 := range Funcs(pkg) {
									if d2.Obj == cf && d2.Decl.Body != nil {
										body = d2.Decl.Body.List
									}
								}
							}
						}
					}
				}
				// `tight := f.wss[n] … if !tight { f.write(" ") }`: writeWSS written out in place
				wssLocals := map[types.Object]bool{}
				isWSSLookup := func(e ast.Expr) bool {
					e = ast.Unparen(e)
					if id, ok := e.(*ast.Ident); ok {
						return wssLocals[pkg.TypesInfo.ObjectOf(id)]
					}
					ix, ok := e.(*ast.IndexExpr)
					if !ok {
						return false
					}
					sel, ok := ast.Unparen(ix.X).(*ast.SelectorExpr)
					if !ok || sel.Sel.Name != "wss" {
						return false
					}
					id, ok := ast.Unparen(ix.Index).(*ast.Ident)
					return ok && pkg.TypesInfo.ObjectOf(id) == pkg.TypesInfo.Implicits[cc]
				}
				if len(body) == len(cc.Body) {
					// (the case's own variable is the implicit object of the clause; in a helper it is the parameter)
				}
				for _, st := range body {
					if as, ok := st.(*ast.AssignStmt); ok && len(as.Lhs) == 1 && len(as.Rhs) == 1 && as.Tok == token.DEFINE && isWSSLookup(as.Rhs[0]) {
						if id, ok := as.Lhs[0].(*ast.Ident); ok {
							wssLocals[pkg.TypesInfo.ObjectOf(id)] = true
							continue
						}
					}
					if ifs, ok := st.(*ast.IfStmt); ok && ifs.Else == nil && ifs.Init == nil && len(ifs.Body.List) == 1 {
						if ue, ok := ast.Unparen(ifs.Cond).(*ast.UnaryExpr); ok && ue.Op == token.NOT && isWSSLookup(ue.X) {
							if es, ok := ifs.Body.List[0].(*ast.ExprStmt); ok {
								if call, ok := es.X.(*ast.CallExpr); ok && len(call.Args) == 1 {
									if cf := calleeFunc(pkg.TypesInfo, call); cf != nil && cf.Name() == "write" {
										if sv, ok := constString(pkg.TypesInfo, call.Args[0]); ok && sv == " " {
											seq = append(seq, "wss")
											sawInline = true
											continue
										}
									}
								}
							}
						}
					}
					ast.Inspect(st, func(n ast.Node) bool {
						call, ok := n.(*ast.CallExpr)
						if !ok {
							return true
						}
						cf := calleeFunc(pkg.TypesInfo, call)
						if cf == nil {
							return true
						}
						switch cf.Name() {
						case "writeWSS":
							seq = append(seq, "wss")
						case "format":
							if len(call.Args) == 1 {
								name := types.ExprString(call.Args[0])
								if sel, ok := ast.Unparen(call.Args[0]).(*ast.SelectorExpr); ok {
									name = sel.Sel.Name
								}
								seq = append(seq, "format:"+name)
							}
						case "write", "writes":
							lit := false
							for _, a := range call.Args {
								if s, ok := constString(pkg.TypesInfo, a); ok && strings.Contains(s, " ") {
									lit = true
								}
							}
							if lit {
								seq = append(seq, "space")
							} else {
								seq = append(seq, "op")
							}
						}
						return true
					})
				}
				got := strings.Join(seq, " ")
				if got != "format:Left wss op wss format:Right" && binaryOutputOK(p, pkg) {
					r.Ok(fd.QName()+"#case:BinaryExpression", p.Rel(cc.Pos()), "every path through the formatting of a binary expression writes `left op right` when the node is recorded and `left ␣ op ␣ right` when it is not")
					continue
				}
				r.Check(got == "format:Left wss op wss format:Right", fd.QName()+"#case:BinaryExpression", p.Rel(cc.Pos()), "left, optional space, operator, optional space, right",
					"the formatter prints a binary expression as `"+got+"`, expected `format:Left wss op wss format:Right`: a space that does not go through writeWSS (or only on one side) splits or joins list elements")
			}
		}
		if !found {
			r.Undecided("(*formatting).format has no case for BinaryExpression")
		}
	}
}

// R-SCOPECHAIN: the run-time scope chain binds in the current scope and assigns to the innermost existing variable.
//
// A declaration creates the variable in the current scope (so an inner variable shadows an outer one and disappears
// with its block); a look-up and an assignment walk the chain outwards from the current scope and stop at the first
// scope that has the name. Structurally: set stores into its own table unconditionally (but for "_"); get and update
// decide on the look-up in their own table first and otherwise hand the same name (and value) to the outer scope,
// returning its answer; update stores only on the found edge; the evaluator declares through set and assigns a
// variable through update.
var ruleScopeChain = &Rule{
	ID: "R-SCOPECHAIN",
	Doc: "(*scope).set stores into the scope's own table; get and update look their own table up first and delegate the same name to the outer scope otherwise, update stores only where the name was found; " +
		"declarations go through set on the current scope, assignments to a variable through update",
	Floor: 5,
	Run:   runScopeChain,
}

func runScopeChain(c *Ctx, r *Reporter) {
	p, pkg := evaluatorPkg(c, r)
	if pkg == nil {
		return
	}
	ownValues := func(v ssa.Value, fn *ssa.Function) bool { // load of s.values with s the receiver
		u, ok := v.(*ssa.UnOp)
		if !ok {
			return false
		}
		fa, ok := u.X.(*ssa.FieldAddr)
		if !ok {
			return false
		}
		_, name := fieldAddrInfo(fa)
		return name == "values" && len(fn.Params) > 0 && fa.X == ssa.Value(fn.Params[0])
	}
	outerOf := func(v ssa.Value, fn *ssa.Function) bool {
		u, ok := v.(*ssa.UnOp)
		if !ok {
			return false
		}
		fa, ok := u.X.(*ssa.FieldAddr)
		if !ok {
			return false
		}
		_, name := fieldAddrInfo(fa)
		return name == "outer" && len(fn.Params) > 0 && fa.X == ssa.Value(fn.Params[0])
	}
	get := func(name string) (*FuncDecl, *ssa.Function) {
		fd := FindFunc(pkg, name)
		if fd == nil {
			r.Undecided("%s not found", name)
			return nil, nil
		}
		return fd, p.SSAFunc(fd.Obj)
	}
	// set
	if fd, sf := get("(*scope).set"); sf != nil {
		n, good := 0, true
		for _, b := range sf.Blocks {
			for _, ins := range b.Instrs {
				if mu, ok := ins.(*ssa.MapUpdate); ok {
					n++
					if !(ownValues(mu.Map, sf) && len(sf.Params) == 3 && mu.Key == ssa.Value(sf.Params[1]) && mu.Value == ssa.Value(sf.Params[2])) {
						good = false
					}
				}
				if call, ok := ins.(*ssa.Call); ok && call.Call.StaticCallee() != nil {
					good = false // a declaration does not consult or touch any other scope
				}
			}
		}
		r.Check(good && n == 1, fd.QName()+"#binds-here", p.Rel(fd.Decl.Pos()), "a declaration binds the name in this scope's own table", "(*scope).set does not simply store (name, value) in the scope's own table: a declaration in a block would change or consult an enclosing scope")
	}
	// get and update
	for _, name := range []string{"(*scope).get", "(*scope).update"} {
		fd, sf := get(name)
		if sf == nil {
			continue
		}
		var own *ssa.Lookup
		var rec *ssa.Call
		var stores []*ssa.MapUpdate
		for _, b := range sf.Blocks {
			for _, ins := range b.Instrs {
				switch x := ins.(type) {
				case *ssa.Lookup:
					if ownValues(x.X, sf) && len(sf.Params) > 1 && x.Index == ssa.Value(sf.Params[1]) {
						own = x
					}
				case *ssa.Call:
					if x.Call.StaticCallee() == sf {
						rec = x
					}
				case *ssa.MapUpdate:
					stores = append(stores, x)
				}
			}
		}
		q := fd.QName()
		pos := p.Rel(fd.Decl.Pos())
		if rec == nil {
			// the loop form: a cursor that starts at the receiver and only moves to cursor.outer; every look-up and
			// every store uses the cursor's own table with the name parameter as key, stores lie on the found edge
			var lk *ssa.Lookup
			good := true
			cursorTable := func(v ssa.Value) bool {
				u, ok := v.(*ssa.UnOp)
				if !ok {
					return false
				}
				fa, ok := u.X.(*ssa.FieldAddr)
				if !ok {
					return false
				}
				_, f := fieldAddrInfo(fa)
				return f == "values" && isScopeCursor(fa.X, sf, map[ssa.Value]bool{})
			}
			for _, b := range sf.Blocks {
				for _, ins := range b.Instrs {
					if x, ok := ins.(*ssa.Lookup); ok {
						if _, isMap := x.X.Type().Underlying().(*types.Map); isMap {
							if cursorTable(x.X) && len(sf.Params) > 1 && x.Index == ssa.Value(sf.Params[1]) {
								lk = x
							} else {
								good = false
							}
						}
					}
				}
			}
			if lk != nil {
				for _, st := range stores {
					onFound := false
					for _, blk := range sf.Blocks {
						if len(blk.Instrs) == 0 {
							continue
						}
						if ifi, ok := blk.Instrs[len(blk.Instrs)-1].(*ssa.If); ok {
							if ex, ok := ifi.Cond.(*ssa.Extract); ok && ex.Tuple == ssa.Value(lk) && ex.Index == 1 && edgeDominates(blk, 0, st.Block()) {
								onFound = true
							}
						}
					}
					if !onFound || !cursorTable(st.Map) || st.Key != ssa.Value(sf.Params[1]) {
						good = false
					}
				}
			}
			r.Check(lk != nil && good, q+"#innermost-first", pos, "a cursor walks the chain outwards from this scope; its own table is consulted at every step",
				name+" must look the name up in its own table and otherwise ask the outer scope")
			if name == "(*scope).update" {
				r.Check(len(stores) == 1, q+"#stores-where-found", pos, "the value is stored in the scope that has the name", fmt.Sprintf("(*scope).update has %d stores, expected exactly one (on the found edge of its look-up)", len(stores)))
			} else {
				r.Check(len(stores) == 0, q+"#read-only", pos, "a look-up does not write", "(*scope).get writes into a scope")
			}
			continue
		}
		if own == nil {
			r.Viol(q+"#innermost-first", pos, name+" must look the name up in its own table and otherwise ask the outer scope")
			continue
		}
		// the recursive call: on the not-found edge, receiver s.outer, same name (and value)
		sameArgs := outerOf(rec.Call.Args[0], sf)
		for i := 1; i < len(rec.Call.Args) && i < len(sf.Params); i++ {
			if rec.Call.Args[i] != ssa.Value(sf.Params[i]) {
				sameArgs = false
			}
		}
		notFound := false
		for _, blk := range sf.Blocks {
			if len(blk.Instrs) == 0 {
				continue
			}
			ifi, ok := blk.Instrs[len(blk.Instrs)-1].(*ssa.If)
			if !ok {
				continue
			}
			if ex, ok := ifi.Cond.(*ssa.Extract); ok && ex.Tuple == ssa.Value(own) && ex.Index == 1 {
				if edgeDominates(blk, 1, rec.Block()) {
					notFound = true
				}
				for _, st := range stores {
					if !(edgeDominates(blk, 0, st.Block()) && ownValues(st.Map, sf) && st.Key == ssa.Value(sf.Params[1])) {
						notFound = false
					}
				}
			}
		}
		// the outer scope's answer is returned as it is
		handsOn := false
		for _, ret := range returnsOf(sf) {
			for i := range ret.Results {
				for _, rv := range resultValues(ret, i) {
					switch x := rv.(type) {
					case *ssa.Call:
						if x == rec {
							handsOn = true
						}
					case *ssa.Extract:
						if x.Tuple == ssa.Value(rec) {
							handsOn = true
						}
					}
				}
			}
		}
		r.Check(sameArgs && notFound && handsOn, q+"#innermost-first", pos, "own table first; otherwise the same request goes to the outer scope and its answer is returned",
			name+" does not (a) decide on the look-up in its own table, (b) hand the same name (and value) to s.outer on the not-found edge and (c) return that answer"+
				map[bool]string{true: "; a store happens outside the found edge of the own look-up", false: ""}[len(stores) > 0 && !notFound]+": a variable of an enclosing scope would be shadowed or missed by an assignment or a read")
		if name == "(*scope).update" {
			r.Check(len(stores) == 1, q+"#stores-where-found", pos, "the value is stored in the scope that has the name", fmt.Sprintf("(*scope).update has %d stores, expected exactly one (on the found edge of its own look-up)", len(stores)))
		} else {
			r.Check(len(stores) == 0, q+"#read-only", pos, "a look-up does not write", "(*scope).get writes into a scope")
		}
	}
	// binding sites in the evaluator
	for _, spec := range []struct{ fn, callee, what string }{{"(*Evaluator).evalDecl", "set", "a declaration binds in the current scope"}, {"(*Evaluator).evalAssignment", "update", "an assignment to a variable changes the innermost existing variable"}} {
		fd, sf := get(spec.fn)
		if sf == nil {
			continue
		}
		nSet, nUpd := 0, 0
		onCurrent := true
		for _, b := range sf.Blocks {
			for _, ins := range b.Instrs {
				call, ok := ins.(*ssa.Call)
				if !ok || call.Call.StaticCallee() == nil {
					continue
				}
				sc := call.Call.StaticCallee()
				if rn := sc.Signature.Recv(); rn == nil || namedOf(rn.Type()) == nil || namedOf(rn.Type()).Obj().Name() != "scope" {
					continue
				}
				switch sc.Name() {
				case "set":
					nSet++
				case "update":
					nUpd++
				}
				if !loadsField(call.Call.Args[0], "scope") {
					onCurrent = false
				}
			}
		}
		good := onCurrent && ((spec.callee == "set" && nSet == 1 && nUpd == 0) || (spec.callee == "update" && nUpd == 1 && nSet == 0))
		r.Check(good, fd.QName()+"#binds-through:"+spec.callee, p.Rel(fd.Decl.Pos()), spec.what, fmt.Sprintf("%s must go through e.scope.%s exactly once and through no other scope operation (found %d set, %d update, on the current scope: %v): %s", spec.fn, spec.callee, nSet, nUpd, onCurrent, spec.what))
	}
}

// R-LOOPVARINIT: the loop variable of a for statement comes into being after the range operands were evaluated.
//
// `for x := range x` iterates over the x of the enclosing scope (the parser resolves the operand there); the
// evaluator therefore evaluates the operands first and creates the loop variable afterwards. A loop variable that
// is created (zero-initialised) first shadows the operand: the loop runs over a zero value of another type.
var ruleLoopVarInit = &Rule{
	ID:    "R-LOOPVARINIT",
	Doc:   "in the evaluator every creation of a for loop's variable (scope.set with the LoopVar's name) is preceded by the evaluation of the range operands and followed by none",
	Floor: 1, // the creations may be merged into one
	Run:   runLoopVarInit,
}

func runLoopVarInit(c *Ctx, r *Reporter) {
	p, pkg := evaluatorPkg(c, r)
	if pkg == nil {
		return
	}
	isRangeEval := func(call *ssa.Call) bool {
		sc := call.Call.StaticCallee()
		if sc == nil {
			return false
		}
		switch sc.Name() {
		case "newRange", "newStepRange", "evalNum":
			return true
		case "eval":
			return len(call.Call.Args) > 1 && mentionsField(call.Call.Args[1], "Range", 4)
		}
		return false
	}
	isLoopVarSet := func(call *ssa.Call) bool {
		if call.Call.StaticCallee() == nil || call.Call.StaticCallee().Name() != "set" || len(call.Call.Args) < 3 {
			return false
		}
		if rn := call.Call.StaticCallee().Signature.Recv(); rn == nil || namedOf(rn.Type()) == nil || namedOf(rn.Type()).Obj().Name() != "scope" {
			return false
		}
		name := call.Call.Args[1]
		if mentionsField(name, "LoopVar", 5) {
			return true
		}
		// loopVar.Name with loopVar a *parser.Var parameter
		if u, ok := name.(*ssa.UnOp); ok {
			if fa, ok := u.X.(*ssa.FieldAddr); ok {
				if prm, ok := fa.X.(*ssa.Parameter); ok && strings.Contains(strings.ToLower(prm.Name()), "loopvar") {
					return true
				}
			}
		}
		return false
	}
	// A helper that only creates the loop variable (it evaluates no operand itself) stands for the creation at each of
	// its call sites.
	setters := map[*ssa.Function]bool{}
	fns := ssaFuncsOf(p, pkg)
	for round := 0; round < 3; round++ {
		for _, fn := range fns {
			if setters[fn] {
				continue
			}
			hasEval, hasSet := false, false
			for _, b := range fn.Blocks {
				for _, ins := range b.Instrs {
					if call, ok := ins.(*ssa.Call); ok {
						if isRangeEval(call) {
							hasEval = true
						}
						if isLoopVarSet(call) || (call.Call.StaticCallee() != nil && setters[call.Call.StaticCallee()]) {
							hasSet = true
						}
					}
				}
			}
			if hasSet && !hasEval {
				setters[fn] = true
			}
		}
	}
	n := 0
	for _, fn := range fns {
		if setters[fn] {
			n++
			r.Ok(fmt.Sprintf("%s#creates-loopvar-only", ssaQName(fn)), p.Rel(fn.Pos()), "creates the loop variable and evaluates no operand: its call sites are checked")
			continue
		}
		var evals []*ssa.Call
		for _, b := range fn.Blocks {
			for _, ins := range b.Instrs {
				if call, ok := ins.(*ssa.Call); ok && isRangeEval(call) {
					evals = append(evals, call)
				}
			}
		}
		k := 0
		for _, b := range fn.Blocks {
			for _, ins := range b.Instrs {
				call, ok := ins.(*ssa.Call)
				if !ok || !(isLoopVarSet(call) || (call.Call.StaticCallee() != nil && setters[call.Call.StaticCallee()])) {
					continue
				}
				n++
				k++
				before, after := false, false
				for _, e := range evals {
					if instrDominates(e, call) || (call.Block() != e.Block() && reachesBlock(e.Block(), call.Block())) {
						before = true
					}
					if instrDominates(call, e) || (call.Block() != e.Block() && reachesBlock(call.Block(), e.Block()) && !reachesBlock(e.Block(), call.Block())) {
						after = true
					}
				}
				r.Check(before && !after, fmt.Sprintf("%s#loopvar-created-after-operands[%d]", ssaQName(fn), k), p.Rel(instrPos(call)), "the range operands are evaluated before the loop variable exists",
					"the loop variable is put into the scope before the range operands are (all) evaluated: in `for x := range x` or `for n := range (len n)` the operand then reads the loop variable's zero value instead of the variable of the enclosing scope (bad range type, wrong count, or an any recording the wrong type)")
			}
		}
	}
	if n == 0 {
		r.Undecided("no creation of a loop variable found in the evaluator")
	}
}

// R-OUTFILE: an output file that is written anew does not keep the tail of its previous content.
//
// `evy run --svg-out f` writes the whole drawing every time. A file opened for writing without truncation keeps the
// bytes behind the new end: after a large drawing a smaller one leaves `</svg>` followed by the old tail — not well
// formed, and showing shapes that were not drawn. So in the command package every file handed to a writer of whole
// documents is created by os.Create, os.CreateTemp, or os.OpenFile with O_TRUNC, O_APPEND or O_EXCL in constant flags.
var ruleOutFile = &Rule{
	ID:    "R-OUTFILE",
	Doc:   "in the command package every os.OpenFile that can write has O_TRUNC, O_APPEND or O_EXCL among its constant flags (os.Create and os.CreateTemp are fine): a whole document written over a longer old one must not keep its tail",
	Floor: 1,
	Run:   runOutFile,
}

func runOutFile(c *Ctx, r *Reporter) {
	p, err := c.Default()
	if err != nil {
		r.Undecided("%v", err)
		return
	}
	pkg := p.Pkg("")
	if pkg == nil {
		r.Undecided("command package not loaded")
		return
	}
	n := 0
	done := map[*ssa.Function]bool{}
	for _, fn := range ssaFuncsOf(p, pkg) {
		for _, f2 := range withAnon(fn) {
			if done[f2] {
				continue
			}
			done[f2] = true
			k := 0
			for _, b := range f2.Blocks {
				for _, ins := range b.Instrs {
					call, ok := ins.(*ssa.Call)
					if !ok {
						continue
					}
					sc := call.Call.StaticCallee()
					if sc == nil || sc.Pkg == nil || sc.Pkg.Pkg.Path() != "os" {
						continue
					}
					switch sc.Name() {
					case "Create", "CreateTemp":
						n++
						k++
						r.Ok(fmt.Sprintf("%s#output-file[%d]:%s", ssaQName(f2), k, sc.Name()), p.Rel(instrPos(call)), "creates an empty file")
					case "OpenFile":
						n++
						k++
						construct := fmt.Sprintf("%s#output-file[%d]:OpenFile", ssaQName(f2), k)
						kc, ok := call.Call.Args[1].(*ssa.Const)
						if !ok || kc.Value == nil {
							r.Viol(construct, p.Rel(instrPos(call)), "os.OpenFile with computed flags: whether the old content is discarded cannot be decided")
							continue
						}
						flags, _ := constant.Int64Val(kc.Value)
						const oWRONLY, oRDWR, oAPPEND, oEXCL, oTRUNC = 0x1, 0x2, 0x400, 0x80, 0x200
						writes := flags&(oWRONLY|oRDWR) != 0
						r.Check(!writes || flags&(oTRUNC|oAPPEND|oEXCL) != 0, construct, p.Rel(instrPos(call)), "the old content is discarded (or the file is only read, appended to, or must not exist)",
							"a file is opened for writing without O_TRUNC: a document written over a longer one keeps the old tail — after a large drawing, `evy run --svg-out f` of a smaller one leaves text behind `</svg>` (not well formed, shapes that were not drawn)")
					}
				}
			}
		}
	}
	if n == 0 {
		r.Undecided("the command package creates no file")
	}
}

// R-CONSTPOOL: the index addConstant hands out denotes the very value it was given.
//
// The operand of OpConstant is whatever addConstant returns. If constants are shared (a pool), two literals may
// share an entry only if they are the same value of the same kind: the number 1 and the string "1" print alike but
// are different constants. So every index addConstant returns is the position of an append of its argument on that
// path, or the result of a look-up keyed by the argument itself (interface equality includes the dynamic type) —
// never one found through a rendering of the value (String, Sprintf), which merges constants across kinds.
var ruleConstPool = &Rule{
	ID:    "R-CONSTPOOL",
	Doc:   "every index returned by (*Compiler).addConstant is the position of an append of its argument on that path, or was looked up under the argument itself as key (not under a rendering of it)",
	Floor: 1,
	Run:   runConstPool,
}

func runConstPool(c *Ctx, r *Reporter) {
	p, pkg := bytecodePkg(c, r)
	if pkg == nil {
		return
	}
	fd := FindFunc(pkg, "(*Compiler).addConstant")
	if fd == nil {
		r.Undecided("(*Compiler).addConstant not found")
		return
	}
	sf := p.SSAFunc(fd.Obj)
	if len(sf.Params) != 2 {
		r.Undecided("addConstant: unexpected signature")
		return
	}
	obj := sf.Params[1]
	isObj := func(v ssa.Value) bool {
		for i := 0; i < 3; i++ {
			switch x := v.(type) {
			case *ssa.ChangeInterface:
				v = x.X
				continue
			case *ssa.MakeInterface:
				v = x.X
				continue
			}
			break
		}
		return v == ssa.Value(obj)
	}
	// appends of obj onto c.constants
	var appendBlocks []*ssa.BasicBlock
	for _, b := range sf.Blocks {
		for _, ins := range b.Instrs {
			call, ok := ins.(*ssa.Call)
			if !ok {
				continue
			}
			if bi, ok := call.Call.Value.(*ssa.Builtin); !ok || bi.Name() != "append" || len(call.Call.Args) != 2 {
				continue
			}
			if !mentionsField(call.Call.Args[0], "constants", 3) {
				continue
			}
			// the appended slice literal holds obj
			holds := false
			if sl, ok := call.Call.Args[1].(*ssa.Slice); ok {
				if al, ok := sl.X.(*ssa.Alloc); ok {
					for _, ref := range *al.Referrers() {
						if ia, ok := ref.(*ssa.IndexAddr); ok {
							for _, r2 := range *ia.Referrers() {
								if st, ok := r2.(*ssa.Store); ok && isObj(st.Val) {
									holds = true
								}
							}
						}
					}
				}
			}
			if holds {
				appendBlocks = append(appendBlocks, b)
			}
		}
	}
	var classify func(v ssa.Value, at *ssa.BasicBlock, depth int) string
	classify = func(v ssa.Value, at *ssa.BasicBlock, depth int) string {
		if depth > 5 {
			return "a value that cannot be traced"
		}
		switch x := v.(type) {
		case *ssa.BinOp:
			if x.Op == token.SUB {
				if k, ok := x.Y.(*ssa.Const); ok && k.Value != nil && k.Value.ExactString() == "1" {
					if lc, ok := x.X.(*ssa.Call); ok && isLenCall(lc) && mentionsField(lc.Call.Args[0], "constants", 3) {
						for _, ab := range appendBlocks {
							if ab == x.Block() || ab.Dominates(x.Block()) {
								return ""
							}
						}
						return "len(c.constants)-1 on a path without an append of the argument"
					}
				}
			}
		case *ssa.Extract:
			if lk, ok := x.Tuple.(*ssa.Lookup); ok && x.Index == 0 {
				if isObj(lk.Index) {
					return ""
				}
				return "an index looked up under `" + lk.Index.String() + "`, a rendering of the value and not the value itself"
			}
		case *ssa.Lookup:
			if isObj(x.Index) {
				return ""
			}
			return "an index looked up under `" + x.Index.String() + "`, a rendering of the value and not the value itself"
		case *ssa.Phi:
			for i, e := range x.Edges {
				if why := classify(e, x.Block().Preds[i], depth+1); why != "" {
					return why
				}
			}
			return ""
		}
		return "`" + v.String() + "`"
	}
	n := 0
	for _, ret := range returnsOf(sf) {
		for _, rv := range resultValues(ret, 0) {
			n++
			why := classify(rv, ret.Block(), 0)
			r.Check(why == "", fmt.Sprintf("%s#index-denotes-argument[%d]", fd.QName(), n), p.Rel(instrPos(ret)), "the returned index is where the argument was appended (or was found under the argument itself)",
				"addConstant returns "+why+": constants of different kinds that render alike (the number 1 and the string \"1\", true and \"true\") would share one entry, and the program loads a value of the wrong type")
		}
	}
	if n == 0 {
		r.Undecided("addConstant has no return")
	}
}

// R-IDENTKEY: the test that decides whether a map key is printed bare is safe for keywords.
//
// `repr` prints a key without quotes when it is an identifier; a keyword is an identifier in that position (the
// parser reads map keys through Token.AsIdent, so `{for:1}` is a map with the key for). IsIdent may decide on the
// characters alone; if it decides by lexing the string, the token's type says FOR, not IDENT, for a keyword — so a
// comparison of a lexed token's type with IDENT is made on the token as normalised by AsIdent, like the parser does.
var ruleIdentKey = &Rule{
	ID:    "R-IDENTKEY",
	Doc:   "lexer.IsIdent decides on character classes, or — if it lexes the string — compares the type of the token as normalised by AsIdent with IDENT (keywords are identifiers where a map key stands); keyRepr prints a key bare exactly on the true edge of IsIdent",
	Floor: 2,
	Run:   runIdentKey,
}

func runIdentKey(c *Ctx, r *Reporter) {
	p, err := c.Default()
	if err != nil {
		r.Undecided("%v", err)
		return
	}
	lexPkg, evalPkg := p.Pkg("pkg/lexer"), p.Pkg(evaluatorRel)
	fd := FindFunc(lexPkg, "IsIdent")
	if fd == nil {
		r.Undecided("lexer.IsIdent not found")
		return
	}
	sf := p.SSAFunc(fd.Obj)
	identV := "?"
	if k, ok := lexPkg.Types.Scope().Lookup("IDENT").(*types.Const); ok {
		identV = k.Val().ExactString()
	}
	fromNext := func(v ssa.Value) (lexed bool, normalised bool) {
		for i := 0; i < 8 && v != nil; i++ {
			switch x := v.(type) {
			case *ssa.UnOp:
				v = x.X
			case *ssa.FieldAddr:
				v = x.X
			case *ssa.Field:
				v = x.X
			case *ssa.Call:
				sc := x.Call.StaticCallee()
				if sc == nil {
					return lexed, normalised
				}
				switch sc.Name() {
				case "AsIdent":
					normalised = true
					v = x.Call.Args[0]
				case "Next", "Tokenize":
					return true, normalised
				case "TokenType":
					v = x.Call.Args[0]
				default:
					return lexed, normalised
				}
			default:
				return lexed, normalised
			}
		}
		return lexed, normalised
	}
	bad := ""
	lexes := false
	for _, b := range sf.Blocks {
		for _, ins := range b.Instrs {
			bo, ok := ins.(*ssa.BinOp)
			if !ok || (bo.Op != token.EQL && bo.Op != token.NEQ) {
				continue
			}
			for _, pair := range [][2]ssa.Value{{bo.X, bo.Y}, {bo.Y, bo.X}} {
				k, ok := pair[1].(*ssa.Const)
				if !ok || k.Value == nil || k.Value.ExactString() != identV || namedOf(k.Type()) == nil || namedOf(k.Type()).Obj().Name() != "TokenType" {
					continue
				}
				lexed, norm := fromNext(pair[0])
				if lexed {
					lexes = true
					if !norm {
						bad = p.Rel(bo.Pos())
					}
				}
			}
		}
	}
	how := "decides on the characters of the string"
	if lexes {
		how = "lexes the string and compares the type of the token normalised by AsIdent"
	}
	r.Check(bad == "", fd.QName()+"#keyword-safe", p.Rel(fd.Decl.Pos()), how,
		"IsIdent lexes the string and compares the raw token type with IDENT (at "+bad+"): a keyword lexes as its own token type, so `repr {for:1 if:2}` quotes the keys ({\"for\":1 \"if\":2}) although they are identifiers where a map key stands (the parser reads them through AsIdent)")
	// keyRepr: bare exactly on the true edge
	if kd := FindFunc(evalPkg, "keyRepr"); kd != nil {
		ks := p.SSAFunc(kd.Obj)
		good := false
		for _, b := range ks.Blocks {
			if len(b.Instrs) == 0 {
				continue
			}
			ifi, ok := b.Instrs[len(b.Instrs)-1].(*ssa.If)
			if !ok {
				continue
			}
			call, ok := ifi.Cond.(*ssa.Call)
			if !ok || call.Call.StaticCallee() != sf {
				continue
			}
			// true edge returns the parameter, false edge a call of strconv.Quote
			t, f := b.Succs[0], b.Succs[1]
			retParam := func(x *ssa.BasicBlock) bool {
				if len(x.Instrs) == 0 {
					return false
				}
				ret, ok := x.Instrs[len(x.Instrs)-1].(*ssa.Return)
				return ok && len(ret.Results) == 1 && len(ks.Params) == 1 && ret.Results[0] == ssa.Value(ks.Params[0])
			}
			retQuote := func(x *ssa.BasicBlock) bool {
				if len(x.Instrs) == 0 {
					return false
				}
				ret, ok := x.Instrs[len(x.Instrs)-1].(*ssa.Return)
				if !ok || len(ret.Results) != 1 {
					return false
				}
				c2, ok := ret.Results[0].(*ssa.Call)
				return ok && c2.Call.StaticCallee() != nil && c2.Call.StaticCallee().Name() == "Quote"
			}
			good = retParam(t) && retQuote(f)
		}
		r.Check(good, kd.QName()+"#bare-iff-identifier", p.Rel(kd.Decl.Pos()), "a key is printed bare when it is an identifier and quoted otherwise", "keyRepr does not return the key itself exactly on the true edge of lexer.IsIdent and strconv.Quote of it on the false edge")
	} else {
		r.Undecided("keyRepr not found")
	}
}

// R-BLANKBEFORE: the blank line that separates a function (and its leading comments) from what precedes it is put
// behind the statement that directly precedes it.
//
// nlAfter works on accumulations: runs of statements of one kind, each with the index of its FIRST statement; a
// function is always an accumulation of its own (newAccumulations starts one for every func), all other kinds span
// runs. "A blank line before accumulation k+1" therefore goes behind statement accums[k+1].idx-1; the current
// accumulation's own idx is the right place only when that accumulation is a single statement, i.e. a func. An index
// taken from the start of a run puts the blank line in the middle of the run, and since the line before the function
// is then still missing, every formatting pass inserts another one: the output is not a fixed point.
var ruleBlankBefore = &Rule{
	ID: "R-BLANKBEFORE",
	Doc: "every index nlAfter marks is accums[i+1].idx-1 (the statement right before the next accumulation) or, under the condition that the current accumulation is a func (a single statement), its own idx; " +
		"newAccumulations starts a new accumulation for every func",
	Floor: 3,
	Run:   runBlankBefore,
}

func runBlankBefore(c *Ctx, r *Reporter) {
	p, pkg := parserPkg(c, r)
	if pkg == nil {
		return
	}
	info := pkg.TypesInfo
	fd := FindFunc(pkg, "nlAfter")
	if fd == nil {
		r.Undecided("nlAfter not found")
		return
	}
	// single-assignment locals
	defs := map[types.Object]ast.Expr{}
	count := map[types.Object]int{}
	ast.Inspect(fd.Decl.Body, func(n ast.Node) bool {
		if as, ok := n.(*ast.AssignStmt); ok && len(as.Lhs) == len(as.Rhs) {
			for i, l := range as.Lhs {
				if id, ok := l.(*ast.Ident); ok {
					obj := info.ObjectOf(id)
					defs[obj] = as.Rhs[i]
					count[obj]++
				}
			}
		}
		return true
	})
	var resolve func(e ast.Expr, depth int) ast.Expr
	resolve = func(e ast.Expr, depth int) ast.Expr {
		e = ast.Unparen(e)
		if id, ok := e.(*ast.Ident); ok && depth < 4 {
			if obj := info.ObjectOf(id); count[obj] == 1 {
				return resolve(defs[obj], depth+1)
			}
		}
		return e
	}
	// the range statement over the accumulations
	var rangeVal, rangeKey types.Object
	ast.Inspect(fd.Decl.Body, func(n ast.Node) bool {
		if rs, ok := n.(*ast.RangeStmt); ok && rangeVal == nil {
			if v, ok := rs.Value.(*ast.Ident); ok {
				rangeVal = info.ObjectOf(v)
			}
			if k, ok := rs.Key.(*ast.Ident); ok {
				rangeKey = info.ObjectOf(k)
			}
		}
		return true
	})
	// … or a counting loop `for i := 0; …` with cur := accums[i]
	if rangeKey == nil {
		ast.Inspect(fd.Decl.Body, func(n ast.Node) bool {
			if fs, ok := n.(*ast.ForStmt); ok && rangeKey == nil && fs.Init != nil {
				if as, ok := fs.Init.(*ast.AssignStmt); ok && len(as.Lhs) == 1 {
					if id, ok := as.Lhs[0].(*ast.Ident); ok {
						rangeKey = info.ObjectOf(id)
						count[rangeKey] = 99 // the loop counter is not a single-assignment local
					}
				}
			}
			return true
		})
	}
	isCurAccum := func(e ast.Expr) bool { // the range value, or accums[i]
		if id, ok := ast.Unparen(e).(*ast.Ident); ok && rangeVal != nil && info.ObjectOf(id) == rangeVal {
			return true
		}
		ix, ok := resolve(e, 0).(*ast.IndexExpr)
		if !ok || rangeKey == nil {
			return false
		}
		id, ok := ast.Unparen(ix.Index).(*ast.Ident)
		return ok && info.ObjectOf(id) == rangeKey
	}
	isNextAccum := func(e ast.Expr) bool { // accums[i+1]
		ix, ok := resolve(e, 0).(*ast.IndexExpr)
		if !ok {
			return false
		}
		be, ok := ast.Unparen(ix.Index).(*ast.BinaryExpr)
		if !ok || be.Op != token.ADD {
			return false
		}
		id, ok := ast.Unparen(be.X).(*ast.Ident)
		one, isOne := constInt(info, be.Y)
		return ok && info.ObjectOf(id) == rangeKey && isOne && one == 1
	}
	n := 0
	var visit func(list []ast.Stmt, conds []ast.Expr)
	checkStore := func(as *ast.AssignStmt, conds []ast.Expr) {
		for _, l := range as.Lhs {
			ix, ok := ast.Unparen(l).(*ast.IndexExpr)
			if !ok {
				continue
			}
			if mt, ok := info.TypeOf(ix.X).Underlying().(*types.Map); !ok || mt == nil {
				continue
			}
			n++
			key := resolve(ix.Index, 0)
			good, what := false, types.ExprString(key)
			if be, ok := key.(*ast.BinaryExpr); ok && be.Op == token.SUB {
				if one, isOne := constInt(info, be.Y); isOne && one == 1 {
					if sel, ok := ast.Unparen(be.X).(*ast.SelectorExpr); ok && sel.Sel.Name == "idx" && isNextAccum(sel.X) {
						good = true
					}
				}
			}
			if sel, ok := key.(*ast.SelectorExpr); ok && sel.Sel.Name == "idx" {
				if isCurAccum(sel.X) {
					// needs the conjunct accum.stmtType == "func" among the conditions of the enclosing case
					for _, cnd := range conds {
						var conj func(e ast.Expr)
						conj = func(e ast.Expr) {
							e = ast.Unparen(e)
							if be, ok := e.(*ast.BinaryExpr); ok {
								if be.Op == token.LAND {
									conj(be.X)
									conj(be.Y)
									return
								}
								if be.Op == token.EQL {
									if s2, ok := ast.Unparen(be.X).(*ast.SelectorExpr); ok && s2.Sel.Name == "stmtType" && isCurAccum(s2.X) {
										if sv, ok := constString(info, be.Y); ok && sv == "func" {
											good = true
										}
									}
								}
							}
						}
						conj(cnd)
					}
					what = "the current accumulation's own idx (its first statement) on a path where it need not be a func"
				}
			}
			r.Check(good, fmt.Sprintf("pkg/parser.nlAfter#marked-index[%d]", n), p.Rel(as.Pos()), "the blank line goes behind the statement that directly precedes what follows",
				"nlAfter marks "+what+": for a run of several statements followed by the comments of a func, the blank line is put behind the first statement of the run and the line before the comments stays missing, so every `evy fmt` pass inserts another blank line (not idempotent)")
		}
	}
	visit = func(list []ast.Stmt, conds []ast.Expr) {
		for _, st := range list {
			switch x := st.(type) {
			case *ast.AssignStmt:
				checkStore(x, conds)
			case *ast.IfStmt:
				visit(x.Body.List, append(append([]ast.Expr{}, conds...), x.Cond))
				if x.Else != nil {
					if eb, ok := x.Else.(*ast.BlockStmt); ok {
						visit(eb.List, conds)
					} else {
						visit([]ast.Stmt{x.Else}, conds)
					}
				}
			case *ast.SwitchStmt:
				for _, cs := range x.Body.List {
					cc := cs.(*ast.CaseClause)
					cnd := conds
					if x.Tag == nil && len(cc.List) == 1 {
						cnd = append(append([]ast.Expr{}, conds...), cc.List[0])
					}
					visit(cc.Body, cnd)
				}
			case *ast.RangeStmt:
				visit(x.Body.List, conds)
			case *ast.ForStmt:
				visit(x.Body.List, conds)
			case *ast.BlockStmt:
				visit(x.List, conds)
			}
		}
	}
	visit(fd.Decl.Body.List, nil)
	if n == 0 {
		r.Undecided("nlAfter marks no index")
	}
	// newAccumulations: a func always starts an accumulation of its own. On the lowered function: every edge of the
	// statement loop from which the append can no longer be reached in this round is taken only where the statement's
	// type is known not to be "func" (`if t != last || t == "func" { append }` and `if t == last && t != "func" { continue }`
	// are the same thing).
	if nd := FindFunc(pkg, "newAccumulations"); nd != nil {
		sf := p.SSAFunc(nd.Obj)
		var appendBlocks []*ssa.BasicBlock
		for _, b := range sf.Blocks {
			for _, ins := range b.Instrs {
				if call, ok := ins.(*ssa.Call); ok {
					if bi, ok := call.Call.Value.(*ssa.Builtin); ok && bi.Name() == "append" && inCycle(b) {
						appendBlocks = append(appendBlocks, b)
					}
				}
			}
		}
		good := len(appendBlocks) > 0
		isFuncConst := func(v ssa.Value) bool {
			k, ok := v.(*ssa.Const)
			return ok && k.Value != nil && k.Value.Kind() == constant.String && constant.StringVal(k.Value) == "func"
		}
		notFunc := func(f condFact) bool {
			bo, ok := f.Cond.(*ssa.BinOp)
			if !ok || !(isFuncConst(bo.Y) || isFuncConst(bo.X)) {
				return false
			}
			return (bo.Op == token.NEQ && f.Truth) || (bo.Op == token.EQL && !f.Truth)
		}
		nSkips := 0
		if good {
			hdr := loopHeaderOf(appendBlocks[0])
			reachesAppend := func(from *ssa.BasicBlock) bool { // without going through the loop header
				seen := map[*ssa.BasicBlock]bool{}
				var walk func(b *ssa.BasicBlock) bool
				walk = func(b *ssa.BasicBlock) bool {
					if b == hdr || seen[b] {
						return false
					}
					seen[b] = true
					for _, ab := range appendBlocks {
						if ab == b {
							return true
						}
					}
					for _, sx := range b.Succs {
						if walk(sx) {
							return true
						}
					}
					return false
				}
				return walk(from)
			}
			body := naturalLoop(hdr)
			for b := range body {
				if b == hdr || len(b.Instrs) == 0 || !reachesAppend(b) {
					continue
				}
				ifi, ok := b.Instrs[len(b.Instrs)-1].(*ssa.If)
				if !ok {
					continue
				}
				for idx, sx := range b.Succs {
					if !body[sx] && sx != hdr || reachesAppend(sx) {
						continue
					}
					// this edge skips the append
					nSkips++
					known := false
					for _, f := range append(valueConds(ifi.Cond, idx == 0), impliedConds(b)...) {
						if notFunc(f) {
							known = true
						}
					}
					if !known {
						good = false
					}
				}
			}
		}
		r.Check(good && nSkips > 0, nd.QName()+"#func-is-its-own-accumulation", p.Rel(nd.Decl.Pos()), "every func starts an accumulation of its own", "newAccumulations does not start a new accumulation for every func: consecutive functions would be one run and get no blank line between them")
	} else {
		r.Undecided("newAccumulations not found")
	}
}

// binaryOutputOK: what the formatter writes for a binary expression, path by path. The paths through the
// BinaryExpression case of (*formatting).format are enumerated on the lowered code, helpers of the package that are
// handed the node included; each yields the sequence of things written (the left operand, a space, the operator, the
// right operand, anything else) and what it learnt about the node's entry in the white-space table. Every path must
// write `left op right` where the entry is known to be set, `left ␣ op ␣ right` where it is known not to be, and no
// path may write a space or anything else without knowing.
func binaryOutputOK(p *Program, pkg *packages.Package) bool {
	fd := FindFunc(pkg, "(*formatting).format")
	if fd == nil {
		return false
	}
	sf := p.SSAFunc(fd.Obj)
	if sf == nil {
		return false
	}
	// the block the BinaryExpression case starts in: ok edge of the type test
	var head *ssa.BasicBlock
	var node ssa.Value
	for _, h := range regionFns(sf, 1, nil) {
		for _, b := range h.Blocks {
			if len(b.Instrs) == 0 {
				continue
			}
			ifi, ok := b.Instrs[len(b.Instrs)-1].(*ssa.If)
			if !ok {
				continue
			}
			ex, ok := ifi.Cond.(*ssa.Extract)
			if !ok || ex.Index != 1 {
				continue
			}
			ta, ok := ex.Tuple.(*ssa.TypeAssert)
			if !ok {
				continue
			}
			t := ta.AssertedType
			if pt, ok := t.(*types.Pointer); ok {
				t = pt.Elem()
			}
			if n := namedOf(t); n != nil && n.Obj().Name() == "BinaryExpression" && head == nil {
				head = b.Succs[0]
				for _, ref := range *ta.Referrers() {
					if e0, ok := ref.(*ssa.Extract); ok && e0.Index == 0 {
						node = e0
					}
				}
			}
		}
	}
	if head == nil || node == nil {
		return false
	}
	type outPath struct {
		toks []string
		wss  int // 0 unknown, 1 entry set, 2 entry not set
	}
	budget := 5000
	isWSS := func(v ssa.Value) bool {
		if lk, ok := v.(*ssa.Lookup); ok && !lk.CommaOk && loadsField(lk.X, "wss") {
			return true
		}
		if ex, ok := v.(*ssa.Extract); ok {
			if lk, ok := ex.Tuple.(*ssa.Lookup); ok && lk.CommaOk && loadsField(lk.X, "wss") {
				return true
			}
		}
		return false
	}
	var pathsOf func(start *ssa.BasicBlock, stopAtReturn bool, depth int) ([]outPath, bool)
	pathsOf = func(start *ssa.BasicBlock, stopAtReturn bool, depth int) ([]outPath, bool) {
		var out []outPath
		okAll := true
		onPath := map[*ssa.BasicBlock]bool{}
		var walk func(b *ssa.BasicBlock, cur outPath)
		walk = func(b *ssa.BasicBlock, cur outPath) {
			if budget <= 0 || onPath[b] {
				okAll = false
				return
			}
			budget--
			onPath[b] = true
			defer delete(onPath, b)
			curs := []outPath{cur}
			for _, ins := range b.Instrs {
				call, ok := ins.(*ssa.Call)
				if !ok || call.Call.StaticCallee() == nil {
					continue
				}
				callee := call.Call.StaticCallee()
				add := func(tok string) {
					for i := range curs {
						curs[i].toks = append(append([]string{}, curs[i].toks...), tok)
					}
				}
				switch {
				case callee.Name() == "write" || callee.Name() == "writes":
					for _, a := range call.Call.Args[1:] {
						vals := []ssa.Value{a}
						if sl, ok := a.(*ssa.Slice); ok { // variadic writes(a, b)
							vals = nil
							if al, ok := sl.X.(*ssa.Alloc); ok {
								for _, ref := range *al.Referrers() {
									if ia, ok := ref.(*ssa.IndexAddr); ok {
										for _, r2 := range *ia.Referrers() {
											if st, ok := r2.(*ssa.Store); ok {
												vals = append(vals, st.Val)
											}
										}
									}
								}
							}
						}
						for _, v := range vals {
							switch x := v.(type) {
							case *ssa.Const:
								if x.Value != nil && x.Value.Kind() == constant.String && constant.StringVal(x.Value) == " " {
									add("sp")
								} else {
									add("other")
								}
							case *ssa.Call:
								if x.Call.StaticCallee() != nil && x.Call.StaticCallee().Name() == "String" && len(x.Call.Args) == 1 && loadsField(x.Call.Args[0], "Op") {
									add("op")
								} else {
									add("other")
								}
							default:
								add("other")
							}
						}
					}
				case callee.Name() == "format" && len(call.Call.Args) == 2:
					switch nodeFieldOf(call.Call.Args[1], 0) {
					case "Left":
						add("left")
					case "Right":
						add("right")
					default:
						add("other")
					}
				case callee.Pkg == sf.Pkg && len(callee.Blocks) > 0 && depth < 2:
					// a helper that is handed the node: its own paths continue these
					sub, subOK := pathsOf(callee.Blocks[0], true, depth+1)
					if !subOK {
						okAll = false
						return
					}
					var next []outPath
					for _, c := range curs {
						for _, sp := range sub {
							if c.wss != 0 && sp.wss != 0 && c.wss != sp.wss {
								continue
							}
							w := c.wss
							if w == 0 {
								w = sp.wss
							}
							next = append(next, outPath{append(append([]string{}, c.toks...), sp.toks...), w})
						}
					}
					curs = next
				}
			}
			last := b.Instrs[len(b.Instrs)-1]
			switch x := last.(type) {
			case *ssa.Return:
				out = append(out, curs...)
			case *ssa.Jump:
				if !stopAtReturn && !start.Dominates(b.Succs[0]) {
					out = append(out, curs...) // left the case
					return
				}
				for _, c := range curs {
					walk(b.Succs[0], c)
				}
			case *ssa.If:
				cond, flip := x.Cond, false
				for {
					if u, ok := cond.(*ssa.UnOp); ok && u.Op == token.NOT {
						cond, flip = u.X, !flip
						continue
					}
					break
				}
				for i, sx := range b.Succs {
					if !stopAtReturn && !start.Dominates(sx) {
						out = append(out, curs...)
						continue
					}
					for _, c := range curs {
						if isWSS(cond) {
							set := (i == 0) != flip
							w := 2
							if set {
								w = 1
							}
							if c.wss != 0 && c.wss != w {
								continue
							}
							c.wss = w
						}
						walk(sx, c)
					}
				}
			default:
				out = append(out, curs...)
			}
		}
		walk(start, outPath{})
		return out, okAll
	}
	paths, ok := pathsOf(head, false, 0)
	if !ok || len(paths) == 0 {
		return false
	}
	sawTight, sawLoose := false, false
	for _, pa := range paths {
		got := strings.Join(pa.toks, " ")
		switch pa.wss {
		case 1:
			if got != "left op right" {
				return false
			}
			sawTight = true
		case 2:
			if got != "left sp op sp right" {
				return false
			}
			sawLoose = true
		default:
			return false
		}
	}
	return sawTight && sawLoose
}
