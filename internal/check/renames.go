package check

import (
	"encoding/json"
	"fmt"
	"go/ast"
	"go/types"
	"os"
	"path/filepath"
	"sort"
	"strings"

	"golang.org/x/tools/go/packages"
)

// Renamed functions.
//
// The rules name the functions they are anchored in (normalizeIndex, (*Evaluator).evalWhile …). A maintainer who
// renames such a function changes no behaviour, and the checks must not take the new name for a missing anchor. The
// functions of the analysed packages at the pinned tree are recorded, by name and by signature (receiver, parameter
// and result types, without parameter names), in anchors.json. When a recorded name is missing from the tree under
// analysis and exactly one function that the record does not know has the missing function's signature — and no other
// missing function shares that signature — the tree is analysed with that function under its recorded name: the
// identifiers that denote it are renamed back in an overlay of the source files (same lines, same positions up to
// the column) and the packages are loaded again. Anything ambiguous is left alone; the rules then say what they miss.

// AnchorFile is the path of the recorded signatures (set by NewCtx).
var AnchorFile string

type anchorTable map[string]map[string]map[string]string // configuration -> package path -> function -> signature

func loadAnchors() anchorTable {
	if AnchorFile == "" {
		return nil
	}
	b, err := os.ReadFile(AnchorFile)
	if err != nil {
		return nil
	}
	var t anchorTable
	if json.Unmarshal(b, &t) != nil {
		return nil
	}
	return t
}

// funcSig: receiver, parameter and result types of a function, without names.
func funcSig(fn *types.Func) string {
	sig, ok := fn.Type().(*types.Signature)
	if !ok {
		return ""
	}
	q := func(p *types.Package) string { return p.Name() }
	var parts []string
	if sig.Recv() != nil {
		parts = append(parts, "recv "+types.TypeString(sig.Recv().Type(), q))
	}
	for i := 0; i < sig.Params().Len(); i++ {
		t := types.TypeString(sig.Params().At(i).Type(), q)
		if sig.Variadic() && i == sig.Params().Len()-1 {
			t = "..." + t
		}
		parts = append(parts, t)
	}
	parts = append(parts, "->")
	for i := 0; i < sig.Results().Len(); i++ {
		parts = append(parts, types.TypeString(sig.Results().At(i).Type(), q))
	}
	return strings.Join(parts, " ")
}

// DumpAnchors records the functions of the three load configurations of repo.
func DumpAnchors(c *Ctx) (anchorTable, error) {
	out := anchorTable{}
	saved := AnchorFile
	AnchorFile = "" // record the tree as it is
	defer func() { AnchorFile = saved }()
	for _, cfg := range []struct {
		name string
		load func() (*Program, error)
	}{{"default", c.Default}, {"tinygo", c.Tinygo}, {"learn", c.Learn}} {
		p, err := cfg.load()
		if err != nil {
			return nil, err
		}
		out[cfg.name] = map[string]map[string]string{}
		for _, pkg := range p.Pkgs {
			m := map[string]string{}
			for _, fd := range Funcs(pkg) {
				m[fd.Name()] = funcSig(fd.Obj)
			}
			out[cfg.name][pkg.PkgPath] = m
		}
	}
	return out, nil
}

// renamedFuncs pairs recorded names that are missing with the one new function of the same signature.
func renamedFuncs(p *Program, base map[string]map[string]string) map[*types.Func]string {
	out := map[*types.Func]string{}
	for _, pkg := range p.Pkgs {
		rec := base[pkg.PkgPath]
		if rec == nil {
			continue
		}
		cur := map[string]*FuncDecl{}
		for _, fd := range Funcs(pkg) {
			cur[fd.Name()] = fd
		}
		missingBySig := map[string][]string{}
		for name, sig := range rec {
			if cur[name] == nil {
				missingBySig[sig] = append(missingBySig[sig], name)
			}
		}
		if len(missingBySig) == 0 {
			continue
		}
		newBySig := map[string][]*FuncDecl{}
		for name, fd := range cur {
			if _, known := rec[name]; !known {
				s := funcSig(fd.Obj)
				newBySig[s] = append(newBySig[s], fd)
			}
		}
		for sig, names := range missingBySig {
			if len(names) == 1 && len(newBySig[sig]) == 1 {
				old := names[0]
				if i := strings.LastIndex(old, "."); i >= 0 {
					old = old[i+1:] // "(*T).name" -> "name"
				}
				out[newBySig[sig][0].Obj] = old
			}
		}
	}
	return out
}

// renameOverlay returns the contents of the files in which identifiers denote a renamed function, with the recorded
// names put back.
func renameOverlay(p *Program, ren map[*types.Func]string) (map[string][]byte, error) {
	type edit struct {
		off, end int
		text     string
	}
	edits := map[string][]edit{}
	add := func(id *ast.Ident, obj types.Object) {
		fn, ok := obj.(*types.Func)
		if !ok {
			return
		}
		old, ok := ren[fn.Origin()]
		if !ok {
			return
		}
		pos := p.Fset.Position(id.Pos())
		edits[pos.Filename] = append(edits[pos.Filename], edit{pos.Offset, pos.Offset + len(id.Name), old})
	}
	packages.Visit(p.Pkgs, nil, func(pkg *packages.Package) {
		if pkg.TypesInfo == nil {
			return
		}
		for id, obj := range pkg.TypesInfo.Defs {
			if obj != nil {
				add(id, obj)
			}
		}
		for id, obj := range pkg.TypesInfo.Uses {
			add(id, obj)
		}
	})
	overlay := map[string][]byte{}
	for file, es := range edits {
		src, err := os.ReadFile(file)
		if err != nil {
			return nil, err
		}
		sort.Slice(es, func(i, j int) bool { return es[i].off > es[j].off })
		last := -1
		for _, e := range es {
			if e.off == last {
				continue // Defs and Uses of the same identifier
			}
			last = e.off
			if e.end > len(src) {
				return nil, fmt.Errorf("identifier beyond the end of %s", file)
			}
			src = append(append(append([]byte{}, src[:e.off]...), e.text...), src[e.end:]...)
		}
		abs, _ := filepath.Abs(file)
		overlay[abs] = src
	}
	return overlay, nil
}
