package check

import (
	"encoding/json"
	"fmt"
	"go/ast"
	"go/types"
	"os"
	"path/filepath"
	"sort"
	"strings"

	"golang.org/x/tools/go/packages"
)

// Renamed functions.
//
// The rules name the functions they are anchored in (normalizeIndex, (*Evaluator).evalWhile …). A maintainer who
// renames such a function changes no behaviour, and the checks must not take the new name for a missing anchor. The
// functions of the analysed packages at the pinned tree are recorded, by name and by signature (receiver, parameter
// and result types, without parameter names), in anchors.json. When a recorded name is missing from the tree under
// analysis and exactly one function that the record does not know has the missing function's signature — and no other
// missing function shares that signature — the tree is analysed with that function under its recorded name: the
// identifiers that denote it are renamed back in an overlay of the source files (same lines, same positions up to
// the column) and the packages are loaded again. Anything ambiguous is left alone; the rules then say what they miss.

// AnchorFile is the path of the recorded signatures (set by NewCtx).
var AnchorFile string

type anchorTable map[string]map[string]map[string]string // configuration -> package path -> function -> signature

func loadAnchors() anchorTable {
	if AnchorFile == "" {
		return nil
	}
	b, err := os.ReadFile(AnchorFile)
	if err != nil {
		return nil
	}
	var t anchorTable
	if json.Unmarshal(b, &t) != nil {
		return nil
	}
	return t
}

// funcSig: receiver, parameter and result types of a function, without names.
func funcSig(fn *types.Func) string {
	sig, ok := fn.Type().(*types.Signature)
	if !ok {
		return ""
	}
	q := func(p *types.Package) string { return p.Name() }
	var parts []string
	if sig.Recv() != nil {
		parts = append(parts, "recv "+types.TypeString(sig.Recv().Type(), q))
	}
	for i := 0; i < sig.Params().Len(); i++ {
		t := types.TypeString(sig.Params().At(i).Type(), q)
		if sig.Variadic() && i == sig.Params().Len()-1 {
			t = "..." + t
		}
		parts = append(parts, t)
	}
	parts = append(parts, "->")
	for i := 0; i < sig.Results().Len(); i++ {
		parts = append(parts, types.TypeString(sig.Results().At(i).Type(), q))
	}
	return strings.Join(parts, " ")
}

// DumpAnchors records the functions of the three load configurations of repo.
func DumpAnchors(c *Ctx) (anchorTable, error) {
	out := anchorTable{}
	saved := AnchorFile
	AnchorFile = "" // record the tree as it is
	defer func() { AnchorFile = saved }()
	for _, cfg := range []struct {
		name string
		load func() (*Program, error)
	}{{"default", c.Default}, {"tinygo", c.Tinygo}, {"learn", c.Learn}} {
		p, err := cfg.load()
		if err != nil {
			return nil, err
		}
		out[cfg.name] = map[string]map[string]string{}
		for _, pkg := range p.Pkgs {
			m := map[string]string{}
			callers := callersByName(pkg)
			for _, fd := range Funcs(pkg) {
				m[fd.Name()] = funcSig(fd.Obj) + " @@ " + strings.Join(callers[fd.Obj], ",") + " @@ " + strings.Join(funcFeatures(pkg, fd), ",")
			}
			for k, v := range structFields(pkg) {
				m["field "+k] = v
			}
			out[cfg.name][pkg.PkgPath] = m
		}
	}
	return out, nil
}

// callersByName: for every function of pkg the (sorted) display names of the functions of pkg that call it.
func callersByName(pkg *packages.Package) map[*types.Func][]string {
	set := map[*types.Func]map[string]bool{}
	for _, fd := range Funcs(pkg) {
		ast.Inspect(fd.Decl.Body, func(n ast.Node) bool {
			call, ok := n.(*ast.CallExpr)
			if !ok {
				return true
			}
			if cf := calleeFunc(pkg.TypesInfo, call); cf != nil && cf.Pkg() == pkg.Types && cf != fd.Obj {
				if set[cf] == nil {
					set[cf] = map[string]bool{}
				}
				set[cf][fd.Name()] = true
			}
			return true
		})
	}
	out := map[*types.Func][]string{}
	for fn, m := range set {
		for name := range m {
			out[fn] = append(out[fn], name)
		}
		sort.Strings(out[fn])
	}
	return out
}

// funcFeatures: what a function body is made of, for telling which of two new functions continues a missing one — the
// functions it calls (by full name) and the struct fields it touches.
func funcFeatures(pkg *packages.Package, fd *FuncDecl) []string {
	set := map[string]bool{}
	ast.Inspect(fd.Decl.Body, func(n ast.Node) bool {
		switch x := n.(type) {
		case *ast.CallExpr:
			if cf := calleeFunc(pkg.TypesInfo, x); cf != nil {
				set["call:"+cf.FullName()] = true
			}
		case *ast.SelectorExpr:
			if v, ok := pkg.TypesInfo.Uses[x.Sel].(*types.Var); ok && v.IsField() {
				set["field:"+v.Name()] = true
			}
		}
		return true
	})
	var out []string
	for k := range set {
		out = append(out, k)
	}
	sort.Strings(out)
	return out
}

func jaccard(a, b []string) float64 {
	in := map[string]bool{}
	for _, x := range a {
		in[x] = true
	}
	inter, union := 0, len(in)
	for _, y := range b {
		if in[y] {
			inter++
		} else {
			union++
		}
	}
	if union == 0 {
		return 1
	}
	return float64(inter) / float64(union)
}

// recvAndResults: the part of a signature that survives a change of the parameters.
func recvAndResults(sig string) string {
	recv := ""
	if strings.HasPrefix(sig, "recv ") {
		recv = strings.SplitN(strings.TrimPrefix(sig, "recv "), " ", 2)[0]
	}
	res := ""
	if i := strings.Index(sig, "->"); i >= 0 {
		res = sig[i:]
	}
	return recv + " " + res
}

// renamedFuncs pairs recorded names that are missing with the one new function that takes their place: the only new
// function with the same signature, or — among several, or when the parameters changed as well — the only new function
// with the same receiver and results that is called by exactly the functions that called the missing one.
func renamedFuncs(p *Program, base map[string]map[string]string) map[types.Object]string {
	out := map[types.Object]string{}
	for _, pkg := range p.Pkgs {
		rec := base[pkg.PkgPath]
		if rec == nil {
			continue
		}
		cur := map[string]*FuncDecl{}
		for _, fd := range Funcs(pkg) {
			cur[fd.Name()] = fd
		}
		// renamed fields: a recorded field that is gone while exactly one unknown field of the same struct has its type
		curFields := structFields(pkg)
		fieldObjs := structFieldObjs(pkg)
		for key, typ := range rec {
			if !strings.HasPrefix(key, "field ") {
				continue
			}
			name := strings.TrimPrefix(key, "field ")
			if _, still := curFields[name]; still {
				continue
			}
			owner := name[:strings.LastIndex(name, ".")]
			var cands []string
			for n2, t2 := range curFields {
				if strings.HasPrefix(n2, owner+".") && t2 == typ {
					if _, known := rec["field "+n2]; !known {
						cands = append(cands, n2)
					}
				}
			}
			rivals := 0
			for k2, t2 := range rec {
				if strings.HasPrefix(k2, "field "+owner+".") && t2 == typ {
					if _, still := curFields[strings.TrimPrefix(k2, "field ")]; !still {
						rivals++
					}
				}
			}
			if len(cands) == 1 && rivals == 1 && fieldObjs[cands[0]] != nil {
				out[fieldObjs[cands[0]]] = name[strings.LastIndex(name, ".")+1:]
			}
		}
		type missing struct {
			name, sig, callers string
			features           []string
		}
		var miss []missing
		for name, entry := range rec {
			if strings.HasPrefix(name, "field ") {
				continue
			}
			if cur[name] == nil {
				parts := strings.Split(entry, " @@ ")
				m := missing{name: name, sig: parts[0]}
				if len(parts) >= 2 {
					m.callers = parts[1]
				}
				if len(parts) >= 3 && parts[2] != "" {
					m.features = strings.Split(parts[2], ",")
				}
				miss = append(miss, m)
			}
		}
		if len(miss) == 0 {
			continue
		}
		sort.Slice(miss, func(i, j int) bool { return miss[i].name < miss[j].name })
		var fresh []*FuncDecl
		for name, fd := range cur {
			if _, known := rec[name]; !known {
				fresh = append(fresh, fd)
			}
		}
		sort.Slice(fresh, func(i, j int) bool { return fresh[i].Name() < fresh[j].Name() })
		callers := callersByName(pkg)
		// the callers of a new function, under the recorded names of callers that are themselves taken as renamed
		callerKey := func(fd *FuncDecl, renamedTo map[string]string) string {
			set := map[string]bool{}
			var add func(f *FuncDecl, depth int)
			add = func(f *FuncDecl, depth int) {
				for _, c := range callers[f.Obj] {
					if old, ok := renamedTo[c]; ok {
						set[old] = true
						continue
					}
					// a caller that is itself new stands for its own callers (a wrapper put in between)
					if _, known := rec[c]; !known && depth < 2 && cur[c] != nil {
						add(cur[c], depth+1)
						continue
					}
					set[c] = true
				}
			}
			add(fd, 0)
			var names []string
			for c := range set {
				names = append(names, c)
			}
			sort.Strings(names)
			return strings.Join(names, ",")
		}
		taken := map[*FuncDecl]bool{}
		renamedTo := map[string]string{} // new display name -> recorded display name
		accept := func(m missing, fd *FuncDecl) {
			old := m.name
			if i := strings.LastIndex(old, "."); i >= 0 {
				old = old[i+1:] // "(*T).name" -> "name"
			}
			out[fd.Obj] = old
			taken[fd] = true
			renamedTo[fd.Name()] = m.name
		}
		done := map[string]bool{}
		for pass := 0; pass < 3; pass++ {
			for _, m := range miss {
				if done[m.name] {
					continue
				}
				var sameSig, sameShape []*FuncDecl
				for _, fd := range fresh {
					if taken[fd] {
						continue
					}
					s := funcSig(fd.Obj)
					if s == m.sig {
						sameSig = append(sameSig, fd)
					}
					if recvAndResults(s) == recvAndResults(m.sig) && m.callers != "" && callerKey(fd, renamedTo) == m.callers {
						sameShape = append(sameShape, fd)
					}
				}
				// another missing function with the same signature makes a bare signature match ambiguous
				rivals := 0
				for _, m2 := range miss {
					if m2.sig == m.sig && !done[m2.name] {
						rivals++
					}
				}
				switch {
				case pass == 0 && len(sameSig) == 1 && rivals == 1:
					accept(m, sameSig[0])
					done[m.name] = true
				case pass > 0 && len(sameShape) == 1:
					accept(m, sameShape[0])
					done[m.name] = true
				case pass > 0 && len(sameShape) > 1 && len(m.features) > 0:
					// several candidates in the missing function's place (a wrapper and what it wraps): the one whose
					// body is made of the same calls and fields, if it stands out
					best, second := -1.0, -1.0
					var bestFd *FuncDecl
					for _, fd := range sameShape {
						j := jaccard(m.features, funcFeatures(pkg, fd))
						if j > best {
							second, best, bestFd = best, j, fd
						} else if j > second {
							second = j
						}
					}
					if best >= 0.5 && best-second >= 0.2 {
						accept(m, bestFd)
						done[m.name] = true
					}
				}
			}
		}
	}
	return out
}

// renameOverlay returns the contents of the files in which identifiers denote a renamed function, with the recorded
// names put back.
func renameOverlay(p *Program, ren map[types.Object]string) (map[string][]byte, error) {
	type edit struct {
		off, end int
		text     string
	}
	edits := map[string][]edit{}
	add := func(id *ast.Ident, obj types.Object) {
		var key types.Object
		switch x := obj.(type) {
		case *types.Func:
			key = x.Origin()
		case *types.Var:
			if !x.IsField() {
				return
			}
			key = x.Origin()
		default:
			return
		}
		old, ok := ren[key]
		if !ok {
			return
		}
		pos := p.Fset.Position(id.Pos())
		edits[pos.Filename] = append(edits[pos.Filename], edit{pos.Offset, pos.Offset + len(id.Name), old})
	}
	packages.Visit(p.Pkgs, nil, func(pkg *packages.Package) {
		if pkg.TypesInfo == nil {
			return
		}
		for id, obj := range pkg.TypesInfo.Defs {
			if obj != nil {
				add(id, obj)
			}
		}
		for id, obj := range pkg.TypesInfo.Uses {
			add(id, obj)
		}
	})
	overlay := map[string][]byte{}
	for file, es := range edits {
		src, err := os.ReadFile(file)
		if err != nil {
			return nil, err
		}
		sort.Slice(es, func(i, j int) bool { return es[i].off > es[j].off })
		last := -1
		for _, e := range es {
			if e.off == last {
				continue // Defs and Uses of the same identifier
			}
			last = e.off
			if e.end > len(src) {
				return nil, fmt.Errorf("identifier beyond the end of %s", file)
			}
			src = append(append(append([]byte{}, src[:e.off]...), e.text...), src[e.end:]...)
		}
		abs, _ := filepath.Abs(file)
		overlay[abs] = src
	}
	return overlay, nil
}

// structFields: "T.f" -> type of field f of the struct type T declared in pkg (embedded fields left out).
func structFields(pkg *packages.Package) map[string]string {
	out := map[string]string{}
	for k, v := range structFieldObjs(pkg) {
		out[k] = types.TypeString(v.Type(), func(p *types.Package) string { return p.Name() })
	}
	return out
}

func structFieldObjs(pkg *packages.Package) map[string]*types.Var {
	out := map[string]*types.Var{}
	scope := pkg.Types.Scope()
	for _, name := range scope.Names() {
		tn, ok := scope.Lookup(name).(*types.TypeName)
		if !ok {
			continue
		}
		st, ok := tn.Type().Underlying().(*types.Struct)
		if !ok {
			continue
		}
		for i := 0; i < st.NumFields(); i++ {
			f := st.Field(i)
			if f.Embedded() {
				continue
			}
			out[name+"."+f.Name()] = f
		}
	}
	return out
}
